#!/bin/sh
# seedrun.sh <seed-dir> <property> [extra vcheck args] : runs a check against a scratch worktree
# of /repo HEAD with the seeded change applied (VERIF_REPO), prints the verdict lines.
d=$1; prop=$2; shift 2
wt=/tmp/seedrun-$$
git -C /repo worktree add --detach $wt HEAD -q || exit 2
trap "git -C /repo worktree remove --force $wt" EXIT
git -C $wt apply $d/patch.diff || { echo "patch does not apply"; exit 2; }
cd /verif
VERIF_REPO=$wt VERIF_EVIDENCE_DIR=/tmp/seedrun-ev-$$ ./bin/vcheck run $prop "$@" 2>&1 | grep -E "^(VIOLATION|KNOWN|UNDISCH|INCOMPL|ENGINE|INCONCL|vcheck: C|  obligation)" | cut -c1-260 | head -16
echo "exit=$?"
rm -rf /tmp/seedrun-ev-$$
