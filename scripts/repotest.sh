#!/bin/sh
# Runs the repository's test packages that build in this sandbox; prints failing tests other
# than the baseline's always-failing TestRichText. Exit 0 iff none.
cd "${1:-/repo}" || exit 2
export GOFLAGS=-mod=mod GOPROXY=off
out=$(go test -vet=off -count=1 . ./text ./renderers/pdf ./renderers/ps ./renderers/svg ./tests/startex ./cmd/pdftext 2>&1)
fails=$(printf '%s\n' "$out" | grep -E '^--- FAIL' | grep -v 'TestRichText ')
bad=$(printf '%s\n' "$out" | grep -E 'build failed|setup failed|panic:')
if [ -n "$fails" ] || [ -n "$bad" ]; then printf '%s\n' "$out" | tail -40; echo "REPOTEST: FAIL"; exit 1; fi
echo "REPOTEST: ok (only baseline failure TestRichText tolerated)"
