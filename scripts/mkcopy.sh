#!/bin/sh
# Private working copy of /verif for developing harnesses in isolation: scripts/mkcopy.sh <name>
set -e
d=/tmp/vw-$1
mkdir -p "$d"
rsync -a --delete --exclude .git --exclude .work --exclude replay --exclude bin --exclude seeded /verif/ "$d"/
(cd "$d" && ./setup.sh)
echo "copy at $d; use: export VERIF_ROOT=$d; cd $d"
