#!/bin/sh
# seedverify.sh <seed-dir> : confirms a seeded change in a scratch worktree of /repo HEAD:
#   patch applies, suite still passes with it, demo fails with it and passes without it.
d=$1
wt=/tmp/seedverify-$$
git -C /repo worktree add --detach $wt HEAD -q || exit 2
trap "git -C /repo worktree remove --force $wt" EXIT
cd $wt
export GOFLAGS=-mod=mod GOPROXY=off
pkg=$(grep -m1 '^package ' $d/demo_test.go | awk '{print $2}')
case "$pkg" in
  rasterizer|rasterizer_test) sub=renderers/rasterizer;;
  pdf|pdf_test) sub=renderers/pdf;;
  ps|ps_test) sub=renderers/ps;;
  svg|svg_test) sub=renderers/svg;;
  text|text_test) sub=text;;
  *) sub=.;;
esac
cp $d/demo_test.go $sub/zz_seed_demo_test.go
run_demo() { go test -vet=off -count=1 -run 'Demo|C[0-9][0-9]' ./$sub 2>&1 | tail -5; }
echo "== demo without change ($sub)"; r0=$(run_demo); echo "$r0" | tail -2
git apply $d/patch.diff || { echo "SEEDVERIFY: patch does not apply"; exit 1; }
echo "== demo with change"; r1=$(run_demo); echo "$r1" | tail -2
rm $sub/zz_seed_demo_test.go
echo "== suite with change"; /verif/scripts/repotest.sh $wt | tail -2; go build ./renderers/rasterizer || echo "rasterizer build FAILED"
echo "$r0" | grep -q '^ok' && echo "$r1" | grep -q 'FAIL' && echo "SEEDVERIFY: demo discriminates" || echo "SEEDVERIFY: demo does NOT discriminate"
