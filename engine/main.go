package main

import (
	"encoding/json"
	"flag"
	"fmt"
	"go/token"
	"os"
	"os/exec"
	"path/filepath"
	"runtime"
	"sort"
	"strings"
	"time"

	"golang.org/x/tools/go/packages"
	"golang.org/x/tools/go/ssa"
	"golang.org/x/tools/go/ssa/ssautil"
)

var lssTok = token.LSS

var verifRoot = "/verif"
var repoRoot = "/repo"

// workDir is private to this process so that checks can run concurrently.
func workDir() string {
	d := filepath.Join(verifRoot, ".work", fmt.Sprintf("run-%d", os.Getpid()))
	os.MkdirAll(d, 0o755)
	return d
}

func cleanupWork() {
	os.RemoveAll(filepath.Join(verifRoot, ".work", fmt.Sprintf("run-%d", os.Getpid())))
}

// harness directory -> package directory relative to the repository root
var pkgDirs = map[string]string{
	"canvas":     ".",
	"text":       "text",
	"pdf":        "renderers/pdf",
	"ps":         "renderers/ps",
	"svg":        "renderers/svg",
	"rasterizer": "renderers/rasterizer",
}

type Loaded struct {
	prog     *ssa.Program
	pkgs     map[string]*ssa.Package // by harness dir key
	overlay  map[string][]byte
	ovFiles  map[string]string // virtual path -> real path (for go test -overlay)
	loadTime time.Duration
	errs     []string
	dropped  []string
}

func goEnv() []string {
	env := os.Environ()
	env = append(env, "GOFLAGS=-mod=mod", "GOPROXY=off")
	return env
}

func harnessFiles(key string) []string {
	fs, _ := filepath.Glob(filepath.Join(verifRoot, "harness", key, "*.go"))
	sort.Strings(fs)
	return fs
}

func pkgNameOf(key string) string {
	if key == "canvas" {
		return "canvas"
	}
	return key
}

func loadAll(keys []string) (*Loaded, error) {
	t0 := time.Now()
	ld := &Loaded{pkgs: map[string]*ssa.Package{}, overlay: map[string][]byte{}, ovFiles: map[string]string{}}
	rt, err := os.ReadFile(filepath.Join(verifRoot, "harness", "rt.go.txt"))
	if err != nil {
		return nil, err
	}
	work := workDir()
	var patterns []string
	for _, k := range keys {
		files := harnessFiles(k)
		if len(files) == 0 {
			continue
		}
		dir := filepath.Join(repoRoot, pkgDirs[k])
		patterns = append(patterns, "./"+pkgDirs[k])
		for _, f := range files {
			b, err := os.ReadFile(f)
			if err != nil {
				return nil, err
			}
			v := filepath.Join(dir, "zz_verif_"+filepath.Base(f))
			ld.overlay[v] = b
			ld.ovFiles[v] = f
		}
		rtSrc := strings.Replace(string(rt), "package PKG", "package "+pkgNameOf(k), 1)
		rtReal := filepath.Join(work, "rt_"+k+".go")
		os.WriteFile(rtReal, []byte(rtSrc), 0o644)
		v := filepath.Join(dir, "zz_verif_rt.go")
		ld.overlay[v] = []byte(rtSrc)
		ld.ovFiles[v] = rtReal
	}
	var pkgs []*packages.Package
	for attempt := 0; ; attempt++ {
		cfg := &packages.Config{Mode: packages.LoadAllSyntax, Dir: repoRoot, Env: goEnv(), Overlay: ld.overlay}
		var err error
		pkgs, err = packages.Load(cfg, patterns...)
		if err != nil {
			return nil, err
		}
		ld.errs = nil
		for _, p := range pkgs {
			for _, e := range p.Errors {
				ld.errs = append(ld.errs, e.Error())
			}
		}
		if len(ld.errs) == 0 {
			break
		}
		// a harness file that no longer binds to the tree is dropped (its harnesses become
		// inconclusive) so that the other files of the package can still be checked
		dropped := false
		for v := range ld.overlay {
			if strings.HasSuffix(v, "zz_verif_rt.go") || strings.HasSuffix(v, "zz_verif_vh_lib.go") {
				continue
			}
			for _, e := range ld.errs {
				if strings.Contains(e, v+":") {
					ld.dropped = append(ld.dropped, filepath.Base(ld.ovFiles[v])+": "+e)
					delete(ld.overlay, v)
					delete(ld.ovFiles, v)
					dropped = true
					break
				}
			}
		}
		if !dropped || attempt > 6 {
			return ld, fmt.Errorf("package errors: %s", strings.Join(ld.errs, "; "))
		}
	}
	prog, spkgs := ssautil.AllPackages(pkgs, ssa.InstantiateGenerics)
	prog.Build()
	for i, p := range pkgs {
		for k, d := range pkgDirs {
			want := "github.com/tdewolff/canvas"
			if d != "." {
				want += "/" + d
			}
			if p.PkgPath == want {
				ld.pkgs[k] = spkgs[i]
			}
		}
	}
	ld.prog = prog
	ld.loadTime = time.Since(t0)
	return ld, nil
}

func (ld *Loaded) harnesses(prop string, only string) []*ssa.Function {
	var hs []*ssa.Function
	for _, p := range ld.pkgs {
		for name, m := range p.Members {
			f, ok := m.(*ssa.Function)
			if !ok || !strings.HasPrefix(name, "VH_") {
				continue
			}
			if prop != "" && !strings.HasPrefix(name, "VH_"+prop+"_") {
				continue
			}
			if only != "" && !strings.Contains(name, only) {
				continue
			}
			hs = append(hs, f)
		}
	}
	sort.Slice(hs, func(i, j int) bool { return hs[i].Name() < hs[j].Name() })
	return hs
}

func keyOfPkg(ld *Loaded, p *ssa.Package) string {
	for k, sp := range ld.pkgs {
		if sp == p {
			return k
		}
	}
	return ""
}

func main() {
	if len(os.Args) < 2 {
		fmt.Println("usage: vcheck run <property> [--tier quick|thorough] | replay <file> | list")
		os.Exit(2)
	}
	if exe, err := os.Executable(); err == nil {
		// default root: the directory that holds bin/vcheck (so snapshots and copies are self-contained)
		root := filepath.Dir(filepath.Dir(exe))
		if _, err := os.Stat(filepath.Join(root, "harness", "rt.go.txt")); err == nil {
			verifRoot = root
		}
	}
	if v := os.Getenv("VERIF_ROOT"); v != "" {
		verifRoot = v
	}
	if v := os.Getenv("VERIF_REPO"); v != "" {
		repoRoot = v
	}
	switch os.Args[1] {
	case "run":
		fs := flag.NewFlagSet("run", flag.ExitOnError)
		tier := fs.String("tier", envOr("VERIF_TIER", "quick"), "quick|thorough")
		only := fs.String("only", "", "substring of harness names to run")
		verbose := fs.Bool("v", false, "verbose")
		workers := fs.Int("workers", runtime.NumCPU(), "workers")
		solver := fs.String("solver", "z3", "solver binary")
		noReplay := fs.Bool("no-replay", false, "skip native replays (debugging only)")
		prop := os.Args[2]
		fs.Parse(os.Args[3:])
		rc := cmdRun(prop, *tier, *only, *verbose, *workers, *solver, *noReplay)
		cleanupWork()
		os.Exit(rc)
	case "replay":
		rc := cmdReplay(os.Args[2])
		cleanupWork()
		os.Exit(rc)
	case "list":
		ld, err := loadAll(allKeys())
		if err != nil {
			fmt.Println("ENGINE-ERROR load:", err)
			os.Exit(3)
		}
		for _, h := range ld.harnesses("", "") {
			fmt.Println(h.Name(), keyOfPkg(ld, h.Pkg))
		}
	default:
		fmt.Println("unknown command")
		os.Exit(2)
	}
}

func envOr(k, d string) string {
	if v := os.Getenv(k); v != "" {
		return v
	}
	return d
}

func allKeys() []string {
	var ks []string
	for k := range pkgDirs {
		ks = append(ks, k)
	}
	sort.Strings(ks)
	return ks
}

// ---- native replay ----

type replayJob struct {
	Harness string     `json:"harness"`
	Inputs  []InputVal `json:"inputs"`
}

type Replayer struct {
	ld    *Loaded
	tier  string
	bins  map[string]string
	errs  map[string]string
	ready map[string]chan struct{}
}

func NewReplayer(ld *Loaded, tier string) *Replayer {
	return &Replayer{ld: ld, tier: tier, bins: map[string]string{}, errs: map[string]string{}, ready: map[string]chan struct{}{}}
}

// build compiles the in-package replay test binary for a harness package (in background).
func (r *Replayer) build(key string, hs []*ssa.Function) {
	ch := make(chan struct{})
	r.ready[key] = ch
	go func() {
		defer close(ch)
		work := workDir()
		var sb strings.Builder
		fmt.Fprintf(&sb, "package %s\n\nimport (\n\t\"os\"\n\t\"testing\"\n)\n\nvar vhTable = map[string]func(){\n", pkgNameOf(key))
		for _, h := range hs {
			fmt.Fprintf(&sb, "\t%q: %s,\n", h.Name(), h.Name())
		}
		sb.WriteString("}\n\nfunc TestVerifReplay(t *testing.T) {\n\tvRunJobs(os.Getenv(\"VERIF_JOBS\"), vhTable)\n}\n")
		testReal := filepath.Join(work, "replay_"+key+"_test.go")
		os.WriteFile(testReal, []byte(sb.String()), 0o644)
		ov := map[string]string{}
		for v, real := range r.ld.ovFiles {
			if filepath.Dir(v) == filepath.Join(repoRoot, pkgDirs[key]) {
				ov[v] = real
			}
		}
		ov[filepath.Join(repoRoot, pkgDirs[key], "zz_verif_replay_test.go")] = testReal
		ovJSON, _ := json.Marshal(map[string]interface{}{"Replace": ov})
		ovPath := filepath.Join(work, "overlay_"+key+".json")
		os.WriteFile(ovPath, ovJSON, 0o644)
		bin := filepath.Join(work, "replay_"+key+".test")
		os.Remove(bin)
		cmd := exec.Command("go", "test", "-c", "-vet=off", "-overlay", ovPath, "-o", bin, "./"+pkgDirs[key])
		cmd.Dir = repoRoot
		cmd.Env = goEnv()
		out, err := cmd.CombinedOutput()
		if err != nil {
			r.errs[key] = fmt.Sprintf("go test -c failed: %v\n%s", err, out)
			return
		}
		r.bins[key] = bin
	}()
}

// run executes jobs natively; returns one trace per job (nil if the job did not run).
func (r *Replayer) run(key string, jobs []replayJob) ([][]string, error) {
	if ch, ok := r.ready[key]; ok {
		<-ch
	}
	if e := r.errs[key]; e != "" {
		return nil, fmt.Errorf("%s", e)
	}
	bin := r.bins[key]
	if bin == "" {
		return nil, fmt.Errorf("no replay binary for %s", key)
	}
	res := make([][]string, len(jobs))
	pending := make([]int, len(jobs))
	for i := range pending {
		pending[i] = i
	}
	work := workDir()
	for len(pending) > 0 {
		batch := make([]replayJob, len(pending))
		for i, j := range pending {
			batch[i] = jobs[j]
		}
		jf, _ := os.CreateTemp(work, "jobs-*.json")
		json.NewEncoder(jf).Encode(batch)
		jf.Close()
		cmd := exec.Command("timeout", "120", bin, "-test.run", "^TestVerifReplay$", "-test.count=1")
		cmd.Dir = filepath.Join(repoRoot, pkgDirs[key])
		cmd.Env = append(os.Environ(), "VERIF_JOBS="+jf.Name(), "VERIF_TIER="+r.tier)
		out, _ := cmd.CombinedOutput()
		os.Remove(jf.Name())
		cur := -1
		finished := map[int]bool{}
		for _, line := range strings.Split(string(out), "\n") {
			if !strings.HasPrefix(line, "VT ") {
				continue
			}
			f := strings.TrimPrefix(line, "VT ")
			if strings.HasPrefix(f, "job ") {
				var k int
				fmt.Sscanf(f, "job %d", &k)
				cur = k
				res[pending[cur]] = []string{}
				continue
			}
			if cur < 0 {
				continue
			}
			if strings.HasPrefix(f, "panic") {
				res[pending[cur]] = append(res[pending[cur]], "panic")
				res[pending[cur]] = append(res[pending[cur]], "#"+f)
				finished[cur] = true
				continue
			}
			res[pending[cur]] = append(res[pending[cur]], f)
			if f == "end" || f == "assume-violated" {
				finished[cur] = true
			}
		}
		// a job that started but did not finish crashed the process: mark and continue after it
		if cur >= 0 && !finished[cur] {
			res[pending[cur]] = append(res[pending[cur]], "crash", "#"+trunc(string(out), 400))
			pending = pending[cur+1:]
			continue
		}
		if cur < 0 {
			return res, fmt.Errorf("replay produced no output: %s", trunc(string(out), 400))
		}
		pending = pending[cur+1:]
	}
	return res, nil
}

func cleanTrace(tr []string) []string {
	var out []string
	for _, l := range tr {
		if !strings.HasPrefix(l, "#") {
			out = append(out, l)
		}
	}
	return out
}

func sameTrace(a, b []string) bool {
	a, b = cleanTrace(a), cleanTrace(b)
	if len(a) != len(b) {
		return false
	}
	for i := range a {
		if a[i] != b[i] {
			return false
		}
	}
	return true
}
