package main

// Intercepted functions: harness primitives, math, sort, sync.Pool, fmt/log/strings stubs.

import (
	"fmt"
	"go/types"
	"math"
	"os"
	"strings"

	"golang.org/x/tools/go/ssa"
)

type intrinsic func(in *Interp, fn *ssa.Function, args []Value, site ssa.Instruction) (Value, bool)

var intrinsicTable = map[string]intrinsic{}

func lookupIntrinsic(fn *ssa.Function, name string) intrinsic {
	if h, ok := intrinsicTable[name]; ok {
		return h
	}
	if fn.Pkg == nil && fn.Origin() != nil {
		// instantiated generic: match on the origin's name
		if h, ok := intrinsicTable[fn.Origin().String()]; ok {
			return h
		}
	}
	n := fn.Name()
	if len(n) > 1 && n[0] == 'v' && n[1] >= 'A' && n[1] <= 'Z' && fn.Signature.Recv() == nil {
		if h, ok := harnessPrims[n]; ok {
			if n == "vSymbolic" || n == "vTier" || n == "vInterp" {
				return h
			}
			return func(in *Interp, fn *ssa.Function, a []Value, s ssa.Instruction) (Value, bool) {
				if in.spec > 0 {
					// harness primitives act on the path condition: never inside a merged arm
					panic(&specAbort{"harness primitive in arm"})
				}
				return h(in, fn, a, s)
			}
		}
	}
	return nil
}

var harnessPrims map[string]intrinsic

func unit() Value { return &Agg{} }

func (in *Interp) axiom(t *Term) {
	if t.IsConst() && t.u == 1 {
		return
	}
	in.ex.pc = append(in.ex.pc, t)
}

func init() {
	harnessPrims = map[string]intrinsic{
		"vNondetF64": func(in *Interp, fn *ssa.Function, a []Value, s ssa.Instruction) (Value, bool) {
			return in.ex.Nondet("f64", 64, 0), true
		},
		"vNondetInt": func(in *Interp, fn *ssa.Function, a []Value, s ssa.Instruction) (Value, bool) {
			return in.ex.Nondet("int", 64, 0), true
		},
		"vNondetIntN": func(in *Interp, fn *ssa.Function, a []Value, s ssa.Instruction) (Value, bool) {
			bits := in.concInt(a[0], "vNondetIntN bits")
			t := in.ex.Nondet("int", bits, 0)
			return in.tt.Resize(t, 64, true), true
		},
		"vNondetIntQ": func(in *Interp, fn *ssa.Function, a []Value, s ssa.Instruction) (Value, bool) {
			bits := in.concInt(a[0], "vNondetIntQ bits")
			t := in.ex.Nondet("intq", bits, 0)
			return in.tt.Resize(t, 64, true), true
		},
		"vNondetByte": func(in *Interp, fn *ssa.Function, a []Value, s ssa.Instruction) (Value, bool) {
			t := in.ex.Nondet("int", 8, 0)
			return t, true
		},
		"vNondetBool": func(in *Interp, fn *ssa.Function, a []Value, s ssa.Instruction) (Value, bool) {
			return in.ex.Nondet("bool", 1, 0), true
		},
		"vNondetDyadic": func(in *Interp, fn *ssa.Function, a []Value, s ssa.Instruction) (Value, bool) {
			return in.ex.Nondet("dyadic", in.concInt(a[0], "bits"), in.concInt(a[1], "shift")), true
		},
		"vAssume": func(in *Interp, fn *ssa.Function, a []Value, s ssa.Instruction) (Value, bool) {
			in.ex.Assume(in.term(a[0]))
			return unit(), true
		},
		"vAssert": func(in *Interp, fn *ssa.Function, a []Value, s ssa.Instruction) (Value, bool) {
			id, ok := a[0].(StrV).concrete()
			if !ok {
				panic(unsupported("vAssert id must be concrete"))
			}
			in.ex.Assert(id, in.term(a[1]))
			return unit(), true
		},
		"vAssumeI": func(in *Interp, fn *ssa.Function, a []Value, s ssa.Instruction) (Value, bool) {
			// assumption inside an interpreter-only section (after `if !vInterp() { return }`):
			// natively the harness has already returned, so a violated assumption ends the
			// concrete run like a normal end
			c := in.term(a[0])
			if in.ex.concrete {
				if c.IsConst() && c.u == 0 {
					in.ex.trace = append(in.ex.trace, "#assume-violated")
					panic(&pathEnd{"istop", "interpreter-only assumption violated"})
				}
				return unit(), true
			}
			in.ex.Assume(c)
			return unit(), true
		},
		"vAssertI": func(in *Interp, fn *ssa.Function, a []Value, s ssa.Instruction) (Value, bool) {
			// assertion on an observation that only exists under the engine (e.g. a recorder stub):
			// decided by the solver, replayed by concrete re-execution in the interpreter
			id, ok := a[0].(StrV).concrete()
			if !ok {
				panic(unsupported("vAssertI id must be concrete"))
			}
			in.ex.AssertI(id, in.term(a[1]))
			return unit(), true
		},
		"vChoose": func(in *Interp, fn *ssa.Function, a []Value, s ssa.Instruction) (Value, bool) {
			lo, hi := in.concInt(a[0], "lo"), in.concInt(a[1], "hi")
			return in.tt.BV(uint64(in.ex.Choose(lo, hi)), 64), true
		},
		"vStub": func(in *Interp, fn *ssa.Function, a []Value, s ssa.Instruction) (Value, bool) {
			name, _ := a[0].(StrV).concrete()
			iv, ok := a[1].(IfaceV)
			if !ok || iv.t == nil {
				panic(unsupported("vStub needs a function"))
			}
			fv, ok := iv.v.(FuncV)
			if !ok {
				panic(unsupported("vStub needs a function"))
			}
			if !in.ex.concrete || strings.HasPrefix(name, "!") {
				in.replacements[strings.TrimPrefix(name, "!")] = fv
			}
			return unit(), true
		},
		"vKnown": func(in *Interp, fn *ssa.Function, a []Value, s ssa.Instruction) (Value, bool) {
			id, _ := a[0].(StrV).concrete()
			in.ex.Known(id, in.term(a[1]))
			return unit(), true
		},
		"vTier": func(in *Interp, fn *ssa.Function, a []Value, s ssa.Instruction) (Value, bool) {
			if os.Getenv("VERIF_TIER") == "thorough" {
				return in.tt.BV(1, 64), true
			}
			return in.tt.BV(0, 64), true
		},
		"vMerge": func(in *Interp, fn *ssa.Function, a []Value, s ssa.Instruction) (Value, bool) {
			t := in.term(a[0])
			in.noMerge = !(t.IsConst() && t.u == 1) || os.Getenv("VERIF_NOMERGE") != ""
			return unit(), true
		},
		"vUninterp2": func(in *Interp, fn *ssa.Function, a []Value, s ssa.Instruction) (Value, bool) {
			// an uninterpreted function of two floats (one function per engine run): only
			// f(a,b) = f(a',b') for equal arguments is known of it
			x, y := in.term(a[0]), in.term(a[1])
			if in.ex.concrete {
				// concrete mode: any fixed function will do
				return in.tt.Float(0, in.cfg.Dom), true
			}
			return in.tt.UF("vh_uninterp2", in.cfg.Dom, 0, x, y), true
		},
		"vNLFirst": func(in *Interp, fn *ssa.Function, a []Value, s ssa.Instruction) (Value, bool) {
			t := in.term(a[0])
			if in.ex.solver != nil {
				in.ex.solver.nlFirst = t.IsConst() && t.u == 1
			}
			return unit(), true
		},
		"vLeanAsserts": func(in *Interp, fn *ssa.Function, a []Value, s ssa.Instruction) (Value, bool) {
			t := in.term(a[0])
			in.ex.leanAsserts = t.IsConst() && t.u == 1
			return unit(), true
		},
		"vInterp": func(in *Interp, fn *ssa.Function, a []Value, s ssa.Instruction) (Value, bool) {
			return in.tt.Bool(true), true
		},
		"vSymbolic": func(in *Interp, fn *ssa.Function, a []Value, s ssa.Instruction) (Value, bool) {
			return in.tt.Bool(!in.ex.concrete), true
		},
		"vStoreCount": func(in *Interp, fn *ssa.Function, a []Value, s ssa.Instruction) (Value, bool) {
			return in.tt.BV(uint64(in.nstores), 64), true
		},
	}

	un := func(name string, f func(float64) float64) {
		intrinsicTable["math."+name] = func(in *Interp, fn *ssa.Function, a []Value, s ssa.Instruction) (Value, bool) {
			x := in.term(a[0])
			if x.IsConst() && x.r == nil {
				return in.tt.Float(f(x.f), x.sort), true
			}
			return in.mathSym(name, []*Term{x}), true
		}
	}
	bin := func(name string, f func(float64, float64) float64) {
		intrinsicTable["math."+name] = func(in *Interp, fn *ssa.Function, a []Value, s ssa.Instruction) (Value, bool) {
			x, y := in.term(a[0]), in.term(a[1])
			if x.IsConst() && y.IsConst() && x.r == nil && y.r == nil {
				return in.tt.Float(f(x.f, y.f), x.sort), true
			}
			return in.mathSym(name, []*Term{x, y}), true
		}
	}
	for name, f := range map[string]func(float64) float64{
		"Sqrt": math.Sqrt, "Floor": math.Floor, "Ceil": math.Ceil, "Trunc": math.Trunc, "Round": math.Round,
		"Abs": math.Abs, "Sin": math.Sin, "Cos": math.Cos, "Tan": math.Tan, "Asin": math.Asin, "Acos": math.Acos,
		"Atan": math.Atan, "Exp": math.Exp, "Log": math.Log, "Log10": math.Log10, "Log2": math.Log2, "Cbrt": math.Cbrt,
		"Sinh": math.Sinh, "Cosh": math.Cosh, "Tanh": math.Tanh, "RoundToEven": math.RoundToEven, "Log1p": math.Log1p,
		"Expm1": math.Expm1, "Exp2": math.Exp2,
	} {
		un(name, f)
	}
	for name, f := range map[string]func(float64, float64) float64{
		"Min": math.Min, "Max": math.Max, "Atan2": math.Atan2, "Pow": math.Pow, "Hypot": math.Hypot, "Mod": math.Mod,
		"Copysign": math.Copysign, "Remainder": math.Remainder, "Dim": math.Dim,
	} {
		bin(name, f)
	}
	intrinsicTable["math.IsNaN"] = func(in *Interp, fn *ssa.Function, a []Value, s ssa.Instruction) (Value, bool) {
		return in.tt.FIsNaN(in.cfg, in.term(a[0])), true
	}
	intrinsicTable["math.IsInf"] = func(in *Interp, fn *ssa.Function, a []Value, s ssa.Instruction) (Value, bool) {
		sg := in.term(a[1])
		if !sg.IsConst() {
			panic(unsupported("math.IsInf with symbolic sign"))
		}
		return in.tt.FIsInf(in.cfg, in.term(a[0]), int(sext(sg.u, sg.w))), true
	}
	intrinsicTable["math.Signbit"] = func(in *Interp, fn *ssa.Function, a []Value, s ssa.Instruction) (Value, bool) {
		return in.tt.FSignbit(in.cfg, in.term(a[0])), true
	}
	intrinsicTable["math.Inf"] = func(in *Interp, fn *ssa.Function, a []Value, s ssa.Instruction) (Value, bool) {
		sg := in.term(a[0])
		if !sg.IsConst() {
			panic(unsupported("math.Inf with symbolic sign"))
		}
		return in.tt.Float(math.Inf(int(sext(sg.u, sg.w))), in.cfg.Dom), true
	}
	intrinsicTable["math.NaN"] = func(in *Interp, fn *ssa.Function, a []Value, s ssa.Instruction) (Value, bool) {
		return in.tt.Float(math.NaN(), in.cfg.Dom), true
	}
	intrinsicTable["math.Sincos"] = func(in *Interp, fn *ssa.Function, a []Value, s ssa.Instruction) (Value, bool) {
		x := in.term(a[0])
		if x.IsConst() && x.r == nil {
			sn, cs := math.Sincos(x.f)
			return &Agg{[]Value{in.tt.Float(sn, x.sort), in.tt.Float(cs, x.sort)}}, true
		}
		return &Agg{[]Value{in.mathSym("Sin", []*Term{x}), in.mathSym("Cos", []*Term{x})}}, true
	}
	intrinsicTable["math.Float64bits"] = func(in *Interp, fn *ssa.Function, a []Value, s ssa.Instruction) (Value, bool) {
		x := in.term(a[0])
		if x.IsConst() && x.r == nil {
			return in.tt.BV(math.Float64bits(x.f), 64), true
		}
		if in.cfg.Dom != SFP {
			panic(unsupported("math.Float64bits of a symbolic value in the Q domain"))
		}
		b := in.tt.Var(fmt.Sprintf("bits_t%d", x.id), SBV, 64)
		in.axiom(in.tt.Eq(in.tt.mk("(_ to_fp 11 53)", SFP, 0, b), x))
		return b, true
	}
	intrinsicTable["math.Float64frombits"] = func(in *Interp, fn *ssa.Function, a []Value, s ssa.Instruction) (Value, bool) {
		x := in.term(a[0])
		if x.IsConst() {
			return in.tt.Float(math.Float64frombits(x.u), in.cfg.Dom), true
		}
		if in.cfg.Dom != SFP {
			panic(unsupported("math.Float64frombits of a symbolic value in the Q domain"))
		}
		return in.tt.mk("(_ to_fp 11 53)", SFP, 0, x), true
	}

	// sorting: insertion sort with the real comparator (identical to pdqsort for n <= 12)
	intrinsicTable["sort.Slice"] = sortSliceIntrinsic
	intrinsicTable["sort.SliceStable"] = sortSliceIntrinsic
	intrinsicTable["sort.Sort"] = sortInterfaceIntrinsic
	intrinsicTable["sort.Stable"] = sortInterfaceIntrinsic
	intrinsicTable["sort.Float64s"] = func(in *Interp, fn *ssa.Function, a []Value, s ssa.Instruction) (Value, bool) {
		sl := a[0].(SliceV)
		in.insertionSort(sl.n, func(i, j int) bool {
			x, y := in.term(in.load(sl.elemPtr(i))), in.term(in.load(sl.elemPtr(j)))
			// sort.Float64s: x < y || (isNaN(x) && !isNaN(y))
			c := in.tt.Or(in.tt.FCmp(in.cfg, "<", x, y), in.tt.And(in.tt.FIsNaN(in.cfg, x), in.tt.Not(in.tt.FIsNaN(in.cfg, y))))
			return in.branch(c, "sort.Float64s")
		}, func(i, j int) {
			x, y := in.load(sl.elemPtr(i)), in.load(sl.elemPtr(j))
			in.store(sl.elemPtr(i), y)
			in.store(sl.elemPtr(j), x)
		})
		return unit(), true
	}
	intrinsicTable["sort.Ints"] = func(in *Interp, fn *ssa.Function, a []Value, s ssa.Instruction) (Value, bool) {
		sl := a[0].(SliceV)
		in.insertionSort(sl.n, func(i, j int) bool {
			x, y := in.term(in.load(sl.elemPtr(i))), in.term(in.load(sl.elemPtr(j)))
			return in.branch(in.tt.BVCmp("bvslt", x, y), "sort.Ints")
		}, func(i, j int) {
			x, y := in.load(sl.elemPtr(i)), in.load(sl.elemPtr(j))
			in.store(sl.elemPtr(i), y)
			in.store(sl.elemPtr(j), x)
		})
		return unit(), true
	}
	intrinsicTable["sort.Strings"] = func(in *Interp, fn *ssa.Function, a []Value, s ssa.Instruction) (Value, bool) {
		sl := a[0].(SliceV)
		in.insertionSort(sl.n, func(i, j int) bool {
			x, y := in.load(sl.elemPtr(i)), in.load(sl.elemPtr(j))
			return in.branch(in.term(in.binop(lssTok, types.Typ[types.String], x, y, types.Typ[types.String])), "sort.Strings")
		}, func(i, j int) {
			x, y := in.load(sl.elemPtr(i)), in.load(sl.elemPtr(j))
			in.store(sl.elemPtr(i), y)
			in.store(sl.elemPtr(j), x)
		})
		return unit(), true
	}
	intrinsicTable["slices.SortFunc"] = func(in *Interp, fn *ssa.Function, a []Value, s ssa.Instruction) (Value, bool) {
		sl := a[0].(SliceV)
		cmp := a[1].(FuncV)
		in.insertionSort(sl.n, func(i, j int) bool {
			r := in.term(in.call(cmp, []Value{in.load(sl.elemPtr(i)), in.load(sl.elemPtr(j))}, nil))
			return in.branch(in.tt.BVCmp("bvslt", r, in.tt.BV(0, r.w)), "slices.SortFunc")
		}, func(i, j int) {
			x, y := in.load(sl.elemPtr(i)), in.load(sl.elemPtr(j))
			in.store(sl.elemPtr(i), y)
			in.store(sl.elemPtr(j), x)
		})
		return unit(), true
	}
	intrinsicTable["slices.SortStableFunc"] = intrinsicTable["slices.SortFunc"]

	// sync.Pool: Get returns New() (no recycling) unless a harness stubs it
	intrinsicTable["(*sync.Pool).Get"] = func(in *Interp, fn *ssa.Function, a []Value, s ssa.Instruction) (Value, bool) {
		p := a[0].(Ptr)
		pool := in.load(p).(*Agg)
		// field "New" is the last field of sync.Pool
		nf := pool.e[len(pool.e)-1]
		fv, ok := nf.(FuncV)
		if !ok || fv.fn == nil {
			return IfaceV{}, true
		}
		return in.call(fv, nil, s), true
	}
	intrinsicTable["(*sync.Pool).Put"] = func(in *Interp, fn *ssa.Function, a []Value, s ssa.Instruction) (Value, bool) {
		return unit(), true
	}
	for _, n := range []string{"(*sync.Mutex).Lock", "(*sync.Mutex).Unlock", "(*sync.RWMutex).Lock", "(*sync.RWMutex).Unlock", "(*sync.RWMutex).RLock", "(*sync.RWMutex).RUnlock"} {
		intrinsicTable[n] = func(in *Interp, fn *ssa.Function, a []Value, s ssa.Instruction) (Value, bool) { return unit(), true }
	}
	for _, n := range []string{"log.Printf", "log.Println", "log.Print", "fmt.Println", "fmt.Printf", "fmt.Print"} {
		intrinsicTable[n] = func(in *Interp, fn *ssa.Function, a []Value, s ssa.Instruction) (Value, bool) {
			if fn.Signature.Results().Len() == 0 {
				return unit(), true
			}
			return in.zero(fn.Signature.Results()), true
		}
	}
	intrinsicTable["fmt.Errorf"] = func(in *Interp, fn *ssa.Function, a []Value, s ssa.Instruction) (Value, bool) {
		// an opaque non-nil error carrying the (concrete) format string
		msg := "error"
		if sv, ok := a[0].(StrV); ok {
			if cs, ok := sv.concrete(); ok {
				msg = cs
			}
		}
		return in.opaqueError(msg), true
	}
	intrinsicTable["errors.New"] = func(in *Interp, fn *ssa.Function, a []Value, s ssa.Instruction) (Value, bool) {
		msg := "error"
		if sv, ok := a[0].(StrV); ok {
			if cs, ok := sv.concrete(); ok {
				msg = cs
			}
		}
		return in.opaqueError(msg), true
	}
	intrinsicTable["fmt.Sprintf"] = func(in *Interp, fn *ssa.Function, a []Value, s ssa.Instruction) (Value, bool) {
		f := "?"
		if sv, ok := a[0].(StrV); ok {
			if cs, ok := sv.concrete(); ok {
				f = cs
			}
		}
		in.notes["fmt.Sprintf results are opaque placeholders"] = true
		return in.strConst("<sprintf:" + f + ">"), true
	}
	intrinsicTable["fmt.Sprint"] = func(in *Interp, fn *ssa.Function, a []Value, s ssa.Instruction) (Value, bool) {
		return in.strConst("<sprint>"), true
	}
}

var errorStringType types.Type

func (in *Interp) opaqueError(msg string) Value {
	// represent as *errors.errorString when available, else as a string-typed dynamic value
	if pkg := in.prog.ImportedPackage("errors"); pkg != nil {
		if tn := pkg.Type("errorString"); tn != nil {
			o := in.newObj(&Agg{[]Value{in.strConst(msg)}}, "error")
			return IfaceV{t: types.NewPointer(tn.Type()), v: Ptr{obj: o}}
		}
	}
	panic(unsupported("errors package not loaded"))
}

func (in *Interp) insertionSort(n int, less func(i, j int) bool, swap func(i, j int)) {
	for i := 1; i < n; i++ {
		for j := i; j > 0 && less(j, j-1); j-- {
			swap(j, j-1)
		}
	}
}

func sortSliceIntrinsic(in *Interp, fn *ssa.Function, a []Value, s ssa.Instruction) (Value, bool) {
	iv, ok := a[0].(IfaceV)
	if !ok {
		panic(unsupported("sort.Slice argument"))
	}
	sl, ok := iv.v.(SliceV)
	if !ok {
		panic(unsupported("sort.Slice of non-slice"))
	}
	less := a[1].(FuncV)
	in.insertionSort(sl.n, func(i, j int) bool {
		r := in.term(in.call(less, []Value{in.tt.BV(uint64(i), 64), in.tt.BV(uint64(j), 64)}, nil))
		return in.branch(r, "sort.Slice less")
	}, func(i, j int) {
		x, y := in.load(sl.elemPtr(i)), in.load(sl.elemPtr(j))
		in.store(sl.elemPtr(i), y)
		in.store(sl.elemPtr(j), x)
	})
	return unit(), true
}

func sortInterfaceIntrinsic(in *Interp, fn *ssa.Function, a []Value, s ssa.Instruction) (Value, bool) {
	iv, ok := a[0].(IfaceV)
	if !ok || iv.t == nil {
		panic(unsupported("sort.Sort argument"))
	}
	meth := func(name string) *ssa.Function {
		m := in.prog.LookupMethod(iv.t, nil, name)
		if m == nil {
			panic(unsupported("sort.Interface method " + name))
		}
		return m
	}
	lenF, lessF, swapF := meth("Len"), meth("Less"), meth("Swap")
	n := in.concInt(in.call(FuncV{fn: lenF}, []Value{iv.v}, nil), "sort.Interface Len")
	in.insertionSort(n, func(i, j int) bool {
		r := in.term(in.call(FuncV{fn: lessF}, []Value{iv.v, in.tt.BV(uint64(i), 64), in.tt.BV(uint64(j), 64)}, nil))
		return in.branch(r, "sort.Sort less")
	}, func(i, j int) {
		in.call(FuncV{fn: swapF}, []Value{iv.v, in.tt.BV(uint64(i), 64), in.tt.BV(uint64(j), 64)}, nil)
	})
	return unit(), true
}

// mathSym models math functions on symbolic arguments.
func (in *Interp) mathSym(name string, xs []*Term) *Term {
	tt, cfg := in.tt, in.cfg
	switch name {
	case "Abs":
		return tt.FAbs(cfg, xs[0])
	case "Min":
		return tt.FMinMax(cfg, false, xs[0], xs[1])
	case "Max":
		return tt.FMinMax(cfg, true, xs[0], xs[1])
	case "Floor", "Ceil", "Trunc", "Round":
		if r, err := tt.FUnaryMath(cfg, name, xs[0]); err == nil {
			return r
		}
	case "Sqrt":
		if cfg.Dom == SReal {
			x := xs[0]
			if in.branch(tt.FCmp(cfg, "<", x, tt.Float(0, SReal)), "sqrt-negative") {
				return tt.Float(math.NaN(), SReal)
			}
			s := tt.Var(fmt.Sprintf("sqrt_t%d", x.id), SReal, 0)
			in.axiom(tt.mk(">=", SBool, 0, s, tt.Float(0, SReal)))
			in.axiom(tt.Eq(tt.mk("*", SReal, 0, s, s), x))
			return s
		}
		r, _ := tt.FUnaryMath(cfg, "Sqrt", xs[0])
		if !cfg.Exact {
			// true facts about IEEE sqrt used by callers: sqrt(x) is NaN iff x<0 or NaN; otherwise >= 0
			neg := tt.Or(tt.FIsNaN(cfg, xs[0]), tt.FCmp(cfg, "<", xs[0], tt.Float(0, SFP)))
			in.axiom(tt.Eq(tt.FIsNaN(cfg, r), neg))
			in.axiom(tt.Or(neg, tt.FCmp(cfg, ">=", r, tt.Float(0, SFP))))
		}
		return r
	case "Hypot":
		if cfg.Dom == SReal {
			x, y := xs[0], xs[1]
			h := tt.Var(fmt.Sprintf("hypot_t%d_t%d", x.id, y.id), SReal, 0)
			in.axiom(tt.mk(">=", SBool, 0, h, tt.Float(0, SReal)))
			in.axiom(tt.Eq(tt.mk("*", SReal, 0, h, h), tt.mk("+", SReal, 0, tt.mk("*", SReal, 0, x, x), tt.mk("*", SReal, 0, y, y))))
			return h
		}
		h := tt.UF("vf_Hypot", SFP, 0, xs[0], xs[1])
		// hypot >= 0 or NaN/Inf; hypot(x,y)=0 iff both zero (true in IEEE for finite inputs)
		fin := tt.And(tt.Not(tt.FIsNaN(cfg, xs[0])), tt.Not(tt.FIsNaN(cfg, xs[1])))
		in.axiom(tt.Or(tt.Not(fin), tt.FCmp(cfg, ">=", h, tt.Float(0, SFP))))
		return h
	case "Copysign":
		if cfg.Dom == SReal {
			a := tt.FAbs(cfg, xs[0])
			return tt.Ite(tt.FSignbit(cfg, xs[1]), tt.FNeg(cfg, a), a)
		}
		a := tt.FAbs(cfg, xs[0])
		return tt.Ite(tt.FSignbit(cfg, xs[1]), tt.FNeg(cfg, a), a)
	}
	// uninterpreted, with range axioms where they are standard
	s := cfg.Dom
	r := tt.UF("vf_"+name, s, 0, xs...)
	one := tt.Float(1, s)
	switch name {
	case "Sin", "Cos":
		if s == SReal {
			in.axiom(tt.And(tt.FCmp(cfg, "<=", tt.FNeg(cfg, one), r), tt.FCmp(cfg, "<=", r, one)))
			// sin^2 + cos^2 = 1 for the same argument
			sn := tt.UF("vf_Sin", s, 0, xs...)
			cs := tt.UF("vf_Cos", s, 0, xs...)
			in.axiom(tt.Eq(tt.mk("+", SReal, 0, tt.mk("*", SReal, 0, sn, sn), tt.mk("*", SReal, 0, cs, cs)), one))
		} else {
			nan := tt.Or(tt.FIsNaN(cfg, xs[0]), tt.FIsInf(cfg, xs[0], 0))
			in.axiom(tt.Or(nan, tt.And(tt.FCmp(cfg, "<=", tt.FNeg(cfg, one), r), tt.FCmp(cfg, "<=", r, one))))
		}
	case "Atan2":
		pi := tt.Float(math.Pi, s)
		if s == SReal {
			in.axiom(tt.And(tt.FCmp(cfg, "<=", tt.FNeg(cfg, pi), r), tt.FCmp(cfg, "<=", r, pi)))
			zero := tt.Float(0, s)
			y, x := xs[0], xs[1]
			// sign of atan2 follows the sign of y; atan2(0, x>0) = 0; atan2(0, x<0) = pi
			in.axiom(tt.Or(tt.Not(tt.FCmp(cfg, ">", y, zero)), tt.FCmp(cfg, ">", r, zero)))
			in.axiom(tt.Or(tt.Not(tt.FCmp(cfg, "<", y, zero)), tt.FCmp(cfg, "<", r, zero)))
			in.axiom(tt.Or(tt.Not(tt.And(tt.FCmp(cfg, "==", y, zero), tt.FCmp(cfg, ">", x, zero))), tt.FCmp(cfg, "==", r, zero)))
			in.axiom(tt.Or(tt.Not(tt.And(tt.FCmp(cfg, "==", y, zero), tt.FCmp(cfg, "<", x, zero))), tt.FCmp(cfg, "==", r, pi)))
		}
	case "Acos":
		if s == SReal {
			in.axiom(tt.And(tt.FCmp(cfg, "<=", tt.Float(0, s), r), tt.FCmp(cfg, "<=", r, tt.Float(math.Pi, s))))
		}
	case "Mod":
		if s == SReal {
			// |r| < |y|, sign of r = sign of x (or zero), x - r is a multiple of y (not stated)
			x, y := xs[0], xs[1]
			zero := tt.Float(0, s)
			in.axiom(tt.FCmp(cfg, "<", tt.FAbs(cfg, r), tt.FAbs(cfg, y)))
			in.axiom(tt.Or(tt.Not(tt.FCmp(cfg, ">=", x, zero)), tt.FCmp(cfg, ">=", r, zero)))
			in.axiom(tt.Or(tt.Not(tt.FCmp(cfg, "<=", x, zero)), tt.FCmp(cfg, "<=", r, zero)))
			// 0 <= x < y  =>  r = x
			in.axiom(tt.Or(tt.Not(tt.And(tt.FCmp(cfg, ">=", x, zero), tt.FCmp(cfg, "<", x, y))), tt.FCmp(cfg, "==", r, x)))
		}
	}
	in.notes["math."+name+" on symbolic arguments is an uninterpreted function (range axioms only)"] = true
	return r
}
