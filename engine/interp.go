package main

// Symbolic interpreter for go/ssa.  One Interp per worker and float domain.  A path is
// executed from the harness entry; branching on a symbolic condition asks the explorer
// (explore.go) which side to take.  See DESIGN.md section 2.

import (
	"fmt"
	"go/constant"
	"go/token"
	"go/types"
	"math"
	"os"
	"strings"
	"sync"

	"golang.org/x/tools/go/ssa"
)

type pathEnd struct {
	kind string // "unsupported" "bound" "infeasible" "stop"
	msg  string
}

func unsupported(msg string) *pathEnd { return &pathEnd{"unsupported", msg} }

type progPanic struct {
	val Value
	msg string
}

type deferred struct {
	fn   FuncV
	args []Value
	inv  *ssa.CallCommon
}

type frame struct {
	fn        *ssa.Function
	locals    map[ssa.Value]Value
	env       []Value
	defers    []deferred
	panicking *progPanic
	prev      *ssa.BasicBlock
	phiDone   *ssa.BasicBlock
	results   Value
}

type Interp struct {
	prog  *ssa.Program
	tt    *TermTable
	cfg   FloatCfg
	sizes types.Sizes
	ex    *Explorer

	globals    map[*ssa.Global]*Obj
	watch      map[*Obj]string // frame watch (watch.go): marked objects -> label
	watchHit   map[*Obj]string
	watchOff   int
	inited     map[*ssa.Package]bool
	persistent []*Obj
	saved      map[*Obj]Value
	initMode   bool
	initRoot   *ssa.Function
	mainPkgs   map[*ssa.Package]bool

	nobj     int
	nstores  int
	steps    int64
	maxSteps int64
	depth    int
	storeLog func(Ptr, Value)

	inStub      int
	spec        int
	specFloor   int
	merges      int
	mergeAborts int
	noMerge     bool
	ipdomMu     *sync.Mutex

	replacements map[string]FuncV
	curPanicFr   []*frame
	funcsSeen    map[string]bool
	notes        map[string]bool
}

func NewInterp(prog *ssa.Program, cfg FloatCfg, ex *Explorer) *Interp {
	in := &Interp{prog: prog, tt: NewTermTable(), cfg: cfg, ex: ex,
		globals: map[*ssa.Global]*Obj{}, inited: map[*ssa.Package]bool{}, saved: map[*Obj]Value{},
		sizes: types.SizesFor("gc", "amd64"), replacements: map[string]FuncV{}, funcsSeen: map[string]bool{},
		notes: map[string]bool{}, mainPkgs: map[*ssa.Package]bool{}, ipdomMu: &globalIpdomMu}
	in.noMerge = os.Getenv("VERIF_NOMERGE") != ""
	return in
}

var globalIpdomMu sync.Mutex
var branchStats map[string]int
var branchStatsMu sync.Mutex

func (in *Interp) goPanic(msg string) {
	if in.spec > 0 {
		panic(&specAbort{"panic in arm: " + msg})
	}
	panic(&progPanic{val: IfaceV{t: types.Typ[types.String], v: in.strConst(msg)}, msg: msg})
}

// resetPath restores the heap to the post-init snapshot.
func (in *Interp) resetPath() {
	for _, o := range in.persistent {
		if v, ok := in.saved[o]; ok {
			o.val = v
		}
	}
	in.steps = 0
	in.depth = 0
	in.nstores = 0
	in.storeLog = nil
	in.watch, in.watchHit = nil, nil
	in.replacements = map[string]FuncV{}
	in.curPanicFr = nil
	in.inStub = 0
	in.noMerge = os.Getenv("VERIF_NOMERGE") != ""
}

func (in *Interp) ensureInit(pkg *ssa.Package) {
	if pkg == nil || in.inited[pkg] {
		return
	}
	in.inited[pkg] = true
	initFn := pkg.Func("init")
	if initFn == nil {
		return
	}
	wasInit := in.initMode
	in.initMode = true
	prevRoot := in.initRoot
	in.initRoot = initFn
	defer func() { in.initRoot = prevRoot }()
	mark := len(in.persistent)
	savedSteps, savedMax := in.steps, in.maxSteps
	in.maxSteps = 1 << 40
	func() {
		defer func() {
			if r := recover(); r != nil {
				switch r.(type) {
				case *pathEnd, *progPanic:
					in.notes[fmt.Sprintf("init of %s stopped early: %v", pkg.Pkg.Path(), r)] = true
				default:
					panic(r)
				}
			}
		}()
		in.call(FuncV{fn: initFn}, nil, nil)
	}()
	in.steps, in.maxSteps = savedSteps, savedMax
	in.initMode = wasInit
	for _, o := range in.persistent[mark:] {
		in.saved[o] = o.val
	}
	for _, m := range pkg.Members {
		if g, ok := m.(*ssa.Global); ok {
			if o, ok := in.globals[g]; ok {
				in.saved[o] = o.val
			}
		}
	}
}

func (in *Interp) globalObj(g *ssa.Global) *Obj {
	if o, ok := in.globals[g]; ok {
		return o
	}
	wasInit := in.initMode
	in.initMode = true // globals are persistent objects
	o := in.newObj(in.zero(g.Type().(*types.Pointer).Elem()), g.String())
	in.initMode = wasInit
	in.saved[o] = o.val
	in.globals[g] = o
	if g.Pkg != nil && !in.inited[g.Pkg] {
		in.ensureInit(g.Pkg)
	}
	return o
}

func (in *Interp) constValue(c *ssa.Const) Value {
	t := c.Type()
	if c.Value == nil {
		return in.zero(t)
	}
	b, ok := t.Underlying().(*types.Basic)
	if !ok {
		// e.g. a constant of type parameter type; not expected with InstantiateGenerics
		panic(unsupported("constant of type " + t.String()))
	}
	switch {
	case b.Info()&types.IsBoolean != 0:
		return in.tt.Bool(constant.BoolVal(c.Value))
	case b.Info()&types.IsInteger != 0:
		w := intWidth(b)
		if i, ok := constant.Int64Val(constant.ToInt(c.Value)); ok {
			return in.tt.BV(uint64(i), w)
		}
		u, _ := constant.Uint64Val(constant.ToInt(c.Value))
		return in.tt.BV(u, w)
	case b.Info()&types.IsFloat != 0:
		f, _ := constant.Float64Val(c.Value)
		if b.Kind() == types.Float32 {
			f = float64(float32(f))
		}
		return in.tt.Float(f, in.cfg.Dom)
	case b.Info()&types.IsString != 0:
		return in.strConst(constant.StringVal(c.Value))
	}
	panic(unsupported("constant of type " + t.String()))
}

func (in *Interp) eval(fr *frame, v ssa.Value) Value {
	switch x := v.(type) {
	case *ssa.Const:
		return in.constValue(x)
	case *ssa.Global:
		return Ptr{obj: in.globalObj(x)}
	case *ssa.Function:
		return FuncV{fn: x}
	case *ssa.Builtin:
		return FuncV{builtin: x}
	case *ssa.FreeVar:
		for i, fv := range fr.fn.FreeVars {
			if fv == x {
				return fr.env[i]
			}
		}
		panic("freevar not found")
	}
	r, ok := fr.locals[v]
	if !ok {
		panic(fmt.Sprintf("value %s (%T) not evaluated in %s", v.Name(), v, fr.fn))
	}
	return r
}

func (in *Interp) poisonCheck(v Value) {
	if p, ok := v.(Poison); ok {
		panic(unsupported("use of unmodelled value: " + p.why))
	}
}

func (in *Interp) term(v Value) *Term {
	t, ok := v.(*Term)
	if !ok {
		in.poisonCheck(v)
		panic(unsupported(fmt.Sprintf("expected scalar, got %T", v)))
	}
	return t
}

// concretize turns a symbolic BV into a concrete int in [0,n) by forking.
func (in *Interp) concretize(t *Term, n int, why string) int {
	if t.IsConst() {
		return int(sext(t.u, t.w))
	}
	for i := 0; i < n-1; i++ {
		if in.branch(in.tt.Eq(t, in.tt.BV(uint64(i), t.w)), why) {
			return i
		}
	}
	// last alternative: assume it (feasibility is checked by branch)
	if in.branch(in.tt.Eq(t, in.tt.BV(uint64(n-1), t.w)), why) {
		return n - 1
	}
	panic(&pathEnd{"infeasible", "concretize: no value"})
}

func (in *Interp) branch(c *Term, why string) bool {
	if c.IsConst() {
		return c.u == 1
	}
	if in.initMode {
		panic(unsupported("symbolic branch during init"))
	}
	if in.spec > 0 {
		panic(&specAbort{"fork in arm: " + why})
	}
	return in.ex.Branch(c, why)
}

// call runs a function value on arguments.
func (in *Interp) call(fv FuncV, args []Value, site ssa.Instruction) (ret Value) {
	if fv.builtin != nil {
		return in.callBuiltin(fv.builtin, args, site)
	}
	fn := fv.fn
	if fn == nil {
		in.goPanic("call of nil function")
	}
	name := fn.String()
	if rep, ok := in.replacements[name]; ok {
		// values drawn inside a stub are not inputs of the native replay (the real function runs there)
		in.inStub++
		defer func() { in.inStub-- }()
		return in.call(rep, args, site)
	}
	if h := lookupIntrinsic(fn, name); h != nil {
		if r, ok := h(in, fn, args, site); ok {
			return r
		}
	}
	if fn.Blocks == nil {
		if in.initMode {
			return Poison{"external function " + name}
		}
		panic(unsupported("call of function without body: " + name))
	}
	if in.initMode && fn.Name() == "init" && fn.Pkg != nil && len(args) == 0 && fn != in.initRoot && fn.Synthetic != "" {
		// imported package initialisers are run lazily on first access to one of their globals
		return &Agg{}
	}
	if !in.funcsSeen[name] {
		in.funcsSeen[name] = true
	}
	in.depth++
	if in.depth > 400 {
		panic(&pathEnd{"bound", "call depth > 400"})
	}
	fr := &frame{fn: fn, locals: make(map[ssa.Value]Value, 32), env: fv.env}
	for i, p := range fn.Params {
		if i < len(args) {
			fr.locals[p] = args[i]
		}
	}
	defer func() {
		in.depth--
		if r := recover(); r != nil {
			pp, ok := r.(*progPanic)
			if !ok {
				panic(r)
			}
			fr.panicking = pp
			in.runDefers(fr)
			if fr.panicking != nil {
				panic(fr.panicking)
			}
			if fn.Recover != nil {
				ret = in.runBlocks(fr, fn.Recover)
			} else {
				ret = in.zeroResults(fn)
			}
		}
	}()
	return in.runBlocks(fr, fn.Blocks[0])
}

func (in *Interp) zeroResults(fn *ssa.Function) Value {
	res := fn.Signature.Results()
	switch res.Len() {
	case 0:
		return &Agg{}
	case 1:
		return in.zero(res.At(0).Type())
	}
	return in.zero(res)
}

func (in *Interp) runDefers(fr *frame) {
	for len(fr.defers) > 0 {
		d := fr.defers[len(fr.defers)-1]
		fr.defers = fr.defers[:len(fr.defers)-1]
		in.curPanicFr = append(in.curPanicFr, fr)
		func() {
			defer func() { in.curPanicFr = in.curPanicFr[:len(in.curPanicFr)-1] }()
			if d.inv != nil {
				in.invoke(d.inv, d.args, nil)
			} else {
				in.call(d.fn, d.args, nil)
			}
		}()
	}
}

func (in *Interp) invoke(c *ssa.CallCommon, args []Value, site ssa.Instruction) Value {
	recv := args[0]
	iv, ok := recv.(IfaceV)
	if !ok {
		in.poisonCheck(recv)
		panic(unsupported(fmt.Sprintf("invoke on %T", recv)))
	}
	if iv.t == nil {
		in.goPanic("nil interface method call: " + c.Method.Name())
	}
	m := in.prog.LookupMethod(iv.t, c.Method.Pkg(), c.Method.Name())
	if m == nil {
		panic(unsupported("method not found: " + iv.t.String() + "." + c.Method.Name()))
	}
	nargs := append([]Value{iv.v}, args[1:]...)
	return in.call(FuncV{fn: m}, nargs, site)
}

func (in *Interp) runBlocks(fr *frame, b *ssa.BasicBlock) Value {
	for {
		var next *ssa.BasicBlock
		merged := false
		in.parallelPhis(fr, b)
		for _, instr := range b.Instrs {
			in.steps++
			if in.steps > in.maxSteps {
				panic(&pathEnd{"bound", fmt.Sprintf("instruction budget %d exhausted", in.maxSteps)})
			}
			switch x := instr.(type) {
			case *ssa.Jump:
				next = b.Succs[0]
			case *ssa.If:
				c := in.term(in.eval(fr, x.Cond))
				if !c.IsConst() && !in.initMode {
					if j, ok, rv, isRet := in.tryMerge(fr, b, c); ok {
						if isRet {
							return rv
						}
						next = j
						merged = true
						break
					}
				}
				if branchStats != nil && !c.IsConst() {
					pos := in.prog.Fset.Position(x.Cond.Pos())
					if !pos.IsValid() {
						pos = in.prog.Fset.Position(fr.fn.Pos())
					}
					branchStatsMu.Lock()
					branchStats[fmt.Sprintf("%s:%d (%s)", pos.Filename, pos.Line, fr.fn.Name())]++
					branchStatsMu.Unlock()
				}
				if in.branch(c, "if") {
					next = b.Succs[0]
				} else {
					next = b.Succs[1]
				}
			case *ssa.Return:
				var ret Value
				switch len(x.Results) {
				case 0:
					ret = &Agg{}
				case 1:
					ret = in.eval(fr, x.Results[0])
				default:
					e := make([]Value, len(x.Results))
					for i, r := range x.Results {
						e[i] = in.eval(fr, r)
					}
					ret = &Agg{e}
				}
				return ret
			case *ssa.Panic:
				v := in.eval(fr, x.X)
				msg := "panic"
				if iv, ok := v.(IfaceV); ok {
					if s, ok := iv.v.(StrV); ok {
						if cs, ok := s.concrete(); ok {
							msg = "panic: " + cs
						}
					}
				}
				panic(&progPanic{val: v, msg: msg})
			case *ssa.RunDefers:
				in.runDefers(fr)
			default:
				in.exec(fr, instr)
			}
			if next != nil {
				break
			}
		}
		if next == nil {
			panic(fmt.Sprintf("block %d of %s fell through", b.Index, fr.fn))
		}
		fr.prev = b
		fr.phiDone = nil
		if merged {
			fr.phiDone = next
		}
		b = next
	}
}

// parallelPhis evaluates all phis of block b simultaneously (SSA phis are a parallel
// assignment: `i, prev = next(i), i` makes one phi the operand of another).
func (in *Interp) parallelPhis(fr *frame, b *ssa.BasicBlock) {
	if fr.phiDone == b || fr.prev == nil {
		return
	}
	var phis []*ssa.Phi
	var vals []Value
	for _, instr := range b.Instrs {
		phi, ok := instr.(*ssa.Phi)
		if !ok {
			break
		}
		found := false
		for i, p := range b.Preds {
			if p == fr.prev {
				phis = append(phis, phi)
				vals = append(vals, in.eval(fr, phi.Edges[i]))
				found = true
				break
			}
		}
		if !found {
			panic("phi: predecessor not found")
		}
	}
	if len(phis) > 0 {
		for i, phi := range phis {
			fr.locals[phi] = vals[i]
		}
		fr.phiDone = b
	}
}

func (in *Interp) exec(fr *frame, instr ssa.Instruction) {
	if in.initMode {
		defer func() {
			if r := recover(); r != nil {
				pe, ok := r.(*pathEnd)
				if !ok || pe.kind != "unsupported" {
					panic(r)
				}
				if v, ok := instr.(ssa.Value); ok {
					fr.locals[v] = Poison{pe.msg}
				}
			}
		}()
	}
	switch x := instr.(type) {
	case *ssa.DebugRef:
	case *ssa.Alloc:
		o := in.newObj(in.zero(x.Type().(*types.Pointer).Elem()), x.Comment)
		fr.locals[x] = Ptr{obj: o}
	case *ssa.Phi:
		if fr.phiDone == x.Block() {
			return
		}
		for i, p := range x.Block().Preds {
			if p == fr.prev {
				fr.locals[x] = in.eval(fr, x.Edges[i])
				return
			}
		}
		panic("phi: predecessor not found")
	case *ssa.BinOp:
		fr.locals[x] = in.binop(x.Op, x.X.Type(), in.eval(fr, x.X), in.eval(fr, x.Y), x.Y.Type())
	case *ssa.UnOp:
		fr.locals[x] = in.unop(x, in.eval(fr, x.X))
	case *ssa.Store:
		p, ok := in.eval(fr, x.Addr).(Ptr)
		if !ok {
			in.poisonCheck(in.eval(fr, x.Addr))
			panic(unsupported("store through non-pointer"))
		}
		in.store(p, in.eval(fr, x.Val))
	case *ssa.FieldAddr:
		v := in.eval(fr, x.X)
		p, ok := v.(Ptr)
		if !ok {
			in.poisonCheck(v)
			panic(unsupported("FieldAddr on non-pointer"))
		}
		if p.obj == nil {
			in.goPanic("nil pointer dereference (field)")
		}
		fr.locals[x] = p.extend(x.Field)
	case *ssa.Field:
		v := in.eval(fr, x.X)
		a, ok := v.(*Agg)
		if !ok {
			in.poisonCheck(v)
			panic(unsupported("Field of non-aggregate"))
		}
		fr.locals[x] = a.e[x.Field]
	case *ssa.IndexAddr:
		fr.locals[x] = in.indexAddr(in.eval(fr, x.X), in.term(in.eval(fr, x.Index)), x.X.Type(), x.Index.Type())
	case *ssa.Index:
		v := in.eval(fr, x.X)
		idx := in.term(in.eval(fr, x.Index))
		switch a := v.(type) {
		case *Agg:
			i := in.checkIndex(idx, len(a.e), x.Index.Type())
			fr.locals[x] = a.e[i]
		case StrV:
			i := in.checkIndex(idx, len(a.b), x.Index.Type())
			fr.locals[x] = a.b[i]
		default:
			in.poisonCheck(v)
			panic(unsupported("Index of non-array"))
		}
	case *ssa.Lookup:
		fr.locals[x] = in.lookup(x, in.eval(fr, x.X), in.eval(fr, x.Index))
	case *ssa.Slice:
		fr.locals[x] = in.sliceOp(fr, x)
	case *ssa.MakeSlice:
		n := in.term(in.eval(fr, x.Len))
		c := in.term(in.eval(fr, x.Cap))
		if !n.IsConst() || !c.IsConst() {
			panic(unsupported("make([]T, n) with symbolic length"))
		}
		ln, cp := int(sext(n.u, n.w)), int(sext(c.u, c.w))
		if ln < 0 || cp < ln {
			in.goPanic("makeslice: len out of range")
		}
		if cp > 1<<20 {
			panic(unsupported("make([]T, n) too large"))
		}
		z := in.zero(x.Type().Underlying().(*types.Slice).Elem())
		s := in.newSlice(nil, cp, z)
		s.n = ln
		fr.locals[x] = s
	case *ssa.MakeMap:
		fr.locals[x] = MapV{obj: in.newObj(&MapData{}, "map")}
	case *ssa.MapUpdate:
		in.mapUpdate(in.eval(fr, x.Map), in.eval(fr, x.Key), in.eval(fr, x.Value))
	case *ssa.MakeInterface:
		fr.locals[x] = IfaceV{t: x.X.Type(), v: in.eval(fr, x.X)}
	case *ssa.MakeClosure:
		env := make([]Value, len(x.Bindings))
		for i, b := range x.Bindings {
			env[i] = in.eval(fr, b)
		}
		fr.locals[x] = FuncV{fn: x.Fn.(*ssa.Function), env: env}
	case *ssa.ChangeType:
		fr.locals[x] = in.eval(fr, x.X)
	case *ssa.ChangeInterface:
		fr.locals[x] = in.eval(fr, x.X)
	case *ssa.Convert:
		fr.locals[x] = in.convert(in.eval(fr, x.X), x.X.Type(), x.Type())
	case *ssa.SliceToArrayPointer:
		s, ok := in.eval(fr, x.X).(SliceV)
		if !ok {
			panic(unsupported("SliceToArrayPointer"))
		}
		n := int(x.Type().(*types.Pointer).Elem().Underlying().(*types.Array).Len())
		if s.n < n {
			in.goPanic("slice to array pointer: length too short")
		}
		if s.off != 0 || n != len(getPath(s.obj.val, s.path).(*Agg).e) {
			panic(unsupported("SliceToArrayPointer into the middle of an array"))
		}
		fr.locals[x] = Ptr{obj: s.obj, path: s.path}
	case *ssa.TypeAssert:
		fr.locals[x] = in.typeAssert(x, in.eval(fr, x.X))
	case *ssa.Extract:
		v := in.eval(fr, x.Tuple)
		a, ok := v.(*Agg)
		if !ok {
			in.poisonCheck(v)
			panic(unsupported("Extract of non-tuple"))
		}
		fr.locals[x] = a.e[x.Index]
	case *ssa.Call:
		fr.locals[x] = in.doCall(fr, x.Common(), x)
	case *ssa.Defer:
		c := x.Common()
		args := in.evalArgs(fr, c)
		if c.IsInvoke() {
			fr.defers = append(fr.defers, deferred{inv: c, args: args})
		} else {
			fv, ok := in.eval(fr, c.Value).(FuncV)
			if !ok {
				panic(unsupported("defer of non-function"))
			}
			fr.defers = append(fr.defers, deferred{fn: fv, args: args})
		}
	case *ssa.Range:
		v := in.eval(fr, x.X)
		switch c := v.(type) {
		case StrV:
			cc := c
			fr.locals[x] = &IterV{str: &cc}
		case MapV:
			if c.obj == nil {
				fr.locals[x] = &IterV{m: &MapData{}}
			} else {
				fr.locals[x] = &IterV{m: c.obj.val.(*MapData)}
			}
		default:
			in.poisonCheck(v)
			panic(unsupported("range over " + x.X.Type().String()))
		}
	case *ssa.Next:
		fr.locals[x] = in.next(x, in.eval(fr, x.Iter).(*IterV))
	case *ssa.Go:
		panic(unsupported("go statement"))
	case *ssa.Select, *ssa.Send, *ssa.MakeChan:
		panic(unsupported("channel operation"))
	default:
		panic(unsupported(fmt.Sprintf("instruction %T", instr)))
	}
}

func (in *Interp) evalArgs(fr *frame, c *ssa.CallCommon) []Value {
	var args []Value
	if c.IsInvoke() {
		args = append(args, in.eval(fr, c.Value))
	}
	for _, a := range c.Args {
		args = append(args, in.eval(fr, a))
	}
	return args
}

func (in *Interp) doCall(fr *frame, c *ssa.CallCommon, site ssa.Instruction) Value {
	args := in.evalArgs(fr, c)
	if c.IsInvoke() {
		return in.invoke(c, args, site)
	}
	v := in.eval(fr, c.Value)
	fv, ok := v.(FuncV)
	if !ok {
		in.poisonCheck(v)
		panic(unsupported(fmt.Sprintf("call of %T", v)))
	}
	if fv.builtin != nil && fv.builtin.Name() == "recover" {
		return in.doRecover()
	}
	return in.call(fv, args, site)
}

func (in *Interp) doRecover() Value {
	// recover() is effective when called from a deferred function while its deferring frame panics
	if n := len(in.curPanicFr); n > 0 {
		f := in.curPanicFr[n-1]
		if f.panicking != nil {
			v := f.panicking.val
			f.panicking = nil
			return v
		}
	}
	return IfaceV{}
}

// ---- indexing ----

func (in *Interp) checkIndex(idx *Term, n int, idxType types.Type) int {
	signed := true
	if b, ok := idxType.Underlying().(*types.Basic); ok {
		signed = isSigned(b)
	}
	if idx.IsConst() {
		var i int64
		if signed {
			i = sext(idx.u, idx.w)
		} else {
			i = int64(idx.u)
			if idx.u > 1<<62 {
				i = 1 << 62
			}
		}
		if i < 0 || i >= int64(n) {
			in.goPanic(fmt.Sprintf("index out of range [%d] with length %d", i, n))
		}
		return int(i)
	}
	inRange := in.tt.BVCmp("bvult", idx, in.tt.BV(uint64(n), idx.w)) // unsigned compare also rejects negatives
	if n == 0 || !in.branch(inRange, "index-in-range") {
		in.goPanic(fmt.Sprintf("index out of range [symbolic] with length %d", n))
	}
	return in.concretize(idx, n, "index")
}

func (in *Interp) indexAddr(x Value, idx *Term, xt, it types.Type) Value {
	switch c := x.(type) {
	case SliceV:
		i := in.checkIndex(idx, c.n, it)
		return c.elemPtr(i)
	case Ptr: // pointer to array
		if c.obj == nil {
			in.goPanic("nil pointer dereference (array)")
		}
		n := int(xt.Underlying().(*types.Pointer).Elem().Underlying().(*types.Array).Len())
		i := in.checkIndex(idx, n, it)
		return c.extend(i)
	}
	in.poisonCheck(x)
	panic(unsupported(fmt.Sprintf("IndexAddr on %T", x)))
}

func (in *Interp) concInt(v Value, what string) int {
	t := in.term(v)
	if !t.IsConst() {
		panic(unsupported("symbolic " + what))
	}
	return int(sext(t.u, t.w))
}

func (in *Interp) sliceOp(fr *frame, x *ssa.Slice) Value {
	v := in.eval(fr, x.X)
	get := func(e ssa.Value, def int) int {
		if e == nil {
			return def
		}
		return in.concInt(in.eval(fr, e), "slice bound")
	}
	switch c := v.(type) {
	case SliceV:
		lo := get(x.Low, 0)
		hi := get(x.High, c.n)
		mx := get(x.Max, c.c)
		if lo < 0 || hi < lo || mx < hi || mx > c.c {
			in.goPanic(fmt.Sprintf("slice bounds out of range [%d:%d:%d] with capacity %d", lo, hi, mx, c.c))
		}
		if c.obj == nil {
			return SliceV{}
		}
		return SliceV{obj: c.obj, path: c.path, off: c.off + lo, n: hi - lo, c: mx - lo}
	case StrV:
		lo := get(x.Low, 0)
		hi := get(x.High, len(c.b))
		if lo < 0 || hi < lo || hi > len(c.b) {
			in.goPanic(fmt.Sprintf("slice bounds out of range [%d:%d] with length %d", lo, hi, len(c.b)))
		}
		return StrV{c.b[lo:hi]}
	case Ptr:
		if c.obj == nil {
			in.goPanic("nil pointer dereference (slice of array)")
		}
		n := int(x.X.Type().Underlying().(*types.Pointer).Elem().Underlying().(*types.Array).Len())
		lo := get(x.Low, 0)
		hi := get(x.High, n)
		mx := get(x.Max, n)
		if lo < 0 || hi < lo || mx < hi || mx > n {
			in.goPanic("slice bounds out of range (array)")
		}
		return SliceV{obj: c.obj, path: c.path, off: lo, n: hi - lo, c: mx - lo}
	}
	in.poisonCheck(v)
	panic(unsupported(fmt.Sprintf("Slice of %T", v)))
}

// ---- maps ----

func (in *Interp) keyEq(a, b Value) *Term {
	return in.valEq(a, b)
}

func (in *Interp) mapFind(m *MapData, key Value) int {
	for i, k := range m.keys {
		if in.branch(in.keyEq(k, key), "map-key") {
			return i
		}
	}
	return -1
}

func (in *Interp) lookup(x *ssa.Lookup, m Value, key Value) Value {
	switch c := m.(type) {
	case StrV:
		i := in.checkIndex(in.term(key), len(c.b), x.Index.Type())
		return c.b[i]
	case MapV:
		vt := x.X.Type().Underlying().(*types.Map).Elem()
		idx := -1
		var md *MapData
		if c.obj != nil {
			md = c.obj.val.(*MapData)
			idx = in.mapFind(md, key)
		}
		var val Value
		if idx >= 0 {
			val = md.vals[idx]
		} else {
			val = in.zero(vt)
		}
		if x.CommaOk {
			return &Agg{[]Value{val, in.tt.Bool(idx >= 0)}}
		}
		return val
	}
	in.poisonCheck(m)
	panic(unsupported(fmt.Sprintf("Lookup in %T", m)))
}

func (in *Interp) mapUpdate(m, key, val Value) {
	c, ok := m.(MapV)
	if !ok {
		in.poisonCheck(m)
		panic(unsupported("MapUpdate on non-map"))
	}
	if c.obj == nil {
		in.goPanic("assignment to entry in nil map")
	}
	md := c.obj.val.(*MapData)
	idx := in.mapFind(md, key)
	in.watchNote(c.obj)
	nd := &MapData{keys: append([]Value{}, md.keys...), vals: append([]Value{}, md.vals...)}
	if idx >= 0 {
		nd.vals[idx] = val
	} else {
		nd.keys = append(nd.keys, key)
		nd.vals = append(nd.vals, val)
	}
	c.obj.val = nd
}

func (in *Interp) mapDelete(m, key Value) {
	c := m.(MapV)
	if c.obj == nil {
		return
	}
	md := c.obj.val.(*MapData)
	idx := in.mapFind(md, key)
	if idx < 0 {
		return
	}
	nd := &MapData{}
	for i := range md.keys {
		if i != idx {
			nd.keys = append(nd.keys, md.keys[i])
			nd.vals = append(nd.vals, md.vals[i])
		}
	}
	c.obj.val = nd
}

func (in *Interp) next(x *ssa.Next, it *IterV) Value {
	if x.IsString {
		s := it.str
		if it.pos >= len(s.b) {
			return &Agg{[]Value{in.tt.Bool(false), in.tt.BV(0, 64), in.tt.BV(0, 32)}}
		}
		b := s.b[it.pos]
		pos := it.pos
		if in.branch(in.tt.BVCmp("bvult", b, in.tt.BV(0x80, 8)), "utf8-ascii") {
			it.pos++
			return &Agg{[]Value{in.tt.Bool(true), in.tt.BV(uint64(pos), 64), in.tt.Resize(b, 32, false)}}
		}
		// multi-byte: concrete decoding only
		rest := StrV{s.b[pos:]}
		cs, ok := rest.concrete()
		if !ok {
			panic(unsupported("range over string with symbolic non-ASCII bytes"))
		}
		r, size := decodeRune(cs)
		it.pos += size
		return &Agg{[]Value{in.tt.Bool(true), in.tt.BV(uint64(pos), 64), in.tt.BV(uint64(r), 32)}}
	}
	if it.pos >= len(it.m.keys) {
		mt := x.Iter.(*ssa.Range).X.Type().Underlying().(*types.Map)
		return &Agg{[]Value{in.tt.Bool(false), in.zero(mt.Key()), in.zero(mt.Elem())}}
	}
	k, v := it.m.keys[it.pos], it.m.vals[it.pos]
	it.pos++
	return &Agg{[]Value{in.tt.Bool(true), k, v}}
}

func decodeRune(s string) (rune, int) {
	for i, r := range s {
		if i == 0 {
			n := len(string(r))
			if r == 0xFFFD && (len(s) < 3 || s[:3] != "\xef\xbf\xbd") {
				n = 1
			}
			return r, n
		}
	}
	return 0xFFFD, 1
}

// ---- type assertions ----

func (in *Interp) typeAssert(x *ssa.TypeAssert, v Value) Value {
	iv, ok := v.(IfaceV)
	if !ok {
		in.poisonCheck(v)
		panic(unsupported(fmt.Sprintf("TypeAssert on %T", v)))
	}
	okRes := false
	var res Value
	if iv.t != nil {
		if it, isIface := x.AssertedType.Underlying().(*types.Interface); isIface {
			if types.Implements(iv.t, it) {
				okRes = true
				res = iv
			}
		} else if types.Identical(iv.t, x.AssertedType) {
			okRes = true
			res = iv.v
		}
	}
	if x.CommaOk {
		if !okRes {
			res = in.zero(x.AssertedType)
		}
		return &Agg{[]Value{res, in.tt.Bool(okRes)}}
	}
	if !okRes {
		in.goPanic("interface conversion: type assertion to " + x.AssertedType.String() + " failed")
	}
	return res
}

// ---- equality ----

func (in *Interp) valEq(a, b Value) *Term {
	switch x := a.(type) {
	case *Term:
		y := in.term(b)
		if x.sort == SFP || x.sort == SReal {
			return in.tt.FCmp(in.cfg, "==", x, y)
		}
		if in.cfg.Dom == SReal && x.sort == SBV && !x.IsConst() && !y.IsConst() {
			if r, ok := in.tt.shadowCmp("=", true, x, y); ok {
				return r
			}
		}
		return in.tt.Eq(x, y)
	case *Agg:
		y := b.(*Agg)
		r := in.tt.Bool(true)
		for i := range x.e {
			r = in.tt.And(r, in.valEq(x.e[i], y.e[i]))
		}
		return r
	case Ptr:
		y, ok := b.(Ptr)
		if !ok {
			in.poisonCheck(b)
			panic(unsupported("pointer compared with non-pointer"))
		}
		return in.tt.Bool(x.obj == y.obj && samePath(x.path, y.path))
	case StrV:
		y := b.(StrV)
		if len(x.b) != len(y.b) {
			return in.tt.Bool(false)
		}
		r := in.tt.Bool(true)
		for i := range x.b {
			r = in.tt.And(r, in.tt.Eq(x.b[i], y.b[i]))
		}
		return r
	case IfaceV:
		y, ok := b.(IfaceV)
		if !ok {
			in.poisonCheck(b)
			panic(unsupported("interface compared with non-interface"))
		}
		if x.t == nil || y.t == nil {
			return in.tt.Bool(x.t == nil && y.t == nil)
		}
		if !types.Identical(x.t, y.t) {
			return in.tt.Bool(false)
		}
		return in.valEq(x.v, y.v)
	case SliceV:
		y := b.(SliceV)
		if x.obj == nil || y.obj == nil {
			return in.tt.Bool(x.obj == nil && y.obj == nil)
		}
		panic(unsupported("slice comparison"))
	case MapV:
		y := b.(MapV)
		return in.tt.Bool(x.obj == y.obj)
	case FuncV:
		y := b.(FuncV)
		if (x.fn == nil && x.builtin == nil) || (y.fn == nil && y.builtin == nil) {
			return in.tt.Bool((x.fn == nil && x.builtin == nil) && (y.fn == nil && y.builtin == nil))
		}
		panic(unsupported("func comparison"))
	}
	in.poisonCheck(a)
	panic(unsupported(fmt.Sprintf("equality on %T", a)))
}

// ---- operators ----

func basicOf(t types.Type) *types.Basic {
	b, _ := t.Underlying().(*types.Basic)
	return b
}

func (in *Interp) binop(op token.Token, xt types.Type, a, b Value, yt types.Type) Value {
	if op == token.EQL {
		return in.valEq(a, b)
	}
	if op == token.NEQ {
		return in.tt.Not(in.valEq(a, b))
	}
	bt := basicOf(xt)
	if bt == nil {
		in.poisonCheck(a)
		panic(unsupported("binop " + op.String() + " on " + xt.String()))
	}
	switch {
	case bt.Info()&types.IsString != 0:
		x, y := a.(StrV), b.(StrV)
		if op == token.ADD {
			nb := make([]*Term, 0, len(x.b)+len(y.b))
			nb = append(append(nb, x.b...), y.b...)
			return StrV{nb}
		}
		// lexicographic comparison
		lt := in.tt.Bool(false) // x < y
		eq := in.tt.Bool(true)
		n := len(x.b)
		if len(y.b) < n {
			n = len(y.b)
		}
		for i := 0; i < n; i++ {
			lt = in.tt.Or(lt, in.tt.And(eq, in.tt.BVCmp("bvult", x.b[i], y.b[i])))
			eq = in.tt.And(eq, in.tt.Eq(x.b[i], y.b[i]))
		}
		if len(x.b) < len(y.b) {
			lt = in.tt.Or(lt, eq)
		}
		eqAll := eq
		if len(x.b) != len(y.b) {
			eqAll = in.tt.Bool(false)
		}
		switch op {
		case token.LSS:
			return lt
		case token.LEQ:
			return in.tt.Or(lt, eqAll)
		case token.GTR:
			return in.tt.Not(in.tt.Or(lt, eqAll))
		case token.GEQ:
			return in.tt.Not(lt)
		}
	case bt.Info()&types.IsFloat != 0:
		x, y := in.term(a), in.term(b)
		switch op {
		case token.ADD, token.SUB, token.MUL, token.QUO:
			r, err := in.tt.FArith(in.cfg, op.String(), x, y)
			if err != nil {
				panic(unsupported(err.Error()))
			}
			if bt.Kind() == types.Float32 && r.IsConst() {
				r = in.tt.Float(float64(float32(r.f)), r.sort)
			}
			if in.cfg.Dom == SReal && op == token.QUO && (!y.IsConst() || (!x.IsConst() && y.r == nil && y.f == 0)) {
				// division by zero: the IEEE result is a non-finite constant chosen by the sign of x
				if in.branch(in.tt.Eq(y, in.tt.Float(0, SReal)), "div-by-zero") {
					zero := in.tt.Float(0, SReal)
					if in.branch(in.tt.FCmp(in.cfg, ">", x, zero), "div-by-zero sign") {
						return in.tt.Float(math.Inf(1), SReal)
					}
					if in.branch(in.tt.FCmp(in.cfg, "<", x, zero), "div-by-zero sign") {
						return in.tt.Float(math.Inf(-1), SReal)
					}
					return in.tt.Float(math.NaN(), SReal)
				}
			}
			return r
		case token.LSS, token.LEQ, token.GTR, token.GEQ:
			return in.tt.FCmp(in.cfg, op.String(), x, y)
		}
	case bt.Info()&types.IsInteger != 0:
		x, y := in.term(a), in.term(b)
		signed := isSigned(bt)
		switch op {
		case token.ADD:
			return in.tt.BVBin("bvadd", x, y)
		case token.SUB:
			return in.tt.BVBin("bvsub", x, y)
		case token.MUL:
			return in.tt.BVBin("bvmul", x, y)
		case token.QUO, token.REM:
			if !in.branch(in.tt.Not(in.tt.Eq(y, in.tt.BV(0, y.w))), "int-div-zero") {
				in.goPanic("integer divide by zero")
			}
			name := map[bool]map[token.Token]string{true: {token.QUO: "bvsdiv", token.REM: "bvsrem"}, false: {token.QUO: "bvudiv", token.REM: "bvurem"}}[signed][op]
			return in.tt.BVBin(name, x, y)
		case token.AND:
			return in.tt.BVBin("bvand", x, y)
		case token.OR:
			return in.tt.BVBin("bvor", x, y)
		case token.XOR:
			return in.tt.BVBin("bvxor", x, y)
		case token.AND_NOT:
			return in.tt.BVBin("bvand", x, in.tt.BVNot(y))
		case token.SHL, token.SHR:
			// shift count: y is unsigned (or non-negative); saturate to width
			ys := y
			if yb := basicOf(yt); yb != nil && isSigned(yb) {
				if !in.branch(in.tt.BVCmp("bvsge", y, in.tt.BV(0, y.w)), "shift-neg") {
					in.goPanic("negative shift amount")
				}
			}
			var over *Term
			if ys.w > x.w {
				over = in.tt.BVCmp("bvuge", ys, in.tt.BV(uint64(x.w), ys.w))
				ys = in.tt.Resize(ys, x.w, false)
			} else {
				ys = in.tt.Resize(ys, x.w, false)
				over = in.tt.BVCmp("bvuge", ys, in.tt.BV(uint64(x.w), x.w))
			}
			big := in.tt.BV(uint64(x.w), x.w)
			ys = in.tt.Ite(over, big, ys)
			switch {
			case op == token.SHL:
				return in.tt.BVBin("bvshl", x, ys)
			case signed:
				return in.tt.BVBin("bvashr", x, ys)
			default:
				return in.tt.BVBin("bvlshr", x, ys)
			}
		case token.LSS, token.LEQ, token.GTR, token.GEQ:
			name := map[token.Token]string{token.LSS: "lt", token.LEQ: "le", token.GTR: "gt", token.GEQ: "ge"}[op]
			if in.cfg.Dom == SReal {
				if r, ok := in.tt.shadowCmp(op.String(), signed, x, y); ok {
					return r
				}
			}
			if signed {
				return in.tt.BVCmp("bvs"+name, x, y)
			}
			return in.tt.BVCmp("bvu"+name, x, y)
		}
	case bt.Info()&types.IsBoolean != 0:
		x, y := in.term(a), in.term(b)
		switch op {
		case token.AND, token.LAND:
			return in.tt.And(x, y)
		case token.OR, token.LOR:
			return in.tt.Or(x, y)
		}
	}
	panic(unsupported("binop " + op.String() + " on " + xt.String()))
}

func (in *Interp) unop(x *ssa.UnOp, v Value) Value {
	switch x.Op {
	case token.MUL:
		p, ok := v.(Ptr)
		if !ok {
			in.poisonCheck(v)
			panic(unsupported("load through non-pointer"))
		}
		return in.load(p)
	case token.NOT:
		return in.tt.Not(in.term(v))
	case token.SUB:
		t := in.term(v)
		if t.sort == SBV {
			return in.tt.BVNeg(t)
		}
		return in.tt.FNeg(in.cfg, t)
	case token.XOR:
		return in.tt.BVNot(in.term(v))
	}
	panic(unsupported("unop " + x.Op.String()))
}

func (in *Interp) convert(v Value, from, to types.Type) Value {
	fb, tb := basicOf(from), basicOf(to)
	if fb != nil && tb != nil {
		switch {
		case fb.Info()&types.IsInteger != 0 && tb.Info()&types.IsInteger != 0:
			return in.tt.Resize(in.term(v), intWidth(tb), isSigned(fb))
		case fb.Info()&types.IsInteger != 0 && tb.Info()&types.IsFloat != 0:
			if a := in.term(v); in.cfg.Dom == SReal && strings.HasPrefix(a.op, "(_ int2bv ") && len(a.args) == 1 && a.args[0].sort == SInt && a.w <= 62 {
				// float(intN(x)) round trip in the rational domain: float(int2bv_w(k)) = k whenever k
				// fits in w bits.  Decided by a fork so that the common in-range path stays in linear
				// integer/real arithmetic (bv2nat(int2bv(..)) makes z3 give up); the out-of-range
				// path keeps the generic wrap-around encoding.
				k := a.args[0]
				lo, hi := int64(0), int64(1)<<uint(a.w)
				if isSigned(fb) {
					lo, hi = -(int64(1) << uint(a.w-1)), int64(1)<<uint(a.w-1)
				}
				inRange := in.tt.And(in.tt.mk("<=", SBool, 0, in.tt.IntC(lo), k), in.tt.mk("<", SBool, 0, k, in.tt.IntC(hi)))
				if in.branch(inRange, "int-float-roundtrip") {
					return in.tt.mk("to_real", SReal, 0, k)
				}
			}
			r := in.tt.IntToFloat(in.cfg, in.term(v), isSigned(fb))
			if tb.Kind() == types.Float32 && r.IsConst() {
				r = in.tt.Float(float64(float32(r.f)), r.sort)
			}
			return r
		case fb.Info()&types.IsFloat != 0 && tb.Info()&types.IsInteger != 0:
			r, err := in.tt.FloatToInt(in.cfg, in.term(v), intWidth(tb), isSigned(tb))
			if err != nil {
				panic(unsupported(err.Error()))
			}
			return r
		case fb.Info()&types.IsFloat != 0 && tb.Info()&types.IsFloat != 0:
			t := in.term(v)
			if tb.Kind() == types.Float32 && fb.Kind() != types.Float32 {
				if t.IsConst() {
					return in.tt.Float(float64(float32(t.f)), t.sort)
				}
				in.notes["float64->float32 conversion of a symbolic value treated as exact"] = true
			}
			return t
		case fb.Info()&types.IsInteger != 0 && tb.Info()&types.IsString != 0:
			t := in.term(v)
			if !t.IsConst() {
				panic(unsupported("string(rune) with symbolic rune"))
			}
			return in.strConst(string(rune(sext(t.u, t.w))))
		case fb.Info()&types.IsString != 0 && tb.Info()&types.IsString != 0:
			return v
		case fb.Kind() == types.UnsafePointer || tb.Kind() == types.UnsafePointer:
			return v
		}
	}
	// string <-> []byte / []rune
	if fb != nil && fb.Info()&types.IsString != 0 {
		if ts, ok := to.Underlying().(*types.Slice); ok {
			s := v.(StrV)
			eb := basicOf(ts.Elem())
			if eb != nil && intWidth(eb) == 8 {
				e := make([]Value, len(s.b))
				for i := range e {
					e[i] = s.b[i]
				}
				return in.newSlice(e, len(e), in.tt.BV(0, 8))
			}
			cs, ok := s.concrete()
			if !ok {
				// ASCII-only symbolic strings convert byte-wise
				e := make([]Value, len(s.b))
				for i := range e {
					if !in.branch(in.tt.BVCmp("bvult", s.b[i], in.tt.BV(0x80, 8)), "rune-ascii") {
						panic(unsupported("[]rune(string) with symbolic non-ASCII bytes"))
					}
					e[i] = in.tt.Resize(s.b[i], 32, false)
				}
				return in.newSlice(e, len(e), in.tt.BV(0, 32))
			}
			var e []Value
			for _, r := range cs {
				e = append(e, in.tt.BV(uint64(r), 32))
			}
			return in.newSlice(e, len(e), in.tt.BV(0, 32))
		}
	}
	if tb != nil && tb.Info()&types.IsString != 0 {
		if fs, ok := from.Underlying().(*types.Slice); ok {
			s := v.(SliceV)
			elems := in.sliceElems(s)
			eb := basicOf(fs.Elem())
			if eb != nil && intWidth(eb) == 8 {
				nb := make([]*Term, len(elems))
				for i, e := range elems {
					nb[i] = in.term(e)
				}
				return StrV{nb}
			}
			var sb strings.Builder
			for _, e := range elems {
				t := in.term(e)
				if !t.IsConst() {
					panic(unsupported("string([]rune) with symbolic runes"))
				}
				sb.WriteRune(rune(sext(t.u, t.w)))
			}
			return in.strConst(sb.String())
		}
	}
	if _, ok := from.Underlying().(*types.Pointer); ok {
		return v
	}
	if _, ok := to.Underlying().(*types.Pointer); ok {
		return v
	}
	panic(unsupported("convert " + from.String() + " -> " + to.String()))
}

// ---- builtins ----

var sizeClasses = []int{0, 8, 16, 24, 32, 48, 64, 80, 96, 112, 128, 144, 160, 176, 192, 208, 224, 240, 256, 288, 320, 352, 384, 416, 448, 480, 512, 576, 640, 704, 768, 896, 1024, 1152, 1280, 1408, 1536, 1792, 2048, 2304, 2688, 3072, 3200, 3456, 4096, 4864, 5376, 6144, 6528, 6784, 6912, 8192, 9472, 9728, 10240, 10880, 12288, 13568, 14336, 16384, 18432, 19072, 20480, 21760, 24576, 27264, 28672, 32768}

func roundupsize(size int) int {
	for _, c := range sizeClasses {
		if c >= size {
			return c
		}
	}
	return (size + 8191) &^ 8191
}

// growCap mirrors runtime.growslice (go1.20+).
func growCap(oldCap, newLen, elemSize int) int {
	newcap := oldCap
	doublecap := newcap + newcap
	if newLen > doublecap {
		newcap = newLen
	} else {
		const threshold = 256
		if oldCap < threshold {
			newcap = doublecap
		} else {
			for 0 < newcap && newcap < newLen {
				newcap += (newcap + 3*threshold) >> 2
			}
			if newcap <= 0 {
				newcap = newLen
			}
		}
	}
	if elemSize <= 0 {
		return newcap
	}
	mem := roundupsize(newcap * elemSize)
	return mem / elemSize
}

func (in *Interp) callBuiltin(b *ssa.Builtin, args []Value, site ssa.Instruction) Value {
	switch b.Name() {
	case "len":
		switch c := args[0].(type) {
		case SliceV:
			return in.tt.BV(uint64(c.n), 64)
		case StrV:
			return in.tt.BV(uint64(len(c.b)), 64)
		case MapV:
			if c.obj == nil {
				return in.tt.BV(0, 64)
			}
			return in.tt.BV(uint64(len(c.obj.val.(*MapData).keys)), 64)
		case *Agg:
			return in.tt.BV(uint64(len(c.e)), 64)
		case Ptr:
			if call, ok := site.(*ssa.Call); ok {
				if pt, ok := call.Call.Args[0].Type().Underlying().(*types.Pointer); ok {
					if at, ok := pt.Elem().Underlying().(*types.Array); ok {
						return in.tt.BV(uint64(at.Len()), 64)
					}
				}
			}
		}
		in.poisonCheck(args[0])
		panic(unsupported(fmt.Sprintf("len of %T", args[0])))
	case "cap":
		switch c := args[0].(type) {
		case SliceV:
			return in.tt.BV(uint64(c.c), 64)
		case *Agg:
			return in.tt.BV(uint64(len(c.e)), 64)
		}
		panic(unsupported("cap"))
	case "append":
		s, ok := args[0].(SliceV)
		if !ok {
			in.poisonCheck(args[0])
			panic(unsupported("append to non-slice"))
		}
		var add []Value
		switch t := args[1].(type) {
		case SliceV:
			add = append(add, in.sliceElems(t)...) // copy: source may alias destination
		case StrV:
			for _, b := range t.b {
				add = append(add, b)
			}
		default:
			in.poisonCheck(args[1])
			panic(unsupported("append of non-slice"))
		}
		if len(add) == 0 {
			return s
		}
		newLen := s.n + len(add)
		if s.obj != nil && newLen <= s.c {
			for i, v := range add {
				in.store(s.elemPtr(s.n+i), v)
			}
			return SliceV{obj: s.obj, path: s.path, off: s.off, n: newLen, c: s.c}
		}
		var et types.Type
		if call, ok := site.(*ssa.Call); ok {
			et = call.Type().Underlying().(*types.Slice).Elem()
		} else {
			panic(unsupported("append without call site"))
		}
		nc := growCap(s.c, newLen, int(in.sizes.Sizeof(et)))
		elems := append(append([]Value{}, in.sliceElems(s)...), add...)
		return in.newSlice(elems, nc, in.zero(et))
	case "copy":
		d, ok := args[0].(SliceV)
		if !ok {
			panic(unsupported("copy to non-slice"))
		}
		var src []Value
		switch t := args[1].(type) {
		case SliceV:
			src = append(src, in.sliceElems(t)...)
		case StrV:
			for _, b := range t.b {
				src = append(src, b)
			}
		}
		n := len(src)
		if d.n < n {
			n = d.n
		}
		for i := 0; i < n; i++ {
			in.store(d.elemPtr(i), src[i])
		}
		return in.tt.BV(uint64(n), 64)
	case "delete":
		in.mapDelete(args[0], args[1])
		return &Agg{}
	case "clear":
		switch c := args[0].(type) {
		case MapV:
			if c.obj != nil {
				c.obj.val = &MapData{}
			}
		case SliceV:
			call := site.(*ssa.Call)
			st := call.Call.Args[0].Type().Underlying().(*types.Slice)
			z := in.zero(st.Elem())
			for i := 0; i < c.n; i++ {
				in.store(c.elemPtr(i), z)
			}
		default:
			panic(unsupported("clear of this type"))
		}
		return &Agg{}
	case "print", "println":
		return &Agg{}
	case "min", "max":
		isMax := b.Name() == "max"
		acc := in.term(args[0])
		call := site.(*ssa.Call)
		bt := basicOf(call.Type())
		for _, a := range args[1:] {
			y := in.term(a)
			switch {
			case bt.Info()&types.IsFloat != 0:
				acc = in.tt.FMinMax(in.cfg, isMax, acc, y)
			case isSigned(bt):
				if isMax {
					acc = in.tt.Ite(in.tt.BVCmp("bvslt", acc, y), y, acc)
				} else {
					acc = in.tt.Ite(in.tt.BVCmp("bvslt", y, acc), y, acc)
				}
			default:
				if isMax {
					acc = in.tt.Ite(in.tt.BVCmp("bvult", acc, y), y, acc)
				} else {
					acc = in.tt.Ite(in.tt.BVCmp("bvult", y, acc), y, acc)
				}
			}
		}
		return acc
	case "ssa:wrapnilchk":
		if isNilPtr(args[0]) {
			in.goPanic("value method called using nil pointer")
		}
		return args[0]
	case "recover":
		return in.doRecover()
	}
	panic(unsupported("builtin " + b.Name()))
}

var _ = math.Pi
