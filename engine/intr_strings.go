package main

import (
	"golang.org/x/tools/go/ssa"
)

func init() {
	// copyCheck stores a self pointer through unsafe; it has no effect on the value semantics
	intrinsicTable["(*strings.Builder).copyCheck"] = func(in *Interp, fn *ssa.Function, a []Value, s ssa.Instruction) (Value, bool) { return unit(), true }
	// strings.Builder.String uses unsafe.String(unsafe.SliceData(buf), len(buf))
	intrinsicTable["(*strings.Builder).String"] = func(in *Interp, fn *ssa.Function, a []Value, s ssa.Instruction) (Value, bool) {
		p, ok := a[0].(Ptr)
		if !ok || p.obj == nil {
			return StrV{}, true
		}
		b, ok := in.load(p).(*Agg)
		if !ok || len(b.e) < 2 {
			panic(unsupported("strings.Builder layout"))
		}
		buf, ok := b.e[len(b.e)-1].(SliceV)
		if !ok {
			panic(unsupported("strings.Builder buf"))
		}
		elems := in.sliceElems(buf)
		bs := make([]*Term, len(elems))
		for i, e := range elems {
			bs[i] = in.term(e)
		}
		return StrV{bs}, true
	}
}
