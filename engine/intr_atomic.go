package main

// sync/atomic primitives (single-threaded semantics: the interpreter has no goroutines).

import (
	"golang.org/x/tools/go/ssa"
)

func init() {
	for _, ty := range []string{"Int32", "Int64", "Uint32", "Uint64", "Uintptr", "Pointer"} {
		ty := ty
		intrinsicTable["sync/atomic.Load"+ty] = func(in *Interp, fn *ssa.Function, a []Value, s ssa.Instruction) (Value, bool) {
			return in.load(a[0].(Ptr)), true
		}
		intrinsicTable["sync/atomic.Store"+ty] = func(in *Interp, fn *ssa.Function, a []Value, s ssa.Instruction) (Value, bool) {
			in.atomicStore(a[0].(Ptr), a[1])
			return unit(), true
		}
		intrinsicTable["sync/atomic.Swap"+ty] = func(in *Interp, fn *ssa.Function, a []Value, s ssa.Instruction) (Value, bool) {
			old := in.load(a[0].(Ptr))
			in.atomicStore(a[0].(Ptr), a[1])
			return old, true
		}
		intrinsicTable["sync/atomic.CompareAndSwap"+ty] = func(in *Interp, fn *ssa.Function, a []Value, s ssa.Instruction) (Value, bool) {
			cur := in.load(a[0].(Ptr))
			eq := in.valEq(cur, a[1])
			if in.branch(eq, "atomic.CompareAndSwap") {
				in.atomicStore(a[0].(Ptr), a[2])
				return in.tt.Bool(true), true
			}
			return in.tt.Bool(false), true
		}
		if ty != "Pointer" {
			intrinsicTable["sync/atomic.Add"+ty] = func(in *Interp, fn *ssa.Function, a []Value, s ssa.Instruction) (Value, bool) {
				cur := in.term(in.load(a[0].(Ptr)))
				nv := in.tt.BVBin("bvadd", cur, in.term(a[1]))
				in.atomicStore(a[0].(Ptr), nv)
				return nv, true
			}
		}
	}
}
