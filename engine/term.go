package main

// Hash-consed SMT terms with eager constant folding.
//
// Sorts: Bool, BitVec(w), FP (Float64), Real, Int.  float64 values of the program are
// encoded in one of two domains chosen per harness (see DESIGN.md 2.4):
//   FP: sort FP (IEEE binary64).  Comparisons/min/max/abs/neg/classification are exact;
//       + - * / are uninterpreted ("opaque") unless the harness asks for exact arithmetic.
//   Q : sort Real (exact rational arithmetic). Non-finite values exist only as constants.
// Concrete floats are always folded on the host in float64, so a fully concrete run of the
// interpreter computes what the native program computes.

import (
	"fmt"
	"math"
	"math/big"
	"sort"
	"strings"
)

type Sort uint8

const (
	SBool Sort = iota
	SBV
	SFP
	SReal
	SInt
)

type Term struct {
	id   int
	op   string // "c" for constants, "v" for variables, otherwise SMT operator / UF name
	sort Sort
	w    int // BV width
	args []*Term
	// constants
	u uint64   // BV (w<=64) / bool (0,1)
	f float64  // FP const, or Real const given as float64 (may be non-finite)
	r *big.Rat // Real/Int const not representable as float (rare)
	// variables / UFs
	name string
	uf   bool // op is an uninterpreted function (needs declaration)
}

func (t *Term) IsConst() bool { return t.op == "c" }

type TermTable struct {
	tab    map[string]*Term
	next   int
	ufDecl map[string]string // UF name -> declaration text
	vars   []*Term
	shadows *shadowTables
	nlReal bool // a product or quotient of two non-constant reals exists: queries may be NRA
}

func NewTermTable() *TermTable {
	return &TermTable{tab: map[string]*Term{}, ufDecl: map[string]string{}}
}

func (tt *TermTable) intern(key string, mk func() *Term) *Term {
	if t, ok := tt.tab[key]; ok {
		return t
	}
	t := mk()
	t.id = tt.next
	tt.next++
	tt.tab[key] = t
	return t
}

func sortKey(s Sort, w int) string {
	switch s {
	case SBool:
		return "B"
	case SBV:
		return fmt.Sprintf("V%d", w)
	case SFP:
		return "F"
	case SReal:
		return "R"
	case SInt:
		return "I"
	}
	return "?"
}

func sortSMT(s Sort, w int) string {
	switch s {
	case SBool:
		return "Bool"
	case SBV:
		return fmt.Sprintf("(_ BitVec %d)", w)
	case SFP:
		return "(_ FloatingPoint 11 53)"
	case SReal:
		return "Real"
	case SInt:
		return "Int"
	}
	return "?"
}

func mask(w int) uint64 {
	if w >= 64 {
		return ^uint64(0)
	}
	return (uint64(1) << uint(w)) - 1
}

func sext(u uint64, w int) int64 {
	if w >= 64 {
		return int64(u)
	}
	sh := uint(64 - w)
	return int64(u<<sh) >> sh
}

// ---- constants ----

func (tt *TermTable) Bool(b bool) *Term {
	u := uint64(0)
	if b {
		u = 1
	}
	return tt.intern(fmt.Sprintf("cB%d", u), func() *Term { return &Term{op: "c", sort: SBool, u: u} })
}

func (tt *TermTable) BV(u uint64, w int) *Term {
	u &= mask(w)
	return tt.intern(fmt.Sprintf("cV%d:%d", w, u), func() *Term { return &Term{op: "c", sort: SBV, w: w, u: u} })
}

// Float returns a float constant in the given float sort (SFP or SReal).
func (tt *TermTable) Float(f float64, s Sort) *Term {
	return tt.intern(fmt.Sprintf("cF%d:%x", s, math.Float64bits(f)), func() *Term { return &Term{op: "c", sort: s, f: f} })
}

func (tt *TermTable) IntC(v int64) *Term {
	return tt.intern(fmt.Sprintf("cI:%d", v), func() *Term { return &Term{op: "c", sort: SInt, r: new(big.Rat).SetInt64(v)} })
}

func (tt *TermTable) RatC(r *big.Rat) *Term {
	if f, exact := r.Float64(); exact {
		return tt.Float(f, SReal)
	}
	return tt.intern("cR:"+r.String(), func() *Term { return &Term{op: "c", sort: SReal, r: r, f: math.NaN()} })
}

func (tt *TermTable) Var(name string, s Sort, w int) *Term {
	t := tt.intern("v:"+name, func() *Term {
		v := &Term{op: "v", sort: s, w: w, name: name}
		return v
	})
	if t.sort != s || t.w != w {
		panic(fmt.Sprintf("variable %s redeclared with another sort", name))
	}
	return t
}

// mk builds an operator application (no folding).
func (tt *TermTable) mk(op string, s Sort, w int, args ...*Term) *Term {
	var sb strings.Builder
	sb.WriteString(op)
	sb.WriteString(sortKey(s, w))
	for _, a := range args {
		fmt.Fprintf(&sb, " %d", a.id)
	}
	if s == SReal && len(args) == 2 && !tt.nlReal && ((op == "*" && !args[0].IsConst() && !args[1].IsConst()) || (op == "/" && !args[1].IsConst())) {
		tt.nlReal = true
	}
	return tt.intern(sb.String(), func() *Term { return &Term{op: op, sort: s, w: w, args: args} })
}

// UF application; declares the function on first use.
func (tt *TermTable) UF(name string, s Sort, w int, args ...*Term) *Term {
	if _, ok := tt.ufDecl[name]; !ok {
		var as []string
		for _, a := range args {
			as = append(as, sortSMT(a.sort, a.w))
		}
		tt.ufDecl[name] = fmt.Sprintf("(declare-fun %s (%s) %s)", name, strings.Join(as, " "), sortSMT(s, w))
	}
	t := tt.mk(name, s, w, args...)
	t.uf = true
	return t
}

// ---- boolean ----

func (tt *TermTable) Not(a *Term) *Term {
	if a.IsConst() {
		return tt.Bool(a.u == 0)
	}
	if a.op == "not" {
		return a.args[0]
	}
	return tt.mk("not", SBool, 0, a)
}

func (tt *TermTable) And(a, b *Term) *Term {
	if a.IsConst() {
		if a.u == 0 {
			return a
		}
		return b
	}
	if b.IsConst() {
		if b.u == 0 {
			return b
		}
		return a
	}
	if a == b {
		return a
	}
	return tt.mk("and", SBool, 0, a, b)
}

func (tt *TermTable) Or(a, b *Term) *Term {
	if a.IsConst() {
		if a.u == 1 {
			return a
		}
		return b
	}
	if b.IsConst() {
		if b.u == 1 {
			return b
		}
		return a
	}
	if a == b {
		return a
	}
	return tt.mk("or", SBool, 0, a, b)
}

func (tt *TermTable) Ite(c, a, b *Term) *Term {
	if c.IsConst() {
		if c.u == 1 {
			return a
		}
		return b
	}
	if a == b {
		return a
	}
	if a.sort == SBool && a.IsConst() && b.IsConst() {
		if a.u == 1 {
			return c
		}
		return tt.Not(c)
	}
	return tt.mk("ite", a.sort, a.w, c, a, b)
}

func (tt *TermTable) Eq(a, b *Term) *Term {
	if a == b {
		// for FP sort "=" is structural equality (NaN = NaN), so this is sound
		return tt.Bool(true)
	}
	if a.IsConst() && b.IsConst() {
		switch a.sort {
		case SBool, SBV:
			return tt.Bool(a.u == b.u)
		case SFP:
			return tt.Bool(math.Float64bits(a.f) == math.Float64bits(b.f) || (math.IsNaN(a.f) && math.IsNaN(b.f)))
		case SReal:
			if a.r == nil && b.r == nil {
				return tt.Bool(a.f == b.f)
			}
		case SInt:
			return tt.Bool(a.r.Cmp(b.r) == 0)
		}
	}
	if a.sort == SBool {
		if a.IsConst() {
			if a.u == 1 {
				return b
			}
			return tt.Not(b)
		}
		if b.IsConst() {
			if b.u == 1 {
				return a
			}
			return tt.Not(a)
		}
	}
	if a.id > b.id {
		a, b = b, a
	}
	return tt.mk("=", SBool, 0, a, b)
}

// ---- bit-vectors ----

func (tt *TermTable) BVBin(op string, a, b *Term) *Term {
	w := a.w
	if a.w != b.w {
		panic(fmt.Sprintf("bv width mismatch %s %d %d", op, a.w, b.w))
	}
	if a.IsConst() && b.IsConst() {
		x, y := a.u, b.u
		m := mask(w)
		switch op {
		case "bvadd":
			return tt.BV(x+y, w)
		case "bvsub":
			return tt.BV(x-y, w)
		case "bvmul":
			return tt.BV(x*y, w)
		case "bvand":
			return tt.BV(x&y, w)
		case "bvor":
			return tt.BV(x|y, w)
		case "bvxor":
			return tt.BV(x^y, w)
		case "bvudiv":
			if y == 0 {
				return tt.BV(m, w)
			}
			return tt.BV(x/y, w)
		case "bvurem":
			if y == 0 {
				return tt.BV(x, w)
			}
			return tt.BV(x%y, w)
		case "bvsdiv":
			if y == 0 {
				break
			}
			sx, sy := sext(x, w), sext(y, w)
			if sy == -1 {
				return tt.BV(uint64(-sx), w)
			}
			return tt.BV(uint64(sx/sy), w)
		case "bvsrem":
			if y == 0 {
				break
			}
			sx, sy := sext(x, w), sext(y, w)
			if sy == -1 {
				return tt.BV(0, w)
			}
			return tt.BV(uint64(sx%sy), w)
		case "bvshl":
			if y >= uint64(w) {
				return tt.BV(0, w)
			}
			return tt.BV(x<<y, w)
		case "bvlshr":
			if y >= uint64(w) {
				return tt.BV(0, w)
			}
			return tt.BV(x>>y, w)
		case "bvashr":
			sx := sext(x, w)
			if y >= uint64(w) {
				y = uint64(w - 1)
			}
			return tt.BV(uint64(sx>>y), w)
		}
	}
	// light identities
	switch op {
	case "bvadd", "bvor", "bvxor":
		if a.IsConst() && a.u == 0 {
			return b
		}
		if b.IsConst() && b.u == 0 {
			return a
		}
	case "bvsub", "bvshl", "bvlshr", "bvashr":
		if b.IsConst() && b.u == 0 {
			return a
		}
	case "bvmul":
		if a.IsConst() && a.u == 1 {
			return b
		}
		if b.IsConst() && b.u == 1 {
			return a
		}
		if (a.IsConst() && a.u == 0) || (b.IsConst() && b.u == 0) {
			return tt.BV(0, w)
		}
	case "bvand":
		if (a.IsConst() && a.u == 0) || (b.IsConst() && b.u == 0) {
			return tt.BV(0, w)
		}
		if a.IsConst() && a.u == mask(w) {
			return b
		}
		if b.IsConst() && b.u == mask(w) {
			return a
		}
	}
	return tt.mk(op, SBV, w, a, b)
}

func (tt *TermTable) BVCmp(op string, a, b *Term) *Term {
	if a.w != b.w {
		panic(fmt.Sprintf("bv width mismatch %s %d %d", op, a.w, b.w))
	}
	if a.IsConst() && b.IsConst() {
		x, y := a.u, b.u
		sx, sy := sext(x, a.w), sext(y, a.w)
		switch op {
		case "bvult":
			return tt.Bool(x < y)
		case "bvule":
			return tt.Bool(x <= y)
		case "bvugt":
			return tt.Bool(x > y)
		case "bvuge":
			return tt.Bool(x >= y)
		case "bvslt":
			return tt.Bool(sx < sy)
		case "bvsle":
			return tt.Bool(sx <= sy)
		case "bvsgt":
			return tt.Bool(sx > sy)
		case "bvsge":
			return tt.Bool(sx >= sy)
		}
	}
	if a == b {
		switch op {
		case "bvule", "bvuge", "bvsle", "bvsge":
			return tt.Bool(true)
		default:
			return tt.Bool(false)
		}
	}
	return tt.mk(op, SBool, 0, a, b)
}

func (tt *TermTable) BVNot(a *Term) *Term {
	if a.IsConst() {
		return tt.BV(^a.u, a.w)
	}
	return tt.mk("bvnot", SBV, a.w, a)
}

func (tt *TermTable) BVNeg(a *Term) *Term {
	if a.IsConst() {
		return tt.BV(-a.u, a.w)
	}
	return tt.mk("bvneg", SBV, a.w, a)
}

// Resize converts a BV to width w, sign- or zero-extending by the source signedness.
func (tt *TermTable) Resize(a *Term, w int, signed bool) *Term {
	if a.w == w {
		return a
	}
	if a.IsConst() {
		if signed {
			return tt.BV(uint64(sext(a.u, a.w)), w)
		}
		return tt.BV(a.u, w)
	}
	if w < a.w {
		return tt.mk(fmt.Sprintf("(_ extract %d 0)", w-1), SBV, w, a)
	}
	if signed {
		return tt.mk(fmt.Sprintf("(_ sign_extend %d)", w-a.w), SBV, w, a)
	}
	return tt.mk(fmt.Sprintf("(_ zero_extend %d)", w-a.w), SBV, w, a)
}

// ---- floats ----

type FloatCfg struct {
	Dom   Sort // SFP or SReal
	Exact bool // in FP domain: exact IEEE arithmetic instead of opaque UFs
}

func isFin(f float64) bool { return !math.IsNaN(f) && !math.IsInf(f, 0) }

func (tt *TermTable) realOfConst(a *Term) *big.Rat {
	if a.r != nil {
		return a.r
	}
	r := new(big.Rat)
	r.SetFloat64(a.f)
	return r
}

// FArith: op in + - * /
func (tt *TermTable) FArith(cfg FloatCfg, op string, a, b *Term) (*Term, error) {
	if a.IsConst() && b.IsConst() && a.r == nil && b.r == nil {
		var r float64
		switch op {
		case "+":
			r = a.f + b.f
		case "-":
			r = a.f - b.f
		case "*":
			r = a.f * b.f
		case "/":
			r = a.f / b.f
		}
		return tt.Float(r, a.sort), nil
	}
	if cfg.Dom == SReal {
		// non-finite constants
		for _, c := range []*Term{a, b} {
			if c.IsConst() && c.r == nil && !isFin(c.f) {
				if math.IsNaN(c.f) {
					return c, nil
				}
				// +-Inf with finite symbolic
				switch op {
				case "+":
					return c, nil
				case "-":
					if c == a {
						return c, nil
					}
					return tt.Float(-c.f, SReal), nil
				}
				return nil, fmt.Errorf("Q domain: %s with infinite constant and symbolic operand", op)
			}
		}
		switch op {
		case "+":
			if a.IsConst() && a.f == 0 {
				return b, nil
			}
			if b.IsConst() && b.f == 0 {
				return a, nil
			}
		case "-":
			if b.IsConst() && b.f == 0 {
				return a, nil
			}
			if a == b {
				return tt.Float(0, SReal), nil
			}
			// exact reals: (x + c) - x = c, (c + x) - x = c
			if a.op == "+" && a.sort == SReal && len(a.args) == 2 {
				if a.args[0] == b {
					return a.args[1], nil
				}
				if a.args[1] == b {
					return a.args[0], nil
				}
			}
		case "*":
			if a.IsConst() && a.f == 1 {
				return b, nil
			}
			if b.IsConst() && b.f == 1 {
				return a, nil
			}
			if (a.IsConst() && a.f == 0) || (b.IsConst() && b.f == 0) {
				return tt.Float(0, SReal), nil
			}
		case "/":
			if b.IsConst() && b.f == 1 {
				return a, nil
			}
		}
		return tt.mk(op, SReal, 0, a, b), nil
	}
	// FP domain: sound IEEE identities first (round-to-nearest-even)
	if op == "-" && a == b {
		// x - x = +0 for finite x, NaN for NaN and infinities
		bad := tt.Or(tt.FIsNaN(cfg, a), tt.FIsInf(cfg, a, 0))
		return tt.Ite(bad, tt.Float(math.NaN(), SFP), tt.Float(0, SFP)), nil
	}
	if (op == "-" || op == "+") && b.IsConst() && b.f == 0 && math.Signbit(b.f) == (op == "+") {
		return a, nil // x - (+0) = x, x + (-0) = x
	}
	if (op == "*" || op == "/") && b.IsConst() && b.f == 1 {
		return a, nil
	}
	if op == "*" && a.IsConst() && a.f == 1 {
		return b, nil
	}
	if cfg.Exact {
		rm := tt.mk("RNE", SBool, 0) // printed as RNE; sort is irrelevant
		name := map[string]string{"+": "fp.add", "-": "fp.sub", "*": "fp.mul", "/": "fp.div"}[op]
		return tt.mk(name, SFP, 0, rm, a, b), nil
	}
	name := map[string]string{"+": "vf_add", "-": "vf_sub", "*": "vf_mul", "/": "vf_div"}[op]
	if (op == "+" || op == "*") && a.id > b.id {
		a, b = b, a // commutativity is a true IEEE fact
	}
	return tt.UF(name, SFP, 0, a, b), nil
}

// FCmp: op in < <= > >= == !=  (IEEE semantics: comparisons with NaN are false, != true)
func (tt *TermTable) FCmp(cfg FloatCfg, op string, a, b *Term) *Term {
	if a.IsConst() && b.IsConst() && a.r == nil && b.r == nil {
		switch op {
		case "<":
			return tt.Bool(a.f < b.f)
		case "<=":
			return tt.Bool(a.f <= b.f)
		case ">":
			return tt.Bool(a.f > b.f)
		case ">=":
			return tt.Bool(a.f >= b.f)
		case "==":
			return tt.Bool(a.f == b.f)
		case "!=":
			return tt.Bool(a.f != b.f)
		}
	}
	if op == "!=" {
		return tt.Not(tt.FCmp(cfg, "==", a, b))
	}
	if op == ">" {
		return tt.FCmp(cfg, "<", b, a)
	}
	if op == ">=" {
		return tt.FCmp(cfg, "<=", b, a)
	}
	if cfg.Dom == SReal {
		// symbolic values are finite reals; constants may be non-finite
		for i, c := range []*Term{a, b} {
			if c.IsConst() && c.r == nil && !isFin(c.f) {
				if math.IsNaN(c.f) {
					return tt.Bool(false)
				}
				pos := c.f > 0
				if op == "==" {
					return tt.Bool(false)
				}
				// a < b / a <= b with one side infinite
				if i == 0 { // a infinite
					return tt.Bool(!pos)
				}
				return tt.Bool(pos)
			}
		}
		if a == b {
			return tt.Bool(op != "<")
		}
		switch op {
		case "<":
			return tt.mk("<", SBool, 0, a, b)
		case "<=":
			return tt.mk("<=", SBool, 0, a, b)
		case "==":
			return tt.Eq(a, b)
		}
	}
	switch op {
	case "<":
		if a == b {
			return tt.Bool(false)
		}
		return tt.mk("fp.lt", SBool, 0, a, b)
	case "<=":
		return tt.mk("fp.leq", SBool, 0, a, b)
	case "==":
		return tt.mk("fp.eq", SBool, 0, a, b)
	}
	panic("FCmp " + op)
}

func (tt *TermTable) FNeg(cfg FloatCfg, a *Term) *Term {
	if a.IsConst() && a.r == nil {
		return tt.Float(-a.f, a.sort)
	}
	if cfg.Dom == SReal {
		if a.op == "-" && len(a.args) == 1 {
			return a.args[0]
		}
		return tt.mk("-", SReal, 0, a)
	}
	if a.op == "fp.neg" {
		return a.args[0]
	}
	return tt.mk("fp.neg", SFP, 0, a)
}

func (tt *TermTable) FAbs(cfg FloatCfg, a *Term) *Term {
	if a.IsConst() && a.r == nil {
		return tt.Float(math.Abs(a.f), a.sort)
	}
	if cfg.Dom == SReal {
		return tt.Ite(tt.mk("<", SBool, 0, a, tt.Float(0, SReal)), tt.FNeg(cfg, a), a)
	}
	if a.op == "fp.abs" {
		return a
	}
	if a.op == "fp.neg" {
		return tt.FAbs(cfg, a.args[0])
	}
	if a.op == "vf_sub" && a.args[0].id > a.args[1].id {
		// |x - y| = |y - x| exactly in IEEE arithmetic
		return tt.mk("fp.abs", SFP, 0, tt.UF("vf_sub", SFP, 0, a.args[1], a.args[0]))
	}
	return tt.mk("fp.abs", SFP, 0, a)
}

func (tt *TermTable) FIsNaN(cfg FloatCfg, a *Term) *Term {
	if a.IsConst() {
		return tt.Bool(math.IsNaN(a.f) && a.r == nil)
	}
	if cfg.Dom == SReal {
		return tt.Bool(false)
	}
	return tt.mk("fp.isNaN", SBool, 0, a)
}

func (tt *TermTable) FIsInf(cfg FloatCfg, a *Term, sign int) *Term {
	if a.IsConst() {
		return tt.Bool(a.r == nil && math.IsInf(a.f, sign))
	}
	if cfg.Dom == SReal {
		return tt.Bool(false)
	}
	inf := tt.mk("fp.isInfinite", SBool, 0, a)
	if sign > 0 {
		return tt.And(inf, tt.mk("fp.isPositive", SBool, 0, a))
	} else if sign < 0 {
		return tt.And(inf, tt.mk("fp.isNegative", SBool, 0, a))
	}
	return inf
}

func (tt *TermTable) FSignbit(cfg FloatCfg, a *Term) *Term {
	if a.IsConst() && a.r == nil {
		return tt.Bool(math.Signbit(a.f))
	}
	if cfg.Dom == SReal {
		// -0 does not exist in Q
		return tt.mk("<", SBool, 0, a, tt.Float(0, SReal))
	}
	// fp.isNegative is false for NaN; Go's Signbit(NaN) depends on the bit. Treat NaN as unsigned (documented).
	return tt.mk("fp.isNegative", SBool, 0, a)
}

// FMin/FMax with Go's math.Min/Max semantics.
func (tt *TermTable) FMinMax(cfg FloatCfg, isMax bool, a, b *Term) *Term {
	if a.IsConst() && b.IsConst() && a.r == nil && b.r == nil {
		if isMax {
			return tt.Float(math.Max(a.f, b.f), a.sort)
		}
		return tt.Float(math.Min(a.f, b.f), a.sort)
	}
	if cfg.Dom == SReal {
		for i, c := range []*Term{a, b} {
			if c.IsConst() && c.r == nil && !isFin(c.f) {
				other := b
				if i == 1 {
					other = a
				}
				if math.IsNaN(c.f) {
					return c
				}
				if (c.f > 0) == isMax {
					return c
				}
				return other
			}
		}
		if isMax {
			return tt.Ite(tt.FCmp(cfg, "<", a, b), b, a)
		}
		return tt.Ite(tt.FCmp(cfg, "<", b, a), b, a)
	}
	// FP: Go semantics (math.Max: +Inf wins over NaN, NaN otherwise propagates, Max(+0,-0)=+0)
	//   ordered and different: the larger/smaller; equal (incl. +-0): by sign bit;
	//   unordered (a NaN is involved): +-Inf if present, else NaN.
	nan := tt.Float(math.NaN(), SFP)
	if isMax {
		inf := tt.Float(math.Inf(1), SFP)
		anyInf := tt.Or(tt.FIsInf(cfg, a, 1), tt.FIsInf(cfg, b, 1))
		eqRes := tt.Ite(tt.mk("fp.isNegative", SBool, 0, a), b, a)
		return tt.Ite(tt.FCmp(cfg, "<", b, a), a, tt.Ite(tt.FCmp(cfg, "<", a, b), b,
			tt.Ite(tt.FCmp(cfg, "==", a, b), eqRes, tt.Ite(anyInf, inf, nan))))
	}
	inf := tt.Float(math.Inf(-1), SFP)
	anyInf := tt.Or(tt.FIsInf(cfg, a, -1), tt.FIsInf(cfg, b, -1))
	eqRes := tt.Ite(tt.mk("fp.isNegative", SBool, 0, a), a, b)
	return tt.Ite(tt.FCmp(cfg, "<", a, b), a, tt.Ite(tt.FCmp(cfg, "<", b, a), b,
		tt.Ite(tt.FCmp(cfg, "==", a, b), eqRes, tt.Ite(anyInf, inf, nan))))
}

// FUnaryMath: sqrt floor ceil trunc round (exact in both domains where possible)
func (tt *TermTable) FUnaryMath(cfg FloatCfg, name string, a *Term) (*Term, error) {
	if a.IsConst() && a.r == nil {
		var r float64
		switch name {
		case "Sqrt":
			r = math.Sqrt(a.f)
		case "Floor":
			r = math.Floor(a.f)
		case "Ceil":
			r = math.Ceil(a.f)
		case "Trunc":
			r = math.Trunc(a.f)
		case "Round":
			r = math.Round(a.f)
		default:
			return nil, fmt.Errorf("FUnaryMath %s", name)
		}
		return tt.Float(r, a.sort), nil
	}
	if cfg.Dom == SReal {
		switch name {
		case "Floor":
			return tt.mk("to_real", SReal, 0, tt.mk("to_int", SInt, 0, a)), nil
		case "Ceil":
			return tt.mk("-", SReal, 0, tt.mk("to_real", SReal, 0, tt.mk("to_int", SInt, 0, tt.mk("-", SReal, 0, a)))), nil
		case "Trunc":
			fl := tt.mk("to_real", SReal, 0, tt.mk("to_int", SInt, 0, a))
			ce := tt.mk("-", SReal, 0, tt.mk("to_real", SReal, 0, tt.mk("to_int", SInt, 0, tt.mk("-", SReal, 0, a))))
			return tt.Ite(tt.mk("<", SBool, 0, a, tt.Float(0, SReal)), ce, fl), nil
		case "Round":
			// half away from zero: sign(a) * floor(|a| + 1/2)
			half := tt.Float(0.5, SReal)
			pos := tt.mk("to_real", SReal, 0, tt.mk("to_int", SInt, 0, tt.mk("+", SReal, 0, a, half)))
			neg := tt.mk("-", SReal, 0, tt.mk("to_real", SReal, 0, tt.mk("to_int", SInt, 0, tt.mk("+", SReal, 0, tt.mk("-", SReal, 0, a), half))))
			return tt.Ite(tt.mk("<", SBool, 0, a, tt.Float(0, SReal)), neg, pos), nil
		}
		return nil, fmt.Errorf("Q domain: math.%s needs an axiomatised stub", name)
	}
	switch name {
	case "Sqrt":
		if cfg.Exact {
			return tt.mk("fp.sqrt", SFP, 0, tt.mk("RNE", SBool, 0), a), nil
		}
		return tt.UF("vf_sqrt", SFP, 0, a), nil
	case "Floor":
		return tt.mk("fp.roundToIntegral", SFP, 0, tt.mk("RTN", SBool, 0), a), nil
	case "Ceil":
		return tt.mk("fp.roundToIntegral", SFP, 0, tt.mk("RTP", SBool, 0), a), nil
	case "Trunc":
		return tt.mk("fp.roundToIntegral", SFP, 0, tt.mk("RTZ", SBool, 0), a), nil
	case "Round":
		return tt.mk("fp.roundToIntegral", SFP, 0, tt.mk("RNA", SBool, 0), a), nil
	}
	return nil, fmt.Errorf("FUnaryMath %s", name)
}

// IntToFloat converts a BV (signedness given) to the float domain.
func (tt *TermTable) IntToFloat(cfg FloatCfg, a *Term, signed bool) *Term {
	if a.IsConst() {
		if signed {
			return tt.Float(float64(sext(a.u, a.w)), cfg.Dom)
		}
		return tt.Float(float64(a.u), cfg.Dom)
	}
	if cfg.Dom == SReal {
		if s := tt.shadowOf(a); s.ok && (signed || s.lo >= 0) {
			return tt.mk("to_real", SReal, 0, s.iv)
		} else if s.ok && a.w <= 50 {
			// unsigned reading of a value whose signed reading may be negative
			u := tt.Ite(tt.mk("<", SBool, 0, s.iv, tt.IntC(0)), tt.mk("+", SInt, 0, s.iv, tt.IntC(int64(1)<<uint(a.w))), s.iv)
			return tt.mk("to_real", SReal, 0, u)
		}
		n := tt.mk("bv2nat", SInt, 0, a)
		if signed {
			// n - 2^w if msb set
			top := tt.mk(fmt.Sprintf("(_ extract %d %d)", a.w-1, a.w-1), SBV, 1, a)
			pw := new(big.Int).Lsh(big.NewInt(1), uint(a.w))
			c := tt.intern("cI:"+pw.String(), func() *Term { return &Term{op: "c", sort: SInt, r: new(big.Rat).SetInt(pw)} })
			n = tt.Ite(tt.Eq(top, tt.BV(1, 1)), tt.mk("-", SInt, 0, n, c), n)
		}
		return tt.mk("to_real", SReal, 0, n)
	}
	if signed {
		return tt.mk("(_ to_fp 11 53)", SFP, 0, tt.mk("RNE", SBool, 0), a)
	}
	return tt.mk("(_ to_fp_unsigned 11 53)", SFP, 0, tt.mk("RNE", SBool, 0), a)
}

// FloatToInt: Go truncates toward zero; out-of-range is implementation-defined (we leave SMT semantics).
func (tt *TermTable) FloatToInt(cfg FloatCfg, a *Term, w int, signed bool) (*Term, error) {
	if a.IsConst() && a.r == nil {
		if signed {
			return tt.BV(uint64(int64(a.f)), w), nil
		}
		return tt.BV(uint64(a.f), w), nil
	}
	if cfg.Dom == SReal {
		// trunc(a) built directly as an Int term (to_int(to_real(k)) = k): keeps the query free
		// of nested to_int/to_real, which z3 does not simplify and then times out on.
		if k, ok := tt.intOfReal(a); ok {
			// the value is structurally an integer (to_real of an Int term, negation, ite): no truncation
			return tt.mk(fmt.Sprintf("(_ int2bv %d)", w), SBV, w, k), nil
		}
		fl := tt.mk("to_int", SInt, 0, a)
		ce := tt.mk("-", SInt, 0, tt.mk("to_int", SInt, 0, tt.mk("-", SReal, 0, a)))
		ti := tt.Ite(tt.mk("<", SBool, 0, a, tt.Float(0, SReal)), ce, fl)
		return tt.mk(fmt.Sprintf("(_ int2bv %d)", w), SBV, w, ti), nil
	}
	if signed {
		return tt.mk(fmt.Sprintf("(_ fp.to_sbv %d)", w), SBV, w, tt.mk("RTZ", SBool, 0), a), nil
	}
	return tt.mk(fmt.Sprintf("(_ fp.to_ubv %d)", w), SBV, w, tt.mk("RTZ", SBool, 0), a), nil
}

// intOfReal: the Int term k with a = to_real(k), if a is built from to_real, unary minus and ite only.
func (tt *TermTable) intOfReal(a *Term) (*Term, bool) {
	if a.sort != SReal {
		return nil, false
	}
	switch {
	case a.op == "to_real" && len(a.args) == 1 && a.args[0].sort == SInt:
		return a.args[0], true
	case a.op == "-" && len(a.args) == 1:
		if k, ok := tt.intOfReal(a.args[0]); ok {
			return tt.intSub(tt.IntC(0), k), true
		}
	case a.op == "ite":
		k1, ok1 := tt.intOfReal(a.args[1])
		k2, ok2 := tt.intOfReal(a.args[2])
		if ok1 && ok2 {
			return tt.Ite(a.args[0], k1, k2), true
		}
	}
	return nil, false
}

// ---- SMT-LIB printing ----

func ratSMT(r *big.Rat) string {
	neg := r.Sign() < 0
	a := new(big.Rat).Abs(r)
	var s string
	if a.IsInt() {
		s = a.Num().String() + ".0"
	} else {
		s = fmt.Sprintf("(/ %s.0 %s.0)", a.Num().String(), a.Denom().String())
	}
	if neg {
		return "(- " + s + ")"
	}
	return s
}

func constSMT(t *Term) string {
	switch t.sort {
	case SBool:
		if t.u == 1 {
			return "true"
		}
		return "false"
	case SBV:
		return fmt.Sprintf("(_ bv%d %d)", t.u, t.w)
	case SFP:
		if math.IsNaN(t.f) {
			return "(_ NaN 11 53)"
		}
		b := math.Float64bits(t.f)
		return fmt.Sprintf("(fp #b%b #b%011b #b%052b)", b>>63, (b>>52)&0x7ff, b&((1<<52)-1))
	case SReal:
		if t.r != nil {
			return ratSMT(t.r)
		}
		if !isFin(t.f) {
			return "NONFINITE_REAL_CONSTANT" // provokes an (error) => inconclusive, never silent
		}
		r := new(big.Rat)
		r.SetFloat64(t.f)
		return ratSMT(r)
	case SInt:
		if t.r.Sign() < 0 {
			return "(- " + new(big.Int).Neg(t.r.Num()).String() + ")"
		}
		return t.r.Num().String()
	}
	return "?"
}

// Printer emits define-funs for composite nodes once per solver session.
type Printer struct {
	defined map[int]bool
	out     *strings.Builder
	tt      *TermTable
	ufDone  map[string]bool
}

func NewPrinter(tt *TermTable) *Printer {
	return &Printer{defined: map[int]bool{}, tt: tt, ufDone: map[string]bool{}}
}

func (p *Printer) ref(t *Term) string {
	switch t.op {
	case "c":
		return constSMT(t)
	case "v":
		return t.name
	case "RNE", "RTN", "RTP", "RTZ", "RNA":
		return t.op
	}
	return fmt.Sprintf("t%d", t.id)
}

// Define makes sure t (and everything below) is defined in the solver; appends text to sb.
func (p *Printer) Define(t *Term, sb *strings.Builder) {
	switch t.op {
	case "c", "RNE", "RTN", "RTP", "RTZ", "RNA":
		return
	}
	if p.defined[t.id] {
		return
	}
	// iterative post-order to avoid deep recursion
	type fr struct {
		t *Term
		i int
	}
	stack := []fr{{t, 0}}
	for len(stack) > 0 {
		top := &stack[len(stack)-1]
		if top.i < len(top.t.args) {
			a := top.t.args[top.i]
			top.i++
			if a.op == "c" || p.defined[a.id] || a.op == "RNE" || a.op == "RTN" || a.op == "RTP" || a.op == "RTZ" || a.op == "RNA" {
				continue
			}
			stack = append(stack, fr{a, 0})
			continue
		}
		n := top.t
		stack = stack[:len(stack)-1]
		if p.defined[n.id] {
			continue
		}
		p.defined[n.id] = true
		if n.op == "v" {
			fmt.Fprintf(sb, "(declare-const %s %s)\n", n.name, sortSMT(n.sort, n.w))
			continue
		}
		if n.uf && !p.ufDone[n.op] {
			p.ufDone[n.op] = true
			sb.WriteString(p.tt.ufDecl[n.op])
			sb.WriteString("\n")
		}
		fmt.Fprintf(sb, "(define-fun t%d () %s (%s", n.id, sortSMT(n.sort, n.w), n.op)
		for _, a := range n.args {
			sb.WriteString(" ")
			sb.WriteString(p.ref(a))
		}
		sb.WriteString("))\n")
	}
}

// Vars collects the variables below the given terms (sorted by name).
func CollectVars(ts []*Term) []*Term {
	seen := map[int]bool{}
	var vs []*Term
	var walk func(t *Term)
	walk = func(t *Term) {
		if seen[t.id] {
			return
		}
		seen[t.id] = true
		if t.op == "v" {
			vs = append(vs, t)
		}
		for _, a := range t.args {
			walk(a)
		}
	}
	for _, t := range ts {
		walk(t)
	}
	sort.Slice(vs, func(i, j int) bool { return vs[i].name < vs[j].name })
	return vs
}

// String renders a term inline (for diagnostics).
func (t *Term) String() string {
	switch t.op {
	case "c":
		if t.sort == SFP || (t.sort == SReal && t.r == nil) {
			return fmt.Sprintf("%v", t.f)
		}
		if t.sort == SBV {
			return fmt.Sprintf("%d", sext(t.u, t.w))
		}
		return constSMT(t)
	case "v":
		return t.name
	}
	var sb strings.Builder
	sb.WriteString("(" + t.op)
	for _, a := range t.args {
		sb.WriteString(" ")
		if sb.Len() > 400 {
			sb.WriteString("...")
			break
		}
		sb.WriteString(a.String())
	}
	sb.WriteString(")")
	return sb.String()
}
