package main

// One long-lived solver process per worker (z3 -in), queries via push/assert/check-sat/pop.
// Any "(error" line makes the answer inconclusive.

import (
	"os"
	"bufio"
	"fmt"
	"io"
	"math"
	"math/big"
	"os/exec"
	"strconv"
	"strings"
	"time"
)

type Result int

const (
	Unsat Result = iota
	Sat
	Unknown
)

func (r Result) String() string { return [...]string{"unsat", "sat", "unknown"}[r] }

type SolverStats struct {
	Queries, NSat, NUnsat, NUnknown int
	Time                            time.Duration
	Restarts                        int
	NLSat                           int // queries decided by the qfnra-nlsat tactic
}

type Solver struct {
	cmdline   []string
	cmd       *exec.Cmd
	in        io.WriteCloser
	out       *bufio.Reader
	pr        *Printer
	tt        *TermTable
	timeoutMs int
	Stats     SolverStats
	log       io.Writer
	nq        int
	z3        bool
	nlFirst   bool // ask the nlsat tactic before the plain check (set per path by vNLFirst)
}

func NewSolver(tt *TermTable, bin string, timeoutMs int) (*Solver, error) {
	s := &Solver{tt: tt, timeoutMs: timeoutMs}
	switch {
	case strings.Contains(bin, "cvc5"):
		s.cmdline = []string{bin, "--incremental", "--produce-models", "--lang=smt2", fmt.Sprintf("--tlimit-per=%d", timeoutMs)}
	default:
		s.cmdline = []string{bin, "-in", "-smt2"}
		s.z3 = true
	}
	if err := s.start(); err != nil {
		return nil, err
	}
	return s, nil
}

func (s *Solver) start() error {
	s.cmd = exec.Command(s.cmdline[0], s.cmdline[1:]...)
	in, err := s.cmd.StdinPipe()
	if err != nil {
		return err
	}
	out, err := s.cmd.StdoutPipe()
	if err != nil {
		return err
	}
	s.cmd.Stderr = nil
	if err := s.cmd.Start(); err != nil {
		return err
	}
	s.in = in
	s.out = bufio.NewReaderSize(out, 1<<20)
	s.pr = NewPrinter(s.tt)
	var sb strings.Builder
	if strings.Contains(s.cmdline[0], "cvc5") {
		sb.WriteString("(set-logic ALL)\n")
	} else {
		fmt.Fprintf(&sb, "(set-option :timeout %d)\n(set-option :pp.decimal false)\n", s.timeoutMs)
	}
	s.send(sb.String())
	return nil
}

func (s *Solver) Close() {
	if s.cmd != nil {
		s.in.Close()
		s.cmd.Process.Kill()
		s.cmd.Wait()
		s.cmd = nil
	}
}

func (s *Solver) restart() {
	s.Close()
	s.Stats.Restarts++
	if err := s.start(); err != nil {
		panic(err)
	}
}

func (s *Solver) send(txt string) {
	if s.log != nil {
		io.WriteString(s.log, txt)
	}
	io.WriteString(s.in, txt)
}

// readSexp reads one line-or-s-expression answer (balanced parentheses).
func (s *Solver) readAnswer() (string, error) { return readAnswerFrom(s.out) }

func readAnswerFrom(out *bufio.Reader) (string, error) {
	var sb strings.Builder
	depth := 0
	started := false
	for {
		line, err := out.ReadString('\n')
		if err != nil {
			return sb.String(), err
		}
		inStr := false
		for _, c := range line {
			if c == '"' {
				inStr = !inStr
			}
			if inStr {
				continue
			}
			if c == '(' {
				depth++
			} else if c == ')' {
				depth--
			}
		}
		sb.WriteString(line)
		if strings.TrimSpace(line) != "" {
			started = true
		}
		if started && depth <= 0 {
			return sb.String(), nil
		}
	}
}

// readAnswerTimed enforces a hard wall-clock limit (z3 does not always honour :timeout, e.g.
// inside nlsat); on expiry the caller restarts the solver and the query counts as unknown.
func (s *Solver) readAnswerTimed() (string, error) {
	type res struct {
		a   string
		err error
	}
	ch := make(chan res, 1)
	out := s.out
	go func() {
		a, err := readAnswerFrom(out)
		ch <- res{a, err}
	}()
	limit := time.Duration(s.timeoutMs)*time.Millisecond*3/2 + 3*time.Second
	select {
	case r := <-ch:
		return r.a, r.err
	case <-time.After(limit):
		return "", fmt.Errorf("no answer within %v", limit)
	}
}

// Check decides the conjunction of the assertions. If wantModel, values of vars are returned.
func (s *Solver) Check(asserts []*Term, wantModel bool) (Result, map[string]string, string) {
	t0 := time.Now()
	defer func() { s.Stats.Time += time.Since(t0) }()
	s.Stats.Queries++
	s.nq++
	if s.nq%4000 == 0 {
		s.restart() // bound solver memory; definitions are re-sent on demand
	}
	var sb strings.Builder
	for _, a := range asserts {
		s.pr.Define(a, &sb)
	}
	sb.WriteString("(push 1)\n")
	for _, a := range asserts {
		fmt.Fprintf(&sb, "(assert %s)\n", s.pr.ref(a))
	}
	// Non-linear real arithmetic: z3's incremental core (what a plain check-sat uses after push)
	// gives up on polynomial queries that its nlsat tactic decides in milliseconds.  A harness
	// whose queries are of that kind asks for the tactic first (vNLFirst); everywhere else the
	// tactic is tried only after the plain check answered unknown.  Where the tactic cannot
	// handle the goal (other theories) it answers unknown and the other answer stands.
	canNL := s.tt.nlReal && s.z3 && os.Getenv("VERIF_NLSAT") != "0"
	tacticCmd := fmt.Sprintf("(check-sat-using (try-for (then simplify qfnra-nlsat) %d))\n(echo \"@nl\")\n", s.timeoutMs)
	readTactic := func() (string, error) {
		// everything up to the echo marker belongs to the tactic's answer
		tactic := ""
		a, e := s.readAnswerTimed()
		for e == nil && strings.Trim(strings.TrimSpace(a), "\"") != "@nl" {
			tactic += " " + strings.TrimSpace(a)
			a, e = s.readAnswerTimed()
		}
		return strings.TrimSpace(tactic), e
	}
	var ans string
	var err error
	if canNL && s.nlFirst {
		sb.WriteString(tacticCmd)
		s.send(sb.String())
		ans, err = readTactic()
		if err == nil {
			if ans == "sat" || ans == "unsat" {
				s.Stats.NLSat++
			} else {
				s.send("(check-sat)\n")
				ans, err = s.readAnswerTimed()
			}
		}
	} else {
		sb.WriteString("(check-sat)\n")
		s.send(sb.String())
		ans, err = s.readAnswerTimed()
		if canNL && err == nil && strings.TrimSpace(ans) == "unknown" {
			s.send(tacticCmd)
			t, e := readTactic()
			err = e
			if e == nil && (t == "sat" || t == "unsat") {
				s.Stats.NLSat++
				ans = t
			}
		}
	}
	if dir := os.Getenv("VERIF_SLOWDIR"); dir != "" && time.Since(t0) > 5*time.Second {
		// debugging aid: keep the text of slow queries (definitions sent earlier are not included)
		// self-contained text: all definitions the assertions depend on
		var full strings.Builder
		fp := NewPrinter(s.pr.tt)
		for _, a := range asserts {
			fp.Define(a, &full)
		}
		for _, a := range asserts {
			fmt.Fprintf(&full, "(assert %s)\n", fp.ref(a))
		}
		full.WriteString("(check-sat)\n")
		os.WriteFile(fmt.Sprintf("%s/slow-%d-%d.smt2", dir, os.Getpid(), s.Stats.Queries), []byte(full.String()+"; answer: "+ans+" after "+time.Since(t0).String()+"\n"), 0o644)
	}
	if err != nil {
		s.Stats.NUnknown++
		s.restart()
		return Unknown, nil, "solver died or exceeded the hard time limit: " + err.Error()
	}
	a := strings.TrimSpace(ans)
	res := Unknown
	note := ""
	switch {
	case strings.Contains(a, "(error"):
		note = a
		// drain: after an error z3 still answers check-sat; read until we see sat/unsat/unknown
		for i := 0; i < 50 && !(strings.HasSuffix(a, "sat") || strings.HasSuffix(a, "unknown")); i++ {
			more, err := s.readAnswer()
			if err != nil {
				break
			}
			a = strings.TrimSpace(more)
			if !strings.Contains(a, "(error") {
				break
			}
			note += " | " + a
		}
		res = Unknown
	case a == "sat":
		res = Sat
	case a == "unsat":
		res = Unsat
	default:
		res = Unknown
		note = a
	}
	var model map[string]string
	if res == Sat && wantModel {
		vars := CollectVars(asserts)
		if len(vars) > 0 {
			var q strings.Builder
			q.WriteString("(get-value (")
			for _, v := range vars {
				q.WriteString(v.name + " ")
			}
			q.WriteString("))\n")
			s.send(q.String())
			mv, err := s.readAnswer()
			if err == nil && !strings.Contains(mv, "(error") {
				model = parseGetValue(mv)
			} else {
				note = "get-value failed: " + mv
			}
		} else {
			model = map[string]string{}
		}
	}
	s.send("(pop 1)\n")
	switch res {
	case Sat:
		s.Stats.NSat++
	case Unsat:
		s.Stats.NUnsat++
	default:
		s.Stats.NUnknown++
	}
	return res, model, note
}

// ---- s-expression parsing of (get-value ...) answers ----

type sexp struct {
	atom string
	list []*sexp
}

func parseSexp(s string) (*sexp, string) {
	s = strings.TrimLeft(s, " \t\r\n")
	if s == "" {
		return nil, ""
	}
	if s[0] == '(' {
		s = s[1:]
		n := &sexp{list: []*sexp{}}
		for {
			s = strings.TrimLeft(s, " \t\r\n")
			if s == "" {
				return n, ""
			}
			if s[0] == ')' {
				return n, s[1:]
			}
			var c *sexp
			c, s = parseSexp(s)
			if c == nil {
				return n, s
			}
			n.list = append(n.list, c)
		}
	}
	i := 0
	for i < len(s) && !strings.ContainsRune(" \t\r\n()", rune(s[i])) {
		i++
	}
	return &sexp{atom: s[:i]}, s[i:]
}

func (e *sexp) String() string {
	if e.list == nil {
		return e.atom
	}
	var parts []string
	for _, c := range e.list {
		parts = append(parts, c.String())
	}
	return "(" + strings.Join(parts, " ") + ")"
}

func parseGetValue(ans string) map[string]string {
	m := map[string]string{}
	e, _ := parseSexp(ans)
	if e == nil {
		return m
	}
	for _, pair := range e.list {
		if len(pair.list) == 2 && pair.list[0].list == nil {
			m[pair.list[0].atom] = pair.list[1].String()
		}
	}
	return m
}

// ModelValue is a decoded model value.
type ModelValue struct {
	Kind string // "bv" "bool" "f64" "real" "int"
	U    uint64
	W    int
	B    bool
	F    float64  // f64 value, or nearest float of a real
	R    *big.Rat // exact real when available
	Raw  string
}

func decodeBits(a string) (uint64, int, bool) {
	if strings.HasPrefix(a, "#x") {
		u, err := strconv.ParseUint(a[2:], 16, 64)
		return u, 4 * (len(a) - 2), err == nil
	}
	if strings.HasPrefix(a, "#b") {
		u, err := strconv.ParseUint(a[2:], 2, 64)
		return u, len(a) - 2, err == nil
	}
	return 0, 0, false
}

func evalNum(e *sexp) (*big.Rat, bool) {
	if e.list == nil {
		a := strings.TrimSuffix(e.atom, "?")
		r := new(big.Rat)
		if _, ok := r.SetString(a); ok {
			return r, true
		}
		return nil, false
	}
	if len(e.list) == 0 || e.list[0].list != nil {
		return nil, false
	}
	op := e.list[0].atom
	var args []*big.Rat
	for _, c := range e.list[1:] {
		r, ok := evalNum(c)
		if !ok {
			return nil, false
		}
		args = append(args, r)
	}
	switch {
	case op == "-" && len(args) == 1:
		return new(big.Rat).Neg(args[0]), true
	case op == "-" && len(args) == 2:
		return new(big.Rat).Sub(args[0], args[1]), true
	case op == "+" && len(args) == 2:
		return new(big.Rat).Add(args[0], args[1]), true
	case op == "*" && len(args) == 2:
		return new(big.Rat).Mul(args[0], args[1]), true
	case op == "/" && len(args) == 2:
		if args[1].Sign() == 0 {
			return nil, false
		}
		return new(big.Rat).Quo(args[0], args[1]), true
	case op == "to_real" && len(args) == 1:
		return args[0], true
	}
	return nil, false
}

func DecodeModelValue(raw string, t *Term) (ModelValue, error) {
	mv := ModelValue{Raw: raw}
	e, _ := parseSexp(raw)
	if e == nil {
		return mv, fmt.Errorf("empty model value")
	}
	switch t.sort {
	case SBool:
		mv.Kind = "bool"
		mv.B = e.atom == "true"
		return mv, nil
	case SBV:
		mv.Kind = "bv"
		mv.W = t.w
		if e.list == nil {
			u, _, ok := decodeBits(e.atom)
			if !ok {
				return mv, fmt.Errorf("bad bv %s", raw)
			}
			mv.U = u
			return mv, nil
		}
		if len(e.list) == 3 && e.list[0].atom == "_" && strings.HasPrefix(e.list[1].atom, "bv") {
			u, err := strconv.ParseUint(e.list[1].atom[2:], 10, 64)
			if err != nil {
				return mv, err
			}
			mv.U = u
			return mv, nil
		}
		return mv, fmt.Errorf("bad bv %s", raw)
	case SFP:
		mv.Kind = "f64"
		if e.list != nil && len(e.list) == 4 && e.list[0].atom == "fp" {
			s, _, ok1 := decodeBits(e.list[1].atom)
			ex, _, ok2 := decodeBits(e.list[2].atom)
			m, _, ok3 := decodeBits(e.list[3].atom)
			if !ok1 || !ok2 || !ok3 {
				return mv, fmt.Errorf("bad fp %s", raw)
			}
			mv.F = math.Float64frombits(s<<63 | ex<<52 | m)
			return mv, nil
		}
		if e.list != nil && len(e.list) == 4 && e.list[0].atom == "_" {
			switch e.list[1].atom {
			case "+zero":
				mv.F = 0
			case "-zero":
				mv.F = math.Copysign(0, -1)
			case "+oo":
				mv.F = math.Inf(1)
			case "-oo":
				mv.F = math.Inf(-1)
			case "NaN":
				mv.F = math.NaN()
			default:
				return mv, fmt.Errorf("bad fp %s", raw)
			}
			return mv, nil
		}
		return mv, fmt.Errorf("bad fp %s", raw)
	case SReal, SInt:
		mv.Kind = "real"
		if t.sort == SInt {
			mv.Kind = "int"
		}
		r, ok := evalNum(e)
		if !ok {
			// algebraic number: (root-obj ...) - not decodable exactly
			return mv, fmt.Errorf("non-rational model value %s", raw)
		}
		mv.R = r
		mv.F, _ = r.Float64()
		return mv, nil
	}
	return mv, fmt.Errorf("unknown sort")
}
