package main

// Path exploration by re-execution: a path is identified by its list of decisions; siblings
// of fresh decisions are queued.  Assumes and asserts are decisions too (forced to 1) so that a
// re-executed prefix costs no solver queries.

import (
	"fmt"
	"math"
	"math/big"
	"math/rand"
	"sort"
	"strconv"
	"strings"
	"sync"
	"time"

	"golang.org/x/tools/go/ssa"
)

type NondetRec struct {
	Stub  bool   `json:"stub,omitempty"` // drawn inside a stub: not part of the replay inputs
	Name  string `json:"name"`
	Kind  string `json:"kind"` // f64 int bool dyadic
	Bits  int    `json:"bits,omitempty"`
	Shift int    `json:"shift,omitempty"`
	term  *Term
}

// InputVal is one concrete nondet value in call order (JSON for the native replay).
type InputVal struct {
	Stub bool   `json:"stub,omitempty"` // drawn inside a stub: used by the interpreter's concrete re-execution only
	Kind string `json:"k"`
	V    string `json:"v"` // f64: hex bits; int/dyadic: decimal; bool: 0/1
	Sh   int    `json:"sh,omitempty"`
}

type Counterexample struct {
	Harness    string
	Obligation string
	Inputs     []InputVal
	Decisions  []int
	Note       string
	Confirmed  bool
	ReplayOut  string
	Class      string
}

type OblStat struct {
	Reached    int
	Discharged int // unsat
	Trivial    int // constant true
	Violated   int
	Unknown    int
	CEs        []*Counterexample
	Notes      map[string]int
}

type HarnessResult struct {
	mu          sync.Mutex
	Name        string
	Paths       int
	PathsByEnd  map[string]int
	Steps       int64
	Obls        map[string]*OblStat
	Unsupported map[string]int
	Bounds      map[string]int
	Witnesses   [][]InputVal
	Funcs       map[string]bool
	Notes       map[string]bool
	Solver      SolverStats
	Items       int
	MaxDec      int
	Samples     []string
	XChecked    int
	Rescued     int // assertion queries the first solver left unknown and the second solver decided
	XDisagree   []string
}

func NewHarnessResult(name string) *HarnessResult {
	return &HarnessResult{Name: name, PathsByEnd: map[string]int{}, Obls: map[string]*OblStat{},
		Unsupported: map[string]int{}, Bounds: map[string]int{}, Funcs: map[string]bool{}, Notes: map[string]bool{}}
}

func (hr *HarnessResult) obl(id string) *OblStat {
	o := hr.Obls[id]
	if o == nil {
		o = &OblStat{Notes: map[string]int{}}
		hr.Obls[id] = o
	}
	return o
}

type Explorer struct {
	in      *Interp
	solver  *Solver
	xsolver *Solver // second solver for cross-checking assertion verdicts (thorough tier)
	rsolver *Solver // second solver asked when the first answers unknown on an assertion (started lazily)
	rescueBin string
	timeoutMs int
	hr      *HarnessResult

	// current path
	prefix    []int
	decisions []int
	pc        []*Term
	nondets   []NondetRec
	newItems  [][]int
	trace     []string

	// concrete mode (selftest / replay inside the interpreter)
	concrete bool
	inputs   []InputVal
	rng      *rand.Rand

	maxDecisions int
	maxCEs       int
	wantWitness  bool
	recordInputs bool
	stubInputs   []InputVal
	used         []InputVal
	knownClass   string
	leanAsserts  bool // proven assertions are not added to the path condition (they are implied by it)
}

func (ex *Explorer) check(extra *Term, model bool) (Result, map[string]string, string) {
	as := make([]*Term, 0, len(ex.pc)+1)
	as = append(as, ex.pc...)
	if extra != nil {
		as = append(as, extra)
	}
	return ex.solver.Check(as, model)
}

func (ex *Explorer) decide(d int, c *Term) {
	ex.decisions = append(ex.decisions, d)
	if c != nil {
		ex.pc = append(ex.pc, c)
	}
}

func (ex *Explorer) Branch(c *Term, why string) bool {
	tt := ex.in.tt
	k := len(ex.decisions)
	if k < len(ex.prefix) {
		d := ex.prefix[k]
		if d == 1 {
			ex.decide(1, c)
			return true
		}
		ex.decide(0, tt.Not(c))
		return false
	}
	if k >= ex.maxDecisions {
		panic(&pathEnd{"bound", fmt.Sprintf("more than %d symbolic decisions on one path (unwinding bound)", ex.maxDecisions)})
	}
	r1, _, _ := ex.check(c, false)
	if r1 == Unsat {
		ex.decide(0, tt.Not(c))
		return false
	}
	r0, _, _ := ex.check(tt.Not(c), false)
	if r0 != Unsat {
		sib := append(append([]int{}, ex.decisions...), 0)
		ex.newItems = append(ex.newItems, sib)
	}
	ex.decide(1, c)
	return true
}

// Choose returns a concrete integer in [lo,hi]; every alternative becomes a path.
func (ex *Explorer) Choose(lo, hi int) int {
	if ex.concrete {
		v := ex.nextInput("int")
		n, _ := strconv.ParseInt(v.V, 10, 64)
		if int(n) < lo || int(n) > hi {
			return lo
		}
		return int(n)
	}
	k := len(ex.decisions)
	if k < len(ex.prefix) {
		d := ex.prefix[k]
		ex.decide(d, nil)
		ex.nondets = append(ex.nondets, NondetRec{Name: fmt.Sprintf("choose=%d", d-2+lo), Kind: "choose"})
		return d - 2 + lo
	}
	for v := lo + 1; v <= hi; v++ {
		sib := append(append([]int{}, ex.decisions...), v-lo+2)
		ex.newItems = append(ex.newItems, sib)
	}
	ex.decide(2, nil)
	ex.nondets = append(ex.nondets, NondetRec{Name: fmt.Sprintf("choose=%d", lo), Kind: "choose"})
	return lo
}

func (ex *Explorer) Assume(c *Term) {
	if c.IsConst() {
		if c.u == 0 {
			if ex.concrete {
				ex.trace = append(ex.trace, "assume-violated")
			}
			panic(&pathEnd{"infeasible", "assume(false)"})
		}
		return
	}
	k := len(ex.decisions)
	if k < len(ex.prefix) {
		ex.decide(1, c)
		ex.in.tt.learnBounds(c)
		return
	}
	r, _, _ := ex.check(c, false)
	if r == Unsat {
		panic(&pathEnd{"infeasible", "assumption unsatisfiable on this path"})
	}
	ex.decide(1, c)
	ex.in.tt.learnBounds(c)
}

// AssertI: interpreter-only assertion (natively a no-op): its trace line starts with '#' so that
// it is ignored when interpreter and native traces are compared.
func (ex *Explorer) AssertI(id string, c *Term) {
	if ex.concrete {
		if c.IsConst() {
			ex.trace = append(ex.trace, fmt.Sprintf("#iassert %s %d", id, c.u))
			return
		}
		panic(unsupported("symbolic assert in concrete mode"))
	}
	ex.Assert(id, c)
}

func (ex *Explorer) Assert(id string, c *Term) {
	if ex.concrete {
		if c.IsConst() {
			ex.trace = append(ex.trace, fmt.Sprintf("assert %s %d", id, c.u))
			return
		}
		panic(unsupported("symbolic assert in concrete mode"))
	}
	tt := ex.in.tt
	hr := ex.hr
	k := len(ex.decisions)
	inPrefix := k < len(ex.prefix)
	if c.IsConst() {
		if c.u == 1 {
			if !inPrefix {
				hr.mu.Lock()
				o := hr.obl(id)
				o.Reached++
				o.Trivial++
				hr.mu.Unlock()
			}
			ex.decide(1, nil)
			return
		}
		if !inPrefix {
			ex.violation(id, nil, "assertion is constant false on this path")
		}
		panic(&pathEnd{"stop", "assert false"})
	}
	if inPrefix {
		if ex.prefix[k] == 2 {
			ex.decide(2, nil) // proven when first reached and left out of the path condition
		} else {
			ex.decide(1, c)
		}
		return
	}
	hr.mu.Lock()
	hr.obl(id).Reached++
	hr.mu.Unlock()
	r, model, note := ex.check(tt.Not(c), true)
	if r == Unknown && ex.rescueBin != "" {
		if ex.rsolver == nil {
			if rs, err := NewSolver(tt, ex.rescueBin, ex.timeoutMs); err == nil {
				ex.rsolver = rs
			} else {
				ex.rescueBin = ""
			}
		}
		if ex.rsolver != nil {
			as := append(append([]*Term{}, ex.pc...), tt.Not(c))
			r2, m2, n2 := ex.rsolver.Check(as, true)
			if r2 != Unknown {
				r, model, note = r2, m2, n2
				hr.mu.Lock()
				hr.Rescued++
				hr.mu.Unlock()
			}
		}
	}
	if ex.xsolver != nil && r != Unknown {
		as := append(append([]*Term{}, ex.pc...), tt.Not(c))
		r2, _, _ := ex.xsolver.Check(as, false)
		hr.mu.Lock()
		hr.XChecked++
		if r2 != Unknown && r2 != r {
			hr.XDisagree = append(hr.XDisagree, fmt.Sprintf("%s: %s says %s, cross-check solver says %s", id, ex.solver.cmdline[0], r, r2))
		}
		hr.mu.Unlock()
	}
	switch r {
	case Unsat:
		hr.mu.Lock()
		hr.obl(id).Discharged++
		hr.mu.Unlock()
		if ex.leanAsserts {
			ex.decide(2, nil)
		} else {
			ex.decide(1, c)
		}
		return
	case Unknown:
		hr.mu.Lock()
		o := hr.obl(id)
		o.Unknown++
		o.Notes[trunc(note, 200)]++
		hr.mu.Unlock()
	case Sat:
		ex.recordCE(id, model, "")
	}
	r2, _, _ := ex.check(c, false)
	if r2 == Unsat {
		panic(&pathEnd{"stop", "assertion fails for every input of this path"})
	}
	ex.decide(1, c)
}

func trunc(s string, n int) string {
	s = strings.Join(strings.Fields(s), " ")
	if len(s) > n {
		return s[:n] + "..."
	}
	return s
}

// violation records a counterexample for the current path condition.
func (ex *Explorer) violation(id string, extra *Term, note string) {
	r, model, n2 := ex.check(extra, true)
	if r == Sat {
		ex.recordCE(id, model, note)
		return
	}
	ex.hr.mu.Lock()
	o := ex.hr.obl(id)
	if r == Unknown {
		o.Unknown++
		o.Notes[trunc(note+" / "+n2, 200)]++
	}
	ex.hr.mu.Unlock()
}

func (ex *Explorer) inputsFromModel(model map[string]string) ([]InputVal, string) {
	var ins []InputVal
	note := ""
	for _, nd := range ex.nondets {
		if nd.Kind == "choose" {
			ins = append(ins, InputVal{Kind: "int", V: strings.TrimPrefix(nd.Name, "choose=")})
			continue
		}
		raw, ok := model[nd.Name]
		var mv ModelValue
		var err error
		if ok {
			mv, err = DecodeModelValue(raw, nd.term)
			if err != nil {
				note += fmt.Sprintf("[%s: %v] ", nd.Name, err)
			}
		}
		iv := InputVal{Kind: nd.Kind, Stub: nd.Stub}
		switch nd.Kind {
		case "f64":
			f := 0.0
			if ok && err == nil {
				f = mv.F
				if mv.R != nil {
					if back := new(big.Rat).SetFloat64(f); back == nil || back.Cmp(mv.R) != 0 {
						note += fmt.Sprintf("[%s rounded to float64] ", nd.Name)
					}
				}
			}
			iv.V = fmt.Sprintf("%016x", math.Float64bits(f))
		case "int":
			v := int64(0)
			if ok && err == nil {
				if mv.R != nil {
					v = mv.R.Num().Int64()
				} else {
					v = sext(mv.U, nd.Bits)
				}
			}
			iv.V = strconv.FormatInt(v, 10)
		case "bool":
			iv.V = "0"
			if ok && err == nil && mv.B {
				iv.V = "1"
			}
		case "dyadic":
			v := int64(0)
			if ok && err == nil {
				if mv.R != nil {
					v = mv.R.Num().Int64()
				} else {
					v = sext(mv.U, nd.Bits)
				}
			}
			iv.V = strconv.FormatInt(v, 10)
			iv.Sh = nd.Shift
		}
		ins = append(ins, iv)
	}
	return ins, note
}

func (ex *Explorer) recordCE(id string, model map[string]string, note string) {
	ins, n2 := ex.inputsFromModel(model)
	ce := &Counterexample{Harness: ex.hr.Name, Obligation: id, Inputs: ins, Decisions: append([]int{}, ex.decisions...), Note: note + n2, Class: ex.knownClass}
	ex.hr.mu.Lock()
	o := ex.hr.obl(id)
	o.Violated++
	// cap per (obligation, known-finding class) so that known counterexamples never crowd out
	// one that lies outside every listed class
	same := 0
	for _, c := range o.CEs {
		if c.Class == ce.Class {
			same++
		}
	}
	if same < ex.maxCEs {
		o.CEs = append(o.CEs, ce)
	}
	ex.hr.mu.Unlock()
}

// ---- nondeterministic inputs ----

func (ex *Explorer) nextInput(kind string) InputVal {
	v := ex.nextInput1(kind)
	ex.used = append(ex.used, v)
	return v
}

func (ex *Explorer) nextInput1(kind string) InputVal {
	if len(ex.inputs) > 0 {
		v := ex.inputs[0]
		ex.inputs = ex.inputs[1:]
		return v
	}
	if !ex.recordInputs {
		// exhausted model: zero values, exactly as the native runtime does
		if kind == "f64" {
			return InputVal{Kind: "f64", V: "0000000000000000"}
		}
		return InputVal{Kind: kind, V: "0"}
	}
	// random self-test vector: pseudo-random small values, recorded for the native run
	switch kind {
	case "f64":
		return InputVal{Kind: "f64", V: fmt.Sprintf("%016x", math.Float64bits(float64(ex.rng.Intn(33)-16)/4))}
	case "bool":
		return InputVal{Kind: "bool", V: strconv.Itoa(ex.rng.Intn(2))}
	}
	return InputVal{Kind: kind, V: strconv.Itoa(ex.rng.Intn(9) - 2)}
}

// Known marks the rest of the path as lying inside the region of a listed known finding.
func (ex *Explorer) Known(id string, c *Term) {
	if ex.concrete {
		return
	}
	kf, ok := knownFindings[id]
	if !ok || kf.Fixed {
		return
	}
	if ex.in.branch(c, "known-finding region") {
		ex.knownClass = id
	}
}

func (ex *Explorer) Nondet(kind string, bits, shift int) *Term {
	tt := ex.in.tt
	dom := ex.in.cfg.Dom
	asInt := kind == "intq" // bounded integer meant for float arithmetic: an Int variable in the rational domain
	if asInt {
		kind = "int"
	}
	if ex.concrete && ex.in.inStub > 0 && len(ex.stubInputs) == 0 {
		// a "!" stub in a concrete run without model values for it: zero values
		switch kind {
		case "f64", "dyadic":
			return tt.Float(0, dom)
		case "bool":
			return tt.Bool(false)
		}
		return tt.BV(0, bits)
	}
	if ex.concrete {
		var v InputVal
		if ex.in.inStub > 0 {
			v = ex.stubInputs[0]
			ex.stubInputs = ex.stubInputs[1:]
		} else {
			v = ex.nextInput(kind)
		}
		ex.nondets = append(ex.nondets, NondetRec{Kind: kind})
		switch kind {
		case "f64":
			u, _ := strconv.ParseUint(v.V, 16, 64)
			return tt.Float(math.Float64frombits(u), dom)
		case "int":
			n, _ := strconv.ParseInt(v.V, 10, 64)
			return tt.BV(uint64(n), bits)
		case "bool":
			return tt.Bool(v.V == "1")
		case "dyadic":
			n, _ := strconv.ParseInt(v.V, 10, 64)
			return tt.Float(float64(n)/float64(uint64(1)<<uint(shift)), dom)
		}
	}
	idx := len(ex.nondets)
	var t, val *Term
	var name string
	switch kind {
	case "f64":
		name = fmt.Sprintf("f%d", idx)
		t = tt.Var(name, dom, 0)
		val = t
	case "int":
		if asInt && dom == SReal && bits <= 32 {
			// rational domain: a bounded integer draw is an Int variable (its bit-vector value is
			// int2bv of it), so that conversions to float and back stay in integer/real arithmetic
			// (see shadow.go)
			name = fmt.Sprintf("j%d_%d", idx, bits)
			t = tt.Var(name, SInt, 0)
			lim := int64(1) << uint(bits-1)
			ex.pc = append(ex.pc, tt.mk("<=", SBool, 0, tt.IntC(-lim), t), tt.mk("<=", SBool, 0, t, tt.IntC(lim-1)))
			tt.setBounds(t, -lim, lim-1)
			val = tt.mk(fmt.Sprintf("(_ int2bv %d)", bits), SBV, bits, t)
		} else {
			name = fmt.Sprintf("i%d_%d", idx, bits)
			t = tt.Var(name, SBV, bits)
			val = t
		}
	case "bool":
		name = fmt.Sprintf("b%d", idx)
		t = tt.Var(name, SBool, 0)
		val = t
	case "dyadic":
		scale := 1.0 / float64(uint64(1)<<uint(shift))
		if dom == SReal {
			name = fmt.Sprintf("g%d", idx)
			t = tt.Var(name, SInt, 0)
			lim := int64(1) << uint(bits-1)
			ex.pc = append(ex.pc, tt.mk("<=", SBool, 0, tt.IntC(-lim), t), tt.mk("<=", SBool, 0, t, tt.IntC(lim-1)))
			val = tt.mk("*", SReal, 0, tt.mk("to_real", SReal, 0, t), tt.Float(scale, SReal))
		} else {
			name = fmt.Sprintf("d%d_%d", idx, bits)
			t = tt.Var(name, SBV, bits)
			val = tt.mk("fp.mul", SFP, 0, tt.mk("RNE", SBool, 0), tt.mk("(_ to_fp 11 53)", SFP, 0, tt.mk("RNE", SBool, 0), t), tt.Float(scale, SFP))
		}
	}
	ex.nondets = append(ex.nondets, NondetRec{Name: name, Kind: kind, Bits: bits, Shift: shift, term: t, Stub: ex.in.inStub > 0})
	return val
}

// ---- running one path ----

type pathOutcome struct {
	kind string // done panic unsupported bound infeasible stop
	msg  string
}

func (ex *Explorer) runPath(h *ssa.Function, prefix []int) (out pathOutcome) {
	ex.prefix = prefix
	ex.decisions = ex.decisions[:0]
	ex.pc = ex.pc[:0]
	ex.in.tt.resetShadows() // interval facts learnt from assumptions are path-local
	ex.nondets = ex.nondets[:0]
	ex.newItems = nil
	ex.trace = nil
	ex.used = nil
	ex.knownClass = ""
	ex.leanAsserts = false
	if ex.solver != nil {
		ex.solver.nlFirst = false
	}
	in := ex.in
	in.resetPath()
	defer func() {
		if r := recover(); r != nil {
			switch e := r.(type) {
			case *pathEnd:
				out = pathOutcome{e.kind, e.msg}
			case *progPanic:
				out = pathOutcome{"panic", e.msg}
			default:
				panic(r)
			}
		}
	}()
	in.call(FuncV{fn: h}, nil, nil)
	return pathOutcome{"done", ""}
}

// ---- work distribution ----

type workItem struct {
	h      *ssa.Function
	hr     *HarnessResult
	prefix []int
}

type Pool struct {
	mu       sync.Mutex
	cond     *sync.Cond
	items    []workItem
	inflight int
	deadline time.Time
	maxPaths int
	stopped  bool
}

func (p *Pool) push(it workItem) {
	p.mu.Lock()
	p.items = append(p.items, it)
	p.mu.Unlock()
	p.cond.Signal()
}

func (p *Pool) pop() (workItem, bool) {
	p.mu.Lock()
	defer p.mu.Unlock()
	for {
		if len(p.items) > 0 {
			it := p.items[len(p.items)-1] // LIFO: depth first keeps the queue small
			p.items = p.items[:len(p.items)-1]
			p.inflight++
			return it, true
		}
		if p.inflight == 0 {
			p.cond.Broadcast()
			return workItem{}, false
		}
		p.cond.Wait()
	}
}

func (p *Pool) done() {
	p.mu.Lock()
	p.inflight--
	if p.inflight == 0 && len(p.items) == 0 {
		p.cond.Broadcast()
	}
	p.mu.Unlock()
}

type RunConfig struct {
	XCheckBin    string
	RescueBin    string
	Workers      int
	SolverBin    string
	TimeoutMs    int
	MaxSteps     int64
	MaxDecisions int
	MaxPaths     int
	Deadline     time.Duration
	Verbose      bool
}

func domainOf(name string) FloatCfg {
	switch {
	case strings.HasSuffix(name, "_Q"):
		return FloatCfg{Dom: SReal}
	case strings.HasSuffix(name, "_FPX"):
		return FloatCfg{Dom: SFP, Exact: true}
	}
	return FloatCfg{Dom: SFP}
}

func domainName(c FloatCfg) string {
	switch {
	case c.Dom == SReal:
		return "Q (exact rational arithmetic)"
	case c.Exact:
		return "FP (IEEE binary64, exact arithmetic)"
	}
	return "FP (IEEE binary64 values; + - * / sqrt uninterpreted)"
}

// Explore runs all harnesses to completion (or the deadline) on a worker pool.
func Explore(prog *ssa.Program, harnesses []*ssa.Function, rc RunConfig) []*HarnessResult {
	pool := &Pool{}
	pool.cond = sync.NewCond(&pool.mu)
	start := time.Now()
	var results []*HarnessResult
	for _, h := range harnesses {
		hr := NewHarnessResult(h.Name())
		results = append(results, hr)
		pool.items = append(pool.items, workItem{h: h, hr: hr})
	}
	var wg sync.WaitGroup
	for w := 0; w < rc.Workers; w++ {
		wg.Add(1)
		go func(w int) {
			defer wg.Done()
			interps := map[FloatCfg]*Explorer{}
			defer func() {
				for _, ex := range interps {
					ex.solver.Close()
					if ex.xsolver != nil {
						ex.xsolver.Close()
					}
					if ex.rsolver != nil {
						ex.rsolver.Close()
					}
				}
			}()
			for {
				it, ok := pool.pop()
				if !ok {
					return
				}
				func() {
					defer pool.done()
					cfg := domainOf(it.h.Name())
					ex := interps[cfg]
					if ex == nil {
						ex = &Explorer{maxDecisions: rc.MaxDecisions, maxCEs: 3, rng: rand.New(rand.NewSource(1))}
						ex.in = NewInterp(prog, cfg, ex)
						ex.in.maxSteps = rc.MaxSteps
						s, err := NewSolver(ex.in.tt, rc.SolverBin, rc.TimeoutMs)
						if err != nil {
							panic(err)
						}
						ex.solver = s
						ex.rescueBin, ex.timeoutMs = rc.RescueBin, rc.TimeoutMs
						if rc.XCheckBin != "" {
							if xs, err := NewSolver(ex.in.tt, rc.XCheckBin, rc.TimeoutMs); err == nil {
								ex.xsolver = xs
							}
						}
						ex.in.ensureInit(it.h.Pkg)
						interps[cfg] = ex
					}
					ex.hr = it.hr
					hr := it.hr
					if rc.Deadline > 0 && time.Since(start) > rc.Deadline {
						hr.mu.Lock()
						hr.Bounds["deadline reached: unexplored work items dropped"]++
						hr.mu.Unlock()
						return
					}
					hr.mu.Lock()
					over := rc.MaxPaths > 0 && hr.Paths >= rc.MaxPaths
					if over {
						hr.Bounds[fmt.Sprintf("path budget %d reached: unexplored work items dropped", rc.MaxPaths)]++
					}
					hr.mu.Unlock()
					if over {
						return
					}
					before := ex.solver.Stats
					out := ex.runPath(it.h, it.prefix)
					after := ex.solver.Stats
					if out.kind == "panic" && len(ex.decisions) >= len(it.prefix) {
						ex.violation(it.h.Name()+".nopanic", nil, out.msg)
					}
					var wit []InputVal
					hr.mu.Lock()
					needWit := out.kind == "done" && len(hr.Witnesses) < 2
					hr.mu.Unlock()
					if needWit {
						if r, model, _ := ex.check(nil, true); r == Sat {
							wit, _ = ex.inputsFromModel(model)
						}
					}
					hr.mu.Lock()
					hr.Paths++
					hr.PathsByEnd[out.kind]++
					hr.Steps += ex.in.steps
					hr.Items++
					if len(ex.decisions) > hr.MaxDec {
						hr.MaxDec = len(ex.decisions)
					}
					switch out.kind {
					case "unsupported":
						hr.Unsupported[out.msg]++
					case "bound":
						hr.Bounds[out.msg]++
					}
					if wit != nil {
						hr.Witnesses = append(hr.Witnesses, wit)
					}
					if len(hr.Samples) < 3 && out.kind == "done" {
						hr.Samples = append(hr.Samples, fmt.Sprintf("path decisions=%v pc-size=%d nondets=%d", ex.decisions, len(ex.pc), len(ex.nondets)))
					}
					for f := range ex.in.funcsSeen {
						hr.Funcs[f] = true
					}
					for n := range ex.in.notes {
						hr.Notes[n] = true
					}
					hr.Solver.Queries += after.Queries - before.Queries
					hr.Solver.NSat += after.NSat - before.NSat
					hr.Solver.NUnsat += after.NUnsat - before.NUnsat
					hr.Solver.NUnknown += after.NUnknown - before.NUnknown
					hr.Solver.NLSat += after.NLSat - before.NLSat
					hr.Solver.Time += after.Time - before.Time
					hr.mu.Unlock()
					if rc.Verbose {
						fmt.Printf("  [w%d] %s path %v -> %s %s (steps %d, new %d)\n", w, it.h.Name(), ex.decisions, out.kind, out.msg, ex.in.steps, len(ex.newItems))
					}
					for _, sib := range ex.newItems {
						pool.push(workItem{h: it.h, hr: hr, prefix: sib})
					}
				}()
			}
		}(w)
	}
	wg.Wait()
	return results
}

// RunConcrete executes a harness in the interpreter on concrete inputs and returns the trace.
func RunConcrete(prog *ssa.Program, h *ssa.Function, inputs []InputVal, seed int64, maxSteps int64) (trace []string, outcome pathOutcome, used int) {
	var plain, stubbed []InputVal
	for _, iv := range inputs {
		if iv.Stub {
			stubbed = append(stubbed, iv)
		} else {
			plain = append(plain, iv)
		}
	}
	ex := &Explorer{concrete: true, inputs: plain, stubInputs: stubbed, rng: rand.New(rand.NewSource(seed)), maxDecisions: 1 << 30}
	ex.in = NewInterp(prog, domainOf(h.Name()), ex)
	ex.in.maxSteps = maxSteps
	ex.hr = NewHarnessResult(h.Name())
	ex.in.ensureInit(h.Pkg)
	out := ex.runPath(h, nil)
	tr := append([]string{}, ex.trace...)
	switch out.kind {
	case "panic":
		tr = append(tr, "panic")
	case "done", "istop":
		tr = append(tr, "end")
	}
	return tr, out, len(ex.nondets)
}

func sortedKeys(m map[string]int) []string {
	var ks []string
	for k := range m {
		ks = append(ks, k)
	}
	sort.Strings(ks)
	return ks
}
