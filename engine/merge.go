package main

// If-conversion: at a branch on a symbolic condition whose arms are pure (no stores to older
// objects, no panics, no returns, no solver forks) and re-join at the immediate post-dominator,
// both arms are executed and the phis of the join block become ite-terms.  This removes the
// path explosion of && / || chains and small if/else diamonds.  Anything else falls back to
// forking.

import (
	"go/types"

	"golang.org/x/tools/go/ssa"
)

type specAbort struct{ why string }

type leaf struct {
	cond   *Term
	pred   *ssa.BasicBlock
	locals map[ssa.Value]Value
	ret    Value
}

const maxLeaves = 12
const maxSpecSteps = 600

var ipdomCache = map[*ssa.Function][]int{}

// ipdoms computes immediate post-dominators (block index -> block index, -1 = exit/none).
func ipdoms(fn *ssa.Function) []int {
	n := len(fn.Blocks)
	exit := n
	// pdom sets as bitsets over n+1 nodes
	type set []uint64
	words := (n + 1 + 63) / 64
	full := func() set {
		s := make(set, words)
		for i := range s {
			s[i] = ^uint64(0)
		}
		return s
	}
	pd := make([]set, n+1)
	for i := 0; i <= n; i++ {
		pd[i] = full()
	}
	pd[exit] = make(set, words)
	pd[exit][exit/64] |= 1 << uint(exit%64)
	succs := func(i int) []int {
		b := fn.Blocks[i]
		if len(b.Succs) == 0 {
			return []int{exit}
		}
		var r []int
		for _, s := range b.Succs {
			r = append(r, s.Index)
		}
		return r
	}
	changed := true
	for changed {
		changed = false
		for i := n - 1; i >= 0; i-- {
			ns := full()
			for _, s := range succs(i) {
				for w := range ns {
					ns[w] &= pd[s][w]
				}
			}
			ns[i/64] |= 1 << uint(i%64)
			for w := range ns {
				if ns[w] != pd[i][w] {
					changed = true
				}
			}
			pd[i] = ns
		}
	}
	has := func(s set, i int) bool { return s[i/64]&(1<<uint(i%64)) != 0 }
	count := func(s set) int {
		c := 0
		for i := 0; i <= n; i++ {
			if has(s, i) {
				c++
			}
		}
		return c
	}
	res := make([]int, n)
	for i := 0; i < n; i++ {
		res[i] = -1
		// the immediate post-dominator is the strict post-dominator with the largest pdom set
		best, bestCount := -1, -1
		for j := 0; j <= n; j++ {
			if j != i && has(pd[i], j) {
				if c := count(pd[j]); c > bestCount {
					best, bestCount = j, c
				}
			}
		}
		if best >= 0 && best != exit {
			res[i] = best
		}
	}
	return res
}

func (in *Interp) ipdom(b *ssa.BasicBlock) *ssa.BasicBlock {
	fn := b.Parent()
	in.ipdomMu.Lock()
	t, ok := ipdomCache[fn]
	if !ok {
		t = ipdoms(fn)
		ipdomCache[fn] = t
	}
	in.ipdomMu.Unlock()
	if j := t[b.Index]; j >= 0 {
		return fn.Blocks[j]
	}
	return nil
}

func copyLocals(m map[ssa.Value]Value) map[ssa.Value]Value {
	c := make(map[ssa.Value]Value, len(m)+8)
	for k, v := range m {
		c[k] = v
	}
	return c
}

// tryMerge attempts if-conversion of the branch ending block b on condition c.
// If the arms do not re-join but all of them return (and the function has no defers), the
// merged return value is produced instead (join == nil, isRet == true).
func (in *Interp) tryMerge(fr *frame, b *ssa.BasicBlock, c *Term) (join *ssa.BasicBlock, ok bool, retVal Value, isRet bool) {
	if in.noMerge {
		return nil, false, nil, false
	}
	J := in.ipdom(b)
	if J == nil && len(fr.defers) > 0 {
		return nil, false, nil, false
	}
	var leaves []leaf
	budget := maxSpecSteps
	startObj := in.nobj
	savedSpec := in.specFloor
	in.spec++
	if in.spec == 1 {
		in.specFloor = startObj
	}
	savedSteps := in.steps
	defer func() {
		in.spec--
		in.specFloor = savedSpec
		if r := recover(); r != nil {
			if _, isAbort := r.(*specAbort); isAbort {
				in.mergeAborts++
				join, ok, retVal, isRet = nil, false, nil, false
				return
			}
			panic(r)
		}
	}()
	var explore func(x *ssa.BasicBlock, from *ssa.BasicBlock, cond *Term, locals map[ssa.Value]Value)
	explore = func(x *ssa.BasicBlock, from *ssa.BasicBlock, cond *Term, locals map[ssa.Value]Value) {
		sf := &frame{fn: fr.fn, locals: locals, env: fr.env, prev: from}
		for {
			if J != nil && x == J {
				if len(leaves) >= maxLeaves {
					panic(&specAbort{"too many leaves"})
				}
				leaves = append(leaves, leaf{cond: cond, pred: sf.prev, locals: sf.locals})
				return
			}
			if x == b || x.Dominates(b) {
				// re-entering a block that dominates the branch (loop back edge) would redefine
				// values that are live after the join
				panic(&specAbort{"loop back edge"})
			}
			var next *ssa.BasicBlock
			sf.phiDone = nil
			in.parallelPhis(sf, x)
			for _, instr := range x.Instrs {
				budget--
				in.steps++
				if budget <= 0 {
					panic(&specAbort{"speculation budget"})
				}
				switch y := instr.(type) {
				case *ssa.Jump:
					next = x.Succs[0]
				case *ssa.If:
					c2 := in.term(in.eval(sf, y.Cond))
					if c2.IsConst() {
						if c2.u == 1 {
							next = x.Succs[0]
						} else {
							next = x.Succs[1]
						}
					} else {
						explore(x.Succs[0], x, in.tt.And(cond, c2), copyLocals(sf.locals))
						explore(x.Succs[1], x, in.tt.And(cond, in.tt.Not(c2)), sf.locals)
						return
					}
				case *ssa.Return:
					if J != nil {
						panic(&specAbort{"return in arm of a re-joining branch"})
					}
					if len(leaves) >= maxLeaves {
						panic(&specAbort{"too many leaves"})
					}
					var ret Value
					switch len(y.Results) {
					case 0:
						ret = &Agg{}
					case 1:
						ret = in.eval(sf, y.Results[0])
					default:
						e := make([]Value, len(y.Results))
						for i, r := range y.Results {
							e[i] = in.eval(sf, r)
						}
						ret = &Agg{e}
					}
					leaves = append(leaves, leaf{cond: cond, ret: ret})
					return
				case *ssa.Panic, *ssa.RunDefers, *ssa.Defer, *ssa.Go:
					panic(&specAbort{"control transfer in arm"})
				default:
					in.exec(sf, instr)
				}
				if next != nil {
					break
				}
			}
			sf.prev = x
			x = next
		}
	}
	explore(b.Succs[0], b, c, copyLocals(fr.locals))
	explore(b.Succs[1], b, in.tt.Not(c), copyLocals(fr.locals))
	if len(leaves) == 0 {
		return nil, false, nil, false
	}
	if J == nil {
		var acc Value
		for li := len(leaves) - 1; li >= 0; li-- {
			if acc == nil {
				acc = leaves[li].ret
				continue
			}
			m, ok := in.mergeVal(leaves[li].cond, leaves[li].ret, acc)
			if !ok {
				panic(&specAbort{"unmergeable return values"})
			}
			acc = m
		}
		in.merges++
		return nil, true, acc, true
	}
	// phis of the join block
	newVals := map[ssa.Value]Value{}
	for _, instr := range J.Instrs {
		phi, isPhi := instr.(*ssa.Phi)
		if !isPhi {
			break
		}
		var acc Value
		for li := len(leaves) - 1; li >= 0; li-- {
			lf := leaves[li]
			var v Value
			found := false
			for i, p := range J.Preds {
				if p == lf.pred {
					sf := &frame{fn: fr.fn, locals: lf.locals, env: fr.env}
					v = in.eval(sf, phi.Edges[i])
					found = true
					break
				}
			}
			if !found {
				panic(&specAbort{"phi edge not found"})
			}
			if acc == nil {
				acc = v
				continue
			}
			m, ok := in.mergeVal(lf.cond, v, acc)
			if !ok {
				panic(&specAbort{"unmergeable phi"})
			}
			acc = m
		}
		newVals[phi] = acc
	}
	for k, v := range newVals {
		fr.locals[k] = v
	}
	in.merges++
	_ = savedSteps
	return J, true, nil, false
}

// mergeVal builds ite(c,a,b) structurally; ok=false if the values cannot be merged.
func (in *Interp) mergeVal(c *Term, a, b Value) (Value, bool) {
	switch x := a.(type) {
	case *Term:
		y, ok := b.(*Term)
		if !ok || x.sort != y.sort || x.w != y.w {
			return nil, false
		}
		if x != y && x.sort == SReal && ((x.IsConst() && x.r == nil && !isFin(x.f)) || (y.IsConst() && y.r == nil && !isFin(y.f))) {
			// NaN/Inf exist only as constants in the rational domain: no ite over them
			return nil, false
		}
		return in.tt.Ite(c, x, y), true
	case *Agg:
		y, ok := b.(*Agg)
		if !ok || len(x.e) != len(y.e) {
			return nil, false
		}
		if x == y {
			return x, true
		}
		e := make([]Value, len(x.e))
		for i := range e {
			m, ok := in.mergeVal(c, x.e[i], y.e[i])
			if !ok {
				return nil, false
			}
			e[i] = m
		}
		return &Agg{e}, true
	case Ptr:
		y, ok := b.(Ptr)
		if ok && x.obj == y.obj && samePath(x.path, y.path) {
			return x, true
		}
	case SliceV:
		y, ok := b.(SliceV)
		if ok && x.obj == y.obj && samePath(x.path, y.path) && x.off == y.off && x.n == y.n && x.c == y.c {
			return x, true
		}
	case StrV:
		y, ok := b.(StrV)
		if ok && len(x.b) == len(y.b) {
			nb := make([]*Term, len(x.b))
			for i := range nb {
				nb[i] = in.tt.Ite(c, x.b[i], y.b[i])
			}
			return StrV{nb}, true
		}
	case MapV:
		y, ok := b.(MapV)
		if ok && x.obj == y.obj {
			return x, true
		}
	case IfaceV:
		y, ok := b.(IfaceV)
		if ok {
			if x.t == nil && y.t == nil {
				return x, true
			}
			if x.t != nil && y.t != nil && types.Identical(x.t, y.t) {
				m, ok := in.mergeVal(c, x.v, y.v)
				if ok {
					return IfaceV{x.t, m}, true
				}
			}
		}
	case FuncV:
		y, ok := b.(FuncV)
		if ok && x.fn == y.fn && x.builtin == y.builtin && len(x.env) == 0 && len(y.env) == 0 {
			return x, true
		}
	}
	return nil, false
}
