package main

// Integer shadows of bit-vector terms (rational domain only).
//
// Go code mixes machine integers and floats: float64(a-b), int(x+0.5), sums of such values.  Encoded
// naively every int->float conversion is bv2nat of a compound bit-vector term and every float->int
// conversion is int2bv of an Int term; z3 does not see through bv2nat(bvsub(int2bv(..),..)) and
// returns unknown.  A shadow is an Int-sorted term that equals the *signed* value of a bit-vector
// term, together with an interval [lo,hi] that proves that no operation on the way wrapped around.
// Shadows are derived structurally (intervals of the harness's bounded draws, constants, extension,
// truncation that provably keeps the value, add/sub/neg, multiplication by a constant, masking with
// 2^k-1, ite, and int2bv of an Int term whose value is provably in range).  Where a shadow exists the
// conversion to Real and comparisons use it, so the query stays in linear integer/real arithmetic.
// Every rewrite is an equivalence under the proven interval; nothing is assumed.

import (
	"fmt"
	"math"
	"math/big"
	"strings"
)

type shadow struct {
	iv      *Term
	lo, hi  int64
	ok      bool
	fromInt bool // contains a value that came from an Int/Real term (int2bv)
}

const shLimit = int64(1) << 52

type shadowTables struct {
	sh   map[int]shadow
	rb   map[int][2]float64
	no   map[int]bool
	half map[int][2]float64 // variables with only one bound so far
}

func (st *shadowTables) halfSet(id int, b [2]float64) map[int][2]float64 {
	if st.half == nil {
		st.half = map[int][2]float64{}
	}
	st.half[id] = b
	return st.half
}

func (tt *TermTable) shTabs() *shadowTables {
	if tt.shadows == nil {
		tt.shadows = &shadowTables{sh: map[int]shadow{}, rb: map[int][2]float64{}, no: map[int]bool{}}
	}
	return tt.shadows
}

func (tt *TermTable) resetShadows() { tt.shadows = nil }

// learnBounds records interval facts of the form  const <= var, var <= const (also <, >=, >, and
// conjunctions of them) from an assumption that has just become part of the path condition.  The
// tables are reset at the start of every path, so a fact is only used on the path that assumed it.
func (tt *TermTable) learnBounds(c *Term) {
	switch {
	case c.op == "and":
		for _, a := range c.args {
			tt.learnBounds(a)
		}
	case c.op == "ite" && len(c.args) == 3 && c.args[2].IsConst() && c.args[2].sort == SBool && c.args[2].u == 0:
		tt.learnBounds(c.args[0])
		tt.learnBounds(c.args[1])
	case (c.op == "<=" || c.op == "<" || c.op == ">=" || c.op == ">") && len(c.args) == 2:
		a, b := c.args[0], c.args[1]
		op := c.op
		if a.IsConst() && !b.IsConst() {
			// const op x  ==  x op' const
			a, b = b, a
			op = map[string]string{"<=": ">=", "<": ">", ">=": "<=", ">": "<"}[op]
		}
		if a.op == "to_real" && len(a.args) == 1 {
			a = a.args[0]
		}
		if a.op != "v" || !b.IsConst() || (a.sort != SReal && a.sort != SInt) {
			return
		}
		v, _, ok := tt.realBounds1(b)
		if !ok {
			return
		}
		st := tt.shTabs()
		cur, has := st.rb[a.id]
		if !has {
			if h, ok := st.half[a.id]; ok {
				cur = h
			} else {
				cur = [2]float64{math.Inf(-1), math.Inf(1)}
			}
		}
		if op == "<=" || op == "<" {
			cur[1] = math.Min(cur[1], v)
		} else {
			cur[0] = math.Max(cur[0], v)
		}
		if !math.IsInf(cur[0], 0) && !math.IsInf(cur[1], 0) {
			st.rb[a.id] = cur
			delete(st.no, a.id)
			// anything memoised as "unknown" may now be known
			st.no = map[int]bool{}
		} else {
			st.half = st.halfSet(a.id, cur)
		}
	}
}

func fitsSigned(lo, hi int64, w int) bool {
	if lo > hi || lo <= -shLimit || hi >= shLimit {
		return false
	}
	if w >= 64 {
		return true
	}
	return lo >= -(int64(1)<<uint(w-1)) && hi <= (int64(1)<<uint(w-1))-1
}

// realBounds: an interval that contains the value of an Int or Real term, if one is known.
func (tt *TermTable) realBounds(t *Term) (float64, float64, bool) {
	st := tt.shTabs()
	if b, ok := st.rb[t.id]; ok {
		return b[0], b[1], true
	}
	if st.no[t.id] {
		return 0, 0, false
	}
	lo, hi, ok := tt.realBounds1(t)
	if ok && (math.IsNaN(lo) || math.IsNaN(hi) || math.IsInf(lo, 0) || math.IsInf(hi, 0) || lo > hi) {
		ok = false
	}
	if ok {
		// outward slack for the float64 evaluation of the bounds
		lo -= math.Abs(lo)*1e-12 + 1e-12
		hi += math.Abs(hi)*1e-12 + 1e-12
		st.rb[t.id] = [2]float64{lo, hi}
	} else {
		st.no[t.id] = true
	}
	return lo, hi, ok
}

func (tt *TermTable) realBounds1(t *Term) (float64, float64, bool) {
	if t.sort != SInt && t.sort != SReal {
		return 0, 0, false
	}
	if t.IsConst() {
		if t.r != nil {
			f, _ := t.r.Float64()
			return f, f, true
		}
		return t.f, t.f, !math.IsNaN(t.f) && !math.IsInf(t.f, 0)
	}
	arg := func(i int) (float64, float64, bool) { return tt.realBounds(t.args[i]) }
	switch t.op {
	case "to_real":
		return arg(0)
	case "to_int":
		lo, hi, ok := arg(0)
		return math.Floor(lo), math.Floor(hi), ok
	case "bv2nat":
		w := t.args[0].w
		if w > 52 {
			return 0, 0, false
		}
		return 0, float64(uint64(1)<<uint(w)) - 1, true
	case "+":
		lo, hi := 0.0, 0.0
		for i := range t.args {
			l, h, ok := arg(i)
			if !ok {
				return 0, 0, false
			}
			lo, hi = lo+l, hi+h
		}
		return lo, hi, true
	case "-":
		if len(t.args) == 1 {
			l, h, ok := arg(0)
			return -h, -l, ok
		}
		if len(t.args) == 2 {
			l0, h0, ok0 := arg(0)
			l1, h1, ok1 := arg(1)
			return l0 - h1, h0 - l1, ok0 && ok1
		}
	case "*":
		if len(t.args) == 2 {
			l0, h0, ok0 := arg(0)
			l1, h1, ok1 := arg(1)
			if !ok0 || !ok1 {
				return 0, 0, false
			}
			c := []float64{l0 * l1, l0 * h1, h0 * l1, h0 * h1}
			lo, hi := c[0], c[0]
			for _, v := range c[1:] {
				lo, hi = math.Min(lo, v), math.Max(hi, v)
			}
			return lo, hi, true
		}
	case "/":
		if len(t.args) == 2 && t.args[1].IsConst() {
			l0, h0, ok0 := arg(0)
			d, _, ok1 := arg(1)
			if !ok0 || !ok1 || d == 0 {
				return 0, 0, false
			}
			a, b := l0/d, h0/d
			return math.Min(a, b), math.Max(a, b), true
		}
	case "div":
		if len(t.args) == 2 && t.args[1].IsConst() {
			l0, h0, ok0 := arg(0)
			d, _, ok1 := arg(1)
			if ok0 && ok1 && d > 0 {
				return math.Floor(l0 / d), math.Floor(h0 / d), true
			}
		}
	case "mod":
		if len(t.args) == 2 && t.args[1].IsConst() {
			d, _, ok := arg(1)
			if ok && d > 0 {
				return 0, d - 1, true
			}
		}
	case "ite":
		l0, h0, ok0 := arg(1)
		l1, h1, ok1 := arg(2)
		return math.Min(l0, l1), math.Max(h0, h1), ok0 && ok1
	}
	return 0, 0, false
}

func (tt *TermTable) setBounds(t *Term, lo, hi int64) {
	tt.shTabs().rb[t.id] = [2]float64{float64(lo), float64(hi)}
}

// shadowOf: the signed value of a bit-vector term as an Int term, if derivable without wrap-around.
func (tt *TermTable) shadowOf(t *Term) shadow {
	if t.sort != SBV || t.w > 64 || t.w < 1 {
		return shadow{}
	}
	st := tt.shTabs()
	if s, ok := st.sh[t.id]; ok {
		return s
	}
	s := tt.shadowOf1(t)
	if s.ok && !fitsSigned(s.lo, s.hi, t.w) {
		s = shadow{}
	}
	if s.ok {
		tt.setBounds(s.iv, s.lo, s.hi)
	}
	st.sh[t.id] = s
	return s
}

func (tt *TermTable) shadowOf1(t *Term) shadow {
	w := t.w
	if t.IsConst() {
		v := sext(t.u, w)
		if v <= -shLimit || v >= shLimit {
			return shadow{}
		}
		return shadow{iv: tt.IntC(v), lo: v, hi: v, ok: true}
	}
	switch {
	case t.op == "v":
		if w > 32 {
			return shadow{}
		}
		n := tt.mk("bv2nat", SInt, 0, t)
		iv := n
		if w > 1 {
			top := tt.mk(fmt.Sprintf("(_ extract %d %d)", w-1, w-1), SBV, 1, t)
			iv = tt.Ite(tt.Eq(top, tt.BV(1, 1)), tt.mk("-", SInt, 0, n, tt.IntC(int64(1)<<uint(w))), n)
		} else {
			iv = tt.mk("-", SInt, 0, n) // 1-bit signed: 0 or -1
		}
		return shadow{iv: iv, lo: -(int64(1) << uint(w-1)), hi: (int64(1) << uint(w-1)) - 1, ok: true}
	case strings.HasPrefix(t.op, "(_ sign_extend "):
		return tt.shadowOf(t.args[0])
	case strings.HasPrefix(t.op, "(_ zero_extend "):
		a := t.args[0]
		s := tt.shadowOf(a)
		if !s.ok {
			return s
		}
		if s.lo >= 0 {
			return s
		}
		if a.w > 51 {
			return shadow{}
		}
		pw := int64(1) << uint(a.w)
		iv := tt.Ite(tt.mk("<", SBool, 0, s.iv, tt.IntC(0)), tt.mk("+", SInt, 0, s.iv, tt.IntC(pw)), s.iv)
		return shadow{iv: iv, lo: 0, hi: pw - 1, ok: true, fromInt: s.fromInt}
	case strings.HasPrefix(t.op, "(_ extract "):
		var h, l int
		if _, err := fmt.Sscanf(t.op, "(_ extract %d %d)", &h, &l); err != nil || l != 0 {
			return shadow{}
		}
		s := tt.shadowOf(t.args[0])
		if !s.ok {
			return shadow{}
		}
		if fitsSigned(s.lo, s.hi, h+1) {
			return s
		}
		if h+1 > 50 {
			return shadow{}
		}
		// truncation that may change the value: two's complement wrap-around, exactly
		half, full := int64(1)<<uint(h), int64(1)<<uint(h+1)
		iv := tt.intSub(tt.mk("mod", SInt, 0, tt.intAdd(s.iv, tt.IntC(half)), tt.IntC(full)), tt.IntC(half))
		return shadow{iv: iv, lo: -half, hi: half - 1, ok: true, fromInt: s.fromInt}
	case t.op == "bvadd" || t.op == "bvsub":
		a, b := tt.shadowOf(t.args[0]), tt.shadowOf(t.args[1])
		if !a.ok || !b.ok {
			return shadow{}
		}
		if t.op == "bvadd" {
			return shadow{iv: tt.intAdd(a.iv, b.iv), lo: a.lo + b.lo, hi: a.hi + b.hi, ok: true, fromInt: a.fromInt || b.fromInt}
		}
		return shadow{iv: tt.intSub(a.iv, b.iv), lo: a.lo - b.hi, hi: a.hi - b.lo, ok: true, fromInt: a.fromInt || b.fromInt}
	case t.op == "bvneg":
		a := tt.shadowOf(t.args[0])
		if !a.ok {
			return a
		}
		return shadow{iv: tt.intSub(tt.IntC(0), a.iv), lo: -a.hi, hi: -a.lo, ok: true, fromInt: a.fromInt}
	case (t.op == "bvlshr" || t.op == "bvashr") && t.args[1].IsConst():
		k := t.args[1].u
		a := tt.shadowOf(t.args[0])
		if !a.ok || k >= uint64(w) || k > 50 || w > 51 && a.lo < 0 && t.op == "bvlshr" {
			return shadow{}
		}
		d := int64(1) << k
		if t.op == "bvashr" || a.lo >= 0 {
			// floor division (SMT div rounds towards minus infinity for a positive divisor)
			fl := func(x int64) int64 {
				q := x / d
				if x%d != 0 && x < 0 {
					q--
				}
				return q
			}
			return shadow{iv: tt.mk("div", SInt, 0, a.iv, tt.IntC(d)), lo: fl(a.lo), hi: fl(a.hi), ok: true, fromInt: a.fromInt}
		}
		// logical shift of a possibly negative value: shift its unsigned reading
		full := int64(1) << uint(w)
		u := tt.mk("mod", SInt, 0, a.iv, tt.IntC(full))
		return shadow{iv: tt.mk("div", SInt, 0, u, tt.IntC(d)), lo: 0, hi: (full - 1) / d, ok: true, fromInt: a.fromInt}
	case t.op == "bvmul":
		x, y := t.args[0], t.args[1]
		if y.IsConst() {
			x, y = y, x
		}
		if !x.IsConst() {
			return shadow{}
		}
		c := sext(x.u, w)
		b := tt.shadowOf(y)
		if !b.ok || c <= -(1<<20) || c >= (1<<20) || b.lo <= -(1<<31) || b.hi >= (1<<31) {
			return shadow{}
		}
		lo, hi := c*b.lo, c*b.hi
		if lo > hi {
			lo, hi = hi, lo
		}
		return shadow{iv: tt.mk("*", SInt, 0, tt.IntC(c), b.iv), lo: lo, hi: hi, ok: true, fromInt: b.fromInt}
	case t.op == "bvand":
		x, y := t.args[0], t.args[1]
		if y.IsConst() {
			x, y = y, x
		}
		if !x.IsConst() {
			return shadow{}
		}
		m := x.u
		if m == 0 || m&(m+1) != 0 || m >= uint64(shLimit) { // not of the form 2^k-1
			return shadow{}
		}
		b := tt.shadowOf(y)
		if !b.ok {
			return shadow{}
		}
		if b.lo >= 0 && b.hi <= int64(m) {
			return b
		}
		return shadow{iv: tt.mk("mod", SInt, 0, b.iv, tt.IntC(int64(m)+1)), lo: 0, hi: int64(m), ok: true, fromInt: b.fromInt}
	case t.op == "ite":
		a, b := tt.shadowOf(t.args[1]), tt.shadowOf(t.args[2])
		if !a.ok || !b.ok {
			return shadow{}
		}
		lo, hi := a.lo, a.hi
		if b.lo < lo {
			lo = b.lo
		}
		if b.hi > hi {
			hi = b.hi
		}
		return shadow{iv: tt.Ite(t.args[0], a.iv, b.iv), lo: lo, hi: hi, ok: true, fromInt: a.fromInt || b.fromInt}
	case strings.HasPrefix(t.op, "(_ int2bv "):
		k := t.args[0]
		lo, hi, ok := tt.realBounds(k)
		if !ok || lo <= -float64(shLimit) || hi >= float64(shLimit) {
			return shadow{}
		}
		return shadow{iv: k, lo: int64(math.Floor(lo)), hi: int64(math.Ceil(hi)), ok: true, fromInt: true}
	}
	return shadow{}
}

func intConst(t *Term) (int64, bool) {
	if t.IsConst() && t.sort == SInt && t.r != nil && t.r.IsInt() && t.r.Num().IsInt64() {
		return t.r.Num().Int64(), true
	}
	return 0, false
}

func (tt *TermTable) intAdd(a, b *Term) *Term {
	if x, ok := intConst(a); ok {
		if y, ok := intConst(b); ok {
			return tt.IntC(x + y)
		}
		if x == 0 {
			return b
		}
	}
	if y, ok := intConst(b); ok && y == 0 {
		return a
	}
	return tt.mk("+", SInt, 0, a, b)
}

func (tt *TermTable) intSub(a, b *Term) *Term {
	if y, ok := intConst(b); ok {
		if x, ok := intConst(a); ok {
			return tt.IntC(x - y)
		}
		if y == 0 {
			return a
		}
	}
	if x, ok := intConst(a); ok && x == 0 {
		return tt.mk("-", SInt, 0, b)
	}
	return tt.mk("-", SInt, 0, a, b)
}

// shadowCmp: a comparison of two bit-vector terms through their shadows, when at least one of
// them carries a value that came from the Int/Real side (pure bit-vector comparisons are left to
// the bit-vector solver).  op is one of = < <= > >= ; signed tells the source signedness.
func (tt *TermTable) shadowCmp(op string, signed bool, x, y *Term) (*Term, bool) {
	a, b := tt.shadowOf(x), tt.shadowOf(y)
	if !a.ok || !b.ok || !(a.fromInt || b.fromInt) {
		return nil, false
	}
	if !signed && op != "=" && (a.lo < 0 || b.lo < 0) {
		return nil, false
	}
	if op == "=" {
		return tt.Eq(a.iv, b.iv), true
	}
	return tt.mk(op, SBool, 0, a.iv, b.iv), true
}

var _ = big.NewInt
