package main

import (
	"fmt"
	"go/types"

	"golang.org/x/tools/go/ssa"
)

// Value is one of: *Term (bool/int/float scalar), *Agg, Ptr, SliceV, StrV, MapV, IfaceV, FuncV,
// *IterV, Poison.
type Value interface{}

// Agg is an immutable aggregate: struct fields, array elements or a tuple.
type Agg struct{ e []Value }

// Obj is a heap cell; the only mutable thing in the interpreter's memory.
type Obj struct {
	id   int
	val  Value
	name string
}

// Ptr addresses a location inside an object. obj==nil is the nil pointer.
// If sym!=nil the pointer addresses element sym (0<=sym<symN, already checked) of the
// aggregate at path.
type Ptr struct {
	obj  *Obj
	path []int
	sym  *Term
	symN int
	fn   *ssa.Function // pointer-like identity for function values stored as unsafe things (unused)
}

// SliceV: backing aggregate lives at obj/path; nil slice has obj==nil.
type SliceV struct {
	obj       *Obj
	path      []int
	off, n, c int
}

// StrV is a string with concrete length and (possibly symbolic) bytes.
type StrV struct{ b []*Term }

type MapData struct {
	keys []Value
	vals []Value
}

type MapV struct{ obj *Obj } // obj.val is *MapData; nil map has obj==nil

type IfaceV struct {
	t types.Type // dynamic type; nil for the nil interface
	v Value
}

type FuncV struct {
	fn      *ssa.Function
	env     []Value
	builtin *ssa.Builtin
	recv    Value // bound method receiver (for method values via MakeClosure wrappers this is unused)
	native  string
}

type IterV struct {
	str  *StrV
	m    *MapData
	pos  int
	done bool
}

type Poison struct{ why string }

func (in *Interp) newObj(v Value, name string) *Obj {
	in.nobj++
	o := &Obj{id: in.nobj, val: v, name: name}
	if in.initMode {
		in.persistent = append(in.persistent, o)
	}
	return o
}

func isNilPtr(v Value) bool {
	p, ok := v.(Ptr)
	return ok && p.obj == nil
}

func intWidth(b *types.Basic) int {
	switch b.Kind() {
	case types.Int8, types.Uint8:
		return 8
	case types.Int16, types.Uint16:
		return 16
	case types.Int32, types.Uint32:
		return 32
	case types.Int, types.Uint, types.Int64, types.Uint64, types.Uintptr, types.UntypedInt, types.UntypedRune:
		return 64
	}
	return 0
}

func isSigned(b *types.Basic) bool {
	return b.Info()&types.IsInteger != 0 && b.Info()&types.IsUnsigned == 0
}

func (in *Interp) zero(t types.Type) Value {
	switch u := t.Underlying().(type) {
	case *types.Basic:
		switch {
		case u.Info()&types.IsBoolean != 0:
			return in.tt.Bool(false)
		case u.Info()&types.IsInteger != 0:
			return in.tt.BV(0, intWidth(u))
		case u.Info()&types.IsFloat != 0:
			return in.tt.Float(0, in.cfg.Dom)
		case u.Info()&types.IsString != 0:
			return StrV{}
		case u.Kind() == types.UnsafePointer:
			return Ptr{}
		case u.Kind() == types.UntypedNil:
			return Ptr{}
		}
		return Poison{"zero of " + t.String()}
	case *types.Pointer:
		return Ptr{}
	case *types.Slice:
		return SliceV{}
	case *types.Map:
		return MapV{}
	case *types.Struct:
		e := make([]Value, u.NumFields())
		for i := range e {
			e[i] = in.zero(u.Field(i).Type())
		}
		return &Agg{e}
	case *types.Array:
		n := int(u.Len())
		e := make([]Value, n)
		if n > 0 {
			z := in.zero(u.Elem())
			for i := range e {
				e[i] = z // values are immutable, sharing is fine
			}
		}
		return &Agg{e}
	case *types.Interface:
		return IfaceV{}
	case *types.Signature:
		return FuncV{}
	case *types.Tuple:
		e := make([]Value, u.Len())
		for i := range e {
			e[i] = in.zero(u.At(i).Type())
		}
		return &Agg{e}
	case *types.Chan:
		return Ptr{}
	}
	return Poison{"zero of " + t.String()}
}

func getPath(v Value, path []int) Value {
	for _, i := range path {
		a, ok := v.(*Agg)
		if !ok {
			if p, isP := v.(Poison); isP {
				return p
			}
			panic(unsupported(fmt.Sprintf("getPath through %T", v)))
		}
		if i < 0 || i >= len(a.e) {
			panic(unsupported("getPath index out of aggregate"))
		}
		v = a.e[i]
	}
	return v
}

func setPath(v Value, path []int, nv Value) Value {
	if len(path) == 0 {
		return nv
	}
	a, ok := v.(*Agg)
	if !ok {
		panic(unsupported(fmt.Sprintf("setPath through %T", v)))
	}
	e := make([]Value, len(a.e))
	copy(e, a.e)
	e[path[0]] = setPath(a.e[path[0]], path[1:], nv)
	return &Agg{e}
}

func (p Ptr) extend(i int) Ptr {
	np := make([]int, len(p.path)+1)
	copy(np, p.path)
	np[len(p.path)] = i
	return Ptr{obj: p.obj, path: np}
}

func samePath(a, b []int) bool {
	if len(a) != len(b) {
		return false
	}
	for i := range a {
		if a[i] != b[i] {
			return false
		}
	}
	return true
}

// merge builds ite(c, a, b) structurally.
func (in *Interp) merge(c *Term, a, b Value) Value {
	switch x := a.(type) {
	case *Term:
		y, ok := b.(*Term)
		if !ok || x.sort != y.sort || x.w != y.w {
			panic(unsupported("merge of different scalars"))
		}
		return in.tt.Ite(c, x, y)
	case *Agg:
		y, ok := b.(*Agg)
		if !ok || len(x.e) != len(y.e) {
			panic(unsupported("merge of different aggregates"))
		}
		if x == y {
			return x
		}
		e := make([]Value, len(x.e))
		for i := range e {
			e[i] = in.merge(c, x.e[i], y.e[i])
		}
		return &Agg{e}
	case Ptr:
		y, ok := b.(Ptr)
		if ok && x.obj == y.obj && samePath(x.path, y.path) && x.sym == y.sym {
			return x
		}
	case SliceV:
		y, ok := b.(SliceV)
		if ok && x.obj == y.obj && samePath(x.path, y.path) && x.off == y.off && x.n == y.n && x.c == y.c {
			return x
		}
	case StrV:
		y, ok := b.(StrV)
		if ok && len(x.b) == len(y.b) {
			nb := make([]*Term, len(x.b))
			for i := range nb {
				nb[i] = in.tt.Ite(c, x.b[i], y.b[i])
			}
			return StrV{nb}
		}
	case MapV:
		y, ok := b.(MapV)
		if ok && x.obj == y.obj {
			return x
		}
	case IfaceV:
		y, ok := b.(IfaceV)
		if ok && ((x.t == nil && y.t == nil) || (x.t != nil && y.t != nil && types.Identical(x.t, y.t))) {
			if x.t == nil {
				return x
			}
			return IfaceV{x.t, in.merge(c, x.v, y.v)}
		}
	case FuncV:
		y, ok := b.(FuncV)
		if ok && x.fn == y.fn && len(x.env) == 0 && len(y.env) == 0 {
			return x
		}
	}
	// cannot merge: decide the condition by forking
	if in.branch(c, "merge") {
		return a
	}
	return b
}

func (in *Interp) load(p Ptr) Value {
	if p.obj == nil {
		in.goPanic("nil pointer dereference")
	}
	base := getPath(p.obj.val, p.path)
	if p.sym == nil {
		return base
	}
	a, ok := base.(*Agg)
	if !ok {
		panic(unsupported("symbolic index into non-aggregate"))
	}
	var res Value = a.e[p.symN-1]
	for i := p.symN - 2; i >= 0; i-- {
		res = in.merge(in.tt.Eq(p.sym, in.tt.BV(uint64(i), p.sym.w)), a.e[i], res)
	}
	return res
}

func (in *Interp) store(p Ptr, v Value) {
	if p.obj == nil {
		in.goPanic("nil pointer dereference (store)")
	}
	if in.spec > 0 && p.obj.id <= in.specFloor {
		panic(&specAbort{"store to an older object in arm"})
	}
	in.nstores++
	in.watchNote(p.obj)
	if in.storeLog != nil {
		in.storeLog(p, v)
	}
	if p.sym == nil {
		p.obj.val = setPath(p.obj.val, p.path, v)
		return
	}
	base := getPath(p.obj.val, p.path)
	a := base.(*Agg)
	e := make([]Value, len(a.e))
	copy(e, a.e)
	for i := 0; i < p.symN; i++ {
		e[i] = in.merge(in.tt.Eq(p.sym, in.tt.BV(uint64(i), p.sym.w)), v, a.e[i])
	}
	p.obj.val = setPath(p.obj.val, p.path, &Agg{e})
}

func (s SliceV) elemPtr(i int) Ptr {
	np := make([]int, len(s.path)+1)
	copy(np, s.path)
	np[len(s.path)] = s.off + i
	return Ptr{obj: s.obj, path: np}
}

func (in *Interp) sliceElems(s SliceV) []Value {
	if s.obj == nil || s.n == 0 {
		return nil
	}
	a := getPath(s.obj.val, s.path).(*Agg)
	return a.e[s.off : s.off+s.n]
}

func (in *Interp) newSlice(elems []Value, capacity int, zero Value) SliceV {
	e := make([]Value, capacity)
	copy(e, elems)
	for i := len(elems); i < capacity; i++ {
		e[i] = zero
	}
	o := in.newObj(&Agg{e}, "slice")
	return SliceV{obj: o, off: 0, n: len(elems), c: capacity}
}

func (in *Interp) strConst(s string) StrV {
	b := make([]*Term, len(s))
	for i := 0; i < len(s); i++ {
		b[i] = in.tt.BV(uint64(s[i]), 8)
	}
	return StrV{b}
}

func (s StrV) concrete() (string, bool) {
	bs := make([]byte, len(s.b))
	for i, t := range s.b {
		if !t.IsConst() {
			return "", false
		}
		bs[i] = byte(t.u)
	}
	return string(bs), true
}
