package main

// Frame watch: vWatchGlobals() marks every heap object that is reachable from the package-level
// variables of the packages under test (not the harness's own vh* variables); every later store
// into a marked object is recorded.  vWatchedWrites() returns how many distinct marked objects
// were written.  Used for "an operation keeps no state in package-level variables" (C20): such a
// write is what makes two concurrent calls race, and what makes a result depend on earlier calls.

import (
	"strings"

	"golang.org/x/tools/go/ssa"
)

func (in *Interp) watchMark(v Value, label string, seen map[*Obj]bool) {
	switch x := v.(type) {
	case nil:
	case *Agg:
		if x == nil {
			return
		}
		for _, e := range x.e {
			in.watchMark(e, label, seen)
		}
	case Ptr:
		in.watchObj(x.obj, label, seen)
	case SliceV:
		in.watchObj(x.obj, label, seen)
	case MapV:
		in.watchObj(x.obj, label, seen)
	case *MapData:
		if x == nil {
			return
		}
		for _, k := range x.keys {
			in.watchMark(k, label, seen)
		}
		for _, e := range x.vals {
			in.watchMark(e, label, seen)
		}
	case IfaceV:
		in.watchMark(x.v, label, seen)
	case FuncV:
		for _, e := range x.env {
			in.watchMark(e, label, seen)
		}
		in.watchMark(x.recv, label, seen)
	}
}

func (in *Interp) watchObj(o *Obj, label string, seen map[*Obj]bool) {
	if o == nil || seen[o] {
		return
	}
	seen[o] = true
	in.watch[o] = label
	in.watchMark(o.val, label, seen)
}

// atomicStore: a store by a sync/atomic operation - sanctioned synchronisation, not a frame violation.
func (in *Interp) atomicStore(p Ptr, v Value) {
	in.watchOff++
	in.store(p, v)
	in.watchOff--
}

func (in *Interp) watchNote(o *Obj) {
	if in.watch == nil || o == nil || in.watchOff > 0 {
		return
	}
	if label, ok := in.watch[o]; ok {
		if in.watchHit == nil {
			in.watchHit = map[*Obj]string{}
		}
		in.watchHit[o] = label
	}
}

func init() {
	harnessPrims["vWatchGlobals"] = func(in *Interp, fn *ssa.Function, a []Value, s ssa.Instruction) (Value, bool) {
		in.watch = map[*Obj]string{}
		in.watchHit = nil
		seen := map[*Obj]bool{}
		for g, o := range in.globals {
			if g.Pkg == nil || !strings.HasPrefix(g.Pkg.Pkg.Path(), "github.com/tdewolff/canvas") {
				continue
			}
			n := g.Name()
			if strings.HasPrefix(n, "vh") || strings.HasPrefix(n, "vH") || strings.HasPrefix(n, "zz") || strings.HasPrefix(n, "init$") {
				continue
			}
			in.watchObj(o, g.Pkg.Pkg.Name()+"."+n, seen)
		}
		return unit(), true
	}
	harnessPrims["vWatchValue"] = func(in *Interp, fn *ssa.Function, a []Value, s ssa.Instruction) (Value, bool) {
		// marks everything reachable from the argument (an object shared between calls, e.g. a
		// loaded font); adds to the marks that exist
		if in.watch == nil {
			in.watch = map[*Obj]string{}
		}
		in.watchMark(a[0], "shared object", map[*Obj]bool{})
		return unit(), true
	}
	harnessPrims["vWatchedWrites"] = func(in *Interp, fn *ssa.Function, a []Value, s ssa.Instruction) (Value, bool) {
		n := len(in.watchHit)
		for _, l := range in.watchHit {
			in.notes["write to watched state: "+l] = true
		}
		return in.tt.BV(uint64(n), 64), true
	}
}
