package main

import (
	"bufio"
	"crypto/sha1"
	"encoding/json"
	"fmt"
	"math"
	"math/rand"
	"os"
	"path/filepath"
	"sort"
	"strconv"
	"strings"
	"time"

	"golang.org/x/tools/go/ssa"
)

type knownFinding struct {
	Property, ID, Text string
	Fixed              bool
}

var knownFindings map[string]knownFinding

func loadKnownFindings() map[string]knownFinding {
	m := map[string]knownFinding{}
	f, err := os.Open(filepath.Join(verifRoot, "known_findings.txt"))
	if err != nil {
		return m
	}
	defer f.Close()
	sc := bufio.NewScanner(f)
	for sc.Scan() {
		line := strings.TrimSpace(sc.Text())
		if line == "" || strings.HasPrefix(line, "#") {
			continue
		}
		// finding: property=C05 id=D3 <text>      |  fixed: property=C08 <commit> id=D1 <text>
		kind, rest, ok := strings.Cut(line, ":")
		if !ok {
			continue
		}
		kf := knownFinding{Fixed: strings.TrimSpace(kind) == "fixed"}
		var text []string
		for _, w := range strings.Fields(rest) {
			switch {
			case strings.HasPrefix(w, "property=") && kf.Property == "":
				kf.Property = strings.TrimPrefix(w, "property=")
			case strings.HasPrefix(w, "id=") && kf.ID == "":
				kf.ID = strings.TrimPrefix(w, "id=")
			default:
				text = append(text, w)
			}
		}
		kf.Text = strings.Join(text, " ")
		if kf.ID != "" {
			m[kf.ID] = kf
		}
	}
	return m
}

type tierCfg struct {
	TimeoutMs    int
	MaxSteps     int64
	MaxDecisions int
	MaxPaths     int
	Deadline     time.Duration
	Selftests    int
}

func tierConfig(tier string) tierCfg {
	if tier == "thorough" {
		return tierCfg{TimeoutMs: 60000, MaxSteps: 20_000_000, MaxDecisions: 1500, MaxPaths: 400000, Deadline: 40 * time.Minute, Selftests: 20}
	}
	return tierCfg{TimeoutMs: 15000, MaxSteps: 5_000_000, MaxDecisions: 600, MaxPaths: 60000, Deadline: 6 * time.Minute, Selftests: 6}
}

type oblEvidence struct {
	ID         string `json:"id"`
	Harness    string `json:"harness"`
	Reached    int    `json:"paths_reaching"`
	Discharged int    `json:"unsat"`
	Trivial    int    `json:"constant_true"`
	Violated   int    `json:"sat"`
	Unknown    int    `json:"unknown"`
	Status     string `json:"status"`
}

func cmdRun(prop, tier, only string, verbose bool, workers int, solverBin string, noReplay bool) int {
	t0 := time.Now()
	seed := int64(1)
	if s := os.Getenv("VERIF_SEED"); s != "" {
		if v, err := strconv.ParseInt(s, 10, 64); err == nil {
			seed = v
		}
	}
	os.Setenv("VERIF_TIER", tier)
	knownFindings = loadKnownFindings()
	ld, err := loadAll(allKeys())
	if err != nil {
		// the harness does not bind to this tree: inconclusive, not a violation
		fmt.Printf("INCONCLUSIVE property=%s cannot load harness against the current tree: %v\n", prop, err)
		writeEvidence(prop, tier, seed, nil, nil, time.Since(t0), map[string]interface{}{"load_error": err.Error()}, 0)
		return 0
	}
	for _, d := range ld.dropped {
		fmt.Printf("INCONCLUSIVE harness file dropped (does not type-check against the current tree): %s\n", trunc(d, 300))
	}
	hs := ld.harnesses(prop, only)
	if len(hs) == 0 && len(ld.dropped) > 0 {
		fmt.Printf("INCONCLUSIVE property=%s no harness of this property binds to the current tree\n", prop)
		writeEvidence(prop, tier, seed, nil, nil, time.Since(t0), map[string]interface{}{"load_error": strings.Join(ld.dropped, "; ")}, 0)
		return 0
	}
	if len(hs) == 0 {
		fmt.Printf("ENGINE-ERROR no harness for property %s\n", prop)
		return 3
	}
	tc := tierConfig(tier)
	if v := os.Getenv("VERIF_TIMEOUT_MS"); v != "" {
		if n, err := strconv.Atoi(v); err == nil {
			tc.TimeoutMs = n
		}
	}
	if v := os.Getenv("VERIF_DEADLINE_S"); v != "" {
		if n, err := strconv.Atoi(v); err == nil {
			tc.Deadline = time.Duration(n) * time.Second
		}
	}
	fmt.Printf("vcheck: property %s tier %s: %d harnesses, load+SSA %.1fs\n", prop, tier, len(hs), ld.loadTime.Seconds())

	// replay binaries are built while the solver works
	rp := NewReplayer(ld, tier)
	if !noReplay {
		byKey := map[string][]*ssa.Function{}
		for _, h := range hs {
			k := keyOfPkg(ld, h.Pkg)
			byKey[k] = append(byKey[k], h)
		}
		for k := range byKey {
			rp.build(k, ld.harnessesOfKey(k))
		}
	}

	xbin := os.Getenv("VERIF_XCHECK")
	if xbin == "" && tier == "thorough" {
		xbin = "z3-new"
	}
	if xbin == "none" {
		xbin = ""
	}
	rbin := os.Getenv("VERIF_RESCUE")
	if rbin == "" {
		rbin = "z3-new"
	}
	if rbin == "none" || rbin == solverBin {
		rbin = ""
	}
	rc := RunConfig{XCheckBin: xbin, RescueBin: rbin, Workers: workers, SolverBin: solverBin, TimeoutMs: tc.TimeoutMs, MaxSteps: tc.MaxSteps,
		MaxDecisions: tc.MaxDecisions, MaxPaths: tc.MaxPaths, Deadline: tc.Deadline, Verbose: verbose}
	if os.Getenv("VERIF_BRANCHSTATS") != "" {
		branchStats = map[string]int{}
	}
	results := Explore(ld.prog, hs, rc)
	if branchStats != nil {
		for _, k := range sortedKeys(branchStats) {
			fmt.Printf("BRANCH %6d %s\n", branchStats[k], k)
		}
	}
	exploreTime := time.Since(t0)

	// ---- native replays: counterexamples, reach witnesses, random self-test vectors ----
	type jobRef struct {
		kind string // ce witness random
		hr   *HarnessResult
		ce   *Counterexample
		h    *ssa.Function
		conc []string
	}
	jobsByKey := map[string][]replayJob{}
	refsByKey := map[string][]*jobRef{}
	hByName := map[string]*ssa.Function{}
	for _, h := range hs {
		hByName[h.Name()] = h
	}
	engineErrors := []string{}
	rng := rand.New(rand.NewSource(seed))
	if !noReplay {
		for _, hr := range results {
			h := hByName[hr.Name]
			key := keyOfPkg(ld, h.Pkg)
			add := func(kind string, inputs []InputVal, ce *Counterexample) {
				tr, out, _ := RunConcrete(ld.prog, h, inputs, rng.Int63(), tc.MaxSteps)
				if out.kind == "unsupported" || out.kind == "bound" {
					// the concrete run could not be completed by the interpreter; native run still decides CEs
					tr = append(tr, "#interp:"+out.kind+":"+out.msg)
				}
				ref := &jobRef{kind: kind, hr: hr, ce: ce, h: h, conc: tr}
				var nativeInputs []InputVal
				for _, iv := range inputs {
					if !iv.Stub {
						nativeInputs = append(nativeInputs, iv)
					}
				}
				jobsByKey[key] = append(jobsByKey[key], replayJob{Harness: h.Name(), Inputs: nativeInputs})
				refsByKey[key] = append(refsByKey[key], ref)
			}
			for _, id := range sortedOblKeys(hr.Obls) {
				for _, ce := range hr.Obls[id].CEs {
					add("ce", ce.Inputs, ce)
				}
			}
			for _, w := range hr.Witnesses {
				add("witness", w, nil)
			}
			for i := 0; i < tc.Selftests; i++ {
				// random vector: let the interpreter draw values and record them
				ex := &Explorer{concrete: true, rng: rand.New(rand.NewSource(rng.Int63())), maxDecisions: 1 << 30}
				ex.in = NewInterp(ld.prog, domainOf(h.Name()), ex)
				ex.in.maxSteps = tc.MaxSteps
				ex.hr = NewHarnessResult(h.Name())
				ex.in.ensureInit(h.Pkg)
				ex.recordInputs = true
				out := ex.runPath(h, nil)
				tr := append([]string{}, ex.trace...)
				switch out.kind {
				case "panic":
					tr = append(tr, "panic")
				case "done", "istop":
					tr = append(tr, "end")
				case "unsupported", "bound":
					tr = append(tr, "#interp:"+out.kind+":"+out.msg)
				}
				ref := &jobRef{kind: "random", hr: hr, h: h, conc: tr}
				jobsByKey[key] = append(jobsByKey[key], replayJob{Harness: h.Name(), Inputs: ex.used})
				refsByKey[key] = append(refsByKey[key], ref)
			}
		}
	}
	validated := 0
	mismatches := 0
	notes := map[string]bool{}
	for key, jobs := range jobsByKey {
		traces, err := rp.run(key, jobs)
		if err != nil {
			engineErrors = append(engineErrors, "replay: "+err.Error())
			continue
		}
		for i, ref := range refsByKey[key] {
			nat := traces[i]
			if nat == nil {
				engineErrors = append(engineErrors, fmt.Sprintf("replay of %s (%s) did not run", ref.h.Name(), ref.kind))
				continue
			}
			interpIncomplete := false
			for _, l := range ref.conc {
				if strings.HasPrefix(l, "#interp:") {
					interpIncomplete = true
				}
			}
			if !interpIncomplete {
				if !sameTrace(nat, ref.conc) {
					// run this job once more on its own: a native trace that is not reproducible
					// (map iteration order, scheduling) is not an interpreter error
					if again, err := rp.run(key, []replayJob{jobs[i]}); err == nil && again[0] != nil {
						if sameTrace(again[0], ref.conc) {
							nat = again[0]
						} else if !sameTrace(again[0], nat) {
							notes["native trace of "+ref.h.Name()+" is not deterministic across runs; validation skipped for that vector"] = true
							continue
						}
					}
				}
				if sameTrace(nat, ref.conc) {
					validated++
				} else {
					mismatches++
					engineErrors = append(engineErrors, fmt.Sprintf("interpreter/native trace mismatch for %s (%s): interp=%v native=%v inputs=%v", ref.h.Name(), ref.kind, cleanTrace(ref.conc), cleanTrace(nat), jobs[i].Inputs))
				}
			}
			if ref.ce != nil {
				ref.ce.ReplayOut = strings.Join(nat, " | ")
				want := "assert " + ref.ce.Obligation + " 0"
				if strings.HasSuffix(ref.ce.Obligation, ".nopanic") {
					want = "panic"
				}
				for _, l := range nat {
					if l == want || (want == "panic" && l == "crash") {
						ref.ce.Confirmed = true
					}
				}
				// interpreter-only observation (vAssertI): the replay is the concrete re-execution
				// of the real code in the interpreter (whose fidelity is validated against native
				// traces on every run)
				for _, l := range ref.conc {
					if l == "#iassert "+ref.ce.Obligation+" 0" {
						ref.ce.Confirmed = true
						ref.ce.ReplayOut += " | confirmed by concrete re-execution in the interpreter (observation point is a recorder stub that does not exist natively)"
					}
				}
			}
		}
	}

	// ---- verdicts ----
	violations := 0
	var oblEv []oblEvidence
	var undischarged []string
	replayDir := filepath.Join(verifRoot, "replay")
	os.MkdirAll(replayDir, 0o755)
	knownPrinted := map[string]bool{}
	knownManifest := map[string]bool{}
	totalPaths, totalSteps := 0, int64(0)
	var solver SolverStats
	funcs := map[string]bool{}
	var samples []interface{}
	incomplete := []string{}
	xchecked := 0
	rescued := 0
	for _, hr := range results {
		xchecked += hr.XChecked
		rescued += hr.Rescued
		for _, d := range hr.XDisagree {
			engineErrors = append(engineErrors, "solver disagreement: "+hr.Name+": "+d)
		}
	}
	for _, hr := range results {
		totalPaths += hr.Paths
		totalSteps += hr.Steps
		solver.Queries += hr.Solver.Queries
		solver.NSat += hr.Solver.NSat
		solver.NUnsat += hr.Solver.NUnsat
		solver.NUnknown += hr.Solver.NUnknown
		solver.NLSat += hr.Solver.NLSat
		solver.Time += hr.Solver.Time
		for f := range hr.Funcs {
			funcs[f] = true
		}
		for n := range hr.Notes {
			notes[n] = true
		}
		for msg, n := range hr.Unsupported {
			incomplete = append(incomplete, fmt.Sprintf("%s: %d path(s) ended at an unsupported operation: %s", hr.Name, n, msg))
		}
		for msg, n := range hr.Bounds {
			incomplete = append(incomplete, fmt.Sprintf("%s: %d path(s) hit a bound: %s", hr.Name, n, msg))
		}
		if hr.PathsByEnd["done"] == 0 && hr.PathsByEnd["stop"] == 0 && hr.PathsByEnd["panic"] == 0 {
			engineErrors = append(engineErrors, fmt.Sprintf("harness %s is vacuous: no path reached its end (%v)", hr.Name, hr.PathsByEnd))
		}
		for _, id := range sortedOblKeys(hr.Obls) {
			o := hr.Obls[id]
			st := "discharged"
			confirmed := 0
			for _, ce := range o.CEs {
				if ce.Confirmed || noReplay {
					confirmed++
					kf, listed := knownFindings[ce.Class]
					if ce.Class != "" && listed && !kf.Fixed {
						knownManifest[ce.Class] = true
						if !knownPrinted[ce.Class] {
							knownPrinted[ce.Class] = true
							fmt.Printf("KNOWN-FINDING: property=%s id=%s obligation=%s %s\n", prop, ce.Class, id, kf.Text)
						}
						continue
					}
					violations++
					path := writeReplayFile(replayDir, prop, ce)
					fmt.Printf("VIOLATION property=%s replay=%s\n", prop, path)
					fmt.Printf("  obligation %s in %s; inputs %s; native trace: %s\n", id, hr.Name, fmtInputs(ce.Inputs), trunc(ce.ReplayOut, 300))
				}
			}
			switch {
			case confirmed > 0:
				st = "violated (replay confirmed)"
			case o.Violated > 0:
				if os.Getenv("VERIF_DEBUG_CE") != "" {
					for _, ce := range o.CEs {
						fmt.Printf("  DEBUG-CE %s %s inputs %s note=%q native: %s\n", hr.Name, id, fmtInputs(ce.Inputs), ce.Note, trunc(ce.ReplayOut, 400))
					}
				}
				st = "undischarged: solver model did not reproduce natively (over-approximate stub/domain)"
				undischarged = append(undischarged, hr.Name+"/"+id+": sat but not reproduced natively")
			case o.Unknown > 0:
				st = "undischarged: solver unknown/timeout"
				undischarged = append(undischarged, hr.Name+"/"+id+": unknown "+strings.Join(sortedKeys(o.Notes), ";"))
			}
			oblEv = append(oblEv, oblEvidence{ID: id, Harness: hr.Name, Reached: o.Reached, Discharged: o.Discharged, Trivial: o.Trivial, Violated: o.Violated, Unknown: o.Unknown, Status: st})
		}
		for _, s := range hr.Samples {
			samples = append(samples, hr.Name+": "+s)
		}
	}
	for _, oe := range oblEv {
		if len(samples) < 12 {
			samples = append(samples, map[string]interface{}{"obligation": oe.ID, "harness": oe.Harness, "paths_reaching": oe.Reached, "unsat": oe.Discharged, "status": oe.Status})
		}
	}
	sort.Strings(incomplete)
	extra := map[string]interface{}{
		"harnesses":             harnessNames(hs),
		"functions_encoded":     sortedSet(funcs),
		"functions_encoded_n":   len(funcs),
		"obligation_details":    oblEv,
		"queries":               map[string]int{"total": solver.Queries, "unsat": solver.NUnsat, "sat": solver.NSat, "unknown": solver.NUnknown, "decided_by_nlsat_tactic": solver.NLSat},
		"solver_time_s":         solver.Time.Seconds(),
		"explore_wall_s":        exploreTime.Seconds(),
		"undischarged":          undischarged,
		"incomplete":            incomplete,
		"engine_notes":          sortedSet(notes),
		"native_replays_agree":  validated,
		"native_replays_differ": mismatches,
		"bounds": map[string]interface{}{"max_symbolic_decisions_per_path": tc.MaxDecisions, "max_ssa_instructions_per_path": tc.MaxSteps,
			"max_paths_per_harness": tc.MaxPaths, "solver_timeout_ms": tc.TimeoutMs, "wall_deadline_s": tc.Deadline.Seconds(),
			"note": "sizes and value ranges are stated in each harness (vChoose/vAssume); a path that exhausts a bound is listed under 'incomplete' and is not counted as discharged"},
		"solver":                 solverBin + " (one process per worker, push/pop)",
		"cross_check_solver":     xbin,
		"cross_checked_verdicts": xchecked,
		"second_solver_on_unknown": rbin,
		"unknown_decided_by_second_solver": rescued,
	}
	for _, u := range undischarged {
		fmt.Println("UNDISCHARGED", u)
	}
	for _, u := range incomplete {
		fmt.Println("INCOMPLETE", u)
	}
	nObl, nDis := 0, 0
	for _, oe := range oblEv {
		nObl++
		if oe.Status == "discharged" {
			nDis++
		}
	}
	extra["obligations"] = nObl
	extra["discharged"] = nDis
	writeEvidence(prop, tier, seed, results, samples, time.Since(t0), extra, violations)
	fmt.Printf("vcheck: %s: %d paths, %d SSA instructions, %d queries (%d unsat, %d sat, %d unknown, %.1fs solver), obligations %d/%d discharged, %d native replays agree, wall %.1fs\n",
		prop, totalPaths, totalSteps, solver.Queries, solver.NUnsat, solver.NSat, solver.NUnknown, solver.Time.Seconds(), nDis, nObl, validated, time.Since(t0).Seconds())
	if len(engineErrors) > 0 {
		for _, e := range engineErrors {
			fmt.Println("ENGINE-ERROR", trunc(e, 1500))
		}
		if violations > 0 {
			return 1
		}
		return 3
	}
	if violations > 0 {
		return 1
	}
	return 0
}

func (ld *Loaded) harnessesOfKey(key string) []*ssa.Function {
	var hs []*ssa.Function
	p := ld.pkgs[key]
	if p == nil {
		return nil
	}
	for name, m := range p.Members {
		if f, ok := m.(*ssa.Function); ok && strings.HasPrefix(name, "VH_") {
			hs = append(hs, f)
		}
	}
	sort.Slice(hs, func(i, j int) bool { return hs[i].Name() < hs[j].Name() })
	return hs
}

func harnessNames(hs []*ssa.Function) []string {
	var ns []string
	for _, h := range hs {
		ns = append(ns, h.Name()+" ["+domainName(domainOf(h.Name()))+"]")
	}
	return ns
}

func sortedSet(m map[string]bool) []string {
	var ks []string
	for k := range m {
		ks = append(ks, k)
	}
	sort.Strings(ks)
	return ks
}

func sortedOblKeys(m map[string]*OblStat) []string {
	var ks []string
	for k := range m {
		ks = append(ks, k)
	}
	sort.Strings(ks)
	return ks
}

func fmtInputs(ins []InputVal) string {
	var parts []string
	for _, iv := range ins {
		switch iv.Kind {
		case "f64":
			u, _ := strconv.ParseUint(iv.V, 16, 64)
			parts = append(parts, fmt.Sprintf("%v", float64frombits(u)))
		case "dyadic":
			n, _ := strconv.ParseInt(iv.V, 10, 64)
			parts = append(parts, fmt.Sprintf("%v", float64(n)/float64(uint64(1)<<uint(iv.Sh))))
		default:
			parts = append(parts, iv.V)
		}
	}
	return "[" + strings.Join(parts, " ") + "]"
}

func float64frombits(u uint64) float64 { return math.Float64frombits(u) }

type replayFile struct {
	Property   string     `json:"property"`
	Harness    string     `json:"harness"`
	Obligation string     `json:"obligation"`
	Inputs     []InputVal `json:"inputs"`
	Pretty     string     `json:"inputs_pretty"`
	Note       string     `json:"note,omitempty"`
	Native     string     `json:"native_trace"`
}

func writeReplayFile(dir, prop string, ce *Counterexample) string {
	rf := replayFile{Property: prop, Harness: ce.Harness, Obligation: ce.Obligation, Inputs: ce.Inputs, Pretty: fmtInputs(ce.Inputs), Note: ce.Note, Native: ce.ReplayOut}
	b, _ := json.MarshalIndent(rf, "", " ")
	h := sha1.Sum(b)
	path := filepath.Join(dir, fmt.Sprintf("%s-%x.json", prop, h[:5]))
	os.WriteFile(path, b, 0o644)
	return path
}

func writeEvidence(prop, tier string, seed int64, results []*HarnessResult, samples []interface{}, wall time.Duration, extra map[string]interface{}, violations int) {
	states, trans := 0, int64(0)
	for _, hr := range results {
		states += hr.Paths
		trans += hr.Steps
	}
	if len(samples) == 0 {
		samples = []interface{}{"no path explored"}
	}
	cov := map[string]interface{}{
		"states":      states,
		"transitions": trans,
		"samples":     samples,
		"explanation": "states = symbolic paths of the harness+implementation explored; transitions = SSA instructions executed symbolically; each obligation is an SMT query 'path condition AND NOT assertion' that must be unsat",
	}
	tv := 0
	if v, ok := extra["native_replays_agree"].(int); ok {
		tv = v
	}
	cov["traces_validated_against_impl"] = tv
	for k, v := range extra {
		cov[k] = v
	}
	ev := map[string]interface{}{
		"property_id": prop,
		"tier":        tier,
		"seed":        seed,
		"level":       "model_checking",
		"coverage":    cov,
		"assumptions": evidenceAssumptions(extra),
		"wall_s":      wall.Seconds(),
		"violations":  violations,
	}
	dir := filepath.Join(verifRoot, "evidence")
	if v := os.Getenv("VERIF_EVIDENCE_DIR"); v != "" {
		dir = v // runs against seeded changes must not overwrite the committed evidence
	}
	os.MkdirAll(dir, 0o755)
	b, _ := json.MarshalIndent(ev, "", " ")
	os.WriteFile(filepath.Join(dir, prop+".json"), b, 0o644)
}

func evidenceAssumptions(extra map[string]interface{}) []string {
	as := []string{
		"bounded claim: only the input sizes/ranges stated by vChoose/vAssume in the harness sources under /verif/harness are covered",
		"go/ssa form of the current /repo tree is the object executed; the engine's SSA semantics are validated by native replay of witnesses and random vectors (trace equality)",
		"z3 4.8.12 answers are trusted; any (error or unknown is reported as undischarged",
	}
	if ns, ok := extra["engine_notes"].([]string); ok {
		as = append(as, ns...)
	}
	return as
}

func cmdReplay(path string) int {
	b, err := os.ReadFile(path)
	if err != nil {
		fmt.Println("cannot read", path, err)
		return 2
	}
	var rf replayFile
	if err := json.Unmarshal(b, &rf); err != nil {
		fmt.Println("bad replay file:", err)
		return 2
	}
	ld, err := loadAll(allKeys())
	if err != nil {
		fmt.Println("ENGINE-ERROR load:", err)
		return 3
	}
	var h *ssa.Function
	for _, f := range ld.harnesses("", "") {
		if f.Name() == rf.Harness {
			h = f
		}
	}
	if h == nil {
		fmt.Println("harness not found:", rf.Harness)
		return 3
	}
	key := keyOfPkg(ld, h.Pkg)
	rp := NewReplayer(ld, envOr("VERIF_TIER", "quick"))
	rp.build(key, ld.harnessesOfKey(key))
	traces, err := rp.run(key, []replayJob{{Harness: rf.Harness, Inputs: rf.Inputs}})
	if err != nil {
		fmt.Println("ENGINE-ERROR", err)
		return 3
	}
	fmt.Printf("replay %s inputs %s\n", rf.Harness, fmtInputs(rf.Inputs))
	failed := false
	for _, l := range traces[0] {
		fmt.Println("  ", l)
		if l == "assert "+rf.Obligation+" 0" || (strings.HasSuffix(rf.Obligation, ".nopanic") && (l == "panic" || l == "crash")) {
			failed = true
		}
	}
	if failed {
		fmt.Printf("VIOLATION property=%s replay=%s\n", rf.Property, path)
		return 1
	}
	fmt.Println("not reproduced on the current tree")
	return 0
}
