#!/bin/sh
# Builds the checker from the sources in /verif/engine (offline; needs only the module cache).
set -e
cd "$(dirname "$0")/engine"
export GOFLAGS=-mod=mod GOPROXY=off
mkdir -p ../bin
go build -o ../bin/vcheck .
echo "setup: built bin/vcheck"
