package canvas

// C01-H6: the comparators that order the Bentley-Ottmann event queue (CompareH / LessH) and the
// sweep status (CompareV).  x-coordinates from a small grid (so that the interpolation stays
// linear), y-coordinates symbolic, flags (left, clipping), segment numbers and verticality
// enumerated.
//
//   CompareH is a strict total order on events: antisymmetric, consistent with LessH, transitive on
//   triples (all three events at the same x: the tie-breaking cases), and follows the documented
//   keys: x, then y, then right endpoints before left endpoints.
//   CompareV on two left endpoints is antisymmetric and, when the two segments have different
//   heights at the later of the two start abscissae, its sign is the sign of that difference
//   (the segment that is lower there comes first).

func vhC01Event(left bool, x, y float64, okind int, oy float64, clipping bool, seg int) *SweepPoint {
	// okind: 0 vertical, 1 other end one unit away, 2 two units away (to the right for a left
	// endpoint, to the left for a right endpoint)
	ox := x
	if okind > 0 {
		if left {
			ox = x + float64(okind)
		} else {
			ox = x - float64(okind)
		}
	}
	a := &SweepPoint{Point: Point{x, y}, left: left, clipping: clipping, segment: seg, vertical: okind == 0}
	b := &SweepPoint{Point: Point{ox, oy}, left: !left, clipping: clipping, segment: seg, vertical: okind == 0}
	a.other, b.other = b, a
	return a
}

func vhC01SymEvent(x float64, seg int) *SweepPoint {
	left := vChoose(0, 1) == 1
	okind := vChoose(0, 2)
	y, oy := vhReal(), vhReal()
	if okind == 0 {
		// vertical: the left endpoint is the lower one
		if left {
			vAssume(y < oy)
		} else {
			vAssume(oy < y)
		}
	}
	return vhC01Event(left, x, y, okind, oy, vChoose(0, 1) == 1, seg)
}

func vhC01Sign(v int) int {
	if v < 0 {
		return -1
	} else if v > 0 {
		return 1
	}
	return 0
}

func VH_C01_compareH_Q() {
	n := vChoose(2, 3)
	xs := []float64{1, 1, 1}
	if n == 2 && vChoose(0, 1) == 1 {
		xs[1] = 2
	}
	a := vhC01SymEvent(xs[0], 1)
	b := vhC01SymEvent(xs[1], vChoose(1, 2))
	ab, ba := a.CompareH(b), b.CompareH(a)
	vAssert("C01.compareH.antisymmetric", vhC01Sign(ab) == -vhC01Sign(ba))
	vAssert("C01.compareH.consistent_with_lessH", a.LessH(b) == (ab < 0) && b.LessH(a) == (ba < 0))
	// documented keys
	if a.X != b.X {
		vAssert("C01.compareH.by_x", (ab < 0) == (a.X < b.X))
	} else if a.Y != b.Y {
		vAssert("C01.compareH.then_by_y", (ab < 0) == (a.Y < b.Y))
	} else if a.left != b.left {
		vAssert("C01.compareH.then_right_before_left", (ab < 0) == !a.left)
	}
	if n == 3 {
		c := vhC01SymEvent(xs[2], 3)
		bc, ac := b.CompareH(c), a.CompareH(c)
		vAssert("C01.compareH.transitive", !(ab < 0 && bc < 0) || ac < 0)
		vAssert("C01.compareH.transitive_equal", !(ab == 0 && bc == 0) || ac == 0)
	}
}

// height of the segment of left endpoint s at abscissa x (its start height at its own x)
func vhC01YAt(s *SweepPoint, x float64) float64 {
	if x == s.X {
		return s.Y
	}
	t := (x - s.X) / (s.other.X - s.X)
	return s.Y + t*(s.other.Y-s.Y)
}

func VH_C01_compareV_Q() {
	ax := float64(vChoose(0, 1))
	bx := float64(vChoose(0, 1))
	mk := func(x float64, seg int) *SweepPoint {
		okind := vChoose(0, 2)
		y, oy := vhReal(), vhReal()
		if okind == 0 {
			vAssume(y < oy)
		}
		return vhC01Event(true, x, y, okind, oy, vChoose(0, 1) == 1, seg)
	}
	a, b := mk(ax, 1), mk(bx, 2)
	// both segments exist at the later start abscissa
	x0 := ax
	if bx > x0 {
		x0 = bx
	}
	vAssume(a.other.X >= x0 && b.other.X >= x0)
	// a vertical segment only exists at its own abscissa and is compared by its lower end
	ab, ba := a.CompareV(b), b.CompareV(a)
	vAssert("C01.compareV.antisymmetric", vhC01Sign(ab) == -vhC01Sign(ba))
	if (a.vertical && a.X != x0) || (b.vertical && b.X != x0) {
		return
	}
	ya, yb := vhC01YAt(a, x0), vhC01YAt(b, x0)
	if ya != yb {
		vAssert("C01.compareV.lower_segment_first", (ab < 0) == (ya < yb))
	}
}

// Segments leaving a common left endpoint are ordered by their direction: a smaller slope comes
// first (it is lower just right of the point), a vertical segment comes last; collinear ones are
// ordered subject before clipping, then by segment number.  Antisymmetry and transitivity on
// triples.
func VH_C01_compareV_fan_Q() {
	mk := func(seg int) *SweepPoint {
		okind := vChoose(0, 2)
		oy := vhReal()
		if okind == 0 {
			vAssume(0 < oy)
		}
		return vhC01Event(true, 0, 0, okind, oy, vChoose(0, 1) == 1, seg)
	}
	a, b, c := mk(1), mk(2), mk(3)
	ab, bc, ac := a.CompareV(b), b.CompareV(c), a.CompareV(c)
	vAssert("C01.compareV.fan.antisymmetric", vhC01Sign(ab) == -vhC01Sign(b.CompareV(a)))
	vAssert("C01.compareV.fan.transitive", !(ab < 0 && bc < 0) || ac < 0)
	vAssert("C01.compareV.fan.never_equal_for_distinct_segments", ab != 0 && bc != 0 && ac != 0)
	// direction order
	if a.vertical != b.vertical {
		vAssert("C01.compareV.fan.vertical_last", (ab < 0) == b.vertical)
	} else if !a.vertical {
		// slopes compared without division: sa < sb  <=>  a.oy * b.dx < b.oy * a.dx  (dx > 0)
		la, lb := a.other.Y*b.other.X, b.other.Y*a.other.X
		if la != lb {
			vAssert("C01.compareV.fan.smaller_slope_first", (ab < 0) == (la < lb))
		} else if a.clipping != b.clipping {
			vAssert("C01.compareV.fan.collinear_subject_first", (ab < 0) == b.clipping)
		}
	}
}
