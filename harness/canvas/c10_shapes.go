package canvas

// C10-H7: shape constructors produce well-formed paths with the requested geometry.
// Grid(w, h, nx, ny, r): outer rectangle w x h plus nx*ny cell holes of size dx x dy whose
// lower-left corners are at (r + i(r+dx), r + j(r+dy)).
func VH_C10_shapes_grid_Q() {
	vStub("math.Hypot", vhHypotQ)
	vStub("math.Atan2", vhAtan2Sign)
	nx, ny := vChoose(1, 2), vChoose(1, 2)
	w, h, r := vNondetF64(), vNondetF64(), vNondetF64()
	vAssume(1 <= w && w <= 64 && 1 <= h && h <= 64 && 0.015625 <= r && r <= 4)
	vAssume(w > float64(nx+1)*r+0.015625 && h > float64(ny+1)*r+0.015625)
	p := Grid(w, h, nx, ny, r)
	vAssert("C10.grid.struct_wf", vhStructWF(p))
	subs, ok := vhDecode(p.d)
	vAssert("C10.grid.subpaths", ok && len(subs) == 1+nx*ny)
	if !ok || len(subs) != 1+nx*ny {
		return
	}
	dx, dy := (w-float64(nx+1)*r)/float64(nx), (h-float64(ny+1)*r)/float64(ny)
	// outer rectangle
	outer := subs[0]
	xmin, xmax, ymin, ymax := outer.start.X, outer.start.X, outer.start.Y, outer.start.Y
	for _, sg := range outer.segs {
		if sg.end.X < xmin {
			xmin = sg.end.X
		}
		if sg.end.X > xmax {
			xmax = sg.end.X
		}
		if sg.end.Y < ymin {
			ymin = sg.end.Y
		}
		if sg.end.Y > ymax {
			ymax = sg.end.Y
		}
	}
	vAssert("C10.grid.outer", vhNear(xmin, 0) && vhNear(ymin, 0) && vhNear(xmax, w) && vhNear(ymax, h))
	good := true
	k := 1
	for j := 0; j < ny; j++ {
		for i := 0; i < nx; i++ {
			x0 := r + float64(i)*(r+dx)
			y0 := r + float64(j)*(r+dy)
			c := subs[k]
			k++
			cxmin, cxmax, cymin, cymax := c.start.X, c.start.X, c.start.Y, c.start.Y
			for _, sg := range c.segs {
				if sg.end.X < cxmin {
					cxmin = sg.end.X
				}
				if sg.end.X > cxmax {
					cxmax = sg.end.X
				}
				if sg.end.Y < cymin {
					cymin = sg.end.Y
				}
				if sg.end.Y > cymax {
					cymax = sg.end.Y
				}
			}
			good = good && c.closed && vhNear(cxmin, x0) && vhNear(cymin, y0) && vhNear(cxmax, x0+dx) && vhNear(cymax, y0+dy)
		}
	}
	vAssert("C10.grid.cells_at_requested_positions", good)
}

// Rectangle / RoundedRectangle / BeveledRectangle / Ellipse-free shapes: bounding geometry.
func VH_C10_shapes_rect_Q() {
	vStub("math.Hypot", vhHypotQ)
	vStub("math.Atan2", vhAtan2Sign)
	w, h := vNondetF64(), vNondetF64()
	vAssume(0.125 <= w && w <= 64 && 0.125 <= h && h <= 64)
	kind := vChoose(0, 1)
	var p *Path
	if kind == 0 {
		p = Rectangle(w, h)
	} else {
		r := vNondetF64()
		vAssume(0.015625 <= r && 2*r <= w-0.015625 && 2*r <= h-0.015625)
		p = BeveledRectangle(w, h, r)
	}
	vAssert("C10.rect.wf", vhWF(p) && p.Closed())
	f := p.FastBounds()
	vAssert("C10.rect.extent", vhNear(f.X0, 0) && vhNear(f.Y0, 0) && vhNear(f.X1, w) && vhNear(f.Y1, h))
}
