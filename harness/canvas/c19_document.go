package canvas

import (
	"bytes"
	"image/color"
)

// C19-H5: whole documents through ParseSVG (XML lexer, attribute parsing, state stack, CSS rules,
// style attributes) - the layers the kernel harnesses above bypass.  The text of the document is
// concrete except for its numbers (placeholders, see vhC19Num); the drawing the canvas records is
// compared with what SVG 2 assigns:
//
//   - geometry: a <rect> covers (x,y)-(x+w,y+h) in user space after the transforms of its
//     ancestors and its own; user space maps to the canvas by the viewBox (y down);
//   - state stack: a sibling after </g> is not affected by the group's transform or paint;
//   - fill: SVG 2 6.? / CSS cascade: the style attribute beats style-sheet rules, which beat
//     presentation attributes (specificity 0), which beat the inherited value, which beats the
//     initial value black; among rules the more specific selector (class over type) wins, then
//     the later one.
//
// Structure (which sources of fill are present, grouping, attribute order) is enumerated with
// vChoose; the rectangle's numbers and the group's translation are symbolic.

var vhC19Red = color.RGBA{255, 0, 0, 255}
var vhC19Green = color.RGBA{0, 128, 0, 255}
var vhC19Blue = color.RGBA{0, 0, 255, 255}
var vhC19Yellow = color.RGBA{255, 255, 0, 255}
var vhC19Purple = color.RGBA{128, 0, 128, 255}

// vhC19CallBox: bounding box of the k-th recorded path after its matrix, and its fill colour.
func vhC19CallBox(rec *vhC15Rec, k int) (x0, y0, x1, y1 float64, fill color.RGBA, ok bool) {
	if k >= len(rec.calls) || rec.calls[k].kind != 0 {
		return
	}
	c := rec.calls[k]
	subs, okD := vhDecode(c.data)
	if !okD || len(subs) != 1 {
		return
	}
	p := c.m.Dot(subs[0].start)
	x0, y0, x1, y1 = p.X, p.Y, p.X, p.Y
	for _, sg := range subs[0].segs {
		q := c.m.Dot(sg.end)
		if q.X < x0 {
			x0 = q.X
		}
		if q.X > x1 {
			x1 = q.X
		}
		if q.Y < y0 {
			y0 = q.Y
		}
		if q.Y > y1 {
			y1 = q.Y
		}
	}
	return x0, y0, x1, y1, c.style.Fill.Color, true
}

func VH_C19_document_Q() {
	vhC19Stubs()
	x, y := vNondetDyadic(7, 2), vNondetDyadic(7, 2)
	w, h := vNondetDyadic(7, 2), vNondetDyadic(7, 2)
	vAssume(0 <= x && 0 <= y && 0.25 <= w && 0.25 <= h && x+w <= 40 && y+h <= 20)
	tx, ty := 0.0, 0.0
	// sources of the rectangle's fill
	inGroup := vChoose(0, 1) == 1   // <g fill="purple" transform="translate(tx,ty)">
	attr := vChoose(0, 1) == 1      // fill="red"
	ruleType := vChoose(0, 1) == 1  // rect{fill:green}
	ruleClass := vChoose(0, 1) == 1 // .k{fill:blue}   (class="k" on the rect)
	styleAttr := vChoose(0, 1) == 1 // style="fill:yellow"
	order := vChoose(0, 1)          // 0: style attribute first, 1: style attribute last
	classFirst := vChoose(0, 1) == 1 // order of the two rules in the style sheet
	doc := `<svg viewBox="` + vhC19Num(0) + " " + vhC19Num(0) + " " + vhC19Num(100) + " " + vhC19Num(50) + `" xmlns="http://www.w3.org/2000/svg">`
	if ruleType || ruleClass {
		doc += "<style>"
		if ruleClass && classFirst {
			doc += ".k{fill:blue}"
		}
		if ruleType {
			doc += "rect{fill:green}"
		}
		if ruleClass && !classFirst {
			doc += ".k{fill:blue}"
		}
		doc += "</style>"
	}
	if inGroup {
		tx, ty = vNondetDyadic(6, 2), vNondetDyadic(6, 2)
		vAssume(0 <= tx && tx <= 5 && 0 <= ty && ty <= 5)
		doc += `<g fill="purple" transform="translate(` + vhC19Num(tx) + "," + vhC19Num(ty) + `)">`
	}
	doc += "<rect"
	if styleAttr && order == 0 {
		doc += ` style="fill:yellow"`
	}
	if ruleClass {
		doc += ` class="k"`
	}
	doc += ` x="` + vhC19Num(x) + `" y="` + vhC19Num(y) + `"`
	if attr {
		doc += ` fill="red"`
	}
	doc += ` width="` + vhC19Num(w) + `" height="` + vhC19Num(h) + `"`
	if styleAttr && order == 1 {
		doc += ` style="fill:yellow"`
	}
	doc += "/>"
	if inGroup {
		doc += "</g>"
	}
	// a sibling after the group: plain rectangle at (1,2) size 3x4, no paint of its own
	doc += `<rect x="` + vhC19Num(1) + `" y="` + vhC19Num(2) + `" width="` + vhC19Num(3) + `" height="` + vhC19Num(4) + `"/></svg>`

	c, err := ParseSVG(bytes.NewReader([]byte(doc)))
	vAssert("C19.document.parsed", err == nil && c != nil)
	if err != nil || c == nil {
		return
	}
	rec := &vhC15Rec{w: c.W, h: c.H}
	c.RenderTo(rec)
	vAssert("C19.document.two_paths", len(rec.calls) == 2)
	if len(rec.calls) != 2 {
		return
	}
	sx, sy := c.W/100, c.H/50
	ax0, ay0, ax1, ay1, fillA, okA := vhC19CallBox(rec, 0)
	bx0, by0, bx1, by1, fillB, okB := vhC19CallBox(rec, 1)
	vAssert("C19.document.paths_decodable", okA && okB)
	if !okA || !okB {
		return
	}
	near := func(a, b float64) bool { return vhC19Near(a, b) }
	ux0, uy0, ux1, uy1 := x+tx, y+ty, x+tx+w, y+ty+h
	vAssert("C19.document.rect_geometry", near(ax0, ux0*sx) && near(ax1, ux1*sx) && near(ay1, c.H-uy0*sy) && near(ay0, c.H-uy1*sy))
	sibWant := Black // the type rule selects every rect
	if ruleType {
		sibWant = vhC19Green
	}
	vAssert("C19.document.sibling_not_affected_by_group", near(bx0, 1*sx) && near(bx1, 4*sx) && near(by1, c.H-2*sy) && near(by0, c.H-6*sy) && fillB == sibWant)
	// cascade
	want := Black
	if inGroup {
		want = vhC19Purple
	}
	if attr {
		want = vhC19Red
	}
	if ruleType {
		want = vhC19Green
	}
	if ruleClass {
		want = vhC19Blue
	}
	if styleAttr {
		want = vhC19Yellow
	}
	// regions of the recorded finding D52 (cascade order)
	vKnown("D52", (attr && (ruleType || ruleClass)) || (styleAttr && attr && order == 0) || (ruleType && ruleClass && classFirst))
	vAssert("C19.document.fill_cascade", fillA == want)
}

// C19-H6: stroke properties through whole documents: inheritance from a group, override on the
// element, restoration for a sibling, and stroke-miterlimit with and without an explicit
// stroke-linejoin (SVG 2 13.5: stroke, stroke-width, stroke-linejoin and stroke-miterlimit are
// inherited properties; the initial join is miter with limit 4; stroke-miterlimit applies to miter
// joins however the join was selected).  Numbers symbolic.
func VH_C19_document_stroke_Q() {
	vhC19Stubs()
	w1 := vNondetDyadic(6, 2)
	w2 := vNondetDyadic(6, 2)
	lim := vNondetDyadic(6, 2)
	vAssume(0.25 <= w1 && w1 <= 6 && 0.25 <= w2 && w2 <= 6 && 1 <= lim && lim <= 7 && w1 != w2 && lim != 4)
	ownWidth := vChoose(0, 1) == 1 // the rect overrides the group's stroke-width
	limit := vChoose(0, 2)          // 0: no stroke-miterlimit; 1: on the rect; 2: on the group
	join := vChoose(0, 2)           // 0: no stroke-linejoin; 1: stroke-linejoin="miter" before the limit; 2: after it
	doc := `<svg viewBox="` + vhC19Num(0) + " " + vhC19Num(0) + " " + vhC19Num(100) + " " + vhC19Num(50) + `" xmlns="http://www.w3.org/2000/svg">`
	doc += `<g stroke="red" stroke-width="` + vhC19Num(w1) + `"`
	if limit == 2 {
		doc += ` stroke-miterlimit="` + vhC19Num(lim) + `"`
	}
	doc += `><rect x="` + vhC19Num(1) + `" y="` + vhC19Num(2) + `" width="` + vhC19Num(3) + `" height="` + vhC19Num(4) + `"`
	if join == 1 {
		doc += ` stroke-linejoin="miter"`
	}
	if limit == 1 {
		doc += ` stroke-miterlimit="` + vhC19Num(lim) + `"`
	}
	if join == 2 {
		doc += ` stroke-linejoin="miter"`
	}
	if ownWidth {
		doc += ` stroke-width="` + vhC19Num(w2) + `"`
	}
	doc += `/></g><rect x="` + vhC19Num(10) + `" y="` + vhC19Num(2) + `" width="` + vhC19Num(3) + `" height="` + vhC19Num(4) + `"/></svg>`
	c, err := ParseSVG(bytes.NewReader([]byte(doc)))
	vAssert("C19.docstroke.parsed", err == nil && c != nil)
	if err != nil || c == nil {
		return
	}
	rec := &vhC15Rec{w: c.W, h: c.H}
	c.RenderTo(rec)
	vAssert("C19.docstroke.two_paths", len(rec.calls) == 2)
	if len(rec.calls) != 2 {
		return
	}
	a, b := rec.calls[0], rec.calls[1]
	wantW := w1
	if ownWidth {
		wantW = w2
	}
	vAssert("C19.docstroke.inherited_paint", a.style.Stroke.Color == vhC19Red && a.style.HasStroke())
	vAssert("C19.docstroke.width", vhC19Near(a.style.StrokeWidth, wantW))
	mj, isMiter := a.style.StrokeJoiner.(MiterJoiner)
	wantLim := 4.0
	if limit != 0 {
		wantLim = lim
	}
	vAssert("C19.docstroke.miter_join", isMiter)
	vAssert("C19.docstroke.miterlimit", isMiter && vhC19Near(mj.Limit, wantLim))
	vAssert("C19.docstroke.sibling_has_no_stroke", !b.style.HasStroke())
}
