package canvas

import (
	"bytes"
	"image/color"
	"math"
)

// C19-H5: whole documents through ParseSVG (XML lexer, attribute parsing, state stack, CSS rules,
// style attributes) - the layers the kernel harnesses above bypass.  The text of the document is
// concrete except for its numbers (placeholders, see vhC19Num); the drawing the canvas records is
// compared with what SVG 2 assigns:
//
//   - geometry: a <rect> covers (x,y)-(x+w,y+h) in user space after the transforms of its
//     ancestors and its own; user space maps to the canvas by the viewBox (y down);
//   - state stack: a sibling after </g> is not affected by the group's transform or paint;
//   - fill: SVG 2 6.? / CSS cascade: the style attribute beats style-sheet rules, which beat
//     presentation attributes (specificity 0), which beat the inherited value, which beats the
//     initial value black; among rules the more specific selector (class over type) wins, then
//     the later one.
//
// Structure (which sources of fill are present, grouping, attribute order) is enumerated with
// vChoose; the rectangle's numbers and the group's translation are symbolic.

var vhC19Red = color.RGBA{255, 0, 0, 255}
var vhC19Green = color.RGBA{0, 128, 0, 255}
var vhC19Blue = color.RGBA{0, 0, 255, 255}
var vhC19Yellow = color.RGBA{255, 255, 0, 255}
var vhC19Purple = color.RGBA{128, 0, 128, 255}

// vhC19CallBox: bounding box of the k-th recorded path after its matrix, and its fill colour.
func vhC19CallBox(rec *vhC15Rec, k int) (x0, y0, x1, y1 float64, fill color.RGBA, ok bool) {
	if k >= len(rec.calls) || rec.calls[k].kind != 0 {
		return
	}
	c := rec.calls[k]
	subs, okD := vhDecode(c.data)
	if !okD || len(subs) != 1 {
		return
	}
	p := c.m.Dot(subs[0].start)
	x0, y0, x1, y1 = p.X, p.Y, p.X, p.Y
	for _, sg := range subs[0].segs {
		q := c.m.Dot(sg.end)
		if q.X < x0 {
			x0 = q.X
		}
		if q.X > x1 {
			x1 = q.X
		}
		if q.Y < y0 {
			y0 = q.Y
		}
		if q.Y > y1 {
			y1 = q.Y
		}
	}
	return x0, y0, x1, y1, c.style.Fill.Color, true
}

func VH_C19_document_Q() {
	vhC19Stubs()
	x, y := vNondetDyadic(7, 2), vNondetDyadic(7, 2)
	w, h := vNondetDyadic(7, 2), vNondetDyadic(7, 2)
	vAssume(0 <= x && 0 <= y && 0.25 <= w && 0.25 <= h && x+w <= 40 && y+h <= 20)
	tx, ty := 0.0, 0.0
	// sources of the rectangle's fill
	inGroup := vChoose(0, 1) == 1    // <g fill="purple" transform="translate(tx,ty)">
	attr := vChoose(0, 1) == 1       // fill="red"
	ruleType := vChoose(0, 1) == 1   // rect{fill:green}
	ruleClass := vChoose(0, 1) == 1  // .k{fill:blue}   (class="k" on the rect)
	styleAttr := vChoose(0, 1) == 1  // style="fill:yellow"
	order := vChoose(0, 1)           // 0: style attribute first, 1: style attribute last
	classFirst := vChoose(0, 1) == 1 // order of the two rules in the style sheet
	doc := `<svg viewBox="` + vhC19Num(0) + " " + vhC19Num(0) + " " + vhC19Num(100) + " " + vhC19Num(50) + `" xmlns="http://www.w3.org/2000/svg">`
	if ruleType || ruleClass {
		doc += "<style>"
		if ruleClass && classFirst {
			doc += ".k{fill:blue}"
		}
		if ruleType {
			doc += "rect{fill:green}"
		}
		if ruleClass && !classFirst {
			doc += ".k{fill:blue}"
		}
		doc += "</style>"
	}
	if inGroup {
		tx, ty = vNondetDyadic(6, 2), vNondetDyadic(6, 2)
		vAssume(0 <= tx && tx <= 5 && 0 <= ty && ty <= 5)
		doc += `<g fill="purple" transform="translate(` + vhC19Num(tx) + "," + vhC19Num(ty) + `)">`
	}
	doc += "<rect"
	if styleAttr && order == 0 {
		doc += ` style="fill:yellow"`
	}
	if ruleClass {
		doc += ` class="k"`
	}
	doc += ` x="` + vhC19Num(x) + `" y="` + vhC19Num(y) + `"`
	if attr {
		doc += ` fill="red"`
	}
	doc += ` width="` + vhC19Num(w) + `" height="` + vhC19Num(h) + `"`
	if styleAttr && order == 1 {
		doc += ` style="fill:yellow"`
	}
	doc += "/>"
	if inGroup {
		doc += "</g>"
	}
	// a sibling after the group: plain rectangle at (1,2) size 3x4, no paint of its own
	doc += `<rect x="` + vhC19Num(1) + `" y="` + vhC19Num(2) + `" width="` + vhC19Num(3) + `" height="` + vhC19Num(4) + `"/></svg>`

	c, err := ParseSVG(bytes.NewReader([]byte(doc)))
	vAssert("C19.document.parsed", err == nil && c != nil)
	if err != nil || c == nil {
		return
	}
	rec := &vhC15Rec{w: c.W, h: c.H}
	c.RenderTo(rec)
	vAssert("C19.document.two_paths", len(rec.calls) == 2)
	if len(rec.calls) != 2 {
		return
	}
	sx, sy := c.W/100, c.H/50
	ax0, ay0, ax1, ay1, fillA, okA := vhC19CallBox(rec, 0)
	bx0, by0, bx1, by1, fillB, okB := vhC19CallBox(rec, 1)
	vAssert("C19.document.paths_decodable", okA && okB)
	if !okA || !okB {
		return
	}
	near := func(a, b float64) bool { return vhC19Near(a, b) }
	ux0, uy0, ux1, uy1 := x+tx, y+ty, x+tx+w, y+ty+h
	vAssert("C19.document.rect_geometry", near(ax0, ux0*sx) && near(ax1, ux1*sx) && near(ay1, c.H-uy0*sy) && near(ay0, c.H-uy1*sy))
	sibWant := Black // the type rule selects every rect
	if ruleType {
		sibWant = vhC19Green
	}
	vAssert("C19.document.sibling_not_affected_by_group", near(bx0, 1*sx) && near(bx1, 4*sx) && near(by1, c.H-2*sy) && near(by0, c.H-6*sy) && fillB == sibWant)
	// cascade
	want := Black
	if inGroup {
		want = vhC19Purple
	}
	if attr {
		want = vhC19Red
	}
	if ruleType {
		want = vhC19Green
	}
	if ruleClass {
		want = vhC19Blue
	}
	if styleAttr {
		want = vhC19Yellow
	}
	// regions of the recorded finding D52 (cascade order)
	vKnown("D52", (attr && (ruleType || ruleClass)) || (styleAttr && attr && order == 0) || (ruleType && ruleClass && classFirst))
	vAssert("C19.document.fill_cascade", fillA == want)
}

// C19-H6: stroke properties through whole documents: inheritance from a group, override on the
// element, restoration for a sibling, and stroke-miterlimit with and without an explicit
// stroke-linejoin (SVG 2 13.5: stroke, stroke-width, stroke-linejoin and stroke-miterlimit are
// inherited properties; the initial join is miter with limit 4; stroke-miterlimit applies to miter
// joins however the join was selected).  Numbers symbolic.
func VH_C19_document_stroke_Q() {
	vhC19Stubs()
	w1 := vNondetDyadic(6, 2)
	w2 := vNondetDyadic(6, 2)
	lim := vNondetDyadic(6, 2)
	vAssume(0.25 <= w1 && w1 <= 6 && 0.25 <= w2 && w2 <= 6 && 1 <= lim && lim <= 7 && w1 != w2 && lim != 4)
	ownWidth := vChoose(0, 1) == 1 // the rect overrides the group's stroke-width
	limit := vChoose(0, 2)         // 0: no stroke-miterlimit; 1: on the rect; 2: on the group
	join := vChoose(0, 2)          // 0: no stroke-linejoin; 1: stroke-linejoin="miter" before the limit; 2: after it
	doc := `<svg viewBox="` + vhC19Num(0) + " " + vhC19Num(0) + " " + vhC19Num(100) + " " + vhC19Num(50) + `" xmlns="http://www.w3.org/2000/svg">`
	doc += `<g stroke="red" stroke-width="` + vhC19Num(w1) + `"`
	if limit == 2 {
		doc += ` stroke-miterlimit="` + vhC19Num(lim) + `"`
	}
	doc += `><rect x="` + vhC19Num(1) + `" y="` + vhC19Num(2) + `" width="` + vhC19Num(3) + `" height="` + vhC19Num(4) + `"`
	if join == 1 {
		doc += ` stroke-linejoin="miter"`
	}
	if limit == 1 {
		doc += ` stroke-miterlimit="` + vhC19Num(lim) + `"`
	}
	if join == 2 {
		doc += ` stroke-linejoin="miter"`
	}
	if ownWidth {
		doc += ` stroke-width="` + vhC19Num(w2) + `"`
	}
	doc += `/></g><rect x="` + vhC19Num(10) + `" y="` + vhC19Num(2) + `" width="` + vhC19Num(3) + `" height="` + vhC19Num(4) + `"/></svg>`
	c, err := ParseSVG(bytes.NewReader([]byte(doc)))
	vAssert("C19.docstroke.parsed", err == nil && c != nil)
	if err != nil || c == nil {
		return
	}
	rec := &vhC15Rec{w: c.W, h: c.H}
	c.RenderTo(rec)
	vAssert("C19.docstroke.two_paths", len(rec.calls) == 2)
	if len(rec.calls) != 2 {
		return
	}
	a, b := rec.calls[0], rec.calls[1]
	wantW := w1
	if ownWidth {
		wantW = w2
	}
	vAssert("C19.docstroke.inherited_paint", a.style.Stroke.Color == vhC19Red && a.style.HasStroke())
	vAssert("C19.docstroke.width", vhC19Near(a.style.StrokeWidth, wantW))
	mj, isMiter := a.style.StrokeJoiner.(MiterJoiner)
	wantLim := 4.0
	if limit != 0 {
		wantLim = lim
	}
	vAssert("C19.docstroke.miter_join", isMiter)
	vAssert("C19.docstroke.miterlimit", isMiter && vhC19Near(mj.Limit, wantLim))
	vAssert("C19.docstroke.sibling_has_no_stroke", !b.style.HasStroke())
}

// C19-H7: colour values (svg.go parseColor, colors.go Hex).  CSS Color 4 hex notations #rgb, #rgba,
// #rrggbb, #rrggbbaa with symbolic colour digits (alpha digits from a set, so that the
// premultiplication stays linear), upper and lower case: the parsed colour is the premultiplied
// form of (r, g, b, a) where a three/four digit form doubles every digit; named colours and rgb()
// with numbers and percentages on concrete examples.
func vhC19HexDigit(k int) (byte, uint8) {
	d := vNondetByte()
	switch k {
	case 0:
		vAssume(d <= 9)
		return '0' + d, d
	case 1:
		vAssume(d <= 5)
		return 'a' + d, 10 + d
	}
	vAssume(d <= 5)
	return 'A' + d, 10 + d
}

func VH_C19_colors_hex_Q() {
	vhC19Stubs()
	form := vChoose(0, 3) // 0 #rgb, 1 #rgba, 2 #rrggbb, 3 #rrggbbaa
	kind := vChoose(0, 2)
	n := []int{3, 3, 6, 6}[form]
	s := []byte{'#'}
	vals := make([]uint8, n)
	for i := 0; i < n; i++ {
		var c byte
		c, vals[i] = vhC19HexDigit(kind)
		s = append(s, c)
	}
	alphaDigits := []string{"0", "8", "f", "3"}
	ad := alphaDigits[vChoose(0, 3)]
	av := map[string]uint8{"0": 0, "8": 8, "f": 15, "3": 3}[ad]
	var r, g, b, a float64
	switch form {
	case 0, 1:
		r, g, b = float64(vals[0])*17, float64(vals[1])*17, float64(vals[2])*17
	default:
		r, g, b = float64(vals[0])*16+float64(vals[1]), float64(vals[2])*16+float64(vals[3]), float64(vals[4])*16+float64(vals[5])
	}
	a = 255
	if form == 1 {
		s = append(s, ad...)
		a = float64(av) * 17
	} else if form == 3 {
		s = append(s, ad...)
		s = append(s, "7"...)
		a = float64(av)*16 + 7
	}
	svg := vhC19Parser()
	col := svg.parseColor(string(s))
	vAssert("C19.colors.hex.no_error", svg.err == nil)
	near := func(got uint8, want float64) bool { return float64(got)-want <= 1 && want-float64(got) <= 1 }
	vAssert("C19.colors.hex.alpha", float64(col.A) == a)
	vAssert("C19.colors.hex.premultiplied_components", near(col.R, r*a/255) && near(col.G, g*a/255) && near(col.B, b*a/255))
	vAssert("C19.colors.hex.valid_premultiplied", col.R <= col.A && col.G <= col.A && col.B <= col.A)
}

// C19-H8: rgb()/rgba() colour functions (CSS Color: components are integers 0-255 or
// percentages, the alpha of rgba() is a number in [0,1] or a percentage).  This is also the form
// the library's own SVG back-end writes for translucent paints (CSSColor: "rgba(255,0,0,.5)"),
// which ParseSVG must read back.  Integer components concrete, alpha and percentages symbolic
// multiples of 1/4 (placeholders, see vhC19Num).
func VH_C19_colors_func_Q() {
	vhC19Stubs()
	svg := vhC19Parser()
	near := func(got uint8, want float64) bool { return float64(got)-want <= 1 && want-float64(got) <= 1 }
	switch vChoose(0, 2) {
	case 0: // rgba with a numeric alpha
		al := vNondetDyadic(4, 2)
		vAssume(0 <= al && al <= 1)
		col := svg.parseColor("rgba(255,100,0," + vhC19Num(al) + ")")
		vAssert("C19.colors.rgba.no_error", svg.err == nil)
		vAssert("C19.colors.rgba.alpha", near(col.A, al*255))
		vAssert("C19.colors.rgba.premultiplied", near(col.R, 255*al) && near(col.G, 100*al) && near(col.B, 0))
	case 1: // rgb with percentages
		pr := vNondetDyadic(10, 2)
		vAssume(0 <= pr && pr <= 100)
		col := svg.parseColor("rgb(" + vhC19Num(pr) + "%," + vhC19Num(0) + "%," + vhC19Num(100) + "%)")
		vAssert("C19.colors.rgbpct.no_error", svg.err == nil)
		vAssert("C19.colors.rgbpct.components", near(col.R, pr*2.55) && col.G == 0 && col.B == 255 && col.A == 255)
	default: // rgb with integers, named colours
		col := svg.parseColor("rgb(12, 200,7)")
		vAssert("C19.colors.rgb.integers", svg.err == nil && col == color.RGBA{12, 200, 7, 255})
		vAssert("C19.colors.named", svg.parseColor("Red") == color.RGBA{255, 0, 0, 255} && svg.parseColor("cornflowerblue") == color.RGBA{100, 149, 237, 255} && svg.err == nil)
	}
}

// C19-H9: fill-rule through whole documents (SVG 2 13.4.2: fill-rule nonzero | evenodd, inherited,
// initial nonzero).  It is also what the library's SVG back-end writes for an even-odd fill, so it
// has to be read back.  Attribute / style attribute / inherited from the group / absent.
func VH_C19_document_fillrule_Q() {
	vhC19Stubs()
	where := vChoose(0, 3) // 0 none, 1 attribute, 2 style attribute, 3 on the group
	x := vNondetDyadic(6, 2)
	vAssume(0 <= x && x <= 10)
	doc := `<svg viewBox="` + vhC19Num(0) + " " + vhC19Num(0) + " " + vhC19Num(100) + " " + vhC19Num(50) + `" xmlns="http://www.w3.org/2000/svg"><g`
	if where == 3 {
		doc += ` fill-rule="evenodd"`
	}
	doc += `><rect x="` + vhC19Num(x) + `" y="` + vhC19Num(2) + `" width="` + vhC19Num(3) + `" height="` + vhC19Num(4) + `"`
	if where == 1 {
		doc += ` fill-rule="evenodd"`
	} else if where == 2 {
		doc += ` style="fill-rule:evenodd"`
	}
	doc += `/></g><rect x="` + vhC19Num(20) + `" y="` + vhC19Num(2) + `" width="` + vhC19Num(3) + `" height="` + vhC19Num(4) + `"/></svg>`
	c, err := ParseSVG(bytes.NewReader([]byte(doc)))
	vAssert("C19.docfillrule.parsed", err == nil && c != nil)
	if err != nil || c == nil {
		return
	}
	rec := &vhC15Rec{w: c.W, h: c.H}
	c.RenderTo(rec)
	vAssert("C19.docfillrule.two_paths", len(rec.calls) == 2)
	if len(rec.calls) != 2 {
		return
	}
	want := NonZero
	if where != 0 {
		want = EvenOdd
	}
	vAssert("C19.docfillrule.rule", rec.calls[0].style.FillRule == want)
	vAssert("C19.docfillrule.sibling_default", rec.calls[1].style.FillRule == NonZero)
}

// C19-H9: stroke-dasharray and stroke-dashoffset are lengths in SVG, a canvas states dashes as
// multiples of the stroke width (every renderer multiplies them by it).  A rect with a symbolic
// stroke-width (own or inherited, given before or after the dashes), a two-entry dash array and a
// dash offset: what a renderer will draw - the style's dashes and offset times its stroke width -
// are the lengths the document states.
func VH_C19_document_dashes_Q() {
	vhC19Stubs()
	w := vNondetDyadic(6, 2)
	d1, d2, off := vNondetDyadic(6, 2), vNondetDyadic(6, 2), vNondetDyadic(6, 2)
	vAssume(0.25 <= w && w <= 6 && 0.25 <= d1 && d1 <= 8 && 0.25 <= d2 && d2 <= 8 && 0 <= off && off <= 8)
	where := vChoose(0, 2) // stroke-width: on the group; on the rect before the dashes; on the rect after the dashes
	doc := `<svg viewBox="` + vhC19Num(0) + " " + vhC19Num(0) + " " + vhC19Num(100) + " " + vhC19Num(50) + `" xmlns="http://www.w3.org/2000/svg">`
	doc += `<g stroke="red"`
	if where == 0 {
		doc += ` stroke-width="` + vhC19Num(w) + `"`
	}
	doc += `><rect x="` + vhC19Num(1) + `" y="` + vhC19Num(2) + `" width="` + vhC19Num(30) + `" height="` + vhC19Num(20) + `"`
	if where == 1 {
		doc += ` stroke-width="` + vhC19Num(w) + `"`
	}
	doc += ` stroke-dasharray="` + vhC19Num(d1) + " " + vhC19Num(d2) + `" stroke-dashoffset="` + vhC19Num(off) + `"`
	if where == 2 {
		doc += ` stroke-width="` + vhC19Num(w) + `"`
	}
	doc += `/><rect x="` + vhC19Num(40) + `" y="` + vhC19Num(2) + `" width="` + vhC19Num(3) + `" height="` + vhC19Num(4) + `"/></g></svg>`
	c, err := ParseSVG(bytes.NewReader([]byte(doc)))
	vAssert("C19.docdash.parsed", err == nil && c != nil)
	if err != nil || c == nil {
		return
	}
	rec := &vhC15Rec{w: c.W, h: c.H}
	c.RenderTo(rec)
	vAssert("C19.docdash.two_paths", len(rec.calls) == 2)
	if len(rec.calls) != 2 {
		return
	}
	a, b := rec.calls[0], rec.calls[1]
	vAssert("C19.docdash.width", vhC19Near(a.style.StrokeWidth, w))
	ok := len(a.style.Dashes) == 2
	if ok {
		sw := a.style.StrokeWidth
		ok = vhC19Near(a.style.Dashes[0]*sw, d1) && vhC19Near(a.style.Dashes[1]*sw, d2) && vhC19Near(a.style.DashOffset*sw, off)
	}
	vAssert("C19.docdash.drawn_dash_lengths_are_the_documents", ok)
	vAssert("C19.docdash.sibling_is_solid", len(b.style.Dashes) == 0)
}

// C19-H10: paint servers.  A rect filled with a linear or a radial gradient whose geometry is
// given in user space (gradientUnits="userSpaceOnUse", symbolic numbers), inside a group that is
// translated, under a viewBox that scales: the gradient the renderer receives lies where the
// document puts it - its points are the images of the document's points under the same map that
// takes the rect's user space to the canvas (read off the recorded matrix of the rect), radii
// scaled alike, stops kept - and a second rect without a paint server keeps its plain colour.
func VH_C19_document_gradient_Q() {
	vhC19Stubs()
	radial := vChoose(0, 1) == 1
	x1, y1, x2, y2 := vNondetDyadic(7, 1), vNondetDyadic(7, 1), vNondetDyadic(7, 1), vNondetDyadic(7, 1)
	vAssume(0 <= x1 && x1 <= 60 && 0 <= y1 && y1 <= 60 && 0 <= x2 && x2 <= 60 && 0 <= y2 && y2 <= 60)
	r1 := vNondetDyadic(6, 1)
	vAssume(1 <= r1 && r1 <= 30)
	doc := `<svg width="` + vhC19Num(40) + `" height="` + vhC19Num(20) + `" viewBox="` + vhC19Num(0) + " " + vhC19Num(0) + " " + vhC19Num(80) + " " + vhC19Num(40) + `" xmlns="http://www.w3.org/2000/svg"><defs>`
	stops := `<stop offset="` + vhC19Num(0) + `" stop-color="#00f"/><stop offset="` + vhC19Num(1) + `" stop-color="#f00"/>`
	if radial {
		doc += `<radialGradient id="g" gradientUnits="userSpaceOnUse" fx="` + vhC19Num(x1) + `" fy="` + vhC19Num(y1) + `" fr="` + vhC19Num(0) + `" cx="` + vhC19Num(x2) + `" cy="` + vhC19Num(y2) + `" r="` + vhC19Num(r1) + `">` + stops + `</radialGradient>`
	} else {
		doc += `<linearGradient id="g" gradientUnits="userSpaceOnUse" x1="` + vhC19Num(x1) + `" y1="` + vhC19Num(y1) + `" x2="` + vhC19Num(x2) + `" y2="` + vhC19Num(y2) + `">` + stops + `</linearGradient>`
	}
	doc += `</defs><g transform="translate(` + vhC19Num(4) + " " + vhC19Num(2) + `)"><rect x="` + vhC19Num(10) + `" y="` + vhC19Num(6) + `" width="` + vhC19Num(30) + `" height="` + vhC19Num(20) + `" fill="url(#g)"/>`
	doc += `<rect x="` + vhC19Num(50) + `" y="` + vhC19Num(6) + `" width="` + vhC19Num(3) + `" height="` + vhC19Num(4) + `" fill="#0f0"/></g></svg>`
	c, err := ParseSVG(bytes.NewReader([]byte(doc)))
	vAssert("C19.docgrad.parsed", err == nil && c != nil)
	if err != nil || c == nil {
		return
	}
	rec := &vhC15Rec{w: c.W, h: c.H}
	c.RenderTo(rec)
	vAssert("C19.docgrad.two_paths", len(rec.calls) == 2)
	if len(rec.calls) != 2 {
		return
	}
	a, b := rec.calls[0], rec.calls[1]
	// width="40" height="20" are CSS pixels: the canvas measures 40 x 20 px in millimetres, and the
	// viewBox of 80 x 40 user units is fitted into it (the rect's corner at user (14,8), y down)
	mmW, mmH := 40*25.4/96.0, 20*25.4/96.0
	vAssert("C19.docgrad.canvas_size_in_mm", vhC19Near(c.W, mmW) && vhC19Near(c.H, mmH))
	// the rect's local box (0,0)-(30,20) covers the user rectangle (14,8)-(44,28), y down
	p0, p1 := a.m.Dot(Point{0, 0}), a.m.Dot(Point{30, 20})
	vAssert("C19.docgrad.rect_where_the_viewbox_puts_it",
		vhC19Near(math.Min(p0.X, p1.X), 14*mmW/80) && vhC19Near(math.Max(p0.X, p1.X), 44*mmW/80) &&
			vhC19Near(math.Min(p0.Y, p1.Y), mmH-28*mmH/40) && vhC19Near(math.Max(p0.Y, p1.Y), mmH-8*mmH/40))
	// user space of the rect -> canvas: the recorded matrix places the rect's local origin at its (x,y)
	um := a.m.Translate(-10, -6)
	ok := a.style.Fill.IsGradient()
	if ok {
		if radial {
			g, isR := a.style.Fill.Gradient.(*RadialGradient)
			ok = isR
			if ok {
				p0, p1 := um.Dot(Point{x1, y1}), um.Dot(Point{x2, y2})
				sc := math.Sqrt(math.Abs(um.Det()))
				ok = vhC19Near(g.C0.X, p0.X) && vhC19Near(g.C0.Y, p0.Y) && vhC19Near(g.C1.X, p1.X) && vhC19Near(g.C1.Y, p1.Y) &&
					vhC19Near(g.R0, 0) && vhC19Near(g.R1, r1*sc) && len(g.Stops) == 2 && g.Stops[0].Color == Blue && g.Stops[1].Color == Red
			}
		} else {
			g, isL := a.style.Fill.Gradient.(*LinearGradient)
			ok = isL
			if ok {
				p0, p1 := um.Dot(Point{x1, y1}), um.Dot(Point{x2, y2})
				ok = vhC19Near(g.Start.X, p0.X) && vhC19Near(g.Start.Y, p0.Y) && vhC19Near(g.End.X, p1.X) && vhC19Near(g.End.Y, p1.Y) &&
					len(g.Stops) == 2 && g.Stops[0].Color == Blue && g.Stops[1].Color == Red
			}
		}
	}
	vAssert("C19.docgrad.gradient_lies_where_the_document_puts_it", ok)
	vAssert("C19.docgrad.sibling_keeps_its_colour", b.style.Fill.IsColor() && b.style.Fill.Color == Lime)
}
