package canvas

import "sync"

// C20-H1: objects recycled through the Bentley-Ottmann pools carry no state between calls.
//
// Every kernel that takes an object from boPointPool / boNodePool / boSquarePool is run twice on
// the same inputs, each time with the pool pre-filled with *poisoned* objects: every scalar field
// an arbitrary symbolic value (any bit pattern for floats), every pointer/slice field pointing to
// garbage (run A) or garbage/nil (run B).  All observable output fields must be equal in the two
// runs (and equal to what the documentation of the kernel says), i.e. no output depends on what
// a previous call left in a recycled object: "all call histories at once".
//
// The poisoned objects are handed over through the pools' own Put, so natively the real
// sync.Pool returns them (first Put goes to the per-P private slot, the rest to a LIFO);
// symbolically Get/Put are replaced by a model with the same order.

type vhC20Model struct {
	private any
	shared  []any
}

var vhC20Pt, vhC20Nd, vhC20Sq vhC20Model

func vhC20ModelOf(p *sync.Pool) *vhC20Model {
	switch p {
	case boPointPool:
		return &vhC20Pt
	case boNodePool:
		return &vhC20Nd
	case boSquarePool:
		return &vhC20Sq
	}
	return nil
}

func vhC20Get(p *sync.Pool) any {
	m := vhC20ModelOf(p)
	if m != nil {
		if m.private != nil {
			x := m.private
			m.private = nil
			return x
		}
		if n := len(m.shared); n > 0 {
			x := m.shared[n-1]
			m.shared = m.shared[:n-1]
			return x
		}
	}
	return p.New()
}

func vhC20Put(p *sync.Pool, x any) {
	m := vhC20ModelOf(p)
	if m == nil {
		return
	}
	if m.private == nil {
		m.private = x
	} else {
		m.shared = append(m.shared, x)
	}
}

func vhC20Init() {
	if boPointPool == nil {
		boPointPool = &sync.Pool{New: func() any { return &SweepPoint{} }}
		boNodePool = &sync.Pool{New: func() any { return &SweepNode{} }}
		boSquarePool = &sync.Pool{New: func() any { return &toleranceSquare{} }}
	}
	vhC20Pt, vhC20Nd, vhC20Sq = vhC20Model{}, vhC20Model{}, vhC20Model{}
	vStub("!(*sync.Pool).Get", vhC20Get)
	vStub("!(*sync.Pool).Put", vhC20Put)
}

// ---- poisoned objects ----

func vhC20StalePoint(garbage bool) *SweepPoint {
	s := &SweepPoint{
		Point:             Point{vNondetF64(), vNondetF64()},
		segment:           vNondetInt(),
		windings:          vNondetInt(),
		otherWindings:     vNondetInt(),
		selfWindings:      vNondetInt(),
		otherSelfWindings: vNondetInt(),
		index:             vNondetInt(),
		resultWindings:    vNondetInt(),
		clipping:          vNondetBool(),
		open:              vNondetBool(),
		left:              vNondetBool(),
		vertical:          vNondetBool(),
		increasing:        vNondetBool(),
		overlapped:        vNondetBool(),
		inResult:          vNondetByte(),
	}
	if garbage {
		g := &SweepPoint{}
		g.other = g
		s.other, s.prev = g, g
		s.node = &SweepNode{SweepPoint: g, height: 7}
	}
	return s
}

func vhC20StaleNode(garbage bool) *SweepNode {
	n := &SweepNode{height: vNondetInt()}
	if garbage {
		g := &SweepNode{height: 3}
		n.parent, n.left, n.right = g, g, g
		n.SweepPoint = &SweepPoint{}
	}
	return n
}

func vhC20StaleSquare(garbage bool) *toleranceSquare {
	s := &toleranceSquare{X: vNondetF64(), Y: vNondetF64()}
	if garbage {
		g := &SweepNode{height: 3}
		s.Node, s.Lower, s.Upper = g, g, g
		s.Events = []*SweepPoint{{}, {}}
	}
	return s
}

func vhC20PutPoints(n int, garbage bool) []*SweepPoint {
	st := make([]*SweepPoint, n)
	for i := range st {
		st[i] = vhC20StalePoint(garbage)
	}
	for _, s := range st {
		boPointPool.Put(s)
	}
	return st
}

// vhC20DrainPoints takes back what a kernel did not use (so nothing poisoned stays in the real
// pool for the next replay job).
func vhC20DrainPoints(st []*SweepPoint) {
	for k := 0; k <= len(st); k++ {
		x := boPointPool.Get().(*SweepPoint)
		ours := false
		for _, s := range st {
			ours = ours || s == x
		}
		if !ours {
			return
		}
	}
}

// ---- kernel 1: SweepEvents.AddPathEndpoints ----

// vhC20EvScalars is everything of an event except its pointers.
type vhC20EvScalars struct {
	p                                                    Point
	segment, windings, otherWindings, selfWindings, osw int
	index, resultWindings                                int
	clipping, open, left, vertical, increasing, overl   bool
	inResult                                             uint8
}

func vhC20Scalars(s *SweepPoint) vhC20EvScalars {
	return vhC20EvScalars{s.Point, s.segment, s.windings, s.otherWindings, s.selfWindings, s.otherSelfWindings,
		s.index, s.resultWindings, s.clipping, s.open, s.left, s.vertical, s.increasing, s.overlapped, s.inResult}
}

func vhC20RunAdd(d []float64, seg int, clipping bool, garbage bool) (q SweepEvents, ret int) {
	st := vhC20PutPoints(2*(len(d)/4), garbage)
	p := &Path{d: vhCopyData(d)}
	ret = (&q).AddPathEndpoints(p, seg, clipping)
	vhC20DrainPoints(st)
	return q, ret
}

// VH_C20_pool_addendpoints: flat subpath of 1..3 segments (4 in the thorough tier), open or closed, any finite IEEE
// coordinates (zero-length segments included: they are skipped), symbolic first segment number
// and clipping flag.
func VH_C20_pool_addendpoints() {
	vhC20Init()
	nseg := vChoose(1, 3+vTier())
	p := &Path{}
	vhRawSubpath(p, vhAnyFinite, make([]int, nseg), vChoose(0, 1))
	seg := vNondetIntN(8)
	clipping := vNondetBool()
	shapeB := vChoose(0, 1) == 1

	qa, ra := vhC20RunAdd(p.d, seg, clipping, true)
	qb, rb := vhC20RunAdd(p.d, seg, clipping, shapeB)

	vAssert("C20.pool.add.same_count", len(qa) == len(qb) && ra == rb && len(qa)%2 == 0)
	if len(qa) != len(qb) {
		return
	}
	same, links, clean := true, true, true
	for i := range qa {
		a, b := qa[i], qb[i]
		same = same && vhC20Scalars(a) == vhC20Scalars(b)
		links = links && a.other == qa[i^1] && b.other == qb[i^1]
		links = links && a.node == nil && b.node == nil && a.prev == nil && b.prev == nil
		// a freshly queued endpoint has no sweep state yet
		clean = clean && a.windings == 0 && a.otherWindings == 0 && a.selfWindings == 0 && a.otherSelfWindings == 0 &&
			a.index == 0 && a.resultWindings == 0 && !a.overlapped && a.inResult == 0
		clean = clean && a.clipping == clipping && a.segment > seg && a.segment <= seg+nseg+1
	}
	vAssert("C20.pool.add.fields_independent_of_stale_state", same)
	vAssert("C20.pool.add.pointers_reset", links)
	vAssert("C20.pool.add.sweep_fields_cleared", clean)
}

// ---- kernel 2: SweepPoint.SplitAt ----

type vhC20SegIn struct {
	l, r   vhC20EvScalars
	z      Point
	hasNd  bool
	hasPrv bool
}

func vhC20Fill(s *SweepPoint, v vhC20EvScalars) {
	s.Point, s.segment, s.windings, s.otherWindings, s.selfWindings, s.otherSelfWindings = v.p, v.segment, v.windings, v.otherWindings, v.selfWindings, v.osw
	s.index, s.resultWindings, s.clipping, s.open, s.left, s.vertical, s.increasing, s.overlapped, s.inResult = v.index, v.resultWindings, v.clipping, v.open, v.left, v.vertical, v.increasing, v.overl, v.inResult
}

func vhC20AnyScalars() vhC20EvScalars {
	return vhC20EvScalars{Point{vhAnyFinite(), vhAnyFinite()}, vNondetInt(), vNondetInt(), vNondetInt(), vNondetInt(), vNondetInt(),
		vNondetInt(), vNondetInt(), vNondetBool(), vNondetBool(), vNondetBool(), vNondetBool(), vNondetBool(), vNondetBool(), vNondetByte()}
}

type vhC20SplitOut struct {
	s, o, r, l   vhC20EvScalars
	linksOK      bool
	nodeOK       bool
	prevOK       bool
	distinctObjs bool
}

func vhC20RunSplit(in vhC20SegIn, garbage bool) vhC20SplitOut {
	st := vhC20PutPoints(2, garbage)
	s, o := &SweepPoint{}, &SweepPoint{}
	vhC20Fill(s, in.l)
	vhC20Fill(o, in.r)
	s.other, o.other = o, s
	below := &SweepPoint{}
	var nd *SweepNode
	if in.hasNd {
		nd = &SweepNode{SweepPoint: s, height: 1}
		s.node = nd
	}
	if in.hasPrv {
		s.prev, o.prev = below, below
	}
	r, l := s.SplitAt(in.z)
	vhC20DrainPoints(st)
	out := vhC20SplitOut{s: vhC20Scalars(s), o: vhC20Scalars(o), r: vhC20Scalars(r), l: vhC20Scalars(l)}
	// s--r is the left part, l--o the right part
	out.linksOK = s.other == r && r.other == s && l.other == o && o.other == l
	// the status node stays with the original left endpoint; the new left endpoint has none yet
	out.nodeOK = s.node == nd && l.node == nil && r.node == nil && o.node == nil
	if in.hasPrv {
		out.prevOK = r.prev == below && l.prev == below && s.prev == below
	} else {
		out.prevOK = r.prev == nil && l.prev == nil && s.prev == nil
	}
	out.distinctObjs = r != l && r != s && r != o && l != s && l != o
	return out
}

// VH_C20_pool_splitat: a segment with arbitrary sweep state split at an arbitrary finite point.
func VH_C20_pool_splitat() {
	vhC20Init()
	in := vhC20SegIn{l: vhC20AnyScalars(), r: vhC20AnyScalars(), z: Point{vhAnyFinite(), vhAnyFinite()}}
	in.hasNd = vChoose(0, 1) == 1
	in.hasPrv = vChoose(0, 1) == 1
	shapeB := vChoose(0, 1) == 1
	a := vhC20RunSplit(in, true)
	b := vhC20RunSplit(in, shapeB)
	vAssert("C20.pool.split.fields_independent_of_stale_state", a.s == b.s && a.o == b.o && a.r == b.r && a.l == b.l)
	vAssert("C20.pool.split.links", a.linksOK && b.linksOK && a.distinctObjs && b.distinctObjs)
	vAssert("C20.pool.split.node_pointers", a.nodeOK && b.nodeOK)
	vAssert("C20.pool.split.prev_pointers", a.prevOK && b.prevOK)
	// the new endpoints are copies of the old ones moved to z
	wantR, wantL := in.r, in.l
	wantR.p, wantL.p = in.z, in.z
	vAssert("C20.pool.split.copies_at_z", a.r == wantR && a.l == wantL && a.s == in.l && a.o == in.r)
}

// ---- kernel 3: SweepStatus node allocation (newNode via InsertAfter / Insert / Remove) ----

// vhC20Tree serialises a status tree: pre-order list of (item index, height, parent item, has
// left, has right) plus validity of parent links, AVL heights, and item<->node back pointers.
func vhC20Tree(s *SweepStatus, items []*SweepPoint) (ser []int, valid bool) {
	idx := func(p *SweepPoint) int {
		for i, it := range items {
			if it == p {
				return i
			}
		}
		return -1
	}
	valid = true
	var walk func(n, parent *SweepNode, depth int) int
	walk = func(n, parent *SweepNode, depth int) int {
		if n == nil {
			return 0
		}
		if depth > 6 {
			valid = false
			return 0
		}
		pi := -1
		if parent != nil {
			pi = idx(parent.SweepPoint)
		}
		hl, hr := 0, 0
		if n.left != nil {
			hl = 1
		}
		if n.right != nil {
			hr = 1
		}
		ser = append(ser, idx(n.SweepPoint), n.height, pi, hl, hr)
		valid = valid && n.parent == parent && n.SweepPoint != nil && idx(n.SweepPoint) >= 0 && n.SweepPoint.node == n
		l := walk(n.left, n, depth+1)
		r := walk(n.right, n, depth+1)
		h := l
		if r > h {
			h = r
		}
		// (the stored height of the root may lag by one: Insert/InsertAfter only update a parent's
		// height when it has a parent itself, and nobody reads the root's height)
		valid = valid && (n.height == h+1 || parent == nil) && l-r <= 1 && r-l <= 1
		return h + 1
	}
	walk(s.root, nil, 0)
	return ser, valid
}

func vhC20InOrder(s *SweepStatus, items []*SweepPoint) []int {
	var out []int
	k := 0
	for n := s.First(); n != nil && k < 8; n = n.Next() {
		for i, it := range items {
			if it == n.SweepPoint {
				out = append(out, i)
			}
		}
		k++
	}
	return out
}

func vhC20SameInts(a, b []int) bool {
	if len(a) != len(b) {
		return false
	}
	ok := true
	for i := range a {
		ok = ok && a[i] == b[i]
	}
	return ok
}

// vhC20RunTree: k insertions; insertion j goes after the node of item pos[j] (-1: in front of
// all).  If del >= 0 that item is removed before the last insertion (its node goes back to the
// pool through returnNode and is the next one handed out).
func vhC20RunTree(pos []int, del int, garbage bool) (ser, order []int, valid bool) {
	st := make([]*SweepNode, len(pos))
	for i := range st {
		st[i] = vhC20StaleNode(garbage)
	}
	for _, n := range st {
		boNodePool.Put(n)
	}
	items := make([]*SweepPoint, len(pos))
	status := &SweepStatus{}
	for j, pj := range pos {
		items[j] = &SweepPoint{segment: j}
		if j == len(pos)-1 && del >= 0 {
			status.Remove(items[del].node)
		}
		var after *SweepNode
		if pj >= 0 {
			after = items[pj].node
		}
		status.InsertAfter(after, items[j])
	}
	// take back unused poisoned nodes
	for k := 0; k <= len(st); k++ {
		x := boNodePool.Get().(*SweepNode)
		ours := false
		for _, s := range st {
			ours = ours || s == x
		}
		if !ours {
			break
		}
	}
	ser, valid = vhC20Tree(status, items)
	return ser, vhC20InOrder(status, items), valid
}

// VH_C20_pool_nodes: every sequence of 1..4 InsertAfter calls (5 in the thorough tier), with an
// optional Remove of an earlier item before the last insertion.
func VH_C20_pool_nodes() {
	vhC20Init()
	k := vChoose(1, 4+vTier())
	pos := make([]int, k)
	want := []int{} // expected bottom-to-top order of the items
	del := -1
	for j := 0; j < k; j++ {
		if j == k-1 && j >= 2 && vChoose(0, 1) == 1 {
			del = vChoose(0, j-1)
			nw := []int{}
			for _, w := range want {
				if w != del {
					nw = append(nw, w)
				}
			}
			want = nw
		}
		// choose the predecessor among the items currently in the tree
		c := vChoose(-1, len(want)-1)
		pj := -1
		if c >= 0 {
			pj = want[c]
		}
		pos[j] = pj
		nw := []int{}
		if pj < 0 {
			nw = append(nw, j)
		}
		for _, w := range want {
			nw = append(nw, w)
			if w == pj {
				nw = append(nw, j)
			}
		}
		want = nw
	}
	shapeB := vChoose(0, 1) == 1
	sa, oa, va := vhC20RunTree(pos, del, true)
	sb, ob, vb := vhC20RunTree(pos, del, shapeB)
	vAssert("C20.pool.nodes.tree_independent_of_stale_state", vhC20SameInts(sa, sb))
	vAssert("C20.pool.nodes.tree_valid", va && vb)
	vAssert("C20.pool.nodes.order", vhC20SameInts(oa, want) && vhC20SameInts(ob, want))
}

// ---- kernel 4: toleranceSquares.Add ----

type vhC20SqOut struct {
	xs, ys  []float64
	events  [][]int
	nodes   []int
	loUpNil bool
}

func vhC20RunSquares(xs []float64, evs []*SweepPoint, refs []*SweepNode, garbage bool) vhC20SqOut {
	st := make([]*toleranceSquare, len(evs))
	for i := range st {
		st[i] = vhC20StaleSquare(garbage)
	}
	for _, s := range st {
		boSquarePool.Put(s)
	}
	squares := toleranceSquares{}
	for i, ev := range evs {
		squares.Add(xs[i], ev, refs[i])
	}
	for k := 0; k <= len(st); k++ {
		x := boSquarePool.Get().(*toleranceSquare)
		ours := false
		for _, s := range st {
			ours = ours || s == x
		}
		if !ours {
			break
		}
	}
	out := vhC20SqOut{loUpNil: true}
	for _, sq := range squares {
		out.xs = append(out.xs, sq.X)
		out.ys = append(out.ys, sq.Y)
		var es []int
		for _, e := range sq.Events {
			id := -1
			for i, ev := range evs {
				if ev == e {
					id = i
				}
			}
			es = append(es, id)
		}
		out.events = append(out.events, es)
		nid := -1
		for i, r := range refs {
			if r != nil && r == sq.Node {
				nid = i
			}
		}
		if sq.Node == nil {
			nid = -2
		}
		out.nodes = append(out.nodes, nid)
		out.loUpNil = out.loUpNil && sq.Lower == nil && sq.Upper == nil
	}
	return out
}

// vhC20SameF: same float value (the snapped y goes through uninterpreted arithmetic, which may be
// NaN in a solver model; NaN != NaN would be a false alarm).
func vhC20SameF(a, b float64) bool { return a == b || (a != a && b != b) }

func vhC20SnapId(val, spacing float64) float64 { return val }

// VH_C20_pool_squares: 1..3 events added to an empty square list at the same sweep position x
// (the way the sweep fills it), any finite y (snapped by the real snap), left or right
// endpoints, reference node present or nil.
func VH_C20_pool_squares() {
	vhC20Init()
	// Add reads event.Y only through y = snap(event.Y, eps).  snap is replaced by the identity:
	// with arbitrary finite event.Y (equal ones included) this produces every tuple of y values
	// the monotone real snap can produce (and more), without rounding arithmetic in the queries.
	vStub("github.com/tdewolff/canvas.snap", vhC20SnapId)
	k := vChoose(1, 3)
	x := vhAnyFinite()
	xs := make([]float64, k)
	evs := make([]*SweepPoint, k)
	refs := make([]*SweepNode, k)
	for i := 0; i < k; i++ {
		xs[i] = x
		e, o := &SweepPoint{Point: Point{x, vhAnyFinite()}, segment: i}, &SweepPoint{segment: i}
		e.other, o.other = o, e
		e.left = vChoose(0, 1) == 1
		o.left = !e.left
		if vChoose(0, 1) == 1 {
			refs[i] = &SweepNode{SweepPoint: e, height: 1}
		}
		evs[i] = e
	}
	shapeB := vChoose(0, 1) == 1
	a := vhC20RunSquares(xs, evs, refs, true)
	b := vhC20RunSquares(xs, evs, refs, shapeB)
	same := len(a.xs) == len(b.xs)
	if same {
		for i := range a.xs {
			same = same && vhC20SameF(a.xs[i], b.xs[i]) && vhC20SameF(a.ys[i], b.ys[i]) && a.nodes[i] == b.nodes[i] && vhC20SameInts(a.events[i], b.events[i])
		}
	}
	vAssert("C20.pool.squares.independent_of_stale_state", same)
	vAssert("C20.pool.squares.crossing_nodes_cleared", a.loUpNil && b.loUpNil)
	// every event sits in exactly one square, no stale event survives
	cnt := 0
	okEv := true
	for _, es := range a.events {
		for _, id := range es {
			okEv = okEv && id >= 0
			cnt++
		}
	}
	vAssert("C20.pool.squares.events_exactly_the_added_ones", okEv && cnt == k)
}
