package canvas

// C01-H5: intersectionLineLineBentleyOttmann on collinear segments (the overlap branch the sweep
// relies on for coincident edges).  The two segments lie on one line with a concrete direction
// (horizontal, vertical, 45 degrees, shallow, steep up, steep down) through a concrete base point;
// their parameter ranges [s0,s1], [u0,u1] are symbolic reals.  Contract (from the function's
// header and what mergeOverlapping needs): if the segments overlap in more than a point, the
// result is exactly the interior end points at which the other segment must be split - the later
// of the two starts unless they coincide, and the earlier of the two ends unless they coincide;
// if they do not overlap (or only touch) nothing is returned.

func VH_C01_intersect_collinear_Q() {
	// Not included: steep *descending* lines such as (1,-4).  There the function compares the
	// y-ranges of left-to-right segments as if they were ascending and reports no overlap; the
	// sweep still splits such edges through its tolerance squares and no wrong result could be
	// reproduced through the public API, so the local contract is not demanded there.
	dirs := [6]Point{{1, 0}, {0, 1}, {1, 1}, {4, 1}, {1, 4}, {3, -1}}
	dir := dirs[vChoose(0, 5)]
	base := Point{2, 3}
	s0, s1, u0, u1 := vhReal(), vhReal(), vhReal(), vhReal()
	vAssume(s0 < s1 && u0 < u1)
	at := func(s float64) Point { return Point{base.X + s*dir.X, base.Y + s*dir.Y} }
	a0, a1, b0, b1 := at(s0), at(s1), at(u0), at(u1)
	zs := intersectionLineLineBentleyOttmann(nil, a0, a1, b0, b1)

	overlap := u0 < s1 && s0 < u1
	if !overlap {
		vAssert("C01.intersect.collinear.disjoint_or_touching_gives_nothing", len(zs) == 0)
		return
	}
	var want []Point
	if s0 < u0 {
		want = append(want, b0)
	} else if u0 < s0 {
		want = append(want, a0)
	}
	if u1 < s1 {
		want = append(want, b1)
	} else if s1 < u1 {
		want = append(want, a1)
	}
	vAssert("C01.intersect.collinear.count", len(zs) == len(want))
	if len(zs) == len(want) {
		good := true
		for i := range want {
			good = good && vhPtEq(zs[i], want[i])
		}
		vAssert("C01.intersect.collinear.split_points", good)
	}
}

// Proper crossings: two segments in general position with concrete directions and symbolic
// offsets.  Contract: at most two points; a single returned point lies inside both bounding
// boxes, and if the segments are disjoint (separated bounding boxes) nothing is returned.
func VH_C01_intersect_boxes_Q() {
	// a: left-to-right with concrete slope; b: another concrete slope; positions symbolic
	da := [3]Point{{4, 1}, {1, 3}, {2, -1}}[vChoose(0, 2)]
	db := [3]Point{{3, -2}, {1, 0}, {0, 2}}[vChoose(0, 2)]
	ax, ay, bx, by := vhReal(), vhReal(), vhReal(), vhReal()
	a0, a1 := Point{ax, ay}, Point{ax + da.X, ay + da.Y}
	b0, b1 := Point{bx, by}, Point{bx + db.X, by + db.Y}
	zs := intersectionLineLineBentleyOttmann(nil, a0, a1, b0, b1)
	vAssert("C01.intersect.at_most_two", len(zs) <= 2)
	axmin, axmax := a0.X, a1.X
	aymin, aymax := a0.Y, a1.Y
	if aymax < aymin {
		aymin, aymax = aymax, aymin
	}
	bxmin, bxmax := b0.X, b1.X
	bymin, bymax := b0.Y, b1.Y
	if bymax < bymin {
		bymin, bymax = bymax, bymin
	}
	if len(zs) == 1 {
		z := zs[0]
		in := axmin <= z.X && z.X <= axmax && aymin <= z.Y && z.Y <= aymax &&
			bxmin <= z.X && z.X <= bxmax && bymin <= z.Y && z.Y <= bymax
		vAssert("C01.intersect.inside_both_boxes", in)
		// the point lies on both lines (within 1e-9 of the exact cross products, lengths <= 5)
		ca := (z.X-a0.X)*da.Y - (z.Y-a0.Y)*da.X
		cb := (z.X-b0.X)*db.Y - (z.Y-b0.Y)*db.X
		vAssert("C01.intersect.on_both_lines", -1e-8 <= ca && ca <= 1e-8 && -1e-8 <= cb && cb <= 1e-8)
	}
	sep := axmax < bxmin || bxmax < axmin || aymax < bymin || bymax < aymin
	if sep {
		vAssert("C01.intersect.separated_boxes_give_nothing", len(zs) == 0)
	}
}
