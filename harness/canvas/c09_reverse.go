package canvas

// C09-H1: Reverse on every path shape with <= 2 subpaths of <= 2 (quick) / 3 (thorough)
// segments of any kind, open or closed, with arbitrary finite coordinates (FP domain; Reverse
// only moves data and compares points).
// Precondition beyond WF (stated bound): a closed subpath's last vertex is either bit-identical
// to its start or not Equal to it (the in-between case moves a vertex by <= Epsilon).

func vhReverseInput(two bool) *Path {
	p := &Path{}
	if !two {
		// one subpath, up to 2 (quick) / 3 (thorough) segments of every kind
		nseg := vChoose(1, 2+vTier())
		kinds := vhChooseKinds(nseg, []int{vhLine, vhQuad, vhCube, vhArc})
		vhRawSubpath(p, vhAnyFinite, kinds, vChoose(0, 1))
	} else {
		// two subpaths of 1-2 segments (lines and cubics; the per-kind data movement is
		// covered by the one-subpath harness)
		for s := 0; s < 2; s++ {
			nseg := vChoose(1, 2)
			kinds := vhChooseKinds(nseg, []int{vhLine, vhCube})
			vhRawSubpath(p, vhAnyFinite, kinds, vChoose(0, 1))
		}
	}
	vAssume(vhWF(p))
	subs, _ := vhDecode(p.d)
	for _, sub := range subs {
		if sub.closed {
			c := sub.segs[len(sub.segs)-1]
			vAssume(vhPtEq(c.start, c.end) || !c.start.Equals(c.end))
		}
	}
	return p
}

func VH_C09_reverse1_Q() { vhReverseCheck(vhReverseInput(false)) }
func VH_C09_reverse2_Q() { vhReverseCheck(vhReverseInput(true)) }

func vhReverseCheck(p *Path) {
	before := vhCopyData(p.d)
	q := p.Reverse()
	vAssert("C09.reverse.receiver_unchanged", vhSameData(p.d, before))
	vAssert("C09.reverse.wellformed", vhWFOut(q))

	ps, _ := vhDecode(p.d)
	qs, ok := vhDecode(q.d)
	vAssert("C09.reverse.decodable", ok && len(qs) == len(ps))
	if !ok || len(qs) != len(ps) {
		return
	}
	for k := range ps {
		a, b := ps[k], qs[len(ps)-1-k]
		vAssert("C09.reverse.closedness", a.closed == b.closed)
		// geometric segments of a (dropping a zero-length closing record), reversed
		as := a.segs
		if a.closed && vhPtEq(as[len(as)-1].start, as[len(as)-1].end) {
			as = as[:len(as)-1]
		}
		bs := b.segs
		if b.closed && vhPtEq(bs[len(bs)-1].start, bs[len(bs)-1].end) {
			bs = bs[:len(bs)-1]
		}
		vAssert("C09.reverse.count", len(as) == len(bs))
		if len(as) != len(bs) {
			return
		}
		for i := range as {
			x, y := as[len(as)-1-i], bs[i]
			xc, yc := x.cmd, y.cmd
			if xc == CloseCmd {
				xc = LineToCmd
			}
			if yc == CloseCmd {
				yc = LineToCmd
			}
			okSeg := xc == yc && vhPtEq(x.start, y.end) && vhPtEq(x.end, y.start)
			switch xc {
			case QuadToCmd:
				okSeg = okSeg && x.a[0] == y.a[0] && x.a[1] == y.a[1]
			case CubeToCmd:
				okSeg = okSeg && x.a[0] == y.a[2] && x.a[1] == y.a[3] && x.a[2] == y.a[0] && x.a[3] == y.a[1]
			case ArcToCmd:
				xl, xs := toArcFlags(x.a[3])
				yl, ys := toArcFlags(y.a[3])
				okSeg = okSeg && x.a[0] == y.a[0] && x.a[1] == y.a[1] && x.a[2] == y.a[2] && xl == yl && xs != ys
			}
			vAssert("C09.reverse.segment", okSeg)
		}
	}
	r := q.Reverse()
	vAssert("C09.reverse.involution", vhSameData(r.d, p.d))
}
