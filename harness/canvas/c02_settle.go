package canvas

// C02-H2: FillRule.Fills over all 64-bit winding numbers and all rule values.
func VH_C02_fills() {
	w := vNondetInt()
	r := vNondetInt()
	got := FillRule(r).Fills(w)
	want := false
	switch {
	case r == int(NonZero):
		want = w != 0
	case r == int(EvenOdd):
		// odd, including negative odd numbers
		want = w&1 == 1
	case r == int(Positive):
		want = w > 0
	case r == int(Negative):
		want = w < 0
	}
	vAssert("C02.fills", got == want)
}
