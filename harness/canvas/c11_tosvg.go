package canvas

import (
	"io"
	"math"
	"strconv"
)

// C11-H3: ToSVG emits path data that describes the same geometry (incl. the H/V shorthands, the
// omitted zero-length lines and the rx/ry swap for rotations >= 90 degrees).
// Under the engine fmt.Fprintf is replaced by a recorder ("!" stub) that keeps the concrete format
// strings and the (symbolic) num arguments; natively the real text is lexed.  Both front-ends
// yield a token list (command letter + numbers) that is interpreted by the SVG path-data rules
// and compared with the segments of the input path.

type vhC11STok struct {
	cmd  byte
	args []float64
}

var vhC11SRec []vhC11STok

func vhC11FprintfRec(w io.Writer, format string, a ...interface{}) (int, error) {
	// formats used by ToSVG: "M%v %v", "V%v", "H%v", "L%v %v", "Q%v %v %v %v", "C%v ...", "A%v %v %v %s%s%v %v", "z"
	t := vhC11STok{cmd: format[0]}
	for _, v := range a {
		switch x := v.(type) {
		case num:
			t.args = append(t.args, float64(x))
		case string: // arc flags "0"/"1"
			if x == "1" {
				t.args = append(t.args, 1)
			} else {
				t.args = append(t.args, 0)
			}
		}
	}
	vhC11SRec = append(vhC11SRec, t)
	return 0, nil
}

// vhC11SLex: native front-end: lex the text ToSVG produced (numbers may follow each other with
// only a sign or a dot as separator; arc flags are single digits).
func vhC11SLex(s string) []vhC11STok {
	var toks []vhC11STok
	i := 0
	for i < len(s) {
		c := s[i]
		if c == ' ' || c == ',' {
			i++
			continue
		}
		if (c >= 'A' && c <= 'Z') || (c >= 'a' && c <= 'z') {
			toks = append(toks, vhC11STok{cmd: c})
			i++
			continue
		}
		cur := &toks[len(toks)-1]
		if cur.cmd == 'A' && (len(cur.args)%7 == 3 || len(cur.args)%7 == 4) {
			cur.args = append(cur.args, float64(c-'0'))
			i++
			continue
		}
		j := i
		if j < len(s) && (s[j] == '-' || s[j] == '+') {
			j++
		}
		seenDot, seenExp := false, false
		for j < len(s) {
			d := s[j]
			if d >= '0' && d <= '9' {
				j++
			} else if d == '.' && !seenDot && !seenExp {
				seenDot = true
				j++
			} else if (d == 'e' || d == 'E') && !seenExp {
				seenExp = true
				j++
				if j < len(s) && (s[j] == '-' || s[j] == '+') {
					j++
				}
			} else {
				break
			}
		}
		f, _ := strconv.ParseFloat(s[i:j], 64)
		cur.args = append(cur.args, f)
		i = j
	}
	return toks
}

func vhC11Close8(a, b float64) bool {
	// the printer keeps 8 significant digits
	return math.Abs(a-b) <= 1e-6*(1+math.Abs(b))
}

// vhC11SVGGroups splits a token list into subpaths according to SVG 2 section 9.3: an M starts a
// subpath; a drawing command directly after a z starts one at the initial point of the subpath just
// closed (a synthetic M token is put in front of it).
func vhC11SVGGroups(toks []vhC11STok) (groups [][]vhC11STok, ok bool) {
	ok = true
	var start Point
	var cur Point
	afterZ := false
	for _, t := range toks {
		if t.cmd == 'M' {
			if len(t.args) != 2 {
				return nil, false
			}
			groups = append(groups, []vhC11STok{t})
			start = Point{t.args[0], t.args[1]}
			cur = start
			afterZ = false
			continue
		}
		if len(groups) == 0 {
			return nil, false
		}
		if afterZ {
			groups = append(groups, []vhC11STok{{cmd: 'M', args: []float64{start.X, start.Y}}})
			afterZ = false
		}
		g := len(groups) - 1
		groups[g] = append(groups[g], t)
		switch t.cmd {
		case 'z':
			afterZ = true
			cur = start
		case 'H':
			if len(t.args) == 1 {
				cur.X = t.args[0]
			}
		case 'V':
			if len(t.args) == 1 {
				cur.Y = t.args[0]
			}
		default:
			if len(t.args) >= 2 {
				cur = Point{t.args[len(t.args)-2], t.args[len(t.args)-1]}
			}
		}
	}
	return groups, ok
}

// vhC11SVGSameSub: the tokens of one subpath describe the subpath sub.
func vhC11SVGSameSub(toks []vhC11STok, sub vhSub) bool {
	var cur, start Point
	k := 0 // index into the input segments (zero-length lines are not printed)
	segs := sub.segs
	good := true
	for ti, t := range toks {
		if ti == 0 {
			good = good && t.cmd == 'M' && len(t.args) == 2
			if !good {
				break
			}
			cur = Point{t.args[0], t.args[1]}
			start = cur
			good = good && vhC11Close8(cur.X, sub.start.X) && vhC11Close8(cur.Y, sub.start.Y)
			continue
		}
		// skip input lines of zero length (they are legitimately omitted)
		for k < len(segs) && segs[k].cmd == LineToCmd && segs[k].start.Equals(segs[k].end) {
			k++
		}
		if k >= len(segs) {
			good = false
			break
		}
		sg := segs[k]
		k++
		var end Point
		switch t.cmd {
		case 'H':
			good = good && sg.cmd == LineToCmd && len(t.args) == 1
			if good {
				end = Point{t.args[0], cur.Y}
			}
		case 'V':
			good = good && sg.cmd == LineToCmd && len(t.args) == 1
			if good {
				end = Point{cur.X, t.args[0]}
			}
		case 'L':
			good = good && sg.cmd == LineToCmd && len(t.args) == 2
			if good {
				end = Point{t.args[0], t.args[1]}
			}
		case 'Q':
			good = good && sg.cmd == QuadToCmd && len(t.args) == 4
			if good {
				good = vhC11Close8(t.args[0], sg.a[0]) && vhC11Close8(t.args[1], sg.a[1])
				end = Point{t.args[2], t.args[3]}
			}
		case 'C':
			good = good && sg.cmd == CubeToCmd && len(t.args) == 6
			if good {
				good = vhC11Close8(t.args[0], sg.a[0]) && vhC11Close8(t.args[1], sg.a[1]) && vhC11Close8(t.args[2], sg.a[2]) && vhC11Close8(t.args[3], sg.a[3])
				end = Point{t.args[4], t.args[5]}
			}
		case 'A':
			good = good && sg.cmd == ArcToCmd && len(t.args) == 7
			if good {
				rot := sg.a[2] * 180 / math.Pi
				same := vhC11Close8(t.args[0], sg.a[0]) && vhC11Close8(t.args[1], sg.a[1]) && vhC11Close8(t.args[2], rot)
				swapped := vhC11Close8(t.args[0], sg.a[1]) && vhC11Close8(t.args[1], sg.a[0]) && vhC11Close8(t.args[2], rot-90)
				large, sweep := toArcFlags(sg.a[3])
				good = (same || swapped) && (t.args[3] == 1) == large && (t.args[4] == 1) == sweep
				end = Point{t.args[5], t.args[6]}
			}
		case 'z':
			good = good && sg.cmd == CloseCmd
			end = start
		default:
			good = false
		}
		if !good {
			break
		}
		good = good && vhC11Close8(end.X, sg.end.X) && vhC11Close8(end.Y, sg.end.Y)
		cur = end
	}
	// everything left over in the input must be omittable
	for k < len(segs) && segs[k].cmd == LineToCmd && segs[k].start.Equals(segs[k].end) {
		k++
	}
	return good && k == len(segs)
}

// vhC11SVGGenPos: general position for the H/V shorthand decisions: coordinates of consecutive
// points are identical or at least 1e-6 apart.
func vhC11SVGGenPos(subs []vhSub) bool {
	gp := true
	var prev Point
	for si, sub := range subs {
		if si > 0 {
			dx, dy := math.Abs(sub.start.X-prev.X), math.Abs(sub.start.Y-prev.Y)
			gp = gp && (dx == 0 || dx >= 1e-6) && (dy == 0 || dy >= 1e-6)
		}
		prev = sub.start
		for _, sg := range sub.segs {
			dx, dy := math.Abs(sg.end.X-sg.start.X), math.Abs(sg.end.Y-sg.start.Y)
			gp = gp && (dx == 0 || dx >= 1e-6) && (dy == 0 || dy >= 1e-6)
			if sg.cmd == ArcToCmd {
				// rotation away from the 90 degree switch
				gp = gp && math.Abs(sg.a[2]-math.Pi/2) >= 1e-6
			}
			prev = sg.end
		}
	}
	return gp
}

func vhC11SVGCheck(p *Path, id1, id2 string) {
	subs, _ := vhDecode(p.d)
	vAssume(vhC11SVGGenPos(subs))
	before := vhCopyData(p.d)
	vhC11SRec = nil
	s := p.ToSVG()
	vAssert(id1, vhSameData(p.d, before))
	toks := vhC11SRec
	if !vInterp() {
		toks = vhC11SLex(s)
	}
	groups, ok := vhC11SVGGroups(toks)
	good := ok && len(groups) == len(subs)
	if good {
		for i := range subs {
			good = good && vhC11SVGSameSub(groups[i], subs[i])
		}
	}
	vAssert(id2, good)
}

func VH_C11_tosvg_Q() {
	vStub("!fmt.Fprintf", vhC11FprintfRec)
	p := &Path{}
	nseg := vChoose(1, 2+vTier())
	kinds := vhChooseKinds(nseg, []int{vhLine, vhQuad, vhCube, vhArc})
	vhRawSubpath(p, vhReal, kinds, vChoose(0, 1))
	vAssume(vhWF(p))
	vhC11SVGCheck(p, "C11.tosvg.receiver_unchanged", "C11.tosvg.same_geometry")
}

// C11-H3b: several subpaths (lines and one optional curve kind), open and closed, where a
// subpath may start exactly where the previous one ended or started: the text must keep the
// subpaths apart.
func VH_C11_tosvg_multi_Q() {
	vStub("!fmt.Fprintf", vhC11FprintfRec)
	p := &Path{}
	nsub := vChoose(2, 2+vTier())
	for i := 0; i < nsub; i++ {
		nseg := vChoose(1, 2)
		kinds := make([]int, nseg)
		if vChoose(0, 1) == 1 {
			kinds[nseg-1] = vhQuad
		}
		vhRawSubpath(p, vhReal, kinds, vChoose(0, 1))
	}
	vAssume(vhWF(p))
	vhC11SVGCheck(p, "C11.tosvg.multi.receiver_unchanged", "C11.tosvg.multi.same_geometry")
}
