package canvas

import "math"

// C09-H3: SplitAt inside one circular arc: large-arc flag bookkeeping of the emitted pieces.
// The arc is a concrete circle arc (radius 10, centre (0,0)) of 300 or 200 degrees, CCW or CW; the
// two cut positions are symbolic arc lengths.  For a circle the inverse arc-length map is linear,
// so invSpeedPolynomialChebyshevApprox is replaced by its exact closed form in the symbolic run
// (natively the real Chebyshev approximation runs); math.Mod by an exact bounded model; ArcTo by a
// raw append (its radius correction is not the subject).  Oracle: every emitted piece carries the
// large flag iff it spans more than 180 degrees, the sweep flag of the arc, and the pieces'
// angular spans add up to the arc's.

func vhC09InvSpeedCircle(N int, gl gaussLegendreFunc, fp func(float64) float64, tmin, tmax float64) (func(float64) float64, float64) {
	r := fp(tmin) // speed of a circle is its radius
	dT := math.Abs(tmax-tmin) * r
	return func(l float64) float64 { return tmin + (tmax-tmin)*l/dT }, dT
}

func vhC09Mod2Pi(x, y float64) float64 { return vhModBounded(x, y) }

func vhC09RawArcTo(p *Path, rx, ry, rot float64, large, sweep bool, x, y float64) {
	if len(p.d) == 0 {
		p.d = append(p.d, MoveToCmd, 0, 0, MoveToCmd)
	}
	p.d = append(p.d, ArcToCmd, rx, ry, rot*math.Pi/180.0, fromArcFlags(large, sweep), x, y, ArcToCmd)
}

func VH_C09_arcsplit_Q() {
	vStub("github.com/tdewolff/canvas.invSpeedPolynomialChebyshevApprox", vhC09InvSpeedCircle)
	vStub("math.Mod", vhC09Mod2Pi)
	vStub("(*github.com/tdewolff/canvas.Path).ArcTo", vhC09RawArcTo)
	deg := []float64{300, 200, 120}[vChoose(0, 2)]
	sweep := vChoose(0, 1) == 1
	ang := deg * math.Pi / 180
	if !sweep {
		ang = -ang
	}
	end := Point{10 * math.Cos(ang), 10 * math.Sin(ang)}
	p := &Path{}
	p.d = []float64{MoveToCmd, 10, 0, MoveToCmd, ArcToCmd, 10, 10, 0, fromArcFlags(deg > 180, sweep), end.X, end.Y, ArcToCmd}
	L := 10 * deg * math.Pi / 180
	t1, t2 := vNondetF64(), vNondetF64()
	vAssume(0.01 <= t1 && t1+0.01 <= t2 && t2 <= L-0.01)
	// general position: no piece spans 180 degrees +- 1e-3 rad
	half := 10 * math.Pi
	spans := []float64{t1, t2 - t1, L - t2}
	gp := true
	for _, sp := range spans {
		gp = gp && math.Abs(sp-half) >= 1e-2
	}
	vAssume(gp)
	qs := p.SplitAt(t1, t2)
	vAssert("C09.arcsplit.count", len(qs) == 3)
	if len(qs) != 3 {
		return
	}
	for k, q := range qs {
		subs, ok := vhDecode(q.d)
		good := ok && len(subs) == 1 && len(subs[0].segs) == 1 && subs[0].segs[0].cmd == ArcToCmd
		vAssert("C09.arcsplit.piece_is_one_arc", good)
		if !good {
			return
		}
		large, sw := toArcFlags(subs[0].segs[0].a[3])
		vAssert("C09.arcsplit.sweep_kept", sw == sweep)
		vAssert("C09.arcsplit.large_iff_more_than_half_turn", large == (spans[k] > half))
	}
}
