package canvas

import "math"

// C09-H3: SplitAt inside one circular arc: large-arc flag bookkeeping of the emitted pieces.
// The arc is a concrete circle arc (radius 10, centre (0,0)) of 300 or 200 degrees, CCW or CW; the
// two cut positions are symbolic arc lengths.  For a circle the inverse arc-length map is linear,
// so invSpeedPolynomialChebyshevApprox is replaced by its exact closed form in the symbolic run
// (natively the real Chebyshev approximation runs); math.Mod by an exact bounded model; ArcTo by a
// raw append (its radius correction is not the subject).  Oracle: every emitted piece carries the
// large flag iff it spans more than 180 degrees, the sweep flag of the arc, and the pieces'
// angular spans add up to the arc's.

func vhC09InvSpeedCircle(N int, gl gaussLegendreFunc, fp func(float64) float64, tmin, tmax float64) (func(float64) float64, float64) {
	r := fp(tmin) // speed of a circle is its radius
	dT := math.Abs(tmax-tmin) * r
	return func(l float64) float64 { return tmin + (tmax-tmin)*l/dT }, dT
}

func vhC09Mod2Pi(x, y float64) float64 { return vhModBounded(x, y) }

func vhC09RawArcTo(p *Path, rx, ry, rot float64, large, sweep bool, x, y float64) {
	if len(p.d) == 0 {
		p.d = append(p.d, MoveToCmd, 0, 0, MoveToCmd)
	}
	p.d = append(p.d, ArcToCmd, rx, ry, rot*math.Pi/180.0, fromArcFlags(large, sweep), x, y, ArcToCmd)
}

func VH_C09_arcsplit_Q() {
	vStub("github.com/tdewolff/canvas.invSpeedPolynomialChebyshevApprox", vhC09InvSpeedCircle)
	vStub("math.Mod", vhC09Mod2Pi)
	vStub("(*github.com/tdewolff/canvas.Path).ArcTo", vhC09RawArcTo)
	deg := []float64{300, 200, 120}[vChoose(0, 2)]
	sweep := vChoose(0, 1) == 1
	ang := deg * math.Pi / 180
	if !sweep {
		ang = -ang
	}
	end := Point{10 * math.Cos(ang), 10 * math.Sin(ang)}
	p := &Path{}
	p.d = []float64{MoveToCmd, 10, 0, MoveToCmd, ArcToCmd, 10, 10, 0, fromArcFlags(deg > 180, sweep), end.X, end.Y, ArcToCmd}
	L := 10 * deg * math.Pi / 180
	t1, t2 := vNondetF64(), vNondetF64()
	vAssume(0.01 <= t1 && t1+0.01 <= t2 && t2 <= L-0.01)
	// general position: no piece spans 180 degrees +- 1e-3 rad
	half := 10 * math.Pi
	spans := []float64{t1, t2 - t1, L - t2}
	gp := true
	for _, sp := range spans {
		gp = gp && math.Abs(sp-half) >= 1e-2
	}
	vAssume(gp)
	qs := p.SplitAt(t1, t2)
	vAssert("C09.arcsplit.count", len(qs) == 3)
	if len(qs) != 3 {
		return
	}
	for k, q := range qs {
		subs, ok := vhDecode(q.d)
		good := ok && len(subs) == 1 && len(subs[0].segs) == 1 && subs[0].segs[0].cmd == ArcToCmd
		vAssert("C09.arcsplit.piece_is_one_arc", good)
		if !good {
			return
		}
		large, sw := toArcFlags(subs[0].segs[0].a[3])
		vAssert("C09.arcsplit.sweep_kept", sw == sweep)
		vAssert("C09.arcsplit.large_iff_more_than_half_turn", large == (spans[k] > half))
	}
}

// C09-H3b: the same arcs when the inverse arc-length map is only approximate, as the real
// Chebyshev approximation is: the stub returns the exact angle plus an arbitrary error of up to
// 0.02 rad per call (clamped to the arc's range as polynomialChebyshevApprox does), so that two
// cuts closer than the error may come out in the wrong order.  SplitAt must not panic, must return
// one piece per cut plus one, consecutive pieces must share their end points, the first piece
// starts at the arc's start and the last ends at its end, and the sweep flag is kept.  The stub's
// draws exist only under the engine: interpreter-only observation.
func vhC09InvSpeedInexact(N int, gl gaussLegendreFunc, fp func(float64) float64, tmin, tmax float64) (func(float64) float64, float64) {
	r := fp(tmin)
	dT := math.Abs(tmax-tmin) * r
	lo, hi := math.Min(tmin, tmax), math.Max(tmin, tmax)
	return func(l float64) float64 {
		e := vNondetF64()
		vAssumeI(-0.02 <= e && e <= 0.02)
		return math.Min(hi, math.Max(lo, tmin+(tmax-tmin)*l/dT+e))
	}, dT
}

func vhC09ArcToNonzero(p *Path, rx, ry, rot float64, large, sweep bool, x, y float64) {
	if pos := p.Pos(); pos.X == x && pos.Y == y {
		return
	}
	vhC09RawArcTo(p, rx, ry, rot, large, sweep, x, y)
}

func VH_C09_arcsplit_inexact_Q() {
	if !vInterp() {
		return
	}
	vStub("!github.com/tdewolff/canvas.invSpeedPolynomialChebyshevApprox", vhC09InvSpeedInexact)
	vStub("!math.Mod", vhC09Mod2Pi)
	vStub("!(*github.com/tdewolff/canvas.Path).ArcTo", vhC09ArcToNonzero)
	deg := []float64{300, 120}[vChoose(0, 1)]
	sweep := vChoose(0, 1) == 1
	ang := deg * math.Pi / 180
	if !sweep {
		ang = -ang
	}
	end := Point{10 * math.Cos(ang), 10 * math.Sin(ang)}
	p := &Path{}
	p.d = []float64{MoveToCmd, 10, 0, MoveToCmd, ArcToCmd, 10, 10, 0, fromArcFlags(deg > 180, sweep), end.X, end.Y, ArcToCmd}
	L := 10 * deg * math.Pi / 180
	t1, t2 := vNondetF64(), vNondetF64()
	vAssumeI(1 <= t1 && t1+0.01 <= t2 && t2 <= L-1)
	var qs []*Path
	panicked := false
	func() {
		defer func() {
			if recover() != nil {
				panicked = true
			}
		}()
		qs = p.SplitAt(t1, t2)
	}()
	vAssertI("C09.arcsplit_inexact.no_panic", !panicked)
	if panicked {
		return
	}
	vAssertI("C09.arcsplit_inexact.count", len(qs) == 3)
	if len(qs) != 3 {
		return
	}
	ok := true
	prev := Point{10, 0}
	for _, q := range qs {
		subs, dec := vhDecode(q.d)
		ok = ok && dec && len(subs) == 1 && len(subs[0].segs) <= 1
		if !ok {
			break
		}
		ok = ok && subs[0].start.X == prev.X && subs[0].start.Y == prev.Y
		prev = subs[0].start
		if len(subs[0].segs) == 1 {
			sg := subs[0].segs[0]
			_, sw := toArcFlags(sg.a[3])
			ok = ok && sg.cmd == ArcToCmd && sw == sweep
			prev = sg.end
		}
	}
	vAssertI("C09.arcsplit_inexact.consecutive_pieces_with_the_arcs_direction", ok)
	vAssertI("C09.arcsplit_inexact.ends_at_the_arc_end", prev.X == end.X && prev.Y == end.Y)
}

// C09 (ellipseLength, the length of every arc segment): the length of an arc that crosses the
// ellipse's axes equals the sum of the lengths of its parts between the axes.  True arc length is
// additive; a quadrature applied to the whole range is not (5 nodes over most of a 2:1 ellipse are
// 2 % short, 9 % for 6:1 - defect D76), and the pieces SplitAt returns are measured one by one, so
// "the lengths of the pieces sum to Length()" depends on it.  Symbolic start and end parameter in
// two different quarters (1 to 3 axes between them, at least 0.5 rad on either side), both
// directions; the quadrature rule is an uninterpreted function of its range in the symbolic run: the
// verdict is about which ranges it is applied to.
func vhC09Quadrature(f func(float64) float64, a, b float64) float64 { return vUninterp2(a, b) }

func VH_C09_arc_length_additive_Q() {
	// the quadrature rule is abstracted to an uninterpreted function of its range: the verdict
	// is about the ranges ellipseLength applies it to (natively the real rule runs)
	vStub("github.com/tdewolff/canvas.gaussLegendre5", vhC09Quadrature)
	rr := [][2]float64{{6, 1}, {2, 1}, {3, 2.5}}[vChoose(0, 2)]
	rx, ry := rr[0], rr[1]
	h := math.Pi / 2
	k1 := vChoose(0, 3)
	n := vChoose(1, 3)
	t1, t2 := vNondetF64(), vNondetF64()
	vAssume(float64(k1)*h+0.01 <= t1 && t1 <= float64(k1+1)*h-0.5)
	vAssume(float64(k1+n)*h+0.5 <= t2 && t2 <= float64(k1+n+1)*h-0.01)
	var whole float64
	if vChoose(0, 1) == 0 {
		whole = ellipseLength(rx, ry, t1, t2)
	} else {
		whole = ellipseLength(rx, ry, t2, t1)
	}
	sum := ellipseLength(rx, ry, t1, float64(k1+1)*h)
	for i := 1; i < n; i++ {
		sum += ellipseLength(rx, ry, float64(k1+i)*h, float64(k1+i+1)*h)
	}
	sum += ellipseLength(rx, ry, float64(k1+n)*h, t2)
	vAssert("C09.arclength.additive_over_the_quarters", math.Abs(whole-sum) <= 1e-6*rx)
}
