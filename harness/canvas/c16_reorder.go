package canvas

import "math"

// C16 (visual reordering of the spans of a line, text.go reorderSpans): rule L2 of the Unicode
// bidirectional algorithm - from the highest level down to level one, every maximal run of spans
// of that level or deeper is mirrored.  2-4 spans (5 in the thorough tier) with every assignment of
// embedding levels 0-3, symbolic positive widths and a symbolic line start, laid out in logical
// order before the call: afterwards the spans stand in the order a reference implementation of L2
// on index lists gives, side by side from the same line start (so no span leaves the line's
// extent and none overlap).  A font change splits a word into two spans of one level: the case
// the previous implementation got wrong inside right-to-left text (D85).
func VH_C16_reorder_spans_Q() {
	n := vChoose(2, 4+vTier())
	lv := make([]int, n)
	for i := range lv {
		lv[i] = vChoose(0, 3)
	}
	x0 := vNondetF64()
	vAssume(-100 <= x0 && x0 <= 100)
	spans := make([]TextSpan, n)
	x := x0
	total := 0.0
	for i := range spans {
		w := vNondetF64()
		vAssume(0.01 <= w && w <= 50)
		spans[i] = TextSpan{X: x, Width: w, Level: lv[i]}
		x += w
		total += w
	}
	reorderSpans(spans)

	// reference: L2 on the list of indices
	vis := make([]int, n)
	maxL := 0
	for i := range vis {
		vis[i] = i
		if lv[i] > maxL {
			maxL = lv[i]
		}
	}
	for l := maxL; l >= 1; l-- {
		for a := 0; a < n; a++ {
			if lv[vis[a]] < l {
				continue
			}
			b := a
			for b+1 < n && lv[vis[b+1]] >= l {
				b++
			}
			for i, j := a, b; i < j; i, j = i+1, j-1 {
				vis[i], vis[j] = vis[j], vis[i]
			}
			a = b
		}
	}
	ok := true
	want := x0
	for _, k := range vis {
		ok = ok && math.Abs(spans[k].X-want) <= 1e-9
		want += spans[k].Width
	}
	vAssert("C16.reorder.spans_stand_in_the_visual_order_of_rule_L2", ok)
	inside := true
	for _, sp := range spans {
		inside = inside && sp.X >= x0-1e-9 && sp.X+sp.Width <= x0+total+1e-9
	}
	vAssert("C16.reorder.no_span_leaves_the_extent_of_the_line", inside)
}
