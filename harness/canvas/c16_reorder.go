package canvas

import "math"

// C16 (visual reordering of the spans of a line, text.go reorderSpans): rule L2 of the Unicode
// bidirectional algorithm - from the highest level down to level one, every maximal run of spans
// of that level or deeper is mirrored.  2-4 spans (5 in the thorough tier) with every assignment of
// embedding levels 0-3, symbolic positive widths and a symbolic line start, laid out in logical
// order before the call: afterwards the spans stand in the order a reference implementation of L2
// on index lists gives, side by side from the same line start (so no span leaves the line's
// extent and none overlap).  A font change splits a word into two spans of one level: the case
// the previous implementation got wrong inside right-to-left text (D85).
func VH_C16_reorder_spans_Q() {
	n := vChoose(2, 4+vTier())
	lv := make([]int, n)
	for i := range lv {
		lv[i] = vChoose(0, 3)
	}
	x0 := vNondetF64()
	vAssume(-100 <= x0 && x0 <= 100)
	spans := make([]TextSpan, n)
	x := x0
	total := 0.0
	for i := range spans {
		w := vNondetF64()
		vAssume(0.01 <= w && w <= 50)
		spans[i] = TextSpan{X: x, Width: w, Level: lv[i]}
		x += w
		total += w
	}
	reorderSpans(spans)

	// reference: L2 on the list of indices
	vis := make([]int, n)
	maxL := 0
	for i := range vis {
		vis[i] = i
		if lv[i] > maxL {
			maxL = lv[i]
		}
	}
	for l := maxL; l >= 1; l-- {
		for a := 0; a < n; a++ {
			if lv[vis[a]] < l {
				continue
			}
			b := a
			for b+1 < n && lv[vis[b+1]] >= l {
				b++
			}
			for i, j := a, b; i < j; i, j = i+1, j-1 {
				vis[i], vis[j] = vis[j], vis[i]
			}
			a = b
		}
	}
	ok := true
	want := x0
	for _, k := range vis {
		ok = ok && math.Abs(spans[k].X-want) <= 1e-9
		want += spans[k].Width
	}
	vAssert("C16.reorder.spans_stand_in_the_visual_order_of_rule_L2", ok)
	inside := true
	for _, sp := range spans {
		inside = inside && sp.X >= x0-1e-9 && sp.X+sp.Width <= x0+total+1e-9
	}
	vAssert("C16.reorder.no_span_leaves_the_extent_of_the_line", inside)
}

// C16 (ToText's glue adjustment): the advance of every space of an adjusted line changes by the
// line's ratio times the space's stretch (ratio > 0) or shrink (ratio < 0), rounded to the nearest
// font unit - so the rounding of k spaces moves the line end by at most k/2 units in either
// direction.  "a b c d" (three spaces, followed by a word too long for the line) in a box between
// its shrunk and its stretched width (12 box widths x 3 letter advances, concrete enumeration), Justify: the first
// line ends within 3 * 0.5 units + 1e-6 of the width whenever the breaker reports an adjustment (truncation
// towards zero, which under-shrinks every space by up to one unit, is excluded by that margin).
func VH_C16_justify_rounding_Q() {
	if !vInterp() {
		return
	}
	vStub("!(github.com/tdewolff/canvas/text.Shaper).Shape", vhC16Shape)
	vStub("!github.com/tdewolff/canvas/text.EmbeddingLevels", vhC16Levels)
	vStub("!github.com/tdewolff/canvas/text.LookupScript", vhC16Script2)
	vStub("!(*github.com/tdewolff/font.SFNT).GlyphIndex", vhC16GlyphIndex)
	vStub("!(*github.com/tdewolff/font.SFNT).GlyphAdvance", vhC16GlyphAdvance)
	s := "a b c d hhhhhhhhhh" // the last word cannot join the first line: it breaks after d, not at a paragraph end
	la := []int32{184, 300, 451}[vChoose(0, 2)]
	vhC16Adv = map[rune]int32{' ': 250, '\n': 0}
	for _, r := range s {
		if _, has := vhC16Adv[r]; !has {
			vhC16Adv[r] = la
		}
	}
	// natural width of the first line in mm (MmPerEm = 0.01): 4 letters and 3 spaces; box widths
	// from a grid around it (a symbolic width makes the line breaker's search exceed 600 decisions
	// per path): -1.6 .. +2.7 mm in steps of 0.37
	nat := 0.01 * float64(4*la+3*250)
	width := nat + 0.37*float64(vChoose(-4, 7)) - 0.12
	face := vhC16Face()
	rt := NewRichText(face)
	rt.WriteString(s)
	t := rt.ToText(width, 0, Justify, Top, 0, 0)
	if len(t.lines) < 2 || len(t.lines[0].spans) == 0 {
		return
	}
	// the first line holds all of "a b c d e f"
	n := 0
	end := 0.0
	for _, sp := range t.lines[0].spans {
		n += len(sp.Glyphs)
		end = math.Max(end, sp.X+sp.Width)
	}
	if n < 7 {
		return
	}
	adjusted := math.Abs(end-nat) > 1e-9
	vAssertI("C16.justifyround.adjusted_line_ends_at_the_width_within_the_rounding", !adjusted || math.Abs(end-width) <= 0.01*1.5+1e-6)
}
