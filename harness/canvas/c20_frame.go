package canvas

import (
	"github.com/tdewolff/canvas/text"
	"github.com/tdewolff/font"
)

// C20-H5: "may be called from any number of goroutines at once on distinct paths": a geometry
// operation keeps no state in package-level variables.  Each operation is run once to get
// once-only initialisation (pool constructors) out of the way; then every heap object reachable
// from the library's package-level variables is marked (engine frame watch) and the operation is
// run again on another input: no marked object may be written.  sync.Pool Get/Put are the
// sanctioned exception (they are engine intrinsics and write nothing).  A write found here is
// exactly what two concurrent calls would race on, and what would let one call's result depend on
// an earlier call.  Inputs are concrete shapes (the whole sweep runs, as in the C01/C02 suite
// harnesses); the watch covers every path the interpreter takes through them.  The watch exists
// only under the engine: interpreter-confirmed (vAssertI).

func vhC20Shapes(k int) (*Path, *Path) {
	a, b := &Path{}, &Path{}
	switch k {
	case 0: // two overlapping squares
		a.MoveTo(0, 0)
		a.LineTo(4, 0)
		a.LineTo(4, 4)
		a.LineTo(0, 4)
		a.Close()
		b.MoveTo(2, 2)
		b.LineTo(6, 2)
		b.LineTo(6, 6)
		b.LineTo(2, 6)
		b.Close()
	case 1: // a bow-tie and a triangle through its crossing
		a.MoveTo(0, 0)
		a.LineTo(4, 4)
		a.LineTo(4, 0)
		a.LineTo(0, 4)
		a.Close()
		b.MoveTo(1, -1)
		b.LineTo(5, 2)
		b.LineTo(1, 5)
		b.Close()
	default: // a shape with a curve
		a.MoveTo(0, 0)
		a.QuadTo(3, 5, 6, 0)
		a.Close()
		b.MoveTo(1, 1)
		b.LineTo(5, 1)
		b.LineTo(3, -2)
		b.Close()
	}
	return a, b
}

func vhC20Op(op int, a, b *Path) {
	switch op {
	case 0:
		a.And(b)
	case 1:
		a.Or(b)
	case 2:
		a.Xor(b)
	case 3:
		a.Not(b)
	case 4:
		a.Settle(NonZero)
	case 5:
		a.Stroke(0.5, RoundCap, MiterJoin, 0.01)
	case 6:
		a.Offset(0.3, 0.01)
	case 7:
		a.Flatten(0.01)
	case 8:
		a.Dash(0.2, 1, 0.5)
	}
}

func VH_C20_no_package_state() {
	if !vInterp() {
		return
	}
	op := vChoose(0, 8)
	k0 := vChoose(0, 2)
	k1 := vChoose(0, 2)
	a, b := vhC20Shapes(k0)
	vhC20Op(op, a, b) // warm-up: once-only initialisation
	a, b = vhC20Shapes(k1)
	vWatchGlobals()
	vhC20Op(op, a, b)
	vAssertI("C20.frame.no_write_to_package_level_state", vWatchedWrites() == 0)
}

// C20-H6: "font loading ... may be called from any number of goroutines at once".  LoadFont with
// the font library replaced by stand-ins (a parsed font without a name record: fonts taken from
// memory, subsets and many web fonts have none): after one warm-up call, a second call must not
// write package-level state other than through sync/atomic or under a lock.
func vhC20ParseFont(b []byte, index int) (*font.SFNT, error) {
	sf := &font.SFNT{IsTrueType: true}
	sf.Name = vhC16New(sf.Name)
	return sf, nil
}
func vhC20NewShaper(sf *font.SFNT) (text.Shaper, error) { return text.Shaper{}, nil }
func vhC20MkNameGet[T any, R any](_ *T, _ func(font.NameID) []R) func(*T, font.NameID) []R {
	return func(*T, font.NameID) []R { return nil }
}
func vhC20Sprintf(format string, a ...interface{}) string { return "f" }

func VH_C20_loadfont_no_package_state() {
	if !vInterp() {
		return
	}
	sf := &font.SFNT{}
	sf.Name = vhC16New(sf.Name)
	vStub("!github.com/tdewolff/font.ParseFont", vhC20ParseFont)
	vStub("!github.com/tdewolff/canvas/text.NewShaperSFNT", vhC20NewShaper)
	vStub("!(*github.com/tdewolff/font.nameTable).Get", vhC20MkNameGet(sf.Name, sf.Name.Get))
	vStub("!fmt.Sprintf", vhC20Sprintf)
	f1, err1 := LoadFont([]byte{0}, 0, FontRegular)
	vWatchGlobals()
	f2, err2 := LoadFont([]byte{1}, 0, FontRegular)
	vAssertI("C20.frame.loadfont_succeeds", err1 == nil && err2 == nil && f1 != nil && f2 != nil)
	vAssertI("C20.frame.loadfont_no_unsynchronised_write", vWatchedWrites() == 0)
}

// C20-H7: "text layout with a shared loaded font ... may be called from any number of goroutines at
// once".  The font (with the font library, shaper, bidi and script lookup replaced by the stand-ins
// of the C16 harnesses) is laid out once as a warm-up; then everything reachable from the font
// face is marked and a second layout (RichText.ToText, NewTextLine, and the glyph outlines through
// Text.RenderAsPath are not reached with the stand-ins) must not write into any marked object other
// than through sync/atomic: such a write is a data race between two goroutines that share the font.
func VH_C20_text_layout_shared_font() {
	if !vInterp() {
		return
	}
	vStub("!(github.com/tdewolff/canvas/text.Shaper).Shape", vhC16Shape)
	vStub("!github.com/tdewolff/canvas/text.EmbeddingLevels", vhC16Levels)
	vStub("!github.com/tdewolff/canvas/text.LookupScript", vhC16Script2)
	vStub("!(*github.com/tdewolff/font.SFNT).GlyphIndex", vhC16GlyphIndex)
	vStub("!(*github.com/tdewolff/font.SFNT).GlyphAdvance", vhC16GlyphAdvance)
	s := vhC16Texts[vChoose(0, 3)]
	vhC16Adv = map[rune]int32{' ': 250, '\n': 0, '\r': 0, '­': 0}
	for _, r := range s {
		if _, has := vhC16Adv[r]; !has {
			vhC16Adv[r] = 500
		}
	}
	face := vhC16Face()
	lay := func() int {
		rt := NewRichText(face)
		rt.WriteString(s)
		t := rt.ToText(20, 0, []TextAlign{Left, Justify}[vChoose(0, 1)], Top, 0, 0)
		l := NewTextLine(face, s, Center)
		b := t.Bounds()
		_ = b
		return len(t.lines) + len(l.lines)
	}
	n1 := lay()
	vWatchValue(face)
	n2 := lay()
	vAssertI("C20.frame.layout_repeatable", n1 == n2 && n1 > 0)
	vAssertI("C20.frame.layout_no_write_to_the_shared_font", vWatchedWrites() == 0)
}
