package canvas

import (
	"github.com/tdewolff/canvas/text"
	"github.com/tdewolff/font"
)

// C16-H3: RichText.ToText as a whole (itemisation, glyph accounting, the real Linebreak, line
// construction, glue adjustment, alignment) on short concrete Latin texts whose glyph advances
// and box width are SYMBOLIC.  The font is a shell: the shaper is replaced by "one glyph per
// character with an arbitrary positive advance per character class" and the bidi analysis by
// "everything level 0" (its contract for left-to-right text); vertical metrics are concrete.
// Obligations (the statement of C16, for horizontal left-to-right text):
//   - every character that is not white space appears in exactly one span, in logical order;
//     white space is dropped only at a line end;
//   - an explicit newline starts a new line;
//   - lines are stacked with strictly increasing y;
//   - spans of a line follow each other without overlap;
//   - no line ends beyond the box width unless Overflows is reported;
//   - Left: every line starts at 0 (+indent on the first); Right: every line ends at the width;
//     Center: every line is centred in the box that remains right of its indent (when it fits);
//     Justify: starts at the indent and ends at the width or keeps its natural width.
// The shell font cannot exist natively: interpreter-only observations (vAssertI).

var vhC16Adv map[rune]int32

func vhC16Shape(s text.Shaper, str string, ppem uint16, direction text.Direction, script text.Script, lang string, features string, variations string) []text.Glyph {
	gs := make([]text.Glyph, 0, len(str))
	for i, r := range str {
		gs = append(gs, text.Glyph{ID: uint16(r), Cluster: uint32(i), XAdvance: vhC16Adv[r], Text: r})
	}
	return gs
}

func vhC16Levels(str []rune) []int { return make([]int, len(str)) }

const vhC16HyphenAdv = 300

func vhC16GlyphIndex(sf *font.SFNT, r rune) uint16     { return uint16(r) }
func vhC16GlyphAdvance(sf *font.SFNT, g uint16) uint16 { return vhC16HyphenAdv }

func vhC16Script(r rune) text.Script {
	if ('a' <= r && r <= 'z') || ('A' <= r && r <= 'Z') {
		return text.Latin
	}
	return text.ScriptCommon
}

func vhC16Face() *FontFace {
	sf := &font.SFNT{IsTrueType: true}
	sf.Head = vhC16New(sf.Head)
	sf.Head.UnitsPerEm = 1000
	sf.Hhea = vhC16New(sf.Hhea)
	sf.Hhea.Ascender, sf.Hhea.Descender, sf.Hhea.LineGap = 800, -200, 100
	sf.OS2 = vhC16New(sf.OS2)
	sf.OS2.SxHeight = 500
	f := &Font{SFNT: sf}
	return &FontFace{Font: f, Size: 10, MmPerEm: 0.01, Fill: Paint{Color: Black}}
}

func vhC16New[T any](p *T) *T { return new(T) }

var vhC16Texts = []string{"ab cd", "a b c", "ab\ncd e", "abc", "ab  cd", "ab\r\ncd", "ab\u00adcd e", "a\u00adb\u00adc", "aα bβ"}

// texts with two adjacent spaces: the first space stays inside the line box when the break is taken
// at the second, so Right/Center are judged only on the others
func vhC16DoubleSpace(s string) bool {
	for i := 0; i+1 < len(s); i++ {
		if s[i] == ' ' && s[i+1] == ' ' {
			return true
		}
	}
	return false
}

func VH_C16_totext_Q() {
	if !vInterp() {
		return
	}
	vhC16ToText(vhC16Texts[vChoose(0, len(vhC16Texts)-1)], []TextAlign{Left, Right, Center}[vChoose(0, 2)], vChoose(0, 1) == 1)
}

// Justify: lines start at the indent and either end at the width or keep their natural width.
var vhC16JustifyTexts = []string{"a b c", "ab cd", "a b\nc", "a\u00adb c"}

func VH_C16_totext_justify_Q() {
	if !vInterp() {
		return
	}
	vhC16ToText(vhC16JustifyTexts[vChoose(0, len(vhC16JustifyTexts)-1)], Justify, false)
}

func vhC16ToText(s string, halign TextAlign, withIndent bool) {
	vStub("!(github.com/tdewolff/canvas/text.Shaper).Shape", vhC16Shape)
	vStub("!github.com/tdewolff/canvas/text.EmbeddingLevels", vhC16Levels)
	vStub("!github.com/tdewolff/canvas/text.LookupScript", vhC16Script2)
	vStub("!(*github.com/tdewolff/font.SFNT).GlyphIndex", vhC16GlyphIndex)
	vStub("!(*github.com/tdewolff/font.SFNT).GlyphAdvance", vhC16GlyphAdvance)
	indent := 0.0
	if withIndent {
		indent = vNondetF64()
		vAssumeI(0 <= indent && indent <= 5)
	}
	// advances: one symbolic value for letters, one for the space (font units, MmPerEm = 0.01)
	// (the space is concrete: glue stretch/shrink derive from it and a symbolic one makes the
	// adjustment ratio a quotient of two unknowns)
	la, sa := int32(vNondetIntQ(11)), int32(250)
	vAssumeI(100 <= la && la <= 900)
	vhC16Adv = map[rune]int32{' ': sa, '\n': 0, '\r': 0, '\u00ad': 0}
	for _, r := range s {
		if _, has := vhC16Adv[r]; !has {
			vhC16Adv[r] = la
		}
	}
	width := vNondetF64()
	vAssumeI(1 <= width && width <= 60)
	face := vhC16Face()
	rt := NewRichText(face)
	rt.WriteString(s)
	t := rt.ToText(width, 0, halign, Top, indent, 0)

	// accounting of characters
	seen := make([]int, len(s))
	order := true
	last := -1
	for _, ln := range t.lines {
		for _, sp := range ln.spans {
			for _, g := range sp.Glyphs {
				c := int(g.Cluster)
				if c < len(s) {
					seen[c]++
					order = order && c > last
					last = c
				}
			}
		}
	}
	once := true
	for i, r := range s {
		if r != ' ' && r != '\n' && r != '\r' && r != '\u00ad' {
			once = once && seen[i] == 1
		} else {
			once = once && seen[i] <= 1
		}
	}
	// a soft hyphen is shown as a hyphen (with the hyphen's advance) exactly when it ends a line
	shyOK := true
	for _, ln := range t.lines {
		n := 0
		for _, sp := range ln.spans {
			n += len(sp.Glyphs)
		}
		k := 0
		for _, sp := range ln.spans {
			for _, g := range sp.Glyphs {
				k++
				c := int(g.Cluster)
				if c+1 < len(s) && s[c] == 0xC2 && s[c+1] == 0xAD {
					if k == n {
						shyOK = shyOK && g.Text == '-' && g.XAdvance == vhC16HyphenAdv
					} else {
						shyOK = shyOK && g.Text != '-' && g.XAdvance == 0
					}
				} else {
					shyOK = shyOK && (g.Text != '-')
				}
			}
		}
	}
	vAssertI("C16.totext.soft_hyphen_shown_iff_at_line_end", shyOK)
	vAssertI("C16.totext.every_ink_character_once", once)
	vAssertI("C16.totext.logical_order", order)
	// white space is dropped only at a line end: a space that is not shown lies between the last
	// shown character of one line and the first of the next
	dropOK := true
	for i := range s {
		if (s[i] == ' ') && seen[i] == 0 {
			inside := false
			for _, ln := range t.lines {
				lo, hi := len(s), -1
				for _, sp := range ln.spans {
					for _, g := range sp.Glyphs {
						if int(g.Cluster) < lo {
							lo = int(g.Cluster)
						}
						if int(g.Cluster) > hi {
							hi = int(g.Cluster)
						}
					}
				}
				inside = inside || (lo < i && i < hi)
			}
			dropOK = dropOK && !inside
		}
	}
	vAssertI("C16.totext.whitespace_dropped_only_at_line_ends", dropOK)
	// explicit newline: the characters before and after it are on different lines
	nlOK := true
	for i := range s {
		if s[i] == '\n' {
			for _, ln := range t.lines {
				before, after := false, false
				for _, sp := range ln.spans {
					for _, g := range sp.Glyphs {
						before = before || int(g.Cluster) < i
						after = after || (int(g.Cluster) > i && int(g.Cluster) < len(s))
					}
				}
				nlOK = nlOK && !(before && after)
			}
		}
	}
	vAssertI("C16.totext.newline_starts_a_line", nlOK)
	stacked, noOverlap, inside, aligned := true, true, true, true
	tol := 0.01 * float64(len(s)) // rounding of adjusted advances to font units
	for j, ln := range t.lines {
		if j > 0 {
			stacked = stacked && ln.y > t.lines[j-1].y
		}
		end := 0.0
		for k, sp := range ln.spans {
			if k > 0 {
				noOverlap = noOverlap && sp.X >= end-1e-9
			}
			end = sp.X + sp.Width
		}
		if len(ln.spans) > 0 {
			inside = inside && (t.Overflows || end <= width+tol)
			start := ln.spans[0].X
			ind := 0.0
			if j == 0 {
				ind = indent
			}
			natural := 0.0
			for _, sp := range ln.spans {
				for _, g := range sp.Glyphs {
					natural += 0.01 * float64(vhC16Adv[g.Text])
					if g.Text == '-' && g.XAdvance == vhC16HyphenAdv {
						natural += 0.01 * vhC16HyphenAdv
					}
				}
			}
			switch halign {
			case Left:
				aligned = aligned && vhNear(start, ind)
			case Justify:
				// starts at the indent; ends at the width or is left at its natural width
				// (the last line of a paragraph is outside this claim: it only has to start at the
				// indent and stay inside the box)
				hi := -1
				for _, sp := range ln.spans {
					for _, g := range sp.Glyphs {
						if int(g.Cluster) > hi && int(g.Cluster) < len(s) {
							hi = int(g.Cluster)
						}
					}
				}
				q := hi + 1
				for q < len(s) && (s[q] == ' ' || s[q] == 0xAD || (s[q] >= 0x80 && s[q] < 0xC0)) {
					q++
				}
				lastOfPar := q >= len(s) || s[q] == '\n' || s[q] == '\r'
				aligned = aligned && vhNear(start, ind) && (lastOfPar || t.Overflows || (end >= width-tol && end <= width+tol) || vhNear(end-start, natural))
			case Right:
				aligned = aligned && (t.Overflows || (end >= width-tol && end <= width+tol))
			case Center:
				aligned = aligned && (t.Overflows || (start+end >= width+ind-tol && start+end <= width+ind+tol))
			}
		}
	}
	vAssertI("C16.totext.lines_stacked", stacked)
	vAssertI("C16.totext.spans_do_not_overlap", noOverlap)
	vAssertI("C16.totext.inside_width_unless_overflows", inside)
	vAssertI("C16.totext.alignment", aligned || (halign != Left && vhC16DoubleSpace(s)))
}

// C16-H4: NewTextLine (single-line layout, text.go:315-383) with the shell font: texts of one or
// two script runs (Latin + Greek: two spans on the line), optional line breaks (LF, CR LF),
// Left/Center/Right, symbolic advance per script.  Spans of a line follow each other without gap
// or overlap; Left: the line starts at 0, Center: it is centred on 0, Right: it ends at 0; each line
// of the input is a line of the text, stacked by the line height; every character appears once.
func vhC16Script2(r rune) text.Script {
	if 0x370 <= r && r <= 0x3FF {
		return text.Greek
	}
	return vhC16Script(r)
}

var vhC16LineTexts = []string{"ab", "abαβ", "αab", "ab\ncα", "a\r\nb"}

func VH_C16_textline_Q() {
	if !vInterp() {
		return
	}
	vStub("!(github.com/tdewolff/canvas/text.Shaper).Shape", vhC16Shape)
	vStub("!github.com/tdewolff/canvas/text.EmbeddingLevels", vhC16Levels)
	vStub("!github.com/tdewolff/canvas/text.LookupScript", vhC16Script2)
	s := vhC16LineTexts[vChoose(0, len(vhC16LineTexts)-1)]
	halign := []TextAlign{Left, Center, Right}[vChoose(0, 2)]
	la, ga := int32(vNondetIntQ(11)), int32(vNondetIntQ(11))
	vAssumeI(100 <= la && la <= 900 && 100 <= ga && ga <= 900)
	vhC16Adv = map[rune]int32{'\n': 0, '\r': 0}
	for _, r := range s {
		if _, has := vhC16Adv[r]; !has {
			if vhC16Script2(r) == text.Greek {
				vhC16Adv[r] = ga
			} else {
				vhC16Adv[r] = la
			}
		}
	}
	face := vhC16Face()
	t := NewTextLine(face, s, halign)
	// expected lines: the input split at line breaks (empty lines have no spans)
	nlines := 1
	for i := 0; i < len(s); i++ {
		if s[i] == '\n' {
			nlines++
		}
	}
	vAssertI("C16.textline.one_line_per_input_line", len(t.lines) == nlines)
	contiguous, aligned, stacked, chars := true, true, true, 0
	for j, ln := range t.lines {
		if j > 0 {
			stacked = stacked && ln.y > t.lines[j-1].y
		}
		if len(ln.spans) == 0 {
			continue
		}
		// visual order = logical order here (all left to right): sort is not needed
		total := 0.0
		for k, sp := range ln.spans {
			if k > 0 {
				prev := ln.spans[k-1]
				contiguous = contiguous && vhNear(sp.X, prev.X+prev.Width)
			}
			total += sp.Width
			for range sp.Text {
				chars++
			}
		}
		first, last := ln.spans[0], ln.spans[len(ln.spans)-1]
		switch halign {
		case Left:
			aligned = aligned && vhNear(first.X, 0)
		case Center:
			aligned = aligned && vhNear(first.X, -total/2)
		case Right:
			aligned = aligned && vhNear(last.X+last.Width, 0)
		}
	}
	nchars := 0
	for _, r := range s {
		if r != '\n' && r != '\r' {
			nchars++
		}
	}
	vAssertI("C16.textline.spans_contiguous", contiguous)
	vAssertI("C16.textline.alignment", aligned)
	vAssertI("C16.textline.lines_stacked", stacked)
	vAssertI("C16.textline.every_character_once", chars == nchars)
}

// C16-H5: vertical alignment (ToText's valign with a box height): the block of lines lies inside
// the box; Top: the first line's ascent touches the top; Bottom: the last line's descent touches the
// bottom; Center: equal margins; Justify (two or more lines): first line at the top and last line at
// the bottom.  Shell font with ascent 8, descent 2, line gap 1 (mm); letter advance and box width
// symbolic (so one or two lines), box height symbolic and large enough for all lines.
func VH_C16_totext_valign_Q() {
	if !vInterp() {
		return
	}
	vStub("!(github.com/tdewolff/canvas/text.Shaper).Shape", vhC16Shape)
	vStub("!github.com/tdewolff/canvas/text.EmbeddingLevels", vhC16Levels)
	vStub("!github.com/tdewolff/canvas/text.LookupScript", vhC16Script)
	s := []string{"ab cd", "abc"}[vChoose(0, 1)]
	valign := []TextAlign{Top, Center, Bottom, Justify}[vChoose(0, 3)]
	la := int32(vNondetIntQ(11))
	vAssumeI(100 <= la && la <= 900)
	vhC16Adv = map[rune]int32{' ': 250}
	for _, r := range s {
		if r != ' ' {
			vhC16Adv[r] = la
		}
	}
	width, height := vNondetF64(), vNondetF64()
	vAssumeI(1 <= width && width <= 60 && 25 <= height && height <= 80)
	face := vhC16Face()
	rt := NewRichText(face)
	rt.WriteString(s)
	t := rt.ToText(width, height, Left, valign, 0, 0)
	vAssertI("C16.valign.nothing_cut_off", t.Text == s && len(t.lines) >= 1)
	if len(t.lines) == 0 {
		return
	}
	const ascent, descent = 8.0, 2.0
	top := t.lines[0].y - ascent
	bottom := t.lines[len(t.lines)-1].y + descent
	vAssertI("C16.valign.inside_box", top >= -1e-9 && bottom <= height+1e-9)
	switch valign {
	case Top:
		vAssertI("C16.valign.top", vhNear(top, 0))
	case Bottom:
		vAssertI("C16.valign.bottom", vhNear(bottom, height))
	case Center:
		vAssertI("C16.valign.center", vhNear(top, height-bottom))
	case Justify:
		if len(t.lines) >= 2 {
			vAssertI("C16.valign.justify", vhNear(top, 0) && vhNear(bottom, height))
		}
	}
}

// C16-H6: two font faces in one paragraph ("all strings x faces"): "ab " in the default face,
// "cd" in a face twice as large, " e" in the default face again.  Every character once and in
// order, each span carries the face its characters were written with and the width its glyphs
// have in that face, spans do not overlap, no line beyond the width unless Overflows, and a line
// that contains the large face is at least the large ascent below the top of the previous line's
// baseline (lines do not run into each other).
func VH_C16_totext_faces_Q() {
	if !vInterp() {
		return
	}
	vStub("!(github.com/tdewolff/canvas/text.Shaper).Shape", vhC16Shape)
	vStub("!github.com/tdewolff/canvas/text.EmbeddingLevels", vhC16Levels)
	vStub("!github.com/tdewolff/canvas/text.LookupScript", vhC16Script)
	la := int32(vNondetIntQ(11))
	vAssumeI(100 <= la && la <= 900)
	vhC16Adv = map[rune]int32{' ': 250, 'a': la, 'b': la, 'c': la, 'd': la, 'e': la}
	width := vNondetF64()
	vAssumeI(1 <= width && width <= 80)
	small := vhC16Face()
	big := vhC16Face()
	big.Size, big.MmPerEm = 20, 0.02
	halign := []TextAlign{Left, Right}[vChoose(0, 1)]
	rt := NewRichText(small)
	rt.WriteString("ab ")
	rt.WriteFace(big, "cd")
	rt.WriteString(" e")
	s := "ab cd e"
	t := rt.ToText(width, 0, halign, Top, 0, 0)
	seen := make([]int, len(s))
	order, faces, widths, noOverlap, inside, apart := true, true, true, true, true, true
	last := -1
	for j, ln := range t.lines {
		end := 0.0
		hasBig := false
		for k, sp := range ln.spans {
			adv := int32(0)
			for _, g := range sp.Glyphs {
				c := int(g.Cluster)
				if c < len(s) {
					seen[c]++
					order = order && c > last
					last = c
					wantBig := c == 3 || c == 4
					faces = faces && ((sp.Face == big) == wantBig || s[c] == ' ')
				}
				adv += g.XAdvance
			}
			hasBig = hasBig || sp.Face == big
			widths = widths && vhNear(sp.Width, sp.Face.MmPerEm*float64(adv))
			if k > 0 {
				noOverlap = noOverlap && sp.X >= end-1e-9
			}
			end = sp.X + sp.Width
		}
		if len(ln.spans) > 0 {
			inside = inside && (t.Overflows || end <= width+0.1)
		}
		if j > 0 && hasBig {
			apart = apart && ln.y-t.lines[j-1].y >= 16 // ascent of the large face (800 * 0.02)
		}
	}
	once := true
	for i := range s {
		if s[i] != ' ' {
			once = once && seen[i] == 1
		}
	}
	vAssertI("C16.faces.every_ink_character_once_in_order", once && order)
	vAssertI("C16.faces.spans_carry_their_face", faces)
	vAssertI("C16.faces.span_width_is_its_glyphs_in_its_face", widths)
	vAssertI("C16.faces.spans_do_not_overlap", noOverlap)
	vAssertI("C16.faces.inside_width_unless_overflows", inside)
	vAssertI("C16.faces.tall_line_clears_previous_line", apart)
}
