package canvas

import "math"

// C09-H2 / C05-H5: SplitAt on axis-aligned polylines (1-2 open subpaths of 1-2 segments,
// alternating x/y direction so that no collinear merge happens), 1-2 cut positions, exact
// rational arithmetic.  math.Hypot is replaced by |x|+|y| restricted to axis-aligned vectors
// (exact there).

func vhHypotAxis(x, y float64) float64 {
	// one component is concretely zero in this harness
	if y == 0 {
		return math.Abs(x)
	}
	return math.Abs(y)
}

func vhNear(a, b float64) bool { return math.Abs(a-b) <= 1e-9 }
func vhNearPt(a, b Point) bool { return vhNear(a.X, b.X) && vhNear(a.Y, b.Y) }

type vhPoly struct{ pts []Point }

// vhAxisPath builds the path and returns its subpaths as point lists and segment lengths.
func vhAxisPath(nsub int) (*Path, [][]Point) {
	p := &Path{}
	var subs [][]Point
	for s := 0; s < nsub; s++ {
		// concrete, pairwise distinct geometry; only the cut positions are symbolic (keeps the
		// interpolation linear for the solver)
		x, y := float64(10*s), float64(20*s)
		p.d = append(p.d, MoveToCmd, x, y, MoveToCmd)
		pts := []Point{{x, y}}
		nseg := vChoose(1, 2)
		for k := 0; k < nseg; k++ {
			l := []float64{2, 1, 3, 1}[2*s+k]
			if k == 1 && vChoose(0, 1) == 1 {
				l = -l
			}
			if k%2 == 0 {
				x += l
			} else {
				y += l
			}
			p.d = append(p.d, LineToCmd, x, y, LineToCmd)
			pts = append(pts, Point{x, y})
		}
		subs = append(subs, pts)
	}
	return p, subs
}

func VH_C09_splitat_Q() {
	vStub("math.Hypot", vhHypotAxis)
	nsub := vChoose(1, 2)
	p, subs := vhAxisPath(nsub)
	before := vhCopyData(p.d)
	L := 0.0
	for _, pts := range subs {
		for k := 0; k+1 < len(pts); k++ {
			L += math.Abs(pts[k+1].X-pts[k].X) + math.Abs(pts[k+1].Y-pts[k].Y)
		}
	}
	nt := vChoose(1, 2)
	ts := make([]float64, nt)
	for i := range ts {
		ts[i] = vNondetDyadic(8, 2)
		vAssume(0 < ts[i] && ts[i] < L)
	}
	if nt == 2 {
		vAssume(ts[0] != ts[1])
	}
	tsBefore := vhCopyData(ts)
	qs := p.SplitAt(ts...)
	vAssert("C09.splitat.receiver_unchanged", vhSameData(p.d, before))
	vAssert("C09.splitat.args_unchanged", vhSameData(ts, tsBefore))

	// reference: walk all subpaths, cutting at the sorted positions
	t0, t1 := tsBefore[0], tsBefore[0]
	if nt == 2 {
		t0, t1 = math.Min(tsBefore[0], tsBefore[1]), math.Max(tsBefore[0], tsBefore[1])
	}
	cuts := []float64{t0}
	if nt == 2 {
		cuts = append(cuts, t1)
	}
	var pieces [][][]Point // piece -> subpath -> points
	cur := [][]Point{}
	T := 0.0
	j := 0
	for _, pts := range subs {
		line := []Point{pts[0]}
		for k := 0; k+1 < len(pts); k++ {
			a, b := pts[k], pts[k+1]
			dT := math.Abs(b.X-a.X) + math.Abs(b.Y-a.Y)
			for j < len(cuts) && T < cuts[j] && cuts[j] <= T+dT {
				f := (cuts[j] - T) / dT
				c := Point{a.X + f*(b.X-a.X), a.Y + f*(b.Y-a.Y)}
				line = append(line, c)
				cur = append(cur, line)
				pieces = append(pieces, cur)
				cur = [][]Point{}
				line = []Point{c}
				j++
			}
			if !vhPtEq(line[len(line)-1], b) {
				line = append(line, b)
			}
			T += dT
		}
		if len(line) > 1 {
			cur = append(cur, line)
		}
	}
	if len(cur) > 0 {
		pieces = append(pieces, cur)
	}

	vAssert("C09.splitat.count", len(qs) == len(pieces))
	if len(qs) != len(pieces) {
		return
	}
	for i, q := range qs {
		vAssert("C09.splitat.piece_wellformed", vhWFOut(q))
		got, ok := vhDecode(q.d)
		// drop empty MoveTo-only subpaths
		var gs []vhSub
		for _, g := range got {
			if len(g.segs) > 0 {
				gs = append(gs, g)
			}
		}
		vAssert("C09.splitat.piece_subpaths", ok && len(gs) == len(pieces[i]))
		if !ok || len(gs) != len(pieces[i]) {
			return
		}
		for s, want := range pieces[i] {
			g := gs[s]
			vAssert("C09.splitat.piece_len", len(g.segs) == len(want)-1)
			if len(g.segs) != len(want)-1 {
				return
			}
			good := vhNearPt(g.start, want[0])
			for k, sg := range g.segs {
				good = good && sg.cmd == LineToCmd && vhNearPt(sg.end, want[k+1])
			}
			vAssert("C09.splitat.piece_points", good)
		}
	}
}
