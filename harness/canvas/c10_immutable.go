package canvas

// C10-H5: derivations documented as returning a new path leave receiver and arguments unchanged,
// also when the operands are *open* (boolean operations close clipping subpaths implicitly) and
// when a subpath's last LineTo returns to its start (Close() then rewrites the record in place).
// Shapes are concrete; which operation runs and which variant is used is chosen; the data is
// compared before/after.  (The set-algebra of the results is C01's subject.)

func vhC10OpenPaths(k int) *Path {
	p := &Path{}
	switch k {
	case 0: // open, last LineTo returns exactly to the start
		p.d = []float64{MoveToCmd, 3, 3, MoveToCmd, LineToCmd, 9, 3, LineToCmd, LineToCmd, 9, 9, LineToCmd, LineToCmd, 3, 9, LineToCmd, LineToCmd, 3, 3, LineToCmd}
	case 1: // open, does not return to the start
		p.d = []float64{MoveToCmd, 3, 3, MoveToCmd, LineToCmd, 9, 3, LineToCmd, LineToCmd, 9, 9, LineToCmd, LineToCmd, 3, 9, LineToCmd}
	case 2: // two open subpaths, the first returning to its start
		p.d = []float64{MoveToCmd, 3, 3, MoveToCmd, LineToCmd, 9, 3, LineToCmd, LineToCmd, 9, 9, LineToCmd, LineToCmd, 3, 3, LineToCmd,
			MoveToCmd, 12, 2, MoveToCmd, LineToCmd, 14, 2, LineToCmd, LineToCmd, 14, 5, LineToCmd}
	default: // closed
		p.d = []float64{MoveToCmd, 3, 3, MoveToCmd, LineToCmd, 9, 3, LineToCmd, LineToCmd, 9, 9, LineToCmd, LineToCmd, 3, 9, LineToCmd, CloseCmd, 3, 3, CloseCmd}
	}
	return p
}

func VH_C10_boolean_immutable() {
	p := vhPgonPath([]vhPgon{vhRect(0, 0, 6, 6, true)})
	q := vhC10OpenPaths(vChoose(0, 3))
	pBefore, qBefore := vhCopyData(p.d), vhCopyData(q.d)
	switch vChoose(0, 5) {
	case 0:
		p.And(q)
	case 1:
		p.Or(q)
	case 2:
		p.Xor(q)
	case 3:
		p.Not(q)
	case 4:
		p.DivideBy(q)
	default:
		q.Settle(NonZero)
	}
	vAssert("C10.boolean.receiver_unchanged", vhSameData(p.d, pBefore))
	vAssert("C10.boolean.argument_unchanged", vhSameData(q.d, qBefore))
}

