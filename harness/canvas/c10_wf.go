package canvas

import "math"

// C10-H1: cmdLen over every 64-bit pattern: the six command values give their record lengths.
func VH_C10_cmdlen() {
	k := vChoose(0, 5)
	cmds := [6]float64{MoveToCmd, LineToCmd, QuadToCmd, CubeToCmd, ArcToCmd, CloseCmd}
	want := [6]int{4, 4, 6, 8, 8, 4}
	x := vNondetF64()
	vAssume(x == cmds[k])
	vAssert("C10.cmdlen", cmdLen(x) == want[k])
	_ = math.Pi
}
