package canvas

import "math"

// Shared harness library: symbolic well-formed paths of bounded shape, an independent
// well-formedness validator and a segment decoder.

// vhGen draws coordinates.
type vhGen func() float64

func vhAnyFinite() float64 {
	x := vNondetF64()
	vAssume(!math.IsNaN(x) && !math.IsInf(x, 0))
	return x
}

// vhGrid draws a coordinate k/4 with k in [-32,31].
func vhGrid() float64 { return vNondetDyadic(6, 2) }

const (
	vhLine = 0
	vhQuad = 1
	vhCube = 2
	vhArc  = 3
)

// vhRawSubpath appends MoveTo + nseg segments (+ optional Close) with coordinates from gen.
// closeKind: 0 open, 1 Close record (closing line from the last point to the start).
func vhRawSubpath(p *Path, gen vhGen, kinds []int, closeKind int) {
	sx, sy := gen(), gen()
	p.d = append(p.d, MoveToCmd, sx, sy, MoveToCmd)
	for _, k := range kinds {
		switch k {
		case vhLine:
			p.d = append(p.d, LineToCmd, gen(), gen(), LineToCmd)
		case vhQuad:
			p.d = append(p.d, QuadToCmd, gen(), gen(), gen(), gen(), QuadToCmd)
		case vhCube:
			p.d = append(p.d, CubeToCmd, gen(), gen(), gen(), gen(), gen(), gen(), CubeToCmd)
		case vhArc:
			rx, ry, phi := gen(), gen(), gen()
			fl := float64(vChoose(0, 3))
			p.d = append(p.d, ArcToCmd, rx, ry, phi, fl, gen(), gen(), ArcToCmd)
		}
	}
	if closeKind == 1 {
		p.d = append(p.d, CloseCmd, sx, sy, CloseCmd)
	}
}

// vhChooseKinds picks nseg segment kinds from the allowed set.
func vhChooseKinds(nseg int, allowed []int) []int {
	ks := make([]int, nseg)
	for i := range ks {
		ks[i] = allowed[vChoose(0, len(allowed)-1)]
	}
	return ks
}

type vhSeg struct {
	cmd        float64
	start, end Point
	a          [4]float64
}

type vhSub struct {
	start  Point
	segs   []vhSeg
	closed bool
}

// vhDecode decodes the command stream front to back; ok=false if the stream is malformed.
// A Close record is returned as a segment with cmd CloseCmd from the current point to its
// stored coordinates.
func vhDecode(d []float64) (subs []vhSub, ok bool) {
	i := 0
	var cur *vhSub
	var pos Point
	for i < len(d) {
		cmd := d[i]
		n := 0
		switch cmd {
		case MoveToCmd, LineToCmd, CloseCmd:
			n = 4
		case QuadToCmd:
			n = 6
		case CubeToCmd, ArcToCmd:
			n = 8
		default:
			return nil, false
		}
		if i+n > len(d) || d[i+n-1] != cmd {
			return nil, false
		}
		end := Point{d[i+n-3], d[i+n-2]}
		if cmd == MoveToCmd {
			subs = append(subs, vhSub{start: end})
			cur = &subs[len(subs)-1]
		} else {
			if cur == nil || cur.closed {
				return nil, false // segment without a MoveTo
			}
			s := vhSeg{cmd: cmd, start: pos, end: end}
			switch cmd {
			case QuadToCmd:
				s.a[0], s.a[1] = d[i+1], d[i+2]
			case CubeToCmd, ArcToCmd:
				s.a[0], s.a[1], s.a[2], s.a[3] = d[i+1], d[i+2], d[i+3], d[i+4]
			case CloseCmd:
				cur.closed = true
			}
			cur.segs = append(cur.segs, s)
		}
		pos = end
		i += n
	}
	return subs, true
}

// vhDecodableBackward checks that the stream is decodable from the end as the library does.
func vhDecodableBackward(d []float64) bool {
	i := len(d)
	for i > 0 {
		cmd := d[i-1]
		n := 0
		switch cmd {
		case MoveToCmd, LineToCmd, CloseCmd:
			n = 4
		case QuadToCmd:
			n = 6
		case CubeToCmd, ArcToCmd:
			n = 8
		default:
			return false
		}
		if i-n < 0 || d[i-n] != cmd {
			return false
		}
		i -= n
	}
	return true
}

func vhPtEq(a, b Point) bool { return a.X == b.X && a.Y == b.Y }

// vhWF is the independent well-formedness validator of property C10:
// decodable from both ends, subpaths start with a move, a close returns to the subpath start,
// no zero-length segments (a zero-length closing record is allowed), arcs have valid radii,
// rotation and flags.  Written without early exits over symbolic data so that the engine can
// turn the conjunction into one term.
func vhWF(p *Path) bool { return vhWFx(p, false) }

// vhWFOut is the validator for results of operations that only move data around: the same
// structural rules, but "zero-length" means all points identical.  (Equal() is not transitive,
// so a tolerance-based rule is not invariant under e.g. reversal at the 1e-10 scale; demanding
// it of outputs would be a false alarm.)
func vhWFOut(p *Path) bool { return vhWFx(p, true) }

func vhSamePt(a, b Point, exact bool) bool {
	if exact {
		return vhPtEq(a, b)
	}
	return a.Equals(b)
}

func vhWFx(p *Path, exact bool) bool {
	subs, ok := vhDecode(p.d)
	if !ok || !vhDecodableBackward(p.d) {
		return false
	}
	good := true
	for _, sub := range subs {
		for k, s := range sub.segs {
			switch s.cmd {
			case CloseCmd:
				if k != len(sub.segs)-1 {
					return false
				}
				// Close() may turn a LineTo that ends within Epsilon of the start into the Close
				// record without rewriting its coordinates: "returns to the start" is meant
				// within the library's tolerance
				good = good && vhSamePt(s.end, sub.start, exact)
				if k > 0 && sub.segs[k-1].cmd == LineToCmd {
					// Close() turns a LineTo that returns to the start into the Close itself
					good = good && !vhSamePt(s.start, s.end, exact)
				}
			case LineToCmd:
				good = good && !vhSamePt(s.start, s.end, exact)
			case QuadToCmd:
				cp := Point{s.a[0], s.a[1]}
				good = good && !(vhSamePt(s.start, s.end, exact) && vhSamePt(s.start, cp, exact))
			case CubeToCmd:
				cp1, cp2 := Point{s.a[0], s.a[1]}, Point{s.a[2], s.a[3]}
				good = good && !(vhSamePt(s.start, s.end, exact) && vhSamePt(s.start, cp1, exact) && vhSamePt(s.start, cp2, exact))
			case ArcToCmd:
				rx, ry, phi, fl := s.a[0], s.a[1], s.a[2], s.a[3]
				good = good && !vhSamePt(s.start, s.end, exact)
				good = good && rx > 0 && ry > 0 && ry <= rx
				good = good && 0 <= phi && phi < math.Pi
				good = good && (fl == 0 || fl == 1 || fl == 2 || fl == 3)
			}
		}
	}
	return good
}

func vhCopyData(d []float64) []float64 {
	c := make([]float64, len(d))
	copy(c, d)
	return c
}

// vhSameData: two float slices hold identical values (NaN-free inputs assumed).
func vhSameData(a, b []float64) bool {
	if len(a) != len(b) {
		return false
	}
	same := true
	for i := range a {
		same = same && a[i] == b[i]
	}
	return same
}

// vhStructWF: structural well-formedness only (decodable from both ends, subpaths start with a
// move, Close carries the subpath start, arc flags valid); no numeric/tolerance rules.
func vhStructWF(p *Path) bool {
	subs, ok := vhDecode(p.d)
	if !ok || !vhDecodableBackward(p.d) {
		return false
	}
	good := true
	for _, sub := range subs {
		for k, s := range sub.segs {
			switch s.cmd {
			case CloseCmd:
				if k != len(sub.segs)-1 {
					return false
				}
				good = good && s.end.Equals(sub.start)
			case ArcToCmd:
				fl := s.a[3]
				good = good && (fl == 0 || fl == 1 || fl == 2 || fl == 3)
			}
		}
	}
	return good
}

// vhRecords splits the stream into records (start offsets); the stream must be decodable.
func vhRecords(d []float64) []int {
	var offs []int
	for i := 0; i < len(d); {
		offs = append(offs, i)
		switch d[i] {
		case QuadToCmd:
			i += 6
		case CubeToCmd, ArcToCmd:
			i += 8
		default:
			i += 4
		}
	}
	return offs
}

// vhPreState builds a well-formed path whose last subpath has 0..maxSeg segments of any kind
// (optionally closed), optionally preceded by an earlier closed subpath, or the empty path.
func vhPreState(gen vhGen, maxSeg int, allowed []int) *Path {
	p := &Path{}
	switch vChoose(0, 2) {
	case 0:
		if vChoose(0, 1) == 0 {
			return p // empty path
		}
	case 1:
		// an earlier subpath: open line or closed two-line corner
		vhRawSubpath(p, gen, []int{vhLine, vhLine}, vChoose(0, 1))
	}
	nseg := vChoose(0, maxSeg)
	kinds := vhChooseKinds(nseg, allowed)
	ck := 0
	if nseg > 0 {
		ck = vChoose(0, 1)
	}
	vhRawSubpath(p, gen, kinds, ck)
	vAssume(vhWF(p))
	return p
}

// vhHypotQ: a sound over-approximation of math.Hypot for the rational domain that avoids
// non-linear constraints: some h with max(|x|,|y|) <= h <= |x|+|y| (exact when x or y is 0).
// Branch-free so that the engine never forks inside the stub.
func vhHypotQ(x, y float64) float64 {
	ax, ay := math.Abs(x), math.Abs(y)
	h := vNondetF64()
	vAssume(h >= ax && h >= ay && h <= ax+ay)
	return h
}

// vhAtan2Sign: atan2 over-approximated by its sign/zero structure: result r in (-pi, pi] with
// sign(r) = sign(y); r = 0 iff y = 0 and x >= 0; r = pi iff y = 0 and x < 0.
func vhAtan2Sign(y, x float64) float64 {
	r := vNondetF64()
	vAssume((y != 0 || x < 0 || r == 0) &&
		(y != 0 || x >= 0 || r == math.Pi) &&
		(y <= 0 || (0 < r && r < math.Pi)) &&
		(y >= 0 || (-math.Pi < r && r < 0)))
	return r
}

// vhReal draws an arbitrary real (rational domain) / finite float in [-16,16].
func vhReal() float64 {
	x := vNondetF64()
	vAssume(-16 <= x && x <= 16)
	return x
}

// vhAtan2GP: like vhAtan2Sign, and additionally bounded away from 0 and +-pi when the vector is
// clearly off the x-axis: |atan2(y,x)| >= |y|/(|x|+|y|) and pi-|atan2(y,x)| >= |y|/(|x|+|y|).
// With |y| >= 1e-3(|x|+|y|) that gives 1e-3 <= |r| <= pi-1e-3.
func vhAtan2GP(y, x float64) float64 {
	r := vNondetF64()
	ay, ax := math.Abs(y), math.Abs(x)
	off := ay >= 1e-3*(ax+ay) && ay > 0
	vAssume((y != 0 || x < 0 || r == 0) &&
		(y != 0 || x >= 0 || r == math.Pi) &&
		(y <= 0 || (0 < r && r < math.Pi)) &&
		(y >= 0 || (-math.Pi < r && r < 0)) &&
		(!off || (math.Abs(r) >= 1e-3 && math.Abs(r) <= math.Pi-1e-3)))
	return r
}

// vhMod2Pi: math.Mod(x, 2*pi) for |x| <= 8*pi, exact in the rational domain.
func vhMod2Pi(x, y float64) float64 {
	r := x
	for k := 0; k < 4; k++ {
		if r <= -y {
			r += y
		}
	}
	for k := 0; k < 4; k++ {
		if r >= y {
			r -= y
		}
	}
	return r
}
