package canvas

import (
	"io"
	"math"
	"strconv"
)

// C11-H4: the operators produced by ToPDF and ToPS trace the same geometry as the path
// (lines, quadratics elevated to cubics, cubics, closepath).  Same two front-ends as the ToSVG
// harness: a Fprintf recorder under the engine, a lexer of the real text natively.

type vhC11PTok struct {
	op   string
	args []float64
}

var vhC11PRec []vhC11PTok

func vhC11PFprintf(w io.Writer, format string, a ...interface{}) (int, error) {
	// the operator is the last word of the format
	op := ""
	for i := len(format) - 1; i >= 0 && format[i] != ' '; i-- {
		op = string(format[i]) + op
	}
	t := vhC11PTok{op: op}
	for _, v := range a {
		if d, ok := v.(dec); ok {
			t.args = append(t.args, float64(d))
		}
	}
	vhC11PRec = append(vhC11PRec, t)
	w.Write([]byte{' '}) // callers slice off the leading space
	return 1, nil
}

func vhC11PLex(s string) []vhC11PTok {
	var toks []vhC11PTok
	var nums []float64
	i := 0
	for i < len(s) {
		if s[i] == ' ' || s[i] == '\n' {
			i++
			continue
		}
		j := i
		for j < len(s) && s[j] != ' ' && s[j] != '\n' {
			j++
		}
		w := s[i:j]
		if f, err := strconv.ParseFloat(w, 64); err == nil {
			nums = append(nums, f)
		} else {
			toks = append(toks, vhC11PTok{op: w, args: nums})
			nums = nil
		}
		i = j
	}
	return toks
}

func VH_C11_topdf_tops_Q() {
	vStub("!fmt.Fprintf", vhC11PFprintf)
	ps := vChoose(0, 1) == 1
	p := &Path{}
	nseg := vChoose(1, 2+vTier())
	vhRawSubpath(p, vhReal, vhChooseKinds(nseg, []int{vhLine, vhQuad, vhCube}), vChoose(0, 1))
	vAssume(vhWF(p))
	before := vhCopyData(p.d)
	vhC11PRec = nil
	var s string
	if ps {
		s = p.ToPS()
	} else {
		s = p.ToPDF()
	}
	vAssert("C11.topdf.receiver_unchanged", vhSameData(p.d, before))
	toks := vhC11PRec
	if !vInterp() {
		toks = vhC11PLex(s)
	}
	names := map[string]string{"moveto": "m", "lineto": "l", "curveto": "c", "closepath": "h"}
	subs, _ := vhDecode(p.d)
	segs := subs[0].segs
	near := func(a, b float64) bool { return math.Abs(a-b) <= 1e-6*(1+math.Abs(b)) }
	good := len(toks) == 1+len(segs)
	if good {
		t0 := toks[0]
		op := t0.op
		if n, ok := names[op]; ok {
			op = n
		}
		good = op == "m" && len(t0.args) == 2 && near(t0.args[0], subs[0].start.X) && near(t0.args[1], subs[0].start.Y)
	}
	if good {
		for k, sg := range segs {
			t := toks[k+1]
			op := t.op
			if n, ok := names[op]; ok {
				op = n
			}
			switch sg.cmd {
			case LineToCmd:
				good = good && op == "l" && len(t.args) == 2 && near(t.args[0], sg.end.X) && near(t.args[1], sg.end.Y)
			case QuadToCmd:
				// exact degree elevation
				c1x, c1y := sg.start.X+2.0/3.0*(sg.a[0]-sg.start.X), sg.start.Y+2.0/3.0*(sg.a[1]-sg.start.Y)
				c2x, c2y := sg.end.X+2.0/3.0*(sg.a[0]-sg.end.X), sg.end.Y+2.0/3.0*(sg.a[1]-sg.end.Y)
				good = good && op == "c" && len(t.args) == 6 && near(t.args[0], c1x) && near(t.args[1], c1y) && near(t.args[2], c2x) && near(t.args[3], c2y) && near(t.args[4], sg.end.X) && near(t.args[5], sg.end.Y)
			case CubeToCmd:
				good = good && op == "c" && len(t.args) == 6 && near(t.args[0], sg.a[0]) && near(t.args[1], sg.a[1]) && near(t.args[2], sg.a[2]) && near(t.args[3], sg.a[3]) && near(t.args[4], sg.end.X) && near(t.args[5], sg.end.Y)
			case CloseCmd:
				good = good && op == "h" && len(t.args) == 0
			}
		}
	}
	vAssert("C11.topdf.same_geometry", good)
}
