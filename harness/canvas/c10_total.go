package canvas

import "math"

// C10-H4: queries and derivations are total on every well-formed path, and the forward and
// backward scanners enumerate exactly the records of the stream.
// Shapes: 1-2 subpaths of 0-2 segments of every kind, open/closed, real coordinates.

func vhC10TotalInput(arcs bool) *Path {
	p := &Path{}
	kinds := []int{vhLine, vhQuad, vhCube}
	if arcs {
		kinds = append(kinds, vhArc)
	}
	nsub := vChoose(1, 2)
	for s := 0; s < nsub; s++ {
		// first subpath: 0-2 segments of any kind; second: one segment
		nseg := 1
		if s == 0 {
			nseg = vChoose(nsub-1, 2)
		}
		ck := 0
		if nseg > 0 {
			ck = vChoose(0, 1)
		}
		vhRawSubpath(p, vhReal, vhChooseKinds(nseg, kinds), ck)
	}
	vAssume(vhWF(p))
	return p
}

// scanners vs the independent decoder
func VH_C10_scanners_Q() {
	p := vhC10TotalInput(true)
	subs, _ := vhDecode(p.d)
	// flatten the decoder's view into a list of records (cmd, start, end, args)
	type rec struct {
		cmd        float64
		start, end Point
		a          [4]float64
	}
	var recs []rec
	var pos Point
	for _, sb := range subs {
		recs = append(recs, rec{cmd: MoveToCmd, start: pos, end: sb.start})
		pos = sb.start
		for _, sg := range sb.segs {
			recs = append(recs, rec{cmd: sg.cmd, start: sg.start, end: sg.end, a: sg.a})
			pos = sg.end
		}
	}
	check := func(k int, cmd float64, start, end Point, cp1, cp2 Point, hasCP1, hasCP2 bool) bool {
		if k < 0 || k >= len(recs) {
			return false
		}
		r := recs[k]
		ok := r.cmd == cmd && vhPtEq(r.end, end) && (k == 0 || vhPtEq(r.start, start))
		if hasCP1 {
			ok = ok && r.a[0] == cp1.X && r.a[1] == cp1.Y
		}
		if hasCP2 {
			ok = ok && r.a[2] == cp2.X && r.a[3] == cp2.Y
		}
		return ok
	}
	good := true
	k := 0
	for s := p.Scanner(); s.Scan(); k++ {
		cmd := s.Cmd()
		var c1, c2 Point
		h1, h2 := cmd == QuadToCmd || cmd == CubeToCmd, cmd == CubeToCmd
		if h1 {
			c1 = s.CP1()
		}
		if h2 {
			c2 = s.CP2()
		}
		good = good && check(k, cmd, s.Start(), s.End(), c1, c2, h1, h2)
		if cmd == ArcToCmd {
			rx, ry, phi, large, sweep := s.Arc()
			l0, s0 := toArcFlags(recs[k].a[3])
			// Arc() reports the rotation in degrees
			good = good && rx == recs[k].a[0] && ry == recs[k].a[1] && vhNear(phi, recs[k].a[2]*180/math.Pi) && large == l0 && sweep == s0
		}
	}
	vAssert("C10.scanner.forward_enumerates_records", good && k == len(recs))
	good = true
	k = len(recs) - 1
	for s := p.ReverseScanner(); s.Scan(); k-- {
		cmd := s.Cmd()
		var c1, c2 Point
		h1, h2 := cmd == QuadToCmd || cmd == CubeToCmd, cmd == CubeToCmd
		if h1 {
			c1 = s.CP1()
		}
		if h2 {
			c2 = s.CP2()
		}
		good = good && check(k, cmd, s.Start(), s.End(), c1, c2, h1, h2)
	}
	vAssert("C10.scanner.backward_enumerates_records", good && k == -1)
}

// data queries never panic and agree with the decoder
func VH_C10_queries_Q() {
	p := vhC10TotalInput(false)
	before := vhCopyData(p.d)
	subs, _ := vhDecode(p.d)
	last := subs[len(subs)-1]
	nrec := 0
	for _, sb := range subs {
		nrec += 1 + len(sb.segs)
	}
	vAssert("C10.query.len", p.Len() == nrec)
	vAssert("C10.query.closed", p.Closed() == last.closed)
	end := last.start
	if len(last.segs) > 0 {
		end = last.segs[len(last.segs)-1].end
	}
	vAssert("C10.query.pos", vhPtEq(p.Pos(), end))
	vAssert("C10.query.startpos", vhPtEq(p.StartPos(), last.start))
	vAssert("C10.query.hassubpaths", p.HasSubpaths() == (len(subs) > 1))
	flat := true
	for _, sb := range subs {
		for _, sg := range sb.segs {
			flat = flat && (sg.cmd == LineToCmd || sg.cmd == CloseCmd)
		}
	}
	vAssert("C10.query.flat", p.Flat() == flat)
	c := p.Copy()
	vAssert("C10.query.copy", vhSameData(c.d, before) && (len(before) == 0 || &c.d[0] != &p.d[0]))
	vAssert("C10.query.empty", p.Empty() == (len(before) <= 4))
	vAssert("C10.query.sane", p.Sane())
	co := p.Coords()
	vAssert("C10.query.coords_nonempty", len(co) >= 1 && vhPtEq(co[0], subs[0].start))
	fb := p.FastBounds()
	vAssert("C10.query.fastbounds_ordered", fb.X0 <= fb.X1 && fb.Y0 <= fb.Y1)
	vAssert("C10.query.receiver_unchanged", vhSameData(p.d, before))
	_ = math.Pi
}
