package canvas

// C11-H1: ParseSVGPath is total on every byte string over an alphabet that covers all of the
// parser's branch classes.  The real number scanner (tdewolff/parse/v2/strconv.ParseFloat and
// ParseInt) is interpreted, not stubbed; only math.Pow10 (its value never influences control
// flow) and the Path builders (subject of C10) are replaced.

const vhC11Alphabet = "MmZzLlHhVvCcSsQqTtAa0123456789.-+eE ,\tX#"

func vhC11InAlphabet(c byte) bool {
	ok := false
	for i := 0; i < len(vhC11Alphabet); i++ {
		ok = ok || c == vhC11Alphabet[i]
	}
	return ok
}

func vhC11IsSep(c byte) bool {
	return c == ' ' || c == ',' || c == '\n' || c == '\r' || c == '\t'
}

// vhC11Err is what the symbolic run gets from fmt.Errorf: the last integer argument is the
// reported (1-based) position, if any.
type vhC11Err struct {
	pos    int
	hasPos bool
}

func (e *vhC11Err) Error() string { return "vhC11Err" }

func vhC11Errorf(format string, a ...interface{}) error {
	e := &vhC11Err{}
	// every message of ParseSVGPath that carries a position ends in "at position %d"
	const suffix = "at position %d"
	if len(format) >= len(suffix) && format[len(format)-len(suffix):] == suffix && len(a) > 0 {
		if p, ok := a[len(a)-1].(int); ok {
			e.pos, e.hasPos = p, true
		}
	}
	return e
}

// vhC11ErrPos extracts the reported position: from the stub's error in the symbolic run, from
// the text "... at position N" natively.
func vhC11ErrPos(err error) (int, bool) {
	if e, ok := err.(*vhC11Err); ok {
		return e.pos, e.hasPos
	}
	msg := err.Error()
	const key = "at position "
	for i := 0; i+len(key) <= len(msg); i++ {
		if msg[i:i+len(key)] == key {
			n, has := 0, false
			for j := i + len(key); j < len(msg) && '0' <= msg[j] && msg[j] <= '9'; j++ {
				n = n*10 + int(msg[j]-'0')
				has = true
			}
			return n, has && i+len(key) < len(msg) && msg[i+len(key)] != '-'
		}
	}
	return 0, false
}

var vhC11Calls int

func vhC11MoveTo(p *Path, x, y float64)             { vhC11Calls++ }
func vhC11LineTo(p *Path, x, y float64)             { vhC11Calls++ }
func vhC11QuadTo(p *Path, cpx, cpy, x, y float64)   { vhC11Calls++ }
func vhC11CubeTo(p *Path, a, b, c, d, x, y float64) { vhC11Calls++ }
func vhC11Close(p *Path)                            { vhC11Calls++ }
func vhC11Pow10(n int) float64                      { return vNondetF64() }
func vhC11ArcTo(p *Path, rx, ry, rot float64, large, sweep bool, x, y float64) {
	vhC11Calls++
}

func vhC11StubBuilders() {
	vStub("(*github.com/tdewolff/canvas.Path).MoveTo", vhC11MoveTo)
	vStub("(*github.com/tdewolff/canvas.Path).LineTo", vhC11LineTo)
	vStub("(*github.com/tdewolff/canvas.Path).QuadTo", vhC11QuadTo)
	vStub("(*github.com/tdewolff/canvas.Path).CubeTo", vhC11CubeTo)
	vStub("(*github.com/tdewolff/canvas.Path).ArcTo", vhC11ArcTo)
	vStub("(*github.com/tdewolff/canvas.Path).Close", vhC11Close)
}

func vhC11Parse(s string) (p *Path, err error, panicked bool) {
	defer func() {
		if r := recover(); r != nil {
			panicked = true
		}
	}()
	p, err = ParseSVGPath(s)
	return
}

func VH_C11_parse_total() {
	vhC11StubBuilders()
	vStub("math.Pow10", vhC11Pow10)
	vStub("!fmt.Errorf", vhC11Errorf)
	n := vChoose(0, 3+vTier())
	b := make([]byte, n)
	allSep := true
	for i := range b {
		b[i] = vNondetByte()
		vAssume(vhC11InAlphabet(b[i]))
		allSep = allSep && vhC11IsSep(b[i])
	}
	// the parser itself runs unmerged: its indices stay concrete on every path
	vMerge(false)
	vhC11Calls = 0
	p, err, panicked := vhC11Parse(string(b))
	// D4: a non-empty input made only of separators that does not start with ',' indexes
	// path[len(path)]
	vKnown("D4", n > 0 && allSep && b[0] != ',')
	vAssert("C11.parse.no_panic", !panicked)
	if panicked {
		return
	}
	vAssert("C11.parse.result_xor_error", (p != nil) != (err != nil))
	// progress: every loop iteration that reaches a builder consumed at least one byte
	vAssert("C11.parse.progress", vhC11Calls <= n)
	if err != nil {
		pos, has := vhC11ErrPos(err)
		if has {
			// positions are 1-based; len+1 denotes "at the end of the input"
			vAssert("C11.parse.errpos_in_input", 1 <= pos && pos <= n+1)
		}
	}
}

// ---------------------------------------------------------------------------------------
// C11-H2: token-level semantics.  The input is a grammatical path string whose *structure*
// (commands, implicit repetitions, separator style) is concrete and whose numbers are small
// integers with symbolic digits (and symbolic arc flags).  The parse result is compared with
// an independent interpreter of SVG 2 section 9.3 (path data) that works on the token list:
// absolute/relative coordinates, implicit lineto after moveto, repetition of the previous
// command, H/V, current point after closepath, reflection of the previous control point for S
// only after C/S and for T only after Q/T, arc flags.
//
// Observation: in the symbolic run the builders are replaced by "raw" builders that append
// their arguments to p.d unchanged, so p.d is the sequence of builder calls; natively (and in
// the interpreter's concrete self-test) the real builders run on both sides and the resulting
// paths are compared.  The parser reads builder state only through StartPos (after Z).

func vhC11RawPrep(p *Path) {
	if len(p.d) == 0 {
		p.d = append(p.d, MoveToCmd, 0.0, 0.0, MoveToCmd)
	} else if p.d[len(p.d)-1] == CloseCmd {
		p.d = append(p.d, MoveToCmd, p.d[len(p.d)-3], p.d[len(p.d)-2], MoveToCmd)
	}
}
func vhC11RawMoveTo(p *Path, x, y float64) { p.d = append(p.d, MoveToCmd, x, y, MoveToCmd) }
func vhC11RawLineTo(p *Path, x, y float64) {
	vhC11RawPrep(p)
	p.d = append(p.d, LineToCmd, x, y, LineToCmd)
}
func vhC11RawQuadTo(p *Path, cx, cy, x, y float64) {
	vhC11RawPrep(p)
	p.d = append(p.d, QuadToCmd, cx, cy, x, y, QuadToCmd)
}
func vhC11RawCubeTo(p *Path, c1x, c1y, c2x, c2y, x, y float64) {
	vhC11RawPrep(p)
	p.d = append(p.d, CubeToCmd, c1x, c1y, c2x, c2y, x, y, CubeToCmd)
}
func vhC11RawArcTo(p *Path, rx, ry, rot float64, large, sweep bool, x, y float64) {
	vhC11RawPrep(p)
	p.d = append(p.d, ArcToCmd, rx, ry, rot, fromArcFlags(large, sweep), x, y, ArcToCmd)
}
func vhC11RawClose(p *Path) {
	s := p.StartPos()
	p.d = append(p.d, CloseCmd, s.X, s.Y, CloseCmd)
}

func vhC11StubRawBuilders() {
	vStub("(*github.com/tdewolff/canvas.Path).MoveTo", vhC11RawMoveTo)
	vStub("(*github.com/tdewolff/canvas.Path).LineTo", vhC11RawLineTo)
	vStub("(*github.com/tdewolff/canvas.Path).QuadTo", vhC11RawQuadTo)
	vStub("(*github.com/tdewolff/canvas.Path).CubeTo", vhC11RawCubeTo)
	vStub("(*github.com/tdewolff/canvas.Path).ArcTo", vhC11RawArcTo)
	vStub("(*github.com/tdewolff/canvas.Path).Close", vhC11RawClose)
}

type vhC11Tok struct {
	cmd      byte // effective command letter
	implicit bool // letter omitted in the text
	a        [7]float64
}

func vhC11NArgs(cmd byte) int {
	switch cmd {
	case 'M', 'm', 'L', 'l', 'T', 't':
		return 2
	case 'H', 'h', 'V', 'v':
		return 1
	case 'C', 'c':
		return 6
	case 'S', 's', 'Q', 'q':
		return 4
	case 'A', 'a':
		return 7
	}
	return 0
}

func vhC11Upper(c byte) byte {
	if 'a' <= c && c <= 'z' {
		return c - ('a' - 'A')
	}
	return c
}

// vhC11Digit draws a decimal digit.
func vhC11Digit() byte {
	d := vNondetByte()
	vAssume('0' <= d && d <= '9')
	return d
}

// vhC11Number appends a number token in the given style and returns its value.
// style 0: "d", separated by one space; 1: "-d", no separators at all (the sign separates);
// 2: "dd" separated by commas with surrounding blanks.
func vhC11Number(b []byte, style int, first bool) ([]byte, float64) {
	switch style {
	case 1:
		d := vhC11Digit()
		return append(b, '-', d), -float64(int(d - '0'))
	case 2:
		if !first {
			b = append(b, ' ', ',', '\n')
		}
		d1, d2 := vhC11Digit(), vhC11Digit()
		return append(b, d1, d2), float64(10*int(d1-'0') + int(d2-'0'))
	}
	if !first {
		b = append(b, ' ')
	}
	d := vhC11Digit()
	return append(b, d), float64(int(d - '0'))
}

// vhC11Flag appends an arc flag; flags are single characters that need no separator after them.
func vhC11Flag(b []byte, style int, first bool) ([]byte, float64) {
	f := vNondetByte()
	vAssume(f == '0' || f == '1')
	switch {
	case style == 0 || style == 1 && first:
		b = append(b, ' ') // a flag directly after a number would be read as one of its digits
	case style == 2:
		b = append(b, ',')
	}
	return append(b, f), float64(int(f - '0'))
}

const vhC11Letters = "MmZzLlHhVvCcSsQqTtAa"

// vhC11Spec interprets the token list according to SVG 2 section 9.3 and issues the builder calls.
func vhC11Spec(toks []vhC11Tok) *Path {
	p := &Path{}
	var cur, start, cubicCP, quadCP Point
	prev := byte(0)
	for _, t := range toks {
		C := vhC11Upper(t.cmd)
		base := Point{}
		if t.cmd != C {
			base = cur
		}
		pt := cur
		switch C {
		case 'M':
			pt = Point{base.X + t.a[0], base.Y + t.a[1]}
			p.MoveTo(pt.X, pt.Y)
			start = pt
		case 'Z':
			p.Close()
			pt = start
		case 'L':
			pt = Point{base.X + t.a[0], base.Y + t.a[1]}
			p.LineTo(pt.X, pt.Y)
		case 'H':
			pt = Point{base.X + t.a[0], cur.Y}
			p.LineTo(pt.X, pt.Y)
		case 'V':
			pt = Point{cur.X, base.Y + t.a[0]}
			p.LineTo(pt.X, pt.Y)
		case 'C':
			cp1 := Point{base.X + t.a[0], base.Y + t.a[1]}
			cp2 := Point{base.X + t.a[2], base.Y + t.a[3]}
			pt = Point{base.X + t.a[4], base.Y + t.a[5]}
			p.CubeTo(cp1.X, cp1.Y, cp2.X, cp2.Y, pt.X, pt.Y)
			cubicCP = cp2
		case 'S':
			cp1 := cur
			if prev == 'C' || prev == 'S' {
				cp1 = Point{cur.X + (cur.X - cubicCP.X), cur.Y + (cur.Y - cubicCP.Y)}
			}
			cp2 := Point{base.X + t.a[0], base.Y + t.a[1]}
			pt = Point{base.X + t.a[2], base.Y + t.a[3]}
			p.CubeTo(cp1.X, cp1.Y, cp2.X, cp2.Y, pt.X, pt.Y)
			cubicCP = cp2
		case 'Q':
			cp := Point{base.X + t.a[0], base.Y + t.a[1]}
			pt = Point{base.X + t.a[2], base.Y + t.a[3]}
			p.QuadTo(cp.X, cp.Y, pt.X, pt.Y)
			quadCP = cp
		case 'T':
			cp := cur
			if prev == 'Q' || prev == 'T' {
				cp = Point{cur.X + (cur.X - quadCP.X), cur.Y + (cur.Y - quadCP.Y)}
			}
			pt = Point{base.X + t.a[0], base.Y + t.a[1]}
			p.QuadTo(cp.X, cp.Y, pt.X, pt.Y)
			quadCP = cp
		case 'A':
			pt = Point{base.X + t.a[5], base.Y + t.a[6]}
			p.ArcTo(t.a[0], t.a[1], t.a[2], t.a[3] != 0.0, t.a[4] != 0.0, pt.X, pt.Y)
		}
		cur = pt
		prev = C
	}
	return p
}

func VH_C11_tokens_Q() {
	style := vChoose(0, 2)
	ncmd := vChoose(1, 2+vTier())
	// bounds: plain style: up to 2 (thorough 3) commands after the moveto; other styles one fewer
	vAssume(style == 0 || ncmd <= 1+vTier())
	vhC11TokensBody(vhC11Letters, style, ncmd)
}

// C11-H2b: the same comparison for longer command sequences over the letters that manage the
// current point and the subpath start (M m L l Z z): 3 or 4 commands after the
// leading moveto, plain separator style.  Covers the current point after closepath for second
// and later subpaths and relative movetos after a closepath.
func VH_C11_tokens_subpaths_Q() {
	vhC11TokensBody("MmLlZz", 0, vChoose(3, 4))
}

func vhC11TokensBody(letters string, style, ncmd int) {
	vhC11StubRawBuilders()
	vStub("math.Pow10", vhC11Pow10)
	toks := []vhC11Tok{}
	b := []byte{}
	// leading moveto, absolute or relative
	eff := byte('M')
	if vChoose(0, 1) == 1 {
		eff = 'm'
	}
	for k := 0; k <= ncmd; k++ {
		t := vhC11Tok{cmd: eff}
		if k > 0 {
			// 0..19: explicit letter; 20: repeat the previous command without its letter
			c := vChoose(0, len(letters))
			if c < len(letters) {
				t.cmd = letters[c]
			} else {
				prev := toks[k-1].cmd
				if prev == 'Z' || prev == 'z' {
					vAssume(false) // nothing to repeat
				}
				t.implicit = true
				t.cmd = prev
				if prev == 'M' {
					t.cmd = 'L'
				} else if prev == 'm' {
					t.cmd = 'l'
				}
			}
		}
		if !t.implicit {
			if style == 2 && k > 0 {
				b = append(b, ' ')
			}
			b = append(b, t.cmd)
			if style == 2 {
				b = append(b, '\t')
			}
		}
		n := vhC11NArgs(t.cmd)
		for j := 0; j < n; j++ {
			if vhC11Upper(t.cmd) == 'A' && (j == 3 || j == 4) {
				b, t.a[j] = vhC11Flag(b, style, j == 3)
			} else {
				// after an explicit letter no separator is needed; between numbers (and between
				// repeated argument groups) one is
				b, t.a[j] = vhC11Number(b, style, j == 0 && !t.implicit)
			}
		}
		toks = append(toks, t)
	}
	vMerge(false)
	p, err := ParseSVGPath(string(b))
	vMerge(true)
	vAssert("C11.tokens.accepted", err == nil && p != nil)
	if err != nil || p == nil {
		return
	}
	exp := vhC11Spec(toks)
	vAssert("C11.tokens.calls_match_spec", vhSameData(p.d, exp.d))
}

// C11-H3: SVG 2 section 9.3.4: "If a closepath is followed immediately by any other command,
// then the next subpath starts at the same initial point as the current subpath."  Real
// builders; "M a b [L c d] z l e f": the last subpath must start at (a,b).
func VH_C11_closepath_start_Q() {
	vStub("math.Pow10", vhC11Pow10)
	withLine := vChoose(0, 1) == 1
	rel := vChoose(0, 1) == 1
	b := []byte{'M'}
	var a, bb, c, d, e, f float64
	b, a = vhC11Number(b, 0, true)
	b, bb = vhC11Number(b, 0, false)
	if withLine {
		b = append(b, 'L')
		b, c = vhC11Number(b, 0, true)
		b, d = vhC11Number(b, 0, false)
		vAssume(c != a || d != bb)
	}
	b = append(b, 'z')
	if rel {
		b = append(b, 'l')
	} else {
		b = append(b, 'L')
	}
	b, e = vhC11Number(b, 0, true)
	b, f = vhC11Number(b, 0, false)
	ex, ey := e, f
	if rel {
		ex, ey = a+e, bb+f
	}
	vAssume(ex != a || ey != bb) // the final line is not zero-length
	vMerge(false)
	p, err := ParseSVGPath(string(b))
	vMerge(true)
	vAssert("C11.closepath.accepted", err == nil && p != nil)
	if err != nil || p == nil {
		return
	}
	// decode the last subpath
	subs, ok := vhDecode(p.d)
	// D31: a subpath consisting of a moveto only is removed by Close together with its start point
	vAssert("C11.closepath.decodable", ok && len(subs) > 0)
	if !ok || len(subs) == 0 {
		return
	}
	last := subs[len(subs)-1]
	vAssert("C11.closepath.next_subpath_starts_at_initial_point",
		last.start.X == a && last.start.Y == bb && len(last.segs) == 1 && last.segs[0].end.X == ex && last.segs[0].end.Y == ey)
}

// C11-H1b: totality deeper inside a command: a concrete grammatical prefix that stops in the
// middle of an argument list, followed by 0-2 (quick) / 0-3 (thorough) symbolic bytes over the
// same alphabet.  This reaches the argument, flag and implicit-repetition code that strings of
// <= 4 arbitrary bytes cannot reach.
var vhC11Prefixes = []string{
	"A5 5 0",         // arc: flags expected next
	"M0 0a5 5 0 1",   // arc: second flag expected next
	"M0 0A5 5 0 1 1", // arc: end point expected next
	"M0 0A5 5 0 011", // arc: flags without separators
	"M1 1C2 2 3",     // cubic: middle of the argument list
	"M1 1S2 2",       // smooth cubic
	"M1 1Q2 2",       // quadratic
	"M0 0H",          // horizontal lineto without argument
	"M0 0L1 1 2",     // implicit repetition, incomplete pair
	"M1 1z",          // after closepath
	"M1e",            // exponent without digits
	"M.",             // lone dot
}

func VH_C11_parse_suffix_total() {
	vhC11StubBuilders()
	vStub("math.Pow10", vhC11Pow10)
	vStub("!fmt.Errorf", vhC11Errorf)
	pre := vhC11Prefixes[vChoose(0, len(vhC11Prefixes)-1)]
	n := vChoose(0, 2+vTier())
	b := make([]byte, 0, len(pre)+n)
	b = append(b, pre...)
	for i := 0; i < n; i++ {
		c := vNondetByte()
		vAssume(vhC11InAlphabet(c))
		b = append(b, c)
	}
	vMerge(false)
	vhC11Calls = 0
	p, err, panicked := vhC11Parse(string(b))
	vAssert("C11.suffix.no_panic", !panicked)
	if panicked {
		return
	}
	vAssert("C11.suffix.result_xor_error", (p != nil) != (err != nil))
	vAssert("C11.suffix.progress", vhC11Calls <= len(b))
	if err != nil {
		pos, has := vhC11ErrPos(err)
		if has {
			vAssert("C11.suffix.errpos_in_input", 1 <= pos && pos <= len(b)+1)
		}
	}
}
