package canvas

// C01/C02 kernels of the Bentley-Ottmann sweep: result membership, winding propagation and
// merging of overlapping segments, decided for all winding counts in [-16,15].

func vhFillNZ(w int) bool { return w != 0 }

func vhRuleFills(rule FillRule, w int) bool {
	switch rule {
	case NonZero:
		return w != 0
	case EvenOdd:
		return w&1 == 1
	case Positive:
		return w > 0
	case Negative:
		return w < 0
	}
	return false
}

// subject/clipping winding numbers below and above a segment, independent of the code's
// self/other encoding
func vhSC(s *SweepPoint) (sb, cb, sa, ca int) {
	if !s.clipping {
		return s.windings, s.otherWindings, s.windings + s.selfWindings, s.otherWindings + s.otherSelfWindings
	}
	return s.otherWindings, s.windings, s.otherWindings + s.otherSelfWindings, s.windings + s.selfWindings
}

func vhBoolOp(op pathOp, s, c bool) bool {
	switch op {
	case opAND:
		return s && c
	case opOR:
		return s || c
	case opNOT:
		return s && !c
	case opXOR:
		return s != c
	}
	return false
}

func vhSymPoint() *SweepPoint {
	s := &SweepPoint{}
	s.windings = vNondetIntN(5)
	s.otherWindings = vNondetIntN(5)
	s.selfWindings = vNondetIntN(3)
	s.otherSelfWindings = vNondetIntN(3)
	s.clipping = vNondetBool()
	s.other = &SweepPoint{}
	return s
}

// C01-H1: InResult == (F_op below) != (F_op above) for AND/OR/NOT/XOR, DIV counts subject sides.
func VH_C01_inresult() {
	vMerge(false) // small bit-vector queries per path are much cheaper than merged ones here
	s := vhSymPoint()
	ops := [5]pathOp{opAND, opOR, opNOT, opXOR, opDIV}
	op := ops[vChoose(0, 4)]
	got := s.InResult(op, NonZero)
	sb, cb, sa, ca := vhSC(s)
	if op == opDIV {
		want := uint8(0)
		if vhFillNZ(sb) {
			want++
		}
		if vhFillNZ(sa) {
			want++
		}
		vAssert("C01.inresult.div", got == want)
		return
	}
	below := vhBoolOp(op, vhFillNZ(sb), vhFillNZ(cb))
	above := vhBoolOp(op, vhFillNZ(sa), vhFillNZ(ca))
	want := uint8(0)
	if below != above {
		want = 1
	}
	vAssert("C01.inresult.setalgebra", got == want)
}

// C01-H1b: open subject segments: kept by Settle/OR/DIV, by AND if the clipping path fills a
// side, by NOT/XOR if the clipping path leaves a side unfilled.
func VH_C01_inresult_open() {
	vMerge(false) // small bit-vector queries per path are much cheaper than merged ones here
	s := vhSymPoint()
	s.open = true
	s.clipping = false
	s.selfWindings = 0
	ops := [6]pathOp{opSettle, opAND, opOR, opNOT, opXOR, opDIV}
	op := ops[vChoose(0, 5)]
	got := s.InResult(op, NonZero)
	_, cb, _, ca := vhSC(s)
	want := uint8(0)
	switch op {
	case opSettle, opOR, opDIV:
		want = 1
	case opAND:
		if vhFillNZ(cb) || vhFillNZ(ca) {
			want = 1
		}
	case opNOT, opXOR:
		if !vhFillNZ(cb) || !vhFillNZ(ca) {
			want = 1
		}
	}
	vAssert("C01.inresult.open", got == want)
}

// C02-H1: opSettle membership for the four fill rules.
func VH_C02_inresult_settle() {
	vMerge(false) // small bit-vector queries per path are much cheaper than merged ones here
	s := vhSymPoint()
	s.clipping = false
	rule := FillRule(vChoose(0, 3))
	got := s.InResult(opSettle, rule)
	sb, _, sa, _ := vhSC(s)
	want := uint8(0)
	if vhRuleFills(rule, sb) != vhRuleFills(rule, sa) {
		want = 1
	}
	vAssert("C02.inresult.settle", got == want)
}

// C01-H2: computeSweepFields: windings below cur = windings above the first non-vertical
// segment below it, in subject/clipping terms; nil => 0.
func VH_C01_sweepfields() {
	vMerge(false) // small bit-vector queries per path are much cheaper than merged ones here
	cur := &SweepPoint{other: &SweepPoint{}}
	cur.clipping = vNondetBool()
	cur.increasing = vNondetBool()
	cur.open = false
	cur.left = true
	// stale values that must be overwritten
	cur.windings, cur.otherWindings = vNondetIntN(5), vNondetIntN(5)
	cur.selfWindings = vNondetIntN(3)
	nprev := vChoose(0, 3)
	var chain []*SweepPoint
	for i := 0; i < nprev; i++ {
		p := vhSymPoint()
		p.vertical = i < nprev-1 // all but the last are vertical and must be skipped
		if i == nprev-1 && vNondetBool() {
			p.vertical = true // possibly nothing non-vertical below
		}
		chain = append(chain, p)
	}
	for i := 0; i+1 < len(chain); i++ {
		chain[i].prev = chain[i+1]
	}
	var prev *SweepPoint
	if nprev > 0 {
		prev = chain[0]
	}
	ops := [6]pathOp{opSettle, opAND, opOR, opNOT, opXOR, opDIV}
	op := ops[vChoose(0, 5)]
	cur.computeSweepFields(prev, op, NonZero)

	wantSelf := 1
	if !cur.increasing {
		wantSelf = -1
	}
	vAssert("C01.sweepfields.self", cur.selfWindings == wantSelf)
	vAssert("C01.sweepfields.prevptr", cur.prev == prev)
	var below *SweepPoint
	for _, p := range chain {
		if !p.vertical {
			below = p
			break
		}
	}
	sb, cb, _, _ := vhSC(cur)
	if below == nil {
		vAssert("C01.sweepfields.bottom", sb == 0 && cb == 0)
	} else {
		_, _, psa, pca := vhSC(below)
		vAssert("C01.sweepfields.propagate", sb == psa && cb == pca)
	}
	vAssert("C01.sweepfields.inresult", cur.inResult == cur.InResult(op, NonZero) && cur.other.inResult == cur.inResult)
}

// C01-H3: mergeOverlapping: the subject and clipping contributions of coincident segments are
// summed on the surviving segment, merged-away segments are neutralised, second call is a no-op.
func vhSelfSC(s *SweepPoint) (int, int) {
	if s.clipping {
		return s.otherSelfWindings, s.selfWindings
	}
	return s.selfWindings, s.otherSelfWindings
}

func VH_C01_mergeoverlap() {
	vMerge(false) // small bit-vector queries per path are much cheaper than merged ones here
	n := vChoose(1, 3) // segments below s in the prev chain
	s := vhSymPoint()
	s.Point, s.other.Point = Point{0, 0}, Point{4, 2}
	chain := []*SweepPoint{}
	for i := 0; i < n; i++ {
		p := vhSymPoint()
		if vChoose(0, 1) == 0 {
			p.Point, p.other.Point = Point{0, 0}, Point{4, 2} // coincides with s
		} else {
			p.Point, p.other.Point = Point{0, -1}, Point{4, 2}
		}
		p.overlapped = vNondetBool()
		p.inResult, p.other.inResult = 1, 1
		chain = append(chain, p)
	}
	s.prev = chain[0]
	for i := 0; i+1 < n; i++ {
		chain[i].prev = chain[i+1]
	}
	s.overlapped = false
	// expected: the maximal run of coincident, not yet overlapped segments directly below s
	k := 0
	for k < n && !chain[k].overlapped && chain[k].Point == s.Point && chain[k].other.Point == s.other.Point {
		k++
	}
	wantS, wantC := vhSelfSC(s)
	for i := 0; i < k; i++ {
		a, b := vhSelfSC(chain[i])
		wantS += a
		wantC += b
	}
	ops := [6]pathOp{opSettle, opAND, opOR, opNOT, opXOR, opDIV}
	op := ops[vChoose(0, 5)]
	oldW, oldO := s.windings, s.otherWindings
	s.mergeOverlapping(op, NonZero)

	gotS, gotC := vhSelfSC(s)
	vAssert("C01.merge.sum", gotS == wantS && gotC == wantC)
	for i := 0; i < k; i++ {
		p := chain[i]
		vAssert("C01.merge.neutral", p.overlapped && p.inResult == 0 && p.other.inResult == 0 && p.selfWindings == 0 && p.otherSelfWindings == 0)
	}
	if k == 0 {
		vAssert("C01.merge.untouched", s.windings == oldW && s.otherWindings == oldO && s.prev == chain[0])
	} else {
		var below *SweepPoint
		if k < n {
			below = chain[k]
		}
		vAssert("C01.merge.prev", s.prev == below)
		sb, cb, _, _ := vhSC(s)
		if below == nil {
			vAssert("C01.merge.bottom", sb == 0 && cb == 0)
		} else {
			_, _, psa, pca := vhSC(below)
			vAssert("C01.merge.propagate", sb == psa && cb == pca)
		}
		vAssert("C01.merge.inresult", s.inResult == s.InResult(op, NonZero) && s.other.inResult == s.inResult)
	}
	// idempotent
	w1, o1, sw1, os1, p1, r1 := s.windings, s.otherWindings, s.selfWindings, s.otherSelfWindings, s.prev, s.inResult
	s.mergeOverlapping(op, NonZero)
	vAssert("C01.merge.idempotent", s.windings == w1 && s.otherWindings == o1 && s.selfWindings == sw1 && s.otherSelfWindings == os1 && s.prev == p1 && s.inResult == r1)
}
