package canvas

import (
	"github.com/tdewolff/canvas/text"
	"github.com/tdewolff/font"
)

// C18-H5: "Converting text to paths places each glyph outline at the sum of the preceding advances
// with the face's scale and offsets".  FontFace.toPath with 1-3 (thorough 4) glyphs whose advances
// and offsets are symbolic integers, a symbolic scale and symbolic face offsets: glyph j must be
// handed to the font's outline routine at
//   MmPerEm * (face offset + sum_{i<j} advance_i + offset_j)
// in both axes, with scale MmPerEm, in order, and the returned advance (for a face without
// offset) is MmPerEm * sum advance_i = textWidth.  The outline routine (*font.SFNT).GlyphPath is
// replaced by a recorder, which exists only under the engine: interpreter-only (vAssertI).

type vhC18Place struct {
	id          uint16
	x, y, scale float64
}

var vhC18Places []vhC18Place

func vhC18GlyphPath(s *font.SFNT, p font.Pather, glyphID, ppem uint16, x, y, scale float64, hinting font.Hinting) error {
	vhC18Places = append(vhC18Places, vhC18Place{glyphID, x, y, scale})
	return nil
}

func VH_C18_topath_Q() {
	if !vInterp() {
		return
	}
	vStub("!(*github.com/tdewolff/font.SFNT).GlyphPath", vhC18GlyphPath)
	n := vChoose(1, 3+vTier())
	f := vNondetF64()
	vAssumeI(0.001 <= f && f <= 1)
	face := &FontFace{Font: &Font{SFNT: &font.SFNT{}}, Size: 10, MmPerEm: f}
	withFaceOffset := vChoose(0, 1) == 1
	if withFaceOffset {
		face.XOffset, face.YOffset = int32(vNondetIntQ(12)), int32(vNondetIntQ(12))
	}
	glyphs := make([]text.Glyph, n)
	for i := range glyphs {
		glyphs[i] = text.Glyph{ID: uint16(i + 1), XAdvance: int32(vNondetIntQ(13)), YAdvance: int32(vNondetIntQ(13)),
			XOffset: int32(vNondetIntQ(12)), YOffset: int32(vNondetIntQ(12))}
	}
	vhC18Places = nil
	_, adv, err := face.toPath(glyphs, 1000)
	vAssertI("C18.topath.every_glyph_once_in_order", err == nil && len(vhC18Places) == n)
	if len(vhC18Places) != n {
		return
	}
	good := true
	sx, sy := int64(face.XOffset), int64(face.YOffset)
	for j, pl := range vhC18Places {
		wx := f * float64(sx+int64(glyphs[j].XOffset))
		wy := f * float64(sy+int64(glyphs[j].YOffset))
		good = good && pl.id == glyphs[j].ID && pl.scale == f && vhNear(pl.x, wx) && vhNear(pl.y, wy)
		sx += int64(glyphs[j].XAdvance)
		sy += int64(glyphs[j].YAdvance)
	}
	vAssertI("C18.topath.glyph_positions", good)
	if !withFaceOffset {
		vAssertI("C18.topath.advance_is_text_width", vhNear(adv, face.textWidth(glyphs)) && vhNear(adv, f*float64(sx)))
	}
}
