package canvas

import (
	"github.com/tdewolff/canvas/text"
	"github.com/tdewolff/font"
)

// C18-H5: "Converting text to paths places each glyph outline at the sum of the preceding advances
// with the face's scale and offsets".  FontFace.toPath with 1-3 (thorough 4) glyphs whose advances
// and offsets are symbolic integers, a symbolic scale and symbolic face offsets: glyph j must be
// handed to the font's outline routine at
//   MmPerEm * (face offset + sum_{i<j} advance_i + offset_j)
// in both axes, with scale MmPerEm, in order, and the returned advance (for a face without
// offset) is MmPerEm * sum advance_i = textWidth.  The outline routine (*font.SFNT).GlyphPath is
// replaced by a recorder, which exists only under the engine: interpreter-only (vAssertI).

type vhC18Place struct {
	id          uint16
	x, y, scale float64
}

var vhC18Places []vhC18Place

func vhC18GlyphPath(s *font.SFNT, p font.Pather, glyphID, ppem uint16, x, y, scale float64, hinting font.Hinting) error {
	vhC18Places = append(vhC18Places, vhC18Place{glyphID, x, y, scale})
	return nil
}

func VH_C18_topath_Q() {
	if !vInterp() {
		return
	}
	vStub("!(*github.com/tdewolff/font.SFNT).GlyphPath", vhC18GlyphPath)
	n := vChoose(1, 3+vTier())
	f := vNondetF64()
	vAssumeI(0.001 <= f && f <= 1)
	face := &FontFace{Font: &Font{SFNT: &font.SFNT{}}, Size: 10, MmPerEm: f}
	withFaceOffset := vChoose(0, 1) == 1
	if withFaceOffset {
		face.XOffset, face.YOffset = int32(vNondetIntQ(12)), int32(vNondetIntQ(12))
	}
	glyphs := make([]text.Glyph, n)
	for i := range glyphs {
		glyphs[i] = text.Glyph{ID: uint16(i + 1), XAdvance: int32(vNondetIntQ(13)), YAdvance: int32(vNondetIntQ(13)),
			XOffset: int32(vNondetIntQ(12)), YOffset: int32(vNondetIntQ(12))}
	}
	vhC18Places = nil
	_, adv, err := face.toPath(glyphs, 1000)
	vAssertI("C18.topath.every_glyph_once_in_order", err == nil && len(vhC18Places) == n)
	if len(vhC18Places) != n {
		return
	}
	good := true
	sx, sy := int64(face.XOffset), int64(face.YOffset)
	for j, pl := range vhC18Places {
		wx := f * float64(sx+int64(glyphs[j].XOffset))
		wy := f * float64(sy+int64(glyphs[j].YOffset))
		good = good && pl.id == glyphs[j].ID && pl.scale == f && vhNear(pl.x, wx) && vhNear(pl.y, wy)
		sx += int64(glyphs[j].XAdvance)
		sy += int64(glyphs[j].YAdvance)
	}
	vAssertI("C18.topath.glyph_positions", good)
	if !withFaceOffset {
		vAssertI("C18.topath.advance_is_text_width", vhNear(adv, face.textWidth(glyphs)) && vhNear(adv, f*float64(sx)))
	}
}

// C18-H6: "path rendering and PDF rendering agree on where the text is".  The back-ends that draw
// text natively (pdf, svg) take each span's position from Text.WalkSpans; the others go through
// Text.RenderAsPath, which places the outlines with a matrix and FontFace.toPath.  For a laid-out
// text (built directly: one line, one span, symbolic line position, span position, face offsets,
// scale and advances, horizontal and vertical writing mode) the first glyph's outline origin under
// RenderAsPath is the position WalkSpans reports, and the second glyph follows at the first
// advance.  Interpreter-only (GlyphPath recorder).
func VH_C18_span_positions_Q() {
	if !vInterp() {
		return
	}
	vStub("!(*github.com/tdewolff/font.SFNT).GlyphPath", vhC18GlyphPath)
	f := vNondetF64()
	vAssumeI(0.001 <= f && f <= 1)
	sf := &font.SFNT{}
	sf.Head = vhC16New(sf.Head)
	sf.Head.UnitsPerEm = 1000
	face := &FontFace{Font: &Font{SFNT: sf}, Size: 10, MmPerEm: f, Fill: Paint{Color: Black}}
	face.XOffset, face.YOffset = int32(vNondetIntQ(11)), int32(vNondetIntQ(11))
	vertical := vChoose(0, 1) == 1
	lineY, spanX := vNondetF64(), vNondetF64()
	vAssumeI(0 <= lineY && lineY <= 50 && 0 <= spanX && spanX <= 50)
	a0 := int32(vNondetIntQ(12))
	glyphs := []text.Glyph{{ID: 1, XAdvance: a0, Vertical: false}, {ID: 2, XAdvance: 500}}
	mode := HorizontalTB
	if vertical {
		mode = VerticalRL
	}
	t := &Text{lines: []line{{y: lineY, spans: []TextSpan{{X: spanX, Width: 1, Face: face, Text: "ab", Glyphs: glyphs}}}}, WritingMode: mode, fonts: map[*Font]bool{}}
	var wx, wy float64
	n := 0
	t.WalkSpans(func(x, y float64, span TextSpan) {
		wx, wy = x, y
		n++
	})
	vAssertI("C18.positions.one_span", n == 1)
	vhC18Places = nil
	rec := &vhC15Rec{w: 100, h: 100}
	m := Identity.Translate(3, 4)
	t.RenderAsPath(rec, m, 0)
	vAssertI("C18.positions.one_path_two_glyphs", len(rec.calls) == 1 && rec.calls[0].kind == 0 && len(vhC18Places) == 2)
	if len(rec.calls) != 1 || len(vhC18Places) != 2 {
		return
	}
	g0 := rec.calls[0].m.Dot(Point{vhC18Places[0].x, vhC18Places[0].y})
	g1 := rec.calls[0].m.Dot(Point{vhC18Places[1].x, vhC18Places[1].y})
	want := m.Dot(Point{wx, wy})
	vAssertI("C18.positions.first_glyph_where_walkspans_says", vhNear(g0.X, want.X) && vhNear(g0.Y, want.Y))
	vAssertI("C18.positions.second_glyph_one_advance_on", vhNear(g1.X-g0.X, f*float64(a0)) && vhNear(g1.Y, g0.Y))
}
