package canvas

// C06: containment and winding queries (Windings, Crossings, Contains, CCW) on polygons made of
// line segments.
//
// Shapes are concrete: every vertex is drawn with vChoose from a small integer grid, so every
// degenerate configuration of that grid is present (ray through a vertex, along a horizontal
// edge, through the start/end of an open subpath, collinear and overlapping edges, vertices lying
// on other edges).  The query abscissa x is concrete (integer and half-integer positions left of,
// inside and right of the shape).  The query ordinate y is either a concrete half-grid value
// (grid harnesses) or a symbolic real in general position (ray harness; exact-real domain): that
// keeps all library arithmetic linear in the symbolic value.
//
// Oracle (independent of the library): half-open crossing rule on the polygon, open subpaths
// implicitly closed (vhC06ImplicitClose); "on the boundary" iff the point lies on a segment of
// the path.  Points on the implicit closing edge of an open subpath are outside the claim.
//
// Input regions in which the library is known to deviate get their own obligation ids (and a
// vKnown class) so that the claim outside them is decided separately:
//   open_end    (D6)  the ray passes through the first or last point of an open subpath
//   selftouch   (D27) the start point of a closed subpath is on the ray and also lies on a
//                     non-adjacent edge of that subpath
//   horizontal  (D26) the ray runs along a horizontal edge
//   open_closing(D28) the implicit closing edge of an open subpath is crossed by the ray
//   crossings_vertex_parity (D29) Crossings when the ray passes through a vertex

// vhC06ImplicitClose: the property text ("winding number of the (implicitly closed) subpaths").
// With false the reference counts only the segments present in the path.
const vhC06ImplicitClose = true

const vhC06Delta = 1e-6

type vhC06Edge struct{ a, b Point }

// vhC06Subpath appends one subpath with nseg LineTo records on the gw x gh integer grid (offset
// ox) and an optional Close record.
func vhC06Subpath(p *Path, nseg int, closed bool, gw, gh int, ox float64) {
	cur := vChoose(0, gw*gh-1)
	first := cur
	sx, sy := ox+float64(cur%gw), float64(cur/gw)
	p.d = append(p.d, MoveToCmd, sx, sy, MoveToCmd)
	for k := 0; k < nseg; k++ {
		nxt := vChoose(0, gw*gh-2)
		if nxt >= cur {
			nxt++ // no zero-length segment
		}
		cur = nxt
		p.d = append(p.d, LineToCmd, ox+float64(cur%gw), float64(cur/gw), LineToCmd)
	}
	if closed {
		// a closing record that goes from the start to the start is the shape with one LineTo
		// less (Close() turns that LineTo into the Close record): prune the duplicate
		vAssume(cur != first)
		p.d = append(p.d, CloseCmd, sx, sy, CloseCmd)
	}
}

func vhC06Cross(e vhC06Edge, x, y float64) float64 {
	return (e.b.X-e.a.X)*(y-e.a.Y) - (x-e.a.X)*(e.b.Y-e.a.Y)
}

func vhC06Min(a, b float64) float64 {
	if a < b {
		return a
	}
	return b
}

func vhC06Max(a, b float64) float64 {
	if a < b {
		return b
	}
	return a
}

// vhC06On: the point lies on the (closed) segment.
func vhC06On(e vhC06Edge, x, y float64) bool {
	return vhC06Cross(e, x, y) == 0 &&
		vhC06Min(e.a.X, e.b.X) <= x && x <= vhC06Max(e.a.X, e.b.X) &&
		vhC06Min(e.a.Y, e.b.Y) <= y && y <= vhC06Max(e.a.Y, e.b.Y)
}

// vhC06Count: signed and unsigned number of edges crossed by the ray from (x,y) towards +x,
// half-open rule (an edge owns its lower end point, not its upper one; horizontal edges never
// count).  Upward edges count +1 (counter clockwise around the point), downward edges -1.
func vhC06Count(es []vhC06Edge, x, y float64) (w, n int) {
	for _, e := range es {
		cr := vhC06Cross(e, x, y)
		up := e.a.Y <= y && y < e.b.Y && cr > 0
		down := e.b.Y <= y && y < e.a.Y && cr < 0
		if up {
			w++
			n++
		}
		if down {
			w--
			n++
		}
	}
	return
}

type vhC06Ref struct {
	onb, onImplicit bool // point on a segment of the path / on an implicit closing edge
	w, n            int  // reference winding number and crossing number
	vertexOnRay     bool // some vertex lies on the ray (its start included)
	rEnd            bool // region open_end
	rTouch          bool // region selftouch
	rHoriz          bool // region horizontal
	rClose          bool // region open_closing
	general         bool // (x,y) exactly on or clearly off every vertex level and edge line
}

func vhC06Reference(subs []vhSub, x, y float64) vhC06Ref {
	var r vhC06Ref
	r.general = true
	var all, real []vhC06Edge
	for _, sub := range subs {
		m := len(sub.segs)
		if m == 0 {
			continue
		}
		// vertex occurrences pts[0..], edge j runs from pts[j] to pts[j+1] (closed: the last
		// edge returns to pts[0])
		pts := []Point{sub.start}
		for k, s := range sub.segs {
			if !(sub.closed && k == m-1) {
				pts = append(pts, s.end)
			}
		}
		var es []vhC06Edge
		for _, s := range sub.segs {
			es = append(es, vhC06Edge{s.start, s.end})
		}
		last := sub.segs[m-1].end
		for k, q := range pts {
			onRay := q.Y == y && q.X >= x
			r.vertexOnRay = r.vertexOnRay || onRay
			r.general = r.general && (y == q.Y || y-q.Y >= vhC06Delta || q.Y-y >= vhC06Delta)
			if !sub.closed && (k == 0 || k == len(pts)-1) {
				r.rEnd = r.rEnd || onRay
			}
			if sub.closed && k == 0 {
				for j, e := range es {
					if j != 0 && j != m-1 && vhC06On(e, q.X, q.Y) { // concrete
						r.rTouch = r.rTouch || onRay
					}
				}
			}
		}
		for _, e := range es {
			if vhPtEq(e.a, e.b) {
				continue // zero-length closing record
			}
			real = append(real, e)
			all = append(all, e)
			r.onb = r.onb || vhC06On(e, x, y)
			r.rHoriz = r.rHoriz || (e.a.Y == y && e.b.Y == y && vhC06Max(e.a.X, e.b.X) >= x)
		}
		if !sub.closed && !vhPtEq(last, sub.start) {
			e := vhC06Edge{last, sub.start}
			r.onImplicit = r.onImplicit || vhC06On(e, x, y)
			if vhC06ImplicitClose {
				all = append(all, e)
			}
		}
	}
	for _, e := range all {
		cr := vhC06Cross(e, x, y)
		r.general = r.general && (cr == 0 || cr >= vhC06Delta || -cr >= vhC06Delta)
	}
	r.w, r.n = vhC06Count(all, x, y)
	uw, un := vhC06Count(real, x, y)
	r.rClose = uw != r.w || un != r.n
	return r
}

func vhC06Windings(p *Path, x, y float64) (w int, b bool, panicked bool) {
	defer func() {
		if recover() != nil {
			panicked = true
		}
	}()
	w, b = p.Windings(x, y)
	return
}

func vhC06Crossings(p *Path, x, y float64) (n int, b bool, panicked bool) {
	defer func() {
		if recover() != nil {
			panicked = true
		}
	}()
	n, b = p.Crossings(x, y)
	return
}

const (
	vhC06Clean = iota
	vhC06REnd
	vhC06RTouch
	vhC06RHoriz
	vhC06RClose
)

// vhC06Check compares Windings and Crossings with the reference.
func vhC06Check(p *Path, x, y float64) {
	subs, ok := vhDecode(p.d)
	vAssume(ok && vhWF(p))
	r := vhC06Reference(subs, x, y)
	vAssume(r.general)

	region := vhC06Clean
	switch {
	case r.rEnd:
		region = vhC06REnd
	case r.rClose:
		region = vhC06RClose
	case r.rTouch:
		region = vhC06RTouch
	case r.rHoriz:
		region = vhC06RHoriz
	}
	vKnown("D6", region == vhC06REnd)
	vKnown("D28", region == vhC06RClose)

	before := vhCopyData(p.d)
	w, b, wp := vhC06Windings(p, x, y)
	n, b2, np := vhC06Crossings(p, x, y)
	vAssert("C06.receiver_unchanged", vhSameData(p.d, before))
	excl := r.onb || (vhC06ImplicitClose && r.onImplicit)
	wOK := !wp && (excl || w == r.w)
	switch region {
	case vhC06Clean:
		vAssert("C06.clean.no_panic", !wp && !np)
		vAssert("C06.clean.windings", wOK)
	case vhC06REnd:
		vAssert("C06.open_end.no_panic", !wp && !np)
		vAssert("C06.open_end.windings", wOK)
	case vhC06RTouch:
		vAssert("C06.selftouch.no_panic", !wp && !np)
		vAssert("C06.selftouch.windings", wOK)
	case vhC06RHoriz:
		vAssert("C06.horizontal.no_panic", !wp && !np)
		vAssert("C06.horizontal.windings", wOK)
	case vhC06RClose:
		vAssert("C06.open_closing.no_panic", !wp && !np)
		vAssert("C06.open_closing.windings", wOK)
	}
	// the boundary flag is claimed everywhere
	vAssert("C06.boundary_flag", (wp || b == r.onb) && (np || b2 == r.onb))

	// Crossings: the number when no vertex is on the ray, its parity otherwise
	cnum := np || excl || r.vertexOnRay || n == r.n
	switch region {
	case vhC06Clean:
		vAssert("C06.clean.crossings", cnum)
		vAssert("C06.clean.crossings_vertex_parity", np || excl || !r.vertexOnRay || (n-r.n)%2 == 0)
	case vhC06RClose:
		vAssert("C06.open_closing.crossings", cnum)
	}
}

// vhC06Shape1: one subpath, nmin..nmax LineTo records, open or closed.
func vhC06Shape1(nmin, nmax, gw, gh int) *Path {
	p := &Path{}
	nseg := vChoose(nmin, nmax)
	closed := vChoose(0, 1) == 1
	vhC06Subpath(p, nseg, closed, gw, gh, 0)
	return p
}

// vhC06Half: a concrete multiple of 1/2, lo2/2 .. hi2/2.
func vhC06Half(lo2, hi2 int) float64 { return float64(vChoose(lo2, hi2)) / 2 }

// One subpath with 1-2 LineTo (2-3 edges when closed) on the 3x3 grid.
// Query x in {-0.5,0,...,2.5}; y in {0.5,1,1.5} (quick), {-0.5,0,...,2.5} (thorough).
func VH_C06_grid1_Q() {
	p := vhC06Shape1(1, 2, 3, 3)
	x := vhC06Half(-1, 5)
	y := vhC06Half(1-2*vTier(), 3+2*vTier())
	vhC06Check(p, x, y)
}

// One subpath with 3 LineTo (quadrilaterals, Z/stair shapes, bow ties, overlapping edges) on the
// 2 wide x 3 high grid (quick) / the 3x3 grid (thorough).
// Query x in {-0.5,...,1.5} (quick) / {-0.5,...,2.5}; y in {0.5,1,1.5} (quick) / {0,0.5,...,2}.
func VH_C06_grid1n_Q() {
	p := vhC06Shape1(3, 3, 2+vTier(), 3)
	x := vhC06Half(-1, 3+2*vTier())
	y := vhC06Half(1-vTier(), 3+vTier())
	vhC06Check(p, x, y)
}

// Two subpaths: the first with 2 LineTo (quick) / 1-2 LineTo (thorough), open or closed, on the
// 2x2 grid; the second a closed triangle on the 2x2 grid shifted by 1 in x, starting at its
// lower left corner (quick) / anywhere (thorough) - the subpaths overlap, touch, share edges and
// vertices.  Windings/Crossings are sums over subpaths, the boundary flag a disjunction.
func VH_C06_grid2_Q() {
	p := &Path{}
	vhC06Subpath(p, vChoose(2-vTier(), 2), vChoose(0, 1) == 1, 2, 2, 0)
	if vTier() == 0 {
		a := vChoose(1, 3)
		b := vChoose(1, 2)
		if b >= a {
			b++
		}
		p.d = append(p.d, MoveToCmd, 1, 0, MoveToCmd,
			LineToCmd, 1+float64(a%2), float64(a/2), LineToCmd,
			LineToCmd, 1+float64(b%2), float64(b/2), LineToCmd,
			CloseCmd, 1, 0, CloseCmd)
	} else {
		vhC06Subpath(p, 2, true, 2, 2, 1)
	}
	x := vhC06Half(-1, 5)
	y := vhC06Half(0, 2)
	vhC06Check(p, x, y)
}

// Contains(x,y,rule) == boundary || rule.Fills(Windings) for the four rules (together with
// C06.*.windings and C06.boundary_flag this gives Contains == rule.Fills(winding number) off the
// boundary and true on it).  Shapes with 1-2 LineTo on the 2x2 grid (thorough: 1-3 on 2x3).
func VH_C06_contains_Q() {
	p := vhC06Shape1(1, 2+vTier(), 2, 2+vTier())
	x := vhC06Half(-1, 3)
	y := vhC06Half(-1, 3+2*vTier())
	subs, ok := vhDecode(p.d)
	vAssume(ok && vhWF(p))
	r := vhC06Reference(subs, x, y)
	w, b, wp := vhC06Windings(p, x, y)
	// Contains panics exactly when Windings does (see the no_panic obligations of vhC06Check)
	vAssume(!wp)
	good := true
	all := true
	for _, rule := range []FillRule{NonZero, EvenOdd, Positive, Negative} {
		c := p.Contains(x, y, rule)
		good = good && c == (b || rule.Fills(w))
		all = all && c
	}
	vAssert("C06.contains.fills_windings", good)
	vAssert("C06.contains.boundary_true", !r.onb || all)
}

// Symbolic ordinate: concrete shape and x, y any real in [-1, 3] in general position (exactly on,
// or at least 1e-6 off, every vertex level and every edge line).  Quick: closed and open shapes
// with 2 LineTo on the 2x2 grid; thorough: 1-2 LineTo on the 2 wide x 3 high grid and 3 LineTo
// on the 2x2 grid.
func VH_C06_ray_Q() {
	var p *Path
	switch vChoose(0, vTier()) {
	case 0:
		p = vhC06Shape1(2+vTier(), 2+vTier(), 2, 2)
	default:
		p = vhC06Shape1(1, 2, 2, 3)
	}
	x := vhC06Half(-1, 3)
	y := vNondetF64()
	vAssume(-1 <= y && y <= 3)
	vhC06Check(p, x, y)
}

// CCW on non-degenerate triangles (closed, or open and implicitly closed) of the 3x3 grid: the
// orientation sign of the contour.
func VH_C06_ccw_Q() {
	p := &Path{}
	closed := vChoose(0, 1) == 1
	vhC06Subpath(p, 2, closed, 3, 3, 0)
	vAssume(vhWF(p))
	a, b, c := Point{p.d[1], p.d[2]}, Point{p.d[5], p.d[6]}, Point{p.d[9], p.d[10]}
	area2 := (b.X-a.X)*(c.Y-a.Y) - (c.X-a.X)*(b.Y-a.Y)
	vAssume(area2 != 0)
	before := vhCopyData(p.d)
	ccw := p.CCW()
	vAssert("C06.ccw.receiver_unchanged", vhSameData(p.d, before))
	if closed {
		vAssert("C06.ccw.closed_triangle", ccw == (area2 > 0))
	} else {
		vAssert("C06.ccw.open_triangle", ccw == (area2 > 0))
	}
}

// C06: Filling "reports for each subpath whether its interior is filled given the contours that
// enclose it".  Nested and side-by-side rectangles (three nesting structures), every combination
// of orientations, the four fill rules, two placements (all concrete: an enumeration by the engine, not a
// solver verdict over symbolic input).  A
// subpath's interior is filled iff the rule fills the winding number just inside it: its own
// orientation (+1 counter clockwise, -1 clockwise) plus the orientations of the contours around it.
func VH_C06_filling_Q() {
	structure := vChoose(0, 2)
	d := []float64{0, 0.5}[vChoose(0, 1)] // concrete: CCW works with angles (atan2), which stay outside the solver
	// rectangles as (x0,y0,x1,y1) and, per rectangle, the indices of those that enclose it
	var rs [][4]float64
	var encl [][]int
	switch structure {
	case 0: // three nested
		rs = [][4]float64{{0, 0, 20, 20}, {3 + d, 3, 17, 17}, {6 + d, 6, 14, 14}}
		encl = [][]int{{}, {0}, {0, 1}}
	case 1: // two siblings inside one
		rs = [][4]float64{{0, 0, 20, 20}, {2 + d, 2, 8, 8}, {11 + d, 11, 18, 18}}
		encl = [][]int{{}, {0}, {0}}
	default: // two side by side, the second with a hole
		rs = [][4]float64{{0, 0, 6, 6}, {10 + d, 0, 20, 10}, {12 + d, 2, 18, 8}}
		encl = [][]int{{}, {}, {1}}
	}
	ccw := make([]bool, len(rs))
	p := &Path{}
	for i, r := range rs {
		ccw[i] = vChoose(0, 1) == 1
		pg := vhRect(r[0], r[1], r[2], r[3], ccw[i])
		p.MoveTo(pg[0][0], pg[0][1])
		for _, v := range pg[1:] {
			p.LineTo(v[0], v[1])
		}
		p.Close()
	}
	rule := FillRule(vChoose(0, 3))
	before := vhCopyData(p.d)
	got := p.Filling(rule)
	vAssert("C06.filling.receiver_unchanged", vhSameData(p.d, before))
	vAssert("C06.filling.one_flag_per_subpath", len(got) == len(rs))
	if len(got) != len(rs) {
		return
	}
	good := true
	for i := range rs {
		n := -1
		if ccw[i] {
			n = 1
		}
		for _, j := range encl[i] {
			if ccw[j] {
				n++
			} else {
				n--
			}
		}
		good = good && got[i] == rule.Fills(n)
	}
	vAssert("C06.filling.flag_is_rule_of_winding_inside", good)
}
