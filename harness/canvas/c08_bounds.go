package canvas

import "math"

// C08-H1: FastBounds contains every control point of a path of 2 commands (Move + one of
// Line/Quad/Cube/Close + one more), for every float64 except NaN.
func vhCoord() float64 {
	x := vNondetF64()
	vAssume(!math.IsNaN(x))
	return x
}

func vhAppendSeg(p *Path, kind int) [][2]float64 {
	var pts [][2]float64
	switch kind {
	case 0:
		x, y := vhCoord(), vhCoord()
		p.d = append(p.d, LineToCmd, x, y, LineToCmd)
		pts = append(pts, [2]float64{x, y})
	case 1:
		a, b, x, y := vhCoord(), vhCoord(), vhCoord(), vhCoord()
		p.d = append(p.d, QuadToCmd, a, b, x, y, QuadToCmd)
		pts = append(pts, [2]float64{a, b}, [2]float64{x, y})
	case 2:
		a, b, c, d, x, y := vhCoord(), vhCoord(), vhCoord(), vhCoord(), vhCoord(), vhCoord()
		p.d = append(p.d, CubeToCmd, a, b, c, d, x, y, CubeToCmd)
		pts = append(pts, [2]float64{a, b}, [2]float64{c, d}, [2]float64{x, y})
	case 3:
		x, y := vhCoord(), vhCoord()
		p.d = append(p.d, MoveToCmd, x, y, MoveToCmd)
		pts = append(pts, [2]float64{x, y})
	}
	return pts
}

func VH_C08_fastbounds_hull() {
	vMerge(false) // bit-precise min/max terms: many small queries beat one merged query
	p := &Path{}
	x0, y0 := vhCoord(), vhCoord()
	p.d = append(p.d, MoveToCmd, x0, y0, MoveToCmd)
	pts := [][2]float64{{x0, y0}}
	n := vChoose(1, 1+vTier())
	for i := 0; i < n; i++ {
		pts = append(pts, vhAppendSeg(p, vChoose(0, 3))...)
	}
	r := p.FastBounds()
	for _, pt := range pts {
		vAssert("C08.fastbounds.hull", r.X0 <= pt[0] && pt[0] <= r.X1 && r.Y0 <= pt[1] && pt[1] <= r.Y1)
	}
}

// C08-H2/H3: Bounds on one quadratic (exact real arithmetic): the box contains the curve point
// at every parameter t in [0,1] and every side is attained (at an end point or at the interior
// extremum), so it is the smallest box.  One axis is symbolic at a time (the other is held at
// concrete values), which keeps the polynomial reasoning at 4 variables.
func vhC08QuadAt(p0, p1, p2, t float64) float64 {
	return (1-t)*(1-t)*p0 + 2*t*(1-t)*p1 + t*t*p2
}

func VH_C08_bounds_quad_Q() {
	vMerge(false) // non-linear queries: one small query per branch combination
	axisY := vChoose(0, 1) == 1
	a0, a1, a2 := vhReal(), vhReal(), vhReal()
	// general position: keep the extremum decision away from the library's 1e-10 tolerances
	den := a0 - 2*a1 + a2
	vAssume(math.Abs(den) >= 1e-3 || den == 0)
	p := &Path{}
	var b0, b1 float64 // bounds on the symbolic axis
	if axisY {
		p.d = []float64{MoveToCmd, 1, a0, MoveToCmd, QuadToCmd, 3, a1, 2, a2, QuadToCmd}
		r := p.Bounds()
		b0, b1 = r.Y0, r.Y1
		vAssert("C08.bounds.quad.other_axis", r.X0 <= 1 && r.X1 >= 2)
	} else {
		p.d = []float64{MoveToCmd, a0, 1, MoveToCmd, QuadToCmd, a1, 3, a2, 2, QuadToCmd}
		r := p.Bounds()
		b0, b1 = r.X0, r.X1
		vAssert("C08.bounds.quad.other_axis", r.Y0 <= 1 && r.Y1 >= 2)
	}
	t := vNondetF64()
	vAssume(0 <= t && t <= 1)
	v := vhC08QuadAt(a0, a1, a2, t)
	vAssert("C08.bounds.quad.contains_curve", b0-1e-9 <= v && v <= b1+1e-9)
	// tightness: each side is attained
	lowHit := vhNear(b0, a0) || vhNear(b0, a2)
	highHit := vhNear(b1, a0) || vhNear(b1, a2)
	if den != 0 {
		ts := (a0 - a1) / den
		if 0 < ts && ts < 1 {
			e := vhC08QuadAt(a0, a1, a2, ts)
			lowHit = lowHit || vhNear(b0, e)
			highHit = highHit || vhNear(b1, e)
		}
	}
	vAssert("C08.bounds.quad.tight", lowHit && highHit)
	// FastBounds contains Bounds
	f := p.FastBounds()
	if axisY {
		vAssert("C08.bounds.quad.inside_fastbounds", f.Y0 <= b0 && b1 <= f.Y1)
	} else {
		vAssert("C08.bounds.quad.inside_fastbounds", f.X0 <= b0 && b1 <= f.X1)
	}
}


// C08: Bounds and FastBounds of flat paths (1-2 subpaths of 1-2 line segments, open or closed,
// any real coordinates incl. negative ones) are exactly the min/max over all vertices: every
// vertex (also the MoveTo of a later subpath and the target of a Close) is inside, every side is
// attained, and the two functions agree.
func VH_C08_bounds_flat_Q() {
	p := &Path{}
	nsub := vChoose(1, 2)
	for s := 0; s < nsub; s++ {
		vhRawSubpath(p, vhReal, make([]int, vChoose(1, 2)), vChoose(0, 1))
	}
	vAssume(vhWF(p))
	before := vhCopyData(p.d)
	b, f := p.Bounds(), p.FastBounds()
	vAssert("C08.flat.receiver_unchanged", vhSameData(p.d, before))
	subs, _ := vhDecode(p.d)
	var pts []Point
	for _, sb := range subs {
		pts = append(pts, sb.start)
		for _, sg := range sb.segs {
			pts = append(pts, sg.end)
		}
	}
	inside, hitX0, hitX1, hitY0, hitY1 := true, false, false, false, false
	for _, q := range pts {
		inside = inside && b.X0 <= q.X && q.X <= b.X1 && b.Y0 <= q.Y && q.Y <= b.Y1
		hitX0 = hitX0 || q.X == b.X0
		hitX1 = hitX1 || q.X == b.X1
		hitY0 = hitY0 || q.Y == b.Y0
		hitY1 = hitY1 || q.Y == b.Y1
	}
	vAssert("C08.flat.contains_every_vertex", inside)
	vAssert("C08.flat.every_side_attained", hitX0 && hitX1 && hitY0 && hitY1)
	vAssert("C08.flat.fastbounds_equals_bounds", f.X0 == b.X0 && f.X1 == b.X1 && f.Y0 == b.Y0 && f.Y1 == b.Y1)
}

// (A harness for the extrema of one cubic - Bounds contains B(t) for symbolic control values and
// t - was tried and dropped: the queries combine the quadratic formula's square root with a
// cubic in t and stay unknown; see DESIGN.md.)
