package canvas

import "math"

// C08-H1: FastBounds contains every control point of a path of 2 commands (Move + one of
// Line/Quad/Cube/Close + one more), for every float64 except NaN.
func vhCoord() float64 {
	x := vNondetF64()
	vAssume(!math.IsNaN(x))
	return x
}

func vhAppendSeg(p *Path, kind int) [][2]float64 {
	var pts [][2]float64
	switch kind {
	case 0:
		x, y := vhCoord(), vhCoord()
		p.d = append(p.d, LineToCmd, x, y, LineToCmd)
		pts = append(pts, [2]float64{x, y})
	case 1:
		a, b, x, y := vhCoord(), vhCoord(), vhCoord(), vhCoord()
		p.d = append(p.d, QuadToCmd, a, b, x, y, QuadToCmd)
		pts = append(pts, [2]float64{a, b}, [2]float64{x, y})
	case 2:
		a, b, c, d, x, y := vhCoord(), vhCoord(), vhCoord(), vhCoord(), vhCoord(), vhCoord()
		p.d = append(p.d, CubeToCmd, a, b, c, d, x, y, CubeToCmd)
		pts = append(pts, [2]float64{a, b}, [2]float64{c, d}, [2]float64{x, y})
	case 3:
		x, y := vhCoord(), vhCoord()
		p.d = append(p.d, MoveToCmd, x, y, MoveToCmd)
		pts = append(pts, [2]float64{x, y})
	}
	return pts
}

func VH_C08_fastbounds_hull() {
	vMerge(false) // bit-precise min/max terms: many small queries beat one merged query
	p := &Path{}
	x0, y0 := vhCoord(), vhCoord()
	p.d = append(p.d, MoveToCmd, x0, y0, MoveToCmd)
	pts := [][2]float64{{x0, y0}}
	n := vChoose(1, 1+vTier())
	for i := 0; i < n; i++ {
		pts = append(pts, vhAppendSeg(p, vChoose(0, 3))...)
	}
	r := p.FastBounds()
	for _, pt := range pts {
		vAssert("C08.fastbounds.hull", r.X0 <= pt[0] && pt[0] <= r.X1 && r.Y0 <= pt[1] && pt[1] <= r.Y1)
	}
}
