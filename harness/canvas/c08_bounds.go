package canvas

import "math"

// C08-H1: FastBounds contains every control point of a path of 2 commands (Move + one of
// Line/Quad/Cube/Close + one more), for every float64 except NaN.
func vhCoord() float64 {
	x := vNondetF64()
	vAssume(!math.IsNaN(x))
	return x
}

func vhAppendSeg(p *Path, kind int) [][2]float64 {
	var pts [][2]float64
	switch kind {
	case 0:
		x, y := vhCoord(), vhCoord()
		p.d = append(p.d, LineToCmd, x, y, LineToCmd)
		pts = append(pts, [2]float64{x, y})
	case 1:
		a, b, x, y := vhCoord(), vhCoord(), vhCoord(), vhCoord()
		p.d = append(p.d, QuadToCmd, a, b, x, y, QuadToCmd)
		pts = append(pts, [2]float64{a, b}, [2]float64{x, y})
	case 2:
		a, b, c, d, x, y := vhCoord(), vhCoord(), vhCoord(), vhCoord(), vhCoord(), vhCoord()
		p.d = append(p.d, CubeToCmd, a, b, c, d, x, y, CubeToCmd)
		pts = append(pts, [2]float64{a, b}, [2]float64{c, d}, [2]float64{x, y})
	case 3:
		x, y := vhCoord(), vhCoord()
		p.d = append(p.d, MoveToCmd, x, y, MoveToCmd)
		pts = append(pts, [2]float64{x, y})
	}
	return pts
}

func VH_C08_fastbounds_hull() {
	vMerge(false) // bit-precise min/max terms: many small queries beat one merged query
	p := &Path{}
	x0, y0 := vhCoord(), vhCoord()
	p.d = append(p.d, MoveToCmd, x0, y0, MoveToCmd)
	pts := [][2]float64{{x0, y0}}
	n := vChoose(1, 1+vTier())
	for i := 0; i < n; i++ {
		pts = append(pts, vhAppendSeg(p, vChoose(0, 3))...)
	}
	r := p.FastBounds()
	for _, pt := range pts {
		vAssert("C08.fastbounds.hull", r.X0 <= pt[0] && pt[0] <= r.X1 && r.Y0 <= pt[1] && pt[1] <= r.Y1)
	}
}

// C08-H2/H3: Bounds on one quadratic (exact real arithmetic): the box contains the curve point
// at every parameter t in [0,1] and every side is attained (at an end point or at the interior
// extremum), so it is the smallest box.  One axis is symbolic at a time (the other is held at
// concrete values), which keeps the polynomial reasoning at 4 variables.
func vhC08QuadAt(p0, p1, p2, t float64) float64 {
	return (1-t)*(1-t)*p0 + 2*t*(1-t)*p1 + t*t*p2
}

func VH_C08_bounds_quad_Q() {
	vMerge(false) // non-linear queries: one small query per branch combination
	axisY := vChoose(0, 1) == 1
	a0, a1, a2 := vhReal(), vhReal(), vhReal()
	// general position: keep the extremum decision away from the library's 1e-10 tolerances
	den := a0 - 2*a1 + a2
	vAssume(math.Abs(den) >= 1e-3 || den == 0)
	p := &Path{}
	var b0, b1 float64 // bounds on the symbolic axis
	if axisY {
		p.d = []float64{MoveToCmd, 1, a0, MoveToCmd, QuadToCmd, 3, a1, 2, a2, QuadToCmd}
		r := p.Bounds()
		b0, b1 = r.Y0, r.Y1
		vAssert("C08.bounds.quad.other_axis", r.X0 <= 1 && r.X1 >= 2)
	} else {
		p.d = []float64{MoveToCmd, a0, 1, MoveToCmd, QuadToCmd, a1, 3, a2, 2, QuadToCmd}
		r := p.Bounds()
		b0, b1 = r.X0, r.X1
		vAssert("C08.bounds.quad.other_axis", r.Y0 <= 1 && r.Y1 >= 2)
	}
	t := vNondetF64()
	vAssume(0 <= t && t <= 1)
	v := vhC08QuadAt(a0, a1, a2, t)
	vAssert("C08.bounds.quad.contains_curve", b0-1e-9 <= v && v <= b1+1e-9)
	// tightness: each side is attained
	lowHit := vhNear(b0, a0) || vhNear(b0, a2)
	highHit := vhNear(b1, a0) || vhNear(b1, a2)
	if den != 0 {
		ts := (a0 - a1) / den
		if 0 < ts && ts < 1 {
			e := vhC08QuadAt(a0, a1, a2, ts)
			lowHit = lowHit || vhNear(b0, e)
			highHit = highHit || vhNear(b1, e)
		}
	}
	vAssert("C08.bounds.quad.tight", lowHit && highHit)
	// FastBounds contains Bounds
	f := p.FastBounds()
	if axisY {
		vAssert("C08.bounds.quad.inside_fastbounds", f.Y0 <= b0 && b1 <= f.Y1)
	} else {
		vAssert("C08.bounds.quad.inside_fastbounds", f.X0 <= b0 && b1 <= f.X1)
	}
}


// C08: Bounds and FastBounds of flat paths (1-2 subpaths of 1-2 line segments, open or closed,
// any real coordinates incl. negative ones) are exactly the min/max over all vertices: every
// vertex (also the MoveTo of a later subpath and the target of a Close) is inside, every side is
// attained, and the two functions agree.
func VH_C08_bounds_flat_Q() {
	p := &Path{}
	nsub := vChoose(1, 2)
	for s := 0; s < nsub; s++ {
		vhRawSubpath(p, vhReal, make([]int, vChoose(1, 2)), vChoose(0, 1))
	}
	vAssume(vhWF(p))
	before := vhCopyData(p.d)
	b, f := p.Bounds(), p.FastBounds()
	vAssert("C08.flat.receiver_unchanged", vhSameData(p.d, before))
	subs, _ := vhDecode(p.d)
	var pts []Point
	for _, sb := range subs {
		pts = append(pts, sb.start)
		for _, sg := range sb.segs {
			pts = append(pts, sg.end)
		}
	}
	inside, hitX0, hitX1, hitY0, hitY1 := true, false, false, false, false
	for _, q := range pts {
		inside = inside && b.X0 <= q.X && q.X <= b.X1 && b.Y0 <= q.Y && q.Y <= b.Y1
		hitX0 = hitX0 || q.X == b.X0
		hitX1 = hitX1 || q.X == b.X1
		hitY0 = hitY0 || q.Y == b.Y0
		hitY1 = hitY1 || q.Y == b.Y1
	}
	vAssert("C08.flat.contains_every_vertex", inside)
	vAssert("C08.flat.every_side_attained", hitX0 && hitX1 && hitY0 && hitY1)
	vAssert("C08.flat.fastbounds_equals_bounds", f.X0 == b.X0 && f.X1 == b.X1 && f.Y0 == b.Y0 && f.Y1 == b.Y1)
}

// (A harness for the extrema of one cubic - Bounds contains B(t) for symbolic control values and
// t - was tried and dropped: the queries combine the quadratic formula's square root with a
// cubic in t and stay unknown; see DESIGN.md.)

// C08-H5: FastBounds of an elliptical arc contains every point of the arc, for all radii,
// rotations, flags, centres and extents.  The arc is generated from its centre form: centre c,
// radii, rotation as a unit vector (cos phi, sin phi), start and end as unit vectors s, e in the
// parameter space; the end points of the stored arc are computed from them and the flags follow
// from the orientation of (s, e).  ellipseToCenter is replaced (symbolic run only) by a stub that
// returns that centre, which is its contract; natively the real function recovers it.  The sample
// point is c + R(phi)(rx qx, ry qy) for a unit vector q on the arc between s and e (side of the
// chord), q = ((1-u^2)/(1+u^2), 2u/(1+u^2)).  All trigonometry stays outside the solver.
var vhC08EC [4]float64

func vhC08EllipseToCenter(x0, y0, rx, ry, phi float64, large, sweep bool, x1, y1 float64) (float64, float64, float64, float64) {
	return vhC08EC[0], vhC08EC[1], vhC08EC[2], vhC08EC[3]
}

func VH_C08_arc_bounds_Q() {
	vMerge(false)
	vStub("github.com/tdewolff/canvas.ellipseToCenter", vhC08EllipseToCenter)
	cx, cy := vhReal(), vhReal()
	// radii, rotation and the two end parameters are taken from grids of exact rationals (with
	// symbolic radii or rotation the queries are cubic in six or more unknowns, which no installed
	// solver decides within minutes); the centre and the sample point are symbolic
	radii := [][2]float64{{1, 1}, {2, 1}, {5, 0.5}, {3, 2.5}}
	rr := radii[vChoose(0, len(radii)-1)]
	rx, ry := rr[0], rr[1]
	units := [][2]float64{{1, 0}, {0.8, 0.6}, {0, 1}, {-0.6, 0.8}, {-0.96, 0.28}, {-0.6, -0.8}, {5.0 / 13, -12.0 / 13}}
	rot := units[vChoose(0, 4)] // 0 <= phi < pi
	cphi, sphi := rot[0], rot[1]
	i0 := vChoose(0, len(units)-1)
	i1 := vChoose(0, len(units)-1)
	vAssume(i0 != i1)
	c0, s0 := units[i0][0], units[i0][1]
	c1, s1 := units[i1][0], units[i1][1]
	cross := c0*s1 - s0*c1
	vAssume(math.Abs(cross) >= 1e-3) // extent away from 180 degrees
	sweep := vChoose(0, 1) == 1
	large := (cross < 0) == sweep
	fl := 0.0
	if large {
		fl += 1
	}
	if sweep {
		fl += 2
	}
	x0, y0 := cx+rx*c0*cphi-ry*s0*sphi, cy+rx*c0*sphi+ry*s0*cphi
	x1, y1 := cx+rx*c1*cphi-ry*s1*sphi, cy+rx*c1*sphi+ry*s1*cphi
	phi := math.Atan2(sphi, cphi)
	// angles of the centre form as ellipseToCenter defines them: theta0 in [0,2pi), theta1 =
	// theta0 + extent with the sign of the sweep direction
	th0 := math.Atan2(s0, c0)
	if th0 < 0 {
		th0 += 2 * math.Pi
	}
	ext := math.Atan2(cross, c0*c1+s0*s1) // signed angle from s to e in (-pi,pi)
	if sweep && ext < 0 {
		ext += 2 * math.Pi
	} else if !sweep && ext > 0 {
		ext -= 2 * math.Pi
	}
	vhC08EC = [4]float64{cx, cy, th0, th0 + ext}
	p := &Path{d: []float64{MoveToCmd, x0, y0, MoveToCmd, ArcToCmd, rx, ry, phi, fl, x1, y1, ArcToCmd}}
	f := p.FastBounds()
	b := p.Bounds()
	if !vSymbolic() {
		// replay: the real function recovers the centre the arc was generated from
		l, sw := toArcFlags(fl)
		rcx, rcy, _, _ := ellipseToCenter(x0, y0, rx, ry, phi, l, sw, x1, y1)
		vAssume(l == large && sw == sweep && math.Abs(rcx-cx) <= 1e-6 && math.Abs(rcy-cy) <= 1e-6)
	}
	// sample parameter: rational parametrisation of the unit circle (keeps solver models rational);
	// |u| <= 16 covers 345.6 degrees, the mirrored copy covers the rest
	u := vhReal()
	qc, qs := (1-u*u)/(1+u*u), 2*u/(1+u*u)
	if vChoose(0, 1) == 1 {
		qc, qs = -qc, -qs
	}
	side := (c1-c0)*(qs-s0) - (s1-s0)*(qc-c0)
	vAssume((sweep && side <= 0) || (!sweep && side >= 0))
	X := cx + rx*qc*cphi - ry*qs*sphi
	Y := cy + rx*qc*sphi + ry*qs*cphi
	vAssert("C08.fastbounds.arc.contains_x", f.X0-1e-9 <= X && X <= f.X1+1e-9)
	vAssert("C08.fastbounds.arc.contains_y", f.Y0-1e-9 <= Y && Y <= f.Y1+1e-9)
	vAssert("C08.bounds.arc.contains_x", b.X0-1e-9 <= X && X <= b.X1+1e-9)
	vAssert("C08.bounds.arc.contains_y", b.Y0-1e-9 <= Y && Y <= b.Y1+1e-9)
	vAssert("C08.bounds.arc.inside_fastbounds", f.X0 <= b.X0+1e-9 && b.X1 <= f.X1+1e-9 && f.Y0 <= b.Y0+1e-9 && b.Y1 <= f.Y1+1e-9)
	// tightness: every side is attained, either at an end point or at the extreme point of the
	// full ellipse in that direction when that point lies on the arc.  X-cx = ax*qc+bx*qs is
	// extreme at q = +-(ax,bx)/|(ax,bx)|.
	onArc := func(qc, qs float64) bool {
		sd := (c1-c0)*(qs-s0) - (s1-s0)*(qc-c0)
		return (sweep && sd <= 0) || (!sweep && sd >= 0)
	}
	ax, bx := rx*cphi, -ry*sphi
	ay, by := rx*sphi, ry*cphi
	nx, ny := math.Sqrt(ax*ax+bx*bx), math.Sqrt(ay*ay+by*by)
	xlo, xhi := math.Min(x0, x1), math.Max(x0, x1)
	ylo, yhi := math.Min(y0, y1), math.Max(y0, y1)
	if onArc(ax/nx, bx/nx) {
		xhi = cx + nx
	}
	if onArc(-ax/nx, -bx/nx) {
		xlo = cx - nx
	}
	if onArc(ay/ny, by/ny) {
		yhi = cy + ny
	}
	if onArc(-ay/ny, -by/ny) {
		ylo = cy - ny
	}
	vAssert("C08.bounds.arc.tight", vhNear(b.X0, xlo) && vhNear(b.X1, xhi) && vhNear(b.Y0, ylo) && vhNear(b.Y1, yhi))
}

// C08-H6: the contract that VH_C08_arc_bounds_Q assumes of ellipseToCenter, checked on its own:
// for an arc generated from its centre form (centre, radii, rotation, start and end parameter as
// unit vectors, sweep direction; the large flag follows) the function recovers the centre and the
// two angles.  Radii from 5 pairs, rotation from 5 unit vectors, 9 unit vectors for the end
// parameters (all ordered pairs that are not opposite), two centres.  All concrete (the function is
// square roots and arc cosines): an enumeration executed by the interpreter and natively, not a
// solver verdict; it includes the chords that equal rx or 2 rx at rotation 0, where the function
// has a shortcut.
func VH_C08_ellipse_to_center() {
	radii := [][2]float64{{1, 1}, {2, 1}, {5, 0.5}, {3, 2.5}, {10, 10}}
	rr := radii[vChoose(0, len(radii)-1)]
	rx, ry := rr[0], rr[1]
	rots := [][2]float64{{1, 0}, {0.8, 0.6}, {0, 1}, {-0.6, 0.8}, {-0.96, 0.28}}
	rot := rots[vChoose(0, len(rots)-1)]
	cphi, sphi := rot[0], rot[1]
	units := [][2]float64{{1, 0}, {0.8, 0.6}, {0, 1}, {-0.6, 0.8}, {-0.96, 0.28}, {-0.6, -0.8}, {5.0 / 13, -12.0 / 13}, {0.5, 0.8660254037844386}, {-0.5, 0.8660254037844386}}
	i0 := vChoose(0, len(units)-1)
	i1 := vChoose(0, len(units)-1)
	if i0 == i1 {
		return
	}
	c0, s0 := units[i0][0], units[i0][1]
	c1, s1 := units[i1][0], units[i1][1]
	cross := c0*s1 - s0*c1
	if math.Abs(cross) < 1e-3 {
		return // opposite parameters: either centre form is acceptable
	}
	sweep := vChoose(0, 1) == 1
	large := (cross < 0) == sweep
	ctr := []Point{{0, 0}, {3, -2}}[vChoose(0, 1)]
	x0, y0 := ctr.X+rx*c0*cphi-ry*s0*sphi, ctr.Y+rx*c0*sphi+ry*s0*cphi
	x1, y1 := ctr.X+rx*c1*cphi-ry*s1*sphi, ctr.Y+rx*c1*sphi+ry*s1*cphi
	phi := math.Atan2(sphi, cphi)
	cx, cy, t0, t1 := ellipseToCenter(x0, y0, rx, ry, phi, large, sweep, x1, y1)
	vAssert("C08.ellipsetocenter.centre", math.Abs(cx-ctr.X) <= 1e-6 && math.Abs(cy-ctr.Y) <= 1e-6)
	// the angles give back the end points and run in the sweep direction
	a0x, a0y := cx+rx*math.Cos(t0)*cphi-ry*math.Sin(t0)*sphi, cy+rx*math.Cos(t0)*sphi+ry*math.Sin(t0)*cphi
	a1x, a1y := cx+rx*math.Cos(t1)*cphi-ry*math.Sin(t1)*sphi, cy+rx*math.Cos(t1)*sphi+ry*math.Sin(t1)*cphi
	vAssert("C08.ellipsetocenter.angles_give_the_end_points", math.Abs(a0x-x0) <= 1e-6 && math.Abs(a0y-y0) <= 1e-6 && math.Abs(a1x-x1) <= 1e-6 && math.Abs(a1y-y1) <= 1e-6)
	vAssert("C08.ellipsetocenter.direction_and_extent", (t1 > t0) == sweep && (math.Abs(t1-t0) > math.Pi) == large)
}
