package canvas

import (
	"io"
	"math"
	"strconv"
)

// C07: Matrix algebra (H1), Path.Transform on arc-free paths (H2), arc flags/end point (H3).
// Domain: exact real arithmetic (_Q).  Products of two symbolic factors are avoided in the quick
// tier by making one factor a choice among concrete values ("modes"); the fully symbolic
// (polynomial identity) variants run in the thorough tier.

// ---------------------------------------------------------------------------------------------
// generators

const vhC07NMat = 9

// vhC07Mat: representative concrete matrices with dyadic entries (products are exact in float64
// too, so that native replays agree with the real-arithmetic run).
func vhC07Mat(k int) Matrix {
	switch k {
	case 1:
		return Matrix{{1, 0, 3}, {0, 1, -2}} // translation
	case 2:
		return Matrix{{2, 0, 0}, {0, 0.5, 0}} // anisotropic scale
	case 3:
		return Matrix{{0, -1, 0}, {1, 0, 0}} // rotation by 90 degrees
	case 4:
		return Matrix{{1, 0.5, 0}, {0, 1, 0}} // horizontal shear
	case 5:
		return Matrix{{-1, 0, 4}, {0, 1, 0}} // reflection about x = 2
	case 6:
		return Matrix{{1.5, -0.25, 1}, {0.75, -2, -3}} // general, det < 0
	case 7:
		return Matrix{{3, -4, 0.5}, {4, 3, -1.5}} // rotation by atan(4/3) times 5, translated
	case 8:
		return Matrix{{1, 2, 0}, {0.5, 1.0009765625, 1}} // near-singular, det = 2^-10
	}
	return Identity
}

func vhC07SymMat() Matrix {
	return Matrix{{vhReal(), vhReal(), vhReal()}, {vhReal(), vhReal(), vhReal()}}
}

func vhC07M(sym bool) Matrix {
	if sym {
		return vhC07SymMat()
	}
	return vhC07Mat(vChoose(0, vhC07NMat-1))
}

func vhC07Pt(k int) Point {
	switch k {
	case 1:
		return Point{1, 0}
	case 2:
		return Point{0, 1}
	case 3:
		return Point{3, -2}
	case 4:
		return Point{-1.5, 0.25}
	}
	return Point{}
}

func vhC07P(sym bool) Point {
	if sym {
		return Point{vhReal(), vhReal()}
	}
	return vhC07Pt(vChoose(0, 4))
}

// vhC07Args: four scalar arguments, symbolic or one of three concrete tuples.
func vhC07Args(sym bool) [4]float64 {
	if sym {
		return [4]float64{vhReal(), vhReal(), vhReal(), vhReal()}
	}
	switch vChoose(0, 2) {
	case 1:
		return [4]float64{2, -3, 1.5, 0.5}
	case 2:
		return [4]float64{-1, 0.25, -2, 4}
	}
	return [4]float64{}
}

func vhC07MatEq(a, b Matrix) bool {
	return a[0][0] == b[0][0] && a[0][1] == b[0][1] && a[0][2] == b[0][2] &&
		a[1][0] == b[1][0] && a[1][1] == b[1][1] && a[1][2] == b[1][2]
}

// vhC07Mode picks which of three factors is symbolic: mode k < 3 makes factor k symbolic and the
// others concrete choices; mode 3 (thorough tier only) makes all symbolic.
func vhC07Mode() (s0, s1, s2 bool) {
	mode := vChoose(0, 2+vTier())
	return mode == 0 || mode == 3, mode == 1 || mode == 3, mode == 2 || mode == 3
}

// ---------------------------------------------------------------------------------------------
// H1 matrix algebra

// Mul composes right-to-left and Dot applies: (m.q).p = m.(q.p)
func VH_C07_matrix_assoc_Q() {
	sm, sq, sp := vhC07Mode()
	m, q, p := vhC07M(sm), vhC07M(sq), vhC07P(sp)
	a := m.Mul(q).Dot(p)
	b := m.Dot(q.Dot(p))
	vAssert("C07.matrix.assoc", a.X == b.X && a.Y == b.Y)
}

// Dot is the affine map of the stored coefficients; Identity is neutral.
func VH_C07_matrix_identity_Q() {
	m := vhC07SymMat()
	p := vhC07P(true)
	ip := Identity.Dot(p)
	vAssert("C07.matrix.identity_dot", ip.X == p.X && ip.Y == p.Y)
	vAssert("C07.matrix.identity_left", vhC07MatEq(Identity.Mul(m), m))
	vAssert("C07.matrix.identity_right", vhC07MatEq(m.Mul(Identity), m))
	// Dot on the unit points reads the columns (defines the meaning of the entries)
	o, ex, ey := m.Dot(Point{0, 0}), m.Dot(Point{1, 0}), m.Dot(Point{0, 1})
	vAssert("C07.matrix.dot_columns", o.X == m[0][2] && o.Y == m[1][2] &&
		ex.X-o.X == m[0][0] && ex.Y-o.Y == m[1][0] && ey.X-o.X == m[0][1] && ey.Y-o.Y == m[1][1])
	tx, ty := m.Pos()
	vAssert("C07.matrix.pos", tx == o.X && ty == o.Y)
}

// vhC07Action: the documented action of builder op with arguments a on point p.
func vhC07Action(op int, a [4]float64, p Point) Point {
	switch op {
	case 0: // Translate(x,y)
		return Point{p.X + a[0], p.Y + a[1]}
	case 1: // Scale(sx,sy)
		return Point{a[0] * p.X, a[1] * p.Y}
	case 2: // Shear(sx,sy): sx horizontal, sy vertical
		return Point{p.X + a[0]*p.Y, p.Y + a[1]*p.X}
	case 3: // ReflectX
		return Point{-p.X, p.Y}
	case 4: // ReflectY
		return Point{p.X, -p.Y}
	case 5: // ReflectXAbout(x)
		return Point{2*a[0] - p.X, p.Y}
	case 6: // ReflectYAbout(y)
		return Point{p.X, 2*a[0] - p.Y}
	case 7: // ScaleAbout(sx,sy,x,y)
		return Point{a[2] + a[0]*(p.X-a[2]), a[3] + a[1]*(p.Y-a[3])}
	case 8: // ShearAbout(sx,sy,x,y)
		return Point{p.X + a[0]*(p.Y-a[3]), p.Y + a[1]*(p.X-a[2])}
	}
	return p
}

func vhC07Build(m Matrix, op int, a [4]float64) Matrix {
	switch op {
	case 0:
		return m.Translate(a[0], a[1])
	case 1:
		return m.Scale(a[0], a[1])
	case 2:
		return m.Shear(a[0], a[1])
	case 3:
		return m.ReflectX()
	case 4:
		return m.ReflectY()
	case 5:
		return m.ReflectXAbout(a[0])
	case 6:
		return m.ReflectYAbout(a[0])
	case 7:
		return m.ScaleAbout(a[0], a[1], a[2], a[3])
	case 8:
		return m.ShearAbout(a[0], a[1], a[2], a[3])
	}
	return m
}

// Builders post-multiply (m.X(args) = m.Mul(Identity.X(args))) and Identity.X(args) acts on a
// point as documented, hence m.X(args).Dot(p) = m.Dot(X_args(p)).
func VH_C07_matrix_builders_Q() {
	op := vChoose(0, 8)
	sm, sa, sp := vhC07Mode()
	m, a, p := vhC07M(sm), vhC07Args(sa), vhC07P(sp)
	got := vhC07Build(m, op, a)
	gen := vhC07Build(Identity, op, a)
	vAssert("C07.matrix.builder_postmul", vhC07MatEq(got, m.Mul(gen)))
	act := gen.Dot(p)
	want := vhC07Action(op, a, p)
	vAssert("C07.matrix.builder_action", act.X == want.X && act.Y == want.Y)
	gp, wp := got.Dot(p), m.Dot(want)
	vAssert("C07.matrix.builder_composed", gp.X == wp.X && gp.Y == wp.Y)
}

func vhC07Rot(sym bool) float64 {
	if sym {
		r := vNondetF64()
		vAssume(-720 <= r && r <= 720)
		return r
	}
	switch vChoose(0, 4) {
	case 1:
		return 90
	case 2:
		return 180
	case 3:
		return 30
	case 4:
		return -45
	}
	return 0
}

// vhC07Near: equality up to 1e-9 (concrete angles give non-dyadic sin/cos constants whose products
// are rounded in float64; exact comparison is used when the angle is symbolic).
func vhC07Near(a, b float64) bool { return a-b <= 1e-9 && b-a <= 1e-9 }

func vhC07PtSame(a, b Point, exact bool) bool {
	if exact {
		return a.X == b.X && a.Y == b.Y
	}
	return vhC07Near(a.X, b.X) && vhC07Near(a.Y, b.Y)
}

func vhC07MatSame(a, b Matrix, exact bool) bool {
	if exact {
		return vhC07MatEq(a, b)
	}
	return vhC07Near(a[0][0], b[0][0]) && vhC07Near(a[0][1], b[0][1]) && vhC07Near(a[0][2], b[0][2]) &&
		vhC07Near(a[1][0], b[1][0]) && vhC07Near(a[1][1], b[1][1]) && vhC07Near(a[1][2], b[1][2])
}

// Rotate(rot) acts as (c.x - s.y, s.x + c.y) with s,c = sin,cos(rot degrees), counter clockwise;
// RotateAbout(rot,x,y) does the same about (x,y).  sin/cos are uninterpreted on symbolic rot.
func VH_C07_matrix_rotate_Q() {
	about := vChoose(0, 1) == 1
	// mode 0: symbolic angle, concrete centre/point; mode 1: concrete angle, symbolic centre/point;
	// mode 2 (thorough): everything symbolic including m
	mode := vChoose(0, 1+vTier())
	srot, sp := mode == 0 || mode == 2, mode == 1 || mode == 2
	m := vhC07M(mode == 2)
	rot := vhC07Rot(srot)
	p := vhC07P(sp)
	s, c := math.Sincos(rot * math.Pi / 180.0)
	if !about {
		got := m.Rotate(rot).Dot(p)
		want := m.Dot(Point{c*p.X - s*p.Y, s*p.X + c*p.Y})
		vAssert("C07.matrix.rotate", vhC07PtSame(got, want, srot))
		vAssert("C07.matrix.rotate_postmul", vhC07MatSame(m.Rotate(rot), m.Mul(Identity.Rotate(rot)), srot))
	} else {
		ctr := vhC07P(sp)
		got := m.RotateAbout(rot, ctr.X, ctr.Y).Dot(p)
		dx, dy := p.X-ctr.X, p.Y-ctr.Y
		want := m.Dot(Point{ctr.X + c*dx - s*dy, ctr.Y + s*dx + c*dy})
		vAssert("C07.matrix.rotate_about", vhC07PtSame(got, want, srot))
		vAssert("C07.matrix.rotate_about_postmul", vhC07MatSame(m.RotateAbout(rot, ctr.X, ctr.Y), m.Mul(Identity.RotateAbout(rot, ctr.X, ctr.Y)), srot))
	}
	if !srot && rot == 90 {
		// the direction is counter clockwise: a quarter turn maps (1,0) to (0,1)
		q := Identity.Rotate(rot).Dot(Point{1, 0})
		vAssert("C07.matrix.rotate_ccw", Equal(q.X, 0) && Equal(q.Y, 1))
	}
}

// T transposes the linear part; Det is multiplicative.
func VH_C07_matrix_transpose_det_Q() {
	sm, sq, _ := vhC07Mode()
	m, q := vhC07M(sm), vhC07M(sq)
	t := m.T()
	vAssert("C07.matrix.transpose", t[0][0] == m[0][0] && t[1][1] == m[1][1] && t[0][1] == m[1][0] && t[1][0] == m[0][1])
	tt := t.T()
	vAssert("C07.matrix.transpose_involution", tt[0][0] == m[0][0] && tt[0][1] == m[0][1] && tt[1][0] == m[1][0] && tt[1][1] == m[1][1])
	vAssert("C07.matrix.det_def", m.Det() == m[0][0]*m[1][1]-m[0][1]*m[1][0])
	vAssert("C07.matrix.det_mul", m.Mul(q).Det() == m.Det()*q.Det())
	vAssert("C07.matrix.det_transpose", t.Det() == m.Det())
}

func vhC07Inv(m Matrix) (inv Matrix, panicked bool) {
	defer func() {
		if r := recover(); r != nil {
			if _, stop := r.(vStopT); stop {
				panic(r)
			}
			panicked = true
		}
	}()
	inv = m.Inv()
	return
}

// Inv panics iff Equal(det,0); otherwise m.Inv() is the two-sided inverse (exact in real
// arithmetic, so certainly within the library's tolerance) and inverts Dot.
func VH_C07_matrix_inv_Q() {
	// mode 0: concrete linear part, symbolic translation; mode 1: one symbolic linear entry
	// (determinant symbolic), concrete translation; thorough: mode 2 symbolic diagonal,
	// mode 3 symbolic first row of the linear part (concrete translation), matrices 0-5 only
	mode := vChoose(0, 1+2*vTier())
	nm := vhC07NMat
	if mode >= 2 {
		nm = 6 // two symbolic entries next to the general/near-singular matrices 6-8: z3 times out
	}
	m := vhC07Mat(vChoose(0, nm-1))
	switch mode {
	case 0:
		m[0][2], m[1][2] = vhReal(), vhReal()
	case 1:
		e := vChoose(0, 3)
		m[e/2][e%2] = vhReal()
	case 2:
		m[0][0], m[1][1] = vhReal(), vhReal()
	case 3:
		m[0][0], m[0][1] = vhReal(), vhReal()
	}
	det := m.Det()
	inv, panicked := vhC07Inv(m)
	vAssert("C07.matrix.inv_panics_iff_singular", panicked == Equal(det, 0.0))
	if panicked {
		return
	}
	p := vhC07P(mode == 0)
	r := inv.Dot(m.Dot(p))
	if mode == 0 {
		// linear case: stated with the library's tolerance
		vAssert("C07.matrix.inv_right", m.Mul(inv).Equals(Identity))
		vAssert("C07.matrix.inv_left", inv.Mul(m).Equals(Identity))
		vAssert("C07.matrix.inv_dot", Equal(r.X, p.X) && Equal(r.Y, p.Y))
	} else {
		// symbolic determinant: exact in real arithmetic (implies the tolerance version)
		vAssert("C07.matrix.inv_right", vhC07MatEq(m.Mul(inv), Identity))
		vAssert("C07.matrix.inv_left", vhC07MatEq(inv.Mul(m), Identity))
		vAssert("C07.matrix.inv_dot", r.X == p.X && r.Y == p.Y)
	}
}

// ---------------------------------------------------------------------------------------------
// H2 Path.Transform on arc-free paths

// vhC07Shape builds a path of one subpath with 1..maxSeg segments (line/quad/cube), optionally
// closed, optionally followed by a second subpath of one line (open or closed).
func vhC07Shape(gen vhGen, maxSeg int) *Path {
	p := &Path{}
	nseg := vChoose(1, maxSeg)
	kinds := vhChooseKinds(nseg, []int{vhLine, vhQuad, vhCube})
	vhRawSubpath(p, gen, kinds, vChoose(0, 1))
	if nseg < maxSeg && vChoose(0, 1) == 1 {
		vhRawSubpath(p, gen, []int{vhLine}, vChoose(0, 1))
	}
	return p
}

// vhC07CheckImage: q is the image of the pre-state stream under m, record by record.
func vhC07Image(pre, post []float64, m Matrix) (structure, coords bool) {
	if len(pre) != len(post) {
		return false, false
	}
	structure, coords = true, true
	for _, i := range vhRecords(pre) {
		cmd := pre[i]
		n := 4
		switch cmd {
		case QuadToCmd:
			n = 6
		case CubeToCmd, ArcToCmd:
			n = 8
		}
		structure = structure && post[i] == cmd && post[i+n-1] == cmd
		if cmd == ArcToCmd {
			e := m.Dot(Point{pre[i+5], pre[i+6]})
			coords = coords && post[i+5] == e.X && post[i+6] == e.Y
			continue
		}
		for j := i + 1; j+1 < i+n-1; j += 2 {
			e := m.Dot(Point{pre[j], pre[j+1]})
			coords = coords && post[j] == e.X && post[j+1] == e.Y
		}
	}
	return
}

func vhC07DecomposeAny(m Matrix) (float64, float64, float64, float64, float64, float64) {
	return vNondetF64(), vNondetF64(), vNondetF64(), vNondetF64(), vNondetF64(), vNondetF64()
}

// symbolic coordinates, concrete-choice matrix
func VH_C07_transform_sympath_Q() {
	p := vhC07Shape(vhReal, 2+vTier())
	m := vhC07Mat(vChoose(0, vhC07NMat-1))
	pre := vhCopyData(p.d)
	q := p.Transform(m)
	st, co := vhC07Image(pre, q.d, m)
	vAssert("C07.transform.commands_unchanged", st)
	vAssert("C07.transform.coords_mapped", co)
	// "It modifies the path in-place": the receiver holds the transformed data as well
	st, co = vhC07Image(pre, p.d, m)
	vAssert("C07.transform.in_place", st && co)
}

func vhC07Grid() float64 {
	switch vChoose(0, 3) {
	case 1:
		return 1
	case 2:
		return -2.5
	case 3:
		return 4
	}
	return 0
}

// concrete paths (fixed coordinate sequence), symbolic matrix.  Decompose (sqrt/atan2, only used
// for arcs) is replaced by an arbitrary-value stub to keep the path condition linear.
func VH_C07_transform_symmat_Q() {
	vStub("(github.com/tdewolff/canvas.Matrix).Decompose", vhC07DecomposeAny)
	k := 0
	seq := []float64{1, 2, 3, -4, -2.5, 0.5, 7, 7.25, 0, -1, 5, 5, -3, 2, 0.75, -6, 8, 1, 2, 2, -9, 4, 0.125, 3, 10, -10, 6, 1, -1, 0}
	gen := func() float64 {
		v := seq[k%len(seq)]
		k++
		return v
	}
	p := vhC07Shape(gen, 2+vTier())
	m := vhC07SymMat()
	pre := vhCopyData(p.d)
	q := p.Transform(m)
	st, co := vhC07Image(pre, q.d, m)
	vAssert("C07.transform.commands_unchanged", st)
	vAssert("C07.transform.coords_mapped", co)
	st, co = vhC07Image(pre, p.d, m)
	vAssert("C07.transform.in_place", st && co)
}

// Path.Translate / Path.Scale are Transform with Identity.Translate / Identity.Scale
func VH_C07_transform_translate_scale_Q() {
	vStub("(github.com/tdewolff/canvas.Matrix).Decompose", vhC07DecomposeAny)
	p := vhC07Shape(vhReal, 2)
	pre := vhCopyData(p.d)
	if vChoose(0, 1) == 0 {
		x, y := vhReal(), vhReal()
		q := p.Translate(x, y)
		ok := len(q.d) == len(pre)
		if ok {
			for _, i := range vhRecords(pre) {
				n := int(cmdLen(pre[i]))
				ok = ok && q.d[i] == pre[i] && q.d[i+n-1] == pre[i]
				for j := i + 1; j+1 < i+n-1; j += 2 {
					ok = ok && q.d[j] == pre[j]+x && q.d[j+1] == pre[j+1]+y
				}
			}
		}
		vAssert("C07.transform.translate", ok)
	} else {
		a := vhC07Args(false)
		q := p.Scale(a[0], a[1])
		ok := len(q.d) == len(pre)
		if ok {
			for _, i := range vhRecords(pre) {
				n := int(cmdLen(pre[i]))
				ok = ok && q.d[i] == pre[i] && q.d[i+n-1] == pre[i]
				for j := i + 1; j+1 < i+n-1; j += 2 {
					ok = ok && q.d[j] == pre[j]*a[0] && q.d[j+1] == pre[j+1]*a[1]
				}
			}
		}
		vAssert("C07.transform.scale", ok)
	}
}

// Rect.Transform returns the bounds of the transformed rectangle: it contains the image of every
// point of the rectangle and each side is touched by the image of a corner.
func VH_C07_rect_transform_Q() {
	m := vhC07Mat(vChoose(0, vhC07NMat-1))
	r := Rect{vhReal(), vhReal(), vhReal(), vhReal()}
	vAssume(r.X0 <= r.X1 && r.Y0 <= r.Y1)
	q := Point{vhReal(), vhReal()}
	vAssume(r.X0 <= q.X && q.X <= r.X1 && r.Y0 <= q.Y && q.Y <= r.Y1)
	out := r.Transform(m)
	mq := m.Dot(q)
	vAssert("C07.rect.contains_image", out.X0 <= mq.X && mq.X <= out.X1 && out.Y0 <= mq.Y && mq.Y <= out.Y1)
	c := [4]Point{m.Dot(Point{r.X0, r.Y0}), m.Dot(Point{r.X1, r.Y0}), m.Dot(Point{r.X1, r.Y1}), m.Dot(Point{r.X0, r.Y1})}
	tx0, tx1, ty0, ty1 := false, false, false, false
	for _, p := range c {
		tx0 = tx0 || p.X == out.X0
		tx1 = tx1 || p.X == out.X1
		ty0 = ty0 || p.Y == out.Y0
		ty1 = ty1 || p.Y == out.Y1
	}
	vAssert("C07.rect.tight", tx0 && tx1 && ty0 && ty1)
}

// ---------------------------------------------------------------------------------------------
// H3 arcs: flags and end point.  New radii and rotation (eigen-decomposition) are outside the
// claim: Eigen is replaced by a stub returning arbitrary values (or NaNs).

func vhC07EigenAny(m Matrix) (float64, float64, Point, Point) {
	if vNondetBool() {
		return math.NaN(), math.NaN(), Point{}, Point{}
	}
	return vNondetF64(), vNondetF64(), Point{vNondetF64(), vNondetF64()}, Point{vNondetF64(), vNondetF64()}
}

func vhC07InvAny(m Matrix) Matrix {
	return Matrix{{vNondetF64(), vNondetF64(), vNondetF64()}, {vNondetF64(), vNondetF64(), vNondetF64()}}
}

// vhC07ArcShape: one subpath with an arc, optionally next to a line or a second arc, open/closed;
// well-formed (valid radii rx >= ry > 0, 0 <= phi < pi, flags 0..3, no zero-length segments).
func vhC07ArcShape(gen vhGen, two bool) *Path {
	p := &Path{}
	var kinds []int
	n := 2
	if two {
		n = 3
	}
	switch vChoose(0, n) {
	case 0:
		kinds = []int{vhArc}
	case 1:
		kinds = []int{vhLine, vhArc}
	case 2:
		kinds = []int{vhArc, vhLine}
	case 3:
		kinds = []int{vhArc, vhArc}
	}
	vhRawSubpath(p, gen, kinds, vChoose(0, 1))
	vAssume(vhWF(p))
	return p
}

// vhC07ArcFlags: for every arc record, large is kept and sweep is flipped iff flip.
func vhC07ArcFlags(pre, post []float64, flip bool) (large, sweep bool) {
	large, sweep = true, true
	if len(pre) != len(post) {
		return false, false
	}
	for _, i := range vhRecords(pre) {
		if pre[i] != ArcToCmd {
			continue
		}
		l0, s0 := toArcFlags(pre[i+4])
		f := post[i+4]
		valid := f == 0 || f == 1 || f == 2 || f == 3
		l1 := f == 1 || f == 3
		s1 := f == 2 || f == 3
		large = large && valid && l0 == l1
		sweep = sweep && valid && (s1 != s0) == flip
	}
	return
}

// concrete-choice invertible matrix (rotation, anisotropic scale, shear, reflections,
// near-singular), symbolic arc geometry.  Inv runs for real: Transform must not panic.
func VH_C07_transform_arc_Q() {
	p := vhC07ArcShape(vhReal, vTier() == 1)
	m := vhC07Mat(vChoose(0, vhC07NMat-1))
	pre := vhCopyData(p.d)
	vStub("(github.com/tdewolff/canvas.Matrix).Eigen", vhC07EigenAny)
	q := p.Transform(m)
	st, co := vhC07Image(pre, q.d, m)
	vAssert("C07.arc.commands_unchanged", st)
	vAssert("C07.arc.end_mapped", co)
	det := m[0][0]*m[1][1] - m[0][1]*m[1][0]
	large, sweep := vhC07ArcFlags(pre, q.d, det < 0)
	vAssert("C07.arc.large_unchanged", large)
	vAssert("C07.arc.sweep_flips_iff_det_negative", sweep)
}

// symbolic invertible matrix (|det| >= 1/64), concrete arc: the flip decision taken from
// Decompose's scales (sqrt exact in real arithmetic) agrees with the sign of the determinant.
func VH_C07_transform_arc_symmat_Q() {
	p := &Path{}
	fl := float64(vChoose(0, 3))
	p.d = append(p.d, MoveToCmd, 1, 2, MoveToCmd, ArcToCmd, 3, 2, 0.5, fl, 4, -1, ArcToCmd)
	m := vhC07SymMat()
	det := m[0][0]*m[1][1] - m[0][1]*m[1][0]
	vAssume(det >= 1.0/64 || det <= -1.0/64)
	pre := vhCopyData(p.d)
	vStub("(github.com/tdewolff/canvas.Matrix).Eigen", vhC07EigenAny)
	vStub("(github.com/tdewolff/canvas.Matrix).Inv", vhC07InvAny)
	q := p.Transform(m)
	st, co := vhC07Image(pre, q.d, m)
	vAssert("C07.arc.commands_unchanged", st)
	vAssert("C07.arc.end_mapped", co)
	large, sweep := vhC07ArcFlags(pre, q.d, det < 0)
	vAssert("C07.arc.large_unchanged", large)
	vAssert("C07.arc.sweep_flips_iff_det_negative", sweep)
}

// C07/C12 ("matrix to SVG transform", util.go ToSVG): Matrix.ToSVG(h) writes either
// matrix(a,b,c,d,e,f) or a list translate/rotate/scale/rotate; composed by the SVG rules
// (SVG 2 8.5: transforms apply right to left to a point; rotate(a) turns by a degrees in the y-down
// system) the list must be the flipped matrix F.m.S with F: y -> h-y (canvas to SVG space) and
// S: y -> -y (local space), i.e. matrix(a,-b,-c,d,e,h-f) for m = [a c e; b d f].  Linear part
// from a table (rotations, anisotropic and mirrored scales, shear), translation and h symbolic.
// Under the engine Fprintf/Sprintf are recorders; natively the text is parsed.
type vhC07Op struct {
	name string
	args []float64
}

var vhC07Ops []vhC07Op
var vhC07MatrixOp *vhC07Op

func vhC07SvgArgs(a []interface{}) []float64 {
	out := make([]float64, 0, len(a))
	for _, v := range a {
		switch x := v.(type) {
		case dec:
			out = append(out, float64(x))
		case float64:
			out = append(out, x)
		}
	}
	return out
}

func vhC07Fprintf(w io.Writer, format string, a ...interface{}) (int, error) {
	name := ""
	for i := 1; i < len(format) && format[i] != '('; i++ {
		name += string(format[i])
	}
	vhC07Ops = append(vhC07Ops, vhC07Op{name, vhC07SvgArgs(a)})
	w.Write([]byte(" T"))
	return 2, nil
}

func vhC07Sprintf(format string, a ...interface{}) string {
	vhC07MatrixOp = &vhC07Op{"matrix", vhC07SvgArgs(a)}
	return "M"
}

func vhC07ParseOps(s string) (ops []vhC07Op, ok bool) {
	ok = true
	i := 0
	for i < len(s) {
		if s[i] == ' ' {
			i++
			continue
		}
		j := i
		for j < len(s) && s[j] != '(' {
			j++
		}
		k := j
		for k < len(s) && s[k] != ')' {
			k++
		}
		if j >= len(s) || k >= len(s) {
			return ops, false
		}
		op := vhC07Op{name: s[i:j]}
		start := j + 1
		for q := j + 1; q <= k; q++ {
			if q == k || s[q] == ',' || s[q] == ' ' {
				if q > start {
					f, err := strconv.ParseFloat(s[start:q], 64)
					ok = ok && err == nil
					op.args = append(op.args, f)
				}
				start = q + 1
			}
		}
		ops = append(ops, op)
		i = k + 1
	}
	return
}

func VH_C07_tosvg_Q() {
	vStub("!fmt.Fprintf", vhC07Fprintf)
	vStub("!fmt.Sprintf", vhC07Sprintf)
	lin := []Matrix{Identity, Identity.Rotate(30), Identity.Scale(2, 0.5), Identity.Rotate(90).Scale(1, 3), Identity.Scale(-1, 1), Identity.Shear(0.5, 0), Identity.Rotate(-45).Scale(2, 2), Identity.Rotate(20).Scale(1.5, 0.75).Rotate(50)}
	m := lin[vChoose(0, len(lin)-1)]
	tx, ty, h := vhReal(), vhReal(), vhReal()
	m[0][2], m[1][2] = tx, ty
	// general position for the Equal() tests on the translation
	vAssume((tx == 0 || tx >= 1e-6 || tx <= -1e-6) && (ty == 0 || ty >= 1e-6 || ty <= -1e-6))
	vhC07Ops, vhC07MatrixOp = nil, nil
	s := m.ToSVG(h)
	var ops []vhC07Op
	ok := true
	if vInterp() {
		if s == "M" && vhC07MatrixOp != nil {
			ops = []vhC07Op{*vhC07MatrixOp}
		} else if s != "" {
			ops = vhC07Ops
		}
	} else {
		ops, ok = vhC07ParseOps(s)
	}
	// compose left to right: X = T1 . T2 . ... . x
	acc := Identity
	for _, op := range ops {
		var t Matrix
		switch {
		case op.name == "matrix" && len(op.args) == 6:
			t = Matrix{{op.args[0], op.args[2], op.args[4]}, {op.args[1], op.args[3], op.args[5]}}
		case op.name == "translate" && len(op.args) == 2:
			t = Identity.Translate(op.args[0], op.args[1])
		case op.name == "rotate" && len(op.args) == 1:
			t = Identity.Rotate(op.args[0])
		case op.name == "scale" && len(op.args) == 2:
			t = Identity.Scale(op.args[0], op.args[1])
		default:
			ok = false
		}
		acc = acc.Mul(t)
	}
	vAssert("C07.tosvg.wellformed", ok)
	want := Matrix{{m[0][0], -m[0][1], m[0][2]}, {-m[1][0], m[1][1], h - m[1][2]}}
	near := func(a, b float64) bool { return a-b <= 1e-6 && b-a <= 1e-6 }
	good := true
	for i := 0; i < 2; i++ {
		for j := 0; j < 3; j++ {
			good = good && near(acc[i][j], want[i][j])
		}
	}
	// D64: no translation in canvas space but a flip offset h in SVG space
	vKnown("D64", tx == 0 && ty == 0 && h != 0)
	vAssert("C07.tosvg.same_transformation", good)
}

// H3b arcs: the conic handed to the eigen-decomposition.  Transform describes the image of the
// ellipse x = R(phi)(rx cos t, ry sin t) under the linear part L of m by the matrix Q with
// x'^T Q x' = 1 and reads the new radii and rotation off Q's eigen-decomposition (trigonometric
// and square roots: outside the claim, see the companion VH_C07_companion_arc_points).  Decided
// here: the Q that reaches Eigen is the conic of the image ellipse - three image points
// L R(phi)(rx c, ry s) satisfy it to 1e-6 - for a symbolic major radius (1 <= rx <= 1000, ry = 1;
// thorough tier: both radii symbolic, 1/64 <= ry <= rx <= min(1000 ry, 4096)),
// two concrete non-zero rotations and every matrix of the table (rotation, anisotropic scale,
// shear, reflection, near-singular).  Eigen is a recorder ("!": also in the interpreter's replay).
var vhC07Conic Matrix
var vhC07ConicCalls int

func vhC07EigenRec(m Matrix) (float64, float64, Point, Point) {
	vhC07Conic = m
	vhC07ConicCalls++
	return 1.0, 1.0, Point{1.0, 0.0}, Point{0.0, 1.0}
}

func VH_C07_transform_arc_conic_Q() {
	vStub("!(github.com/tdewolff/canvas.Matrix).Eigen", vhC07EigenRec)
	rx, ry := vhReal(), 1.0
	if vTier() == 1 { // thorough: both radii symbolic, ratio up to 1000
		ry = vhReal()
		vAssume(1.0/64 <= ry && ry <= rx && rx <= 1000*ry && rx <= 4096)
	} else {
		vAssume(1 <= rx && rx <= 1000)
	}
	phi := []float64{0.5, 2.0}[vChoose(0, 1)]
	m := vhC07Mat(vChoose(0, vhC07NMat-1))
	p := &Path{}
	p.d = append(p.d, MoveToCmd, 1, 2, MoveToCmd, ArcToCmd, rx, ry, phi, float64(vChoose(0, 3)), 4, -1, ArcToCmd)
	vhC07ConicCalls = 0
	_ = p.Transform(m)
	vAssertI("C07.arc.conic.eigen_consulted_once", vhC07ConicCalls == 1)
	if vhC07ConicCalls != 1 {
		return
	}
	Q := vhC07Conic
	cphi, sphi := math.Cos(phi), math.Sin(phi)
	ok := true
	for _, u := range [][2]float64{{1, 0}, {0, 1}, {0.6, 0.8}, {-0.8, 0.6}} {
		lx, ly := rx*u[0], ry*u[1]
		X, Y := cphi*lx-sphi*ly, sphi*lx+cphi*ly
		x, y := m[0][0]*X+m[0][1]*Y, m[1][0]*X+m[1][1]*Y
		f := x*(Q[0][0]*x+Q[0][1]*y) + y*(Q[1][0]*x+Q[1][1]*y)
		ok = ok && f > 1-1e-6 && f < 1+1e-6
	}
	vAssertI("C07.arc.conic.image_points_satisfy_the_conic", ok)
}
