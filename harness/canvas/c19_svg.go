package canvas

import (
	"errors"
	"math"

	"github.com/tdewolff/parse/v2"
)

// C19: kernels of the SVG importer that can be driven without the XML/CSS layer.
//
// Numbers in attributes are text.  The harness draws every number as a symbolic dyadic value
// v = k/4 and puts it into the attribute string
//   - in the symbolic run as a two-digit placeholder "ii" that the stub of the standard
//     strconv.ParseFloat maps back to the i-th symbolic value (ParseFloat's contract: the text
//     of a number yields that number), and
//   - natively (replay) as the decimal text of the model's value, parsed by the real
//     strconv.ParseFloat.
// All structure (separators, units, which attributes are present) is concrete (vChoose).
// The oracle is the SVG specification, stated next to each assert.

var vhC19Vals []float64

// vhC19Num registers the value and returns its attribute text.
func vhC19Num(v float64) string {
	if vSymbolic() {
		i := len(vhC19Vals)
		vhC19Vals = append(vhC19Vals, v)
		return string([]byte{byte('0' + i/10), byte('0' + i%10)})
	}
	return vhC19Fmt(v)
}

// vhC19Fmt prints a multiple of 1/4 exactly ("-12.75").
func vhC19Fmt(v float64) string {
	k := int(v * 4)
	b := []byte{}
	if k < 0 {
		b = append(b, '-')
		k = -k
	}
	ip, fp := k/4, k%4
	digits := []byte{}
	if ip == 0 {
		digits = append(digits, '0')
	}
	for ip > 0 {
		digits = append(digits, byte('0'+ip%10))
		ip /= 10
	}
	for i := len(digits) - 1; i >= 0; i-- {
		b = append(b, digits[i])
	}
	switch fp {
	case 1:
		b = append(b, '.', '2', '5')
	case 2:
		b = append(b, '.', '5')
	case 3:
		b = append(b, '.', '7', '5')
	}
	return string(b)
}

var vhC19ErrSyntax = errors.New("vhC19: invalid syntax")

// vhC19ParseFloat replaces strconv.ParseFloat(s, 64) in the interpreter (symbolic run:
// placeholder lookup; concrete self-test run: the decimal subset vhC19Fmt prints).  Natively
// the real strconv.ParseFloat runs.
func vhC19ParseFloat(s string, bitSize int) (float64, error) {
	if vSymbolic() {
		if len(s) == 2 && '0' <= s[0] && s[0] <= '9' && '0' <= s[1] && s[1] <= '9' {
			if i := int(s[0]-'0')*10 + int(s[1]-'0'); i < len(vhC19Vals) {
				return vhC19Vals[i], nil
			}
		}
		return 0, vhC19ErrSyntax
	}
	i, neg := 0, false
	if i < len(s) && (s[i] == '-' || s[i] == '+') {
		neg = s[i] == '-'
		i++
	}
	n, nd, scale, seenDot := 0, 0, 1, false
	for ; i < len(s); i++ {
		c := s[i]
		if '0' <= c && c <= '9' {
			n = n*10 + int(c-'0')
			nd++
			if seenDot {
				scale *= 10
			}
		} else if c == '.' && !seenDot {
			seenDot = true
		} else {
			return 0, vhC19ErrSyntax
		}
	}
	if nd == 0 {
		return 0, vhC19ErrSyntax
	}
	f := float64(n) / float64(scale)
	if neg {
		f = -f
	}
	return f, nil
}

func vhC19NewErrorLexer(l *parse.Input, message string, a ...interface{}) *parse.Error {
	return &parse.Error{Message: message}
}

// exact models of the few strings functions svg.go uses (their bodies reach assembly helpers)
func vhC19Split(s, sep string) []string {
	out := []string{}
	if len(sep) == 0 {
		for i := 0; i < len(s); i++ {
			out = append(out, s[i:i+1])
		}
		return out
	}
	start := 0
	for i := 0; i+len(sep) <= len(s); {
		if s[i:i+len(sep)] == sep {
			out = append(out, s[start:i])
			i += len(sep)
			start = i
		} else {
			i++
		}
	}
	return append(out, s[start:])
}

func vhC19HasSuffix(s, suffix string) bool {
	return len(s) >= len(suffix) && s[len(s)-len(suffix):] == suffix
}

func vhC19HasPrefix(s, prefix string) bool {
	return len(s) >= len(prefix) && s[:len(prefix)] == prefix
}

func vhC19ToLower(s string) string {
	b := []byte(s)
	for i := range b {
		if 'A' <= b[i] && b[i] <= 'Z' {
			b[i] += 'a' - 'A'
		}
	}
	return string(b)
}

func vhC19ReplaceAll(s, old, new string) string {
	if len(old) == 0 {
		return s // not used by svg.go
	}
	b := []byte{}
	for i := 0; i < len(s); {
		if i+len(old) <= len(s) && s[i:i+len(old)] == old {
			b = append(b, new...)
			i += len(old)
		} else {
			b = append(b, s[i])
			i++
		}
	}
	return string(b)
}

func vhC19Stubs() {
	vStub("!strconv.ParseFloat", vhC19ParseFloat)
	vStub("!github.com/tdewolff/parse/v2.NewErrorLexer", vhC19NewErrorLexer)
	vStub("!strings.Split", vhC19Split)
	vStub("!strings.HasSuffix", vhC19HasSuffix)
	vStub("!strings.HasPrefix", vhC19HasPrefix)
	vStub("!strings.ToLower", vhC19ToLower)
	vStub("!strings.ReplaceAll", vhC19ReplaceAll)
	vhC19Vals = nil
}

func vhC19Parser() *svgParser {
	return &svgParser{
		z:          parse.NewInputString(""),
		defs:       map[string]svgDef{},
		fonts:      map[string]*FontFamily{},
		activeDefs: map[string]svgDef{},
	}
}

// CSS absolute length units in mm (CSS Values 3, section 5.2: 1in = 2.54cm = 96px, 1pt = 1/72in,
// 1pc = 1/6in); SVG 2 section 8.2/8.9: a unitless length is in user units = px at the outermost svg.
var vhC19Units = []string{"", "px", "mm", "cm", "in", "pt", "pc"}

func vhC19UnitMm(u int) float64 {
	switch u {
	case 2:
		return 1.0
	case 3:
		return 10.0
	case 4:
		return 25.4
	case 5:
		return 25.4 / 72.0
	case 6:
		return 25.4 / 6.0
	}
	return 25.4 / 96.0
}

func vhC19Near(a, b float64) bool {
	return math.Abs(a-b) <= 1e-9*(1.0+math.Abs(b))
}

func vhC19PtNear(p Point, x, y float64) bool {
	return vhC19Near(p.X, x) && vhC19Near(p.Y, y)
}

// vhC19UserToCanvas is the matrix from SVG user space to canvas space (mm, origin bottom-left,
// y up) that the parser's context applies to a path drawn at (0,0).
func vhC19UserToCanvas(svg *svgParser) Matrix {
	return svg.ctx.CoordSystemView().Mul(svg.ctx.View())
}

// C19-H1: <svg width height viewBox>.
//
// SVG 2 section 8.6: viewBox = "min-x min-y width height", numbers "separated by whitespace
// and/or a comma"; section 8.2: the viewBox rectangle is mapped onto the viewport, i.e. user point
// (min-x, min-y) is the top-left corner of the viewport and (min-x+width, min-y+height) the
// bottom-right corner (preserveAspectRatio plays no role here: the harness only uses viewports
// with the aspect ratio of the viewBox); y points down.  The viewport size is the width/height
// attributes (CSS lengths); when absent ("auto"/100%) a stand-alone document takes the viewBox
// size in px.  The canvas is in mm with the origin bottom-left.
func VH_C19_viewbox_Q() {
	vhC19Stubs()
	vx, vy := vNondetDyadic(8, 2), vNondetDyadic(8, 2)
	vw, vh := vNondetDyadic(8, 2), vNondetDyadic(8, 2)
	vAssume(0 < vw && 0 < vh)
	sx, sy, sw, sh := vhC19Num(vx), vhC19Num(vy), vhC19Num(vw), vhC19Num(vh)
	// style -1: no viewBox attribute (then width/height are given)
	style := vChoose(-1, 3)
	var attrViewBox string
	switch style {
	case 0:
		attrViewBox = sx + " " + sy + " " + sw + " " + sh
	case 1:
		attrViewBox = sx + "," + sy + "," + sw + "," + sh
	case 2:
		attrViewBox = sx + ", " + sy + ", " + sw + ", " + sh
	case 3:
		attrViewBox = sx + "  " + sy + " " + sw + " " + sh
	}
	// viewport: absent, or k times the viewBox size in one of the absolute units
	attrWidth, attrHeight := "", ""
	specW, specH := vw*(25.4/96.0), vh*(25.4/96.0)
	lo := -1
	if style < 0 {
		lo = 0
	}
	unit := vChoose(lo, len(vhC19Units)-1)
	if unit >= 0 {
		k := float64(vChoose(1, 2))
		attrWidth = vhC19Num(k*vw) + vhC19Units[unit]
		attrHeight = vhC19Num(k*vh) + vhC19Units[unit]
		specW, specH = k*vw*vhC19UnitMm(unit), k*vh*vhC19UnitMm(unit)
	}
	if style < 0 {
		// without a viewBox user units are px: the user-space rectangle of the viewport is
		// (0,0)-(width in px, height in px)
		vx, vy = 0.0, 0.0
		vw, vh = specW*(96.0/25.4), specH*(96.0/25.4)
	}

	svg := vhC19Parser()
	width, height, viewbox := svg.parseViewBox(attrWidth, attrHeight, attrViewBox)
	vKnown("D15", style > 0)
	vAssert("C19.viewbox.syntax_accepted", svg.err == nil)
	if svg.err != nil {
		return
	}
	if unit >= 0 {
		// as ParseSVG's handling of the svg element does: given sizes come back in px (the whole
		// path through ParseSVG is decided by VH_C19_document_gradient_Q's size obligations)
		width, height = width*25.4/96.0, height*25.4/96.0
	}
	svg.init(width, height, viewbox)

	m := vhC19UserToCanvas(svg)
	// corners relative to the canvas the parser created
	vKnown("D15", vx != 0.0 || vy != 0.0)
	vAssert("C19.viewbox.origin_is_top_left", vhC19PtNear(m.Dot(Point{vx, vy}), 0.0, svg.c.H))
	vAssert("C19.viewbox.extent_is_bottom_right", vhC19PtNear(m.Dot(Point{vx + vw, vy + vh}), svg.c.W, 0.0))
	vAssert("C19.size.canvas_mm", vhC19Near(svg.c.W, specW) && vhC19Near(svg.c.H, specH))
}

// ---------------------------------------------------------------------------------------
// C19-H2: drawShape for the basic shapes (SVG 2 chapter 10), attribute parsing driven as above.
//
// Pre-state: the parser state after the real parseViewBox+init for viewBox="0 0 100 50" with
// either no width/height (viewport = viewBox size) or width="200" height="100" (viewport twice
// the viewBox).  The oracle maps user space to the canvas the parser actually created
// (x_c = x_u * W/100, y_c = H - y_u * H/50: origin top-left, y down), so that the absolute
// canvas size (D16) does not enter.  Lengths are given plain (user units), with a unit
// ("mm" = 96/25.4 user units, CSS), or as percentages, which SVG 2 section 8.9 resolves against
// the viewBox width (x, width, cx, rx, x1...), height (y, height, cy, ry, y1...) or
// sqrt((w^2+h^2)/2) (r).

const vhC19VW, vhC19VH = 100.0, 50.0

type vhC19Ctx struct {
	svg  *svgParser
	attr bool // width/height attributes present
	mode int  // 0 plain, 1 percent, 2 mm
}

// symGeom: the shape's own coordinates are symbolic (then math.Hypot/Atan2 are replaced by
// over-approximations; with concrete geometry the host's math is used).
func vhC19ShapeSetup(symGeom bool) *vhC19Ctx {
	vhC19Stubs()
	if symGeom {
		vStub("math.Hypot", vhHypotQ)
		vStub("math.Atan2", vhC19Atan2)
	}
	c := &vhC19Ctx{svg: vhC19Parser()}
	c.attr = vChoose(0, 1) == 1
	c.mode = vChoose(0, 2)
	attrW, attrH := "", ""
	if c.attr {
		attrW, attrH = "200", "100"
		if vSymbolic() {
			attrW, attrH = vhC19Num(200.0), vhC19Num(100.0)
		}
	}
	box := "0 0 100 50"
	if vSymbolic() {
		box = vhC19Num(0.0) + " " + vhC19Num(0.0) + " " + vhC19Num(vhC19VW) + " " + vhC19Num(vhC19VH)
	}
	w, h, vb := c.svg.parseViewBox(attrW, attrH, box)
	c.svg.init(w, h, vb)
	return c
}

// vhC19Atan2: atan2 exact on the axes, otherwise some angle strictly inside the right quadrant
// (sound over-approximation; enough for axis-parallel geometry such as Rectangle's Close).
func vhC19Atan2(y, x float64) float64 {
	switch {
	case y == 0 && x >= 0:
		return 0
	case y == 0:
		return math.Pi
	case x == 0 && y > 0:
		return math.Pi / 2.0
	case x == 0:
		return -math.Pi / 2.0
	}
	r := vNondetF64()
	switch {
	case y > 0 && x > 0:
		vAssume(0 < r && r < math.Pi/2.0)
	case y > 0:
		vAssume(math.Pi/2.0 < r && r < math.Pi)
	case x > 0:
		vAssume(-math.Pi/2.0 < r && r < 0)
	default:
		vAssume(-math.Pi < r && r < -math.Pi/2.0)
	}
	return r
}

// ref: 0 = horizontal, 1 = vertical, 2 = other (normalised diagonal)
func (c *vhC19Ctx) length(v float64, ref int) (string, float64) {
	switch c.mode {
	case 1:
		r := vhC19VW
		if ref == 1 {
			r = vhC19VH
		} else if ref == 2 {
			r = math.Sqrt((vhC19VW*vhC19VW + vhC19VH*vhC19VH) / 2.0)
		}
		return vhC19Num(v) + "%", v * r / 100.0
	case 2:
		return vhC19Num(v) + "mm", v * 96.0 / 25.4
	}
	return vhC19Num(v), v
}

// toCanvas: the SVG-specified position of user point (x,y) on the canvas that was created.
func (c *vhC19Ctx) toCanvas(x, y float64) (float64, float64) {
	return x * c.svg.c.W / vhC19VW, c.svg.c.H - y*c.svg.c.H/vhC19VH
}

// layerPath returns the only layer drawn.
func (c *vhC19Ctx) layer() (layer, bool) {
	ls := c.svg.c.layers[0]
	if len(c.svg.c.layers) != 1 || len(ls) != 1 || ls[0].path == nil {
		return layer{}, false
	}
	return ls[0], true
}

// vertexAt: end point of the k-th record of the drawn path, in canvas space.
func vhC19Vertex(l layer, k int) (Point, float64, bool) {
	i := 0
	for n := 0; i < len(l.path.d); n++ {
		cmd := l.path.d[i]
		i += cmdLen(cmd)
		if n == k {
			return l.m.Dot(Point{l.path.d[i-3], l.path.d[i-2]}), cmd, true
		}
	}
	return Point{}, 0.0, false
}

func vhC19Records(l layer) int {
	n := 0
	for i := 0; i < len(l.path.d); n++ {
		i += cmdLen(l.path.d[i])
	}
	return n
}

func (c *vhC19Ctx) vertexIs(l layer, k int, cmd float64, x, y float64) bool {
	p, got, ok := vhC19Vertex(l, k)
	ex, ey := c.toCanvas(x, y)
	return ok && got == cmd && vhC19PtNear(p, ex, ey)
}

func (c *vhC19Ctx) knownPercent() {
	// percentages are resolved against the viewport size in px instead of the viewBox size;
	// through ParseSVG the two differ exactly when width/height are given (and then D16 applies)
}

// rect: SVG 2 10.2: M x,y H x+w V y+h H x Z (no rx/ry)
func VH_C19_shape_rect_Q() {
	c := vhC19ShapeSetup(true)
	x, y := vNondetDyadic(8, 2), vNondetDyadic(8, 2)
	w, h := vNondetDyadic(8, 2), vNondetDyadic(8, 2)
	vAssume(0 < w && 0 < h)
	tx, ux := c.length(x, 0)
	ty, uy := c.length(y, 1)
	tw, uw := c.length(w, 0)
	th, uh := c.length(h, 1)
	c.svg.drawShape("rect", map[string]string{"x": tx, "y": ty, "width": tw, "height": th})
	vAssert("C19.rect.no_error", c.svg.err == nil)
	l, ok := c.layer()
	vAssert("C19.rect.one_path", ok)
	if !ok {
		return
	}
	c.knownPercent()
	vAssert("C19.rect.geometry", vhC19Records(l) == 5 &&
		c.vertexIs(l, 0, MoveToCmd, ux, uy) &&
		c.vertexIs(l, 1, LineToCmd, ux+uw, uy) &&
		c.vertexIs(l, 2, LineToCmd, ux+uw, uy+uh) &&
		c.vertexIs(l, 3, LineToCmd, ux, uy+uh) &&
		c.vertexIs(l, 4, CloseCmd, ux, uy))
}

// line: SVG 2 10.5: M x1,y1 L x2,y2
func VH_C19_shape_line_Q() {
	c := vhC19ShapeSetup(true)
	x1, y1 := vNondetDyadic(8, 2), vNondetDyadic(8, 2)
	x2, y2 := vNondetDyadic(8, 2), vNondetDyadic(8, 2)
	vAssume(x1 != x2 || y1 != y2)
	tx1, ux1 := c.length(x1, 0)
	ty1, uy1 := c.length(y1, 1)
	tx2, ux2 := c.length(x2, 0)
	ty2, uy2 := c.length(y2, 1)
	c.svg.drawShape("line", map[string]string{"x1": tx1, "y1": ty1, "x2": tx2, "y2": ty2})
	vAssert("C19.line.no_error", c.svg.err == nil)
	l, ok := c.layer()
	vAssert("C19.line.one_path", ok)
	if !ok {
		return
	}
	c.knownPercent()
	vAssert("C19.line.geometry", vhC19Records(l) == 2 &&
		c.vertexIs(l, 0, MoveToCmd, ux1, uy1) &&
		c.vertexIs(l, 1, LineToCmd, ux2, uy2))
}

// placedAt: the layer matrix is the spec mapping composed with a translation to user point
// (ux,uy): local (0,0) -> canvas(ux,uy), local unit vectors -> (W/100, 0) and (0, -H/50).
func (c *vhC19Ctx) placedAt(l layer, ux, uy float64) bool {
	o := l.m.Dot(Point{0.0, 0.0})
	ex := l.m.Dot(Point{1.0, 0.0})
	ey := l.m.Dot(Point{0.0, 1.0})
	ox, oy := c.toCanvas(ux, uy)
	return vhC19PtNear(o, ox, oy) &&
		vhC19PtNear(ex.Sub(o), c.svg.c.W/vhC19VW, 0.0) &&
		vhC19PtNear(ey.Sub(o), 0.0, -c.svg.c.H/vhC19VH)
}

// vhC19Region: the local path fills exactly the region given by the predicate on a probe grid
// of (2n+1)^2 points spanning [-ext,ext]^2 (probes closer than margin to the boundary, where
// the library's own tolerances decide, are skipped by the predicate returning 0).
func vhC19Region(p *Path, ext float64, n int, spec func(x, y float64) int) bool {
	ok := true
	for i := -n; i <= n; i++ {
		for j := -n; j <= n; j++ {
			// off-grid offsets: no probe ray runs along a horizontal edge or through a vertex
			// (Path.Contains is not the subject here)
			x, y := ext*(float64(i)+0.37)/float64(n), ext*(float64(j)+0.41)/float64(n)
			s := spec(x, y)
			if s != 0 {
				ok = ok && p.Contains(x, y, NonZero) == (s > 0)
			}
		}
	}
	return ok
}

// circle / ellipse: SVG 2 10.3, 10.4: the set (x-cx)^2/rx^2 + (y-cy)^2/ry^2 <= 1.
// Radii concrete (two configurations, rx<ry included), centre symbolic.
func VH_C19_shape_ellipse_Q() {
	c := vhC19ShapeSetup(false)
	cx, cy := vNondetDyadic(8, 2), vNondetDyadic(8, 2)
	tcx, ucx := c.length(cx, 0)
	tcy, ucy := c.length(cy, 1)
	kind := vChoose(0, 2)
	var urx, ury float64
	switch kind {
	case 0: // circle
		tr, ur := c.length(6.0, 2)
		urx, ury = ur, ur
		c.svg.drawShape("circle", map[string]string{"cx": tcx, "cy": tcy, "r": tr})
	case 1:
		trx, u1 := c.length(8.0, 0)
		try, u2 := c.length(3.0, 1)
		urx, ury = u1, u2
		c.svg.drawShape("ellipse", map[string]string{"cx": tcx, "cy": tcy, "rx": trx, "ry": try})
	case 2:
		trx, u1 := c.length(3.0, 0)
		try, u2 := c.length(8.0, 1)
		urx, ury = u1, u2
		c.svg.drawShape("ellipse", map[string]string{"cx": tcx, "cy": tcy, "rx": trx, "ry": try})
	}
	vAssert("C19.ellipse.no_error", c.svg.err == nil)
	l, ok := c.layer()
	vAssert("C19.ellipse.one_path", ok)
	if !ok {
		return
	}
	c.knownPercent()
	vAssert("C19.ellipse.placed_at_centre", c.placedAt(l, ucx, ucy))
	vAssert("C19.ellipse.region", l.path.Closed() && vhC19Region(l.path, 1.25*math.Max(urx, ury), 8, func(x, y float64) int {
		q := x*x/(urx*urx) + y*y/(ury*ury)
		if q < 0.98 {
			return 1
		} else if q > 1.02 {
			return -1
		}
		return 0
	}))
}

// rounded rect: SVG 2 10.2: with only rx (or only ry) given the other takes the same value; the
// radius is clamped to half the width/height; the region is the rectangle minus the four
// corner squares plus the four quarter discs.  Size and radius concrete, position symbolic.
func VH_C19_shape_roundrect_Q() {
	c := vhC19ShapeSetup(false)
	x, y := vNondetDyadic(8, 2), vNondetDyadic(8, 2)
	tx, ux := c.length(x, 0)
	ty, uy := c.length(y, 1)
	tw, uw := c.length(40.0, 0)
	th, uh := c.length(24.0, 1)
	attrs := map[string]string{"x": tx, "y": ty, "width": tw, "height": th}
	var ur float64
	var tr string
	switch vChoose(0, 2) {
	case 0:
		tr, ur = c.length(6.0, 0)
		attrs["rx"] = tr
	case 1:
		tr, ur = c.length(6.0, 1)
		attrs["ry"] = tr
	case 2: // larger than half the height: clamped
		tr, ur = c.length(30.0, 0)
		attrs["rx"] = tr
	}
	ur = math.Min(ur, math.Min(uw/2.0, uh/2.0))
	c.svg.drawShape("rect", attrs)
	vAssert("C19.roundrect.no_error", c.svg.err == nil)
	l, ok := c.layer()
	vAssert("C19.roundrect.one_path", ok)
	if !ok {
		return
	}
	c.knownPercent()
	vAssert("C19.roundrect.placed_at_xy", c.placedAt(l, ux, uy))
	ext := 1.25 * math.Max(uw, uh)
	vAssert("C19.roundrect.region", l.path.Closed() && vhC19Region(l.path, ext, 10, func(px, py float64) int {
		// distance-like classification with a 2% margin around the boundary
		m := 0.02 * ext
		in := func(grow float64) bool {
			x0, y0, x1, y1 := -grow, -grow, uw+grow, uh+grow
			if px < x0 || px > x1 || py < y0 || py > y1 {
				return false
			}
			r := ur + grow
			if r < 0 {
				r = 0
			}
			// nearest corner centre
			ccx, ccy := px, py
			if px < x0+r {
				ccx = x0 + r
			} else if px > x1-r {
				ccx = x1 - r
			}
			if py < y0+r {
				ccy = y0 + r
			} else if py > y1-r {
				ccy = y1 - r
			}
			dx, dy := px-ccx, py-ccy
			return dx*dx+dy*dy <= r*r
		}
		if in(-m) {
			return 1
		} else if !in(m) {
			return -1
		}
		return 0
	}))
}

// polyline / polygon: SVG 2 10.6, 10.7: M p0 L p1 ... (polygon: Z).  The points attribute is a
// list of numbers separated by whitespace and/or commas.  Points concrete and in general
// position (no three collinear, the library merges collinear segments), separators chosen.
func VH_C19_shape_poly_Q() {
	vhC19Stubs()
	c := &vhC19Ctx{svg: vhC19Parser()}
	box := "0 0 100 50"
	if vSymbolic() {
		box = vhC19Num(0.0) + " " + vhC19Num(0.0) + " " + vhC19Num(vhC19VW) + " " + vhC19Num(vhC19VH)
	}
	w, h, vb := c.svg.parseViewBox("", "", box)
	c.svg.init(w, h, vb)

	pts := []float64{10, 5.5, 40, 12, 31.25, 30, 5, 44}
	n := vChoose(2, 4)
	pts = pts[:2*n]
	sepStyle := vChoose(0, 3)
	s := ""
	for i := 0; i < len(pts); i++ {
		if i > 0 {
			switch {
			case sepStyle == 0:
				s += " "
			case sepStyle == 1:
				s += ","
			case sepStyle == 2 && i%2 == 1:
				s += ","
			case sepStyle == 2:
				s += " "
			default:
				s += " ,\n\t"
			}
		}
		s += vhC19Num(pts[i])
	}
	polygon := vChoose(0, 1) == 1
	tag := "polyline"
	if polygon {
		tag = "polygon"
	}
	c.svg.drawShape(tag, map[string]string{"points": s})
	vAssert("C19.poly.no_error", c.svg.err == nil)
	l, ok := c.layer()
	vAssert("C19.poly.one_path", ok)
	if !ok {
		return
	}
	good := c.vertexIs(l, 0, MoveToCmd, pts[0], pts[1])
	for i := 1; i < n; i++ {
		good = good && c.vertexIs(l, i, LineToCmd, pts[2*i], pts[2*i+1])
	}
	if polygon && n > 2 {
		good = good && vhC19Records(l) == n+1 && c.vertexIs(l, n, CloseCmd, pts[0], pts[1])
	} else if !polygon {
		good = good && vhC19Records(l) == n
	}
	vAssert("C19.poly.geometry", good)
}

// ---------------------------------------------------------------------------------------
// C19-H3: transform attribute (SVG 2 section 8.5 / CSS Transforms 1 section 8, "SVG transform
// attribute"): a list of functions applied left to right as matrix products, arguments separated
// by whitespace and/or comma, functions separated by whitespace and/or commas;
// matrix(a b c d e f): x' = a x + c y + e, y' = b x + d y + f; translate(tx [ty=0]);
// scale(sx [sy=sx]); rotate(a [cx cy]) (a in degrees, positive from +x towards +y);
// skewX(a): x' = x + y tan a; skewY(a): y' = y + x tan a.  Numbers symbolic (angles concrete).

type vhC19Aff [6]float64 // a b c d e f

func (m vhC19Aff) mul(q vhC19Aff) vhC19Aff { // m after q
	return vhC19Aff{
		m[0]*q[0] + m[2]*q[1], m[1]*q[0] + m[3]*q[1],
		m[0]*q[2] + m[2]*q[3], m[1]*q[2] + m[3]*q[3],
		m[0]*q[4] + m[2]*q[5] + m[4], m[1]*q[4] + m[3]*q[5] + m[5],
	}
}

func vhC19TrimSpace(s string) string {
	i, j := 0, len(s)
	for i < j && (s[i] == ' ' || s[i] == '\t' || s[i] == '\n' || s[i] == '\r') {
		i++
	}
	for i < j && (s[j-1] == ' ' || s[j-1] == '\t' || s[j-1] == '\n' || s[j-1] == '\r') {
		j--
	}
	return s[i:j]
}

// vhC19TransformFn returns the text and the matrix of one transform function.
func vhC19TransformFn(kind int, argSep string) (string, vhC19Aff) {
	g := func() (string, float64) {
		v := vNondetDyadic(6, 2)
		return vhC19Num(v), v
	}
	rot := func(deg float64) vhC19Aff {
		s, c := math.Sincos(deg * math.Pi / 180.0)
		return vhC19Aff{c, s, -s, c, 0, 0}
	}
	switch kind {
	case 0:
		t1, v1 := g()
		t2, v2 := g()
		return "translate(" + t1 + argSep + t2 + ")", vhC19Aff{1, 0, 0, 1, v1, v2}
	case 1:
		t1, v1 := g()
		return "translate(" + t1 + ")", vhC19Aff{1, 0, 0, 1, v1, 0}
	case 2:
		t1, v1 := g()
		t2, v2 := g()
		return "scale(" + t1 + argSep + t2 + ")", vhC19Aff{v1, 0, 0, v2, 0, 0}
	case 3:
		t1, v1 := g()
		return "scale(" + t1 + ")", vhC19Aff{v1, 0, 0, v1, 0, 0}
	case 4:
		return "rotate(" + vhC19Num(30.0) + ")", rot(30.0)
	case 5:
		t1, v1 := g()
		t2, v2 := g()
		m := vhC19Aff{1, 0, 0, 1, v1, v2}.mul(rot(-90.0)).mul(vhC19Aff{1, 0, 0, 1, -v1, -v2})
		return "rotate(" + vhC19Num(-90.0) + argSep + t1 + argSep + t2 + ")", m
	case 6:
		var t [6]string
		var v vhC19Aff
		s := "matrix("
		for i := range t {
			t[i], v[i] = g()
			if i > 0 {
				s += argSep
			}
			s += t[i]
		}
		return s + ")", v
	case 7:
		return "skewX(" + vhC19Num(45.0) + ")", vhC19Aff{1, 0, math.Tan(45.0 * math.Pi / 180.0), 1, 0, 0}
	}
	return "skewY(" + vhC19Num(45.0) + ")", vhC19Aff{1, math.Tan(45.0 * math.Pi / 180.0), 0, 1, 0, 0}
}

func vhC19AffMatches(m Matrix, a vhC19Aff) bool {
	return vhC19Near(m[0][0], a[0]) && vhC19Near(m[1][0], a[1]) && vhC19Near(m[0][1], a[2]) &&
		vhC19Near(m[1][1], a[3]) && vhC19Near(m[0][2], a[4]) && vhC19Near(m[1][2], a[5])
}

func VH_C19_transform_Q() {
	vhC19Stubs()
	vStub("!strings.TrimSpace", vhC19TrimSpace)
	svg := vhC19Parser()
	box := "0 0 100 50"
	if vSymbolic() {
		box = vhC19Num(0.0) + " " + vhC19Num(0.0) + " " + vhC19Num(vhC19VW) + " " + vhC19Num(vhC19VH)
	}
	w, h, vb := svg.parseViewBox("", "", box)
	svg.init(w, h, vb)

	argSep := []string{",", " ", " , "}[vChoose(0, 2)]
	n := vChoose(1, 2)
	k1 := vChoose(0, 8)
	text, spec := vhC19TransformFn(k1, argSep)
	fnSep, k2 := 0, -1
	if n == 2 {
		fnSep = vChoose(0, 4)
		k2 = vChoose(0, 8)
		t2, m2 := vhC19TransformFn(k2, argSep)
		text += []string{" ", "", ", ", " ,", " , "}[fnSep] + t2
		spec = spec.mul(m2)
	}
	m := svg.parseTransform(text)
	vAssert("C19.transform.no_error", svg.err == nil)
	// skewX/skewY are not implemented (silently ignored); a comma between two functions makes
	// the second one unknown (silently ignored)
	vKnown("D32", k1 >= 7 || k2 >= 7 || n == 2 && fnSep >= 2)
	vAssert("C19.transform.matrix", vhC19AffMatches(m, spec))

	// nesting: an element's transform is post-multiplied to the current view and restored on pop
	before := svg.ctx.View()
	svg.push("g", map[string]string{})
	svg.setAttribute("transform", text)
	inner := svg.ctx.View()
	svg.pop()
	after := svg.ctx.View()
	vAssert("C19.transform.pop_restores_view", after == before)
	vAssert("C19.transform.composes_with_parent", inner == before.Mul(m))
}
