package canvas

import (
	"image"
	"image/color"
	"math"
)

// C15: Context state stack (H1), view helpers (H2), draw matrix per coordinate system (H3),
// Canvas replay order (H4).  Domain: exact real arithmetic (_Q).
// Uses the concrete matrix/point/argument tables and vhC07Action of c07_matrix.go.

// ---------------------------------------------------------------------------------------------
// recording renderer

type vhC15Call struct {
	kind   int // 0 path, 1 text, 2 image
	path   *Path
	data   []float64 // copy of the path data at call time
	style  Style
	dashes []float64 // copy of style.Dashes at call time
	text   *Text
	img    image.Image
	m      Matrix
}

type vhC15Rec struct {
	w, h  float64
	calls []vhC15Call
}

func (r *vhC15Rec) Size() (float64, float64) { return r.w, r.h }

func (r *vhC15Rec) RenderPath(path *Path, style Style, m Matrix) {
	r.calls = append(r.calls, vhC15Call{kind: 0, path: path, data: vhCopyData(path.d), style: style, dashes: vhCopyData(style.Dashes), m: m})
}

func (r *vhC15Rec) RenderText(text *Text, m Matrix) {
	r.calls = append(r.calls, vhC15Call{kind: 1, text: text, m: m})
}

func (r *vhC15Rec) RenderImage(img image.Image, m Matrix) {
	r.calls = append(r.calls, vhC15Call{kind: 2, img: img, m: m})
}

// ---------------------------------------------------------------------------------------------
// state snapshots

type vhC15Snap struct {
	st     ContextState
	dashes []float64 // deep copy of the dash contents
}

func vhC15Snapshot(c *Context) vhC15Snap {
	return vhC15Snap{st: c.ContextState, dashes: vhCopyData(c.Style.Dashes)}
}

func vhC15PaintEq(a, b Paint) bool {
	return a.Color == b.Color && a.Gradient == b.Gradient && a.Pattern == b.Pattern
}

// vhC15Same: per-field equality of the current state with a snapshot.
type vhC15Same struct {
	fill, stroke, width, capper, joiner, dashOffset, dashes, rule, view, coordView, coordSystem bool
}

func vhC15Compare(c *Context, s vhC15Snap) vhC15Same {
	var r vhC15Same
	r.fill = vhC15PaintEq(c.Style.Fill, s.st.Style.Fill)
	r.stroke = vhC15PaintEq(c.Style.Stroke, s.st.Style.Stroke)
	r.width = c.Style.StrokeWidth == s.st.Style.StrokeWidth
	r.capper = c.Style.StrokeCapper == s.st.Style.StrokeCapper
	r.joiner = c.Style.StrokeJoiner == s.st.Style.StrokeJoiner
	r.dashOffset = c.Style.DashOffset == s.st.Style.DashOffset
	r.dashes = vhSameData(c.Style.Dashes, s.dashes)
	r.rule = c.Style.FillRule == s.st.Style.FillRule
	r.view = vhC07MatEq(c.view, s.st.view)
	r.coordView = vhC07MatEq(c.coordView, s.st.coordView)
	r.coordSystem = c.coordSystem == s.st.coordSystem
	return r
}

func (r vhC15Same) styleNoDashes() bool {
	return r.fill && r.stroke && r.width && r.capper && r.joiner && r.dashOffset && r.rule
}

func (r vhC15Same) views() bool { return r.view && r.coordView && r.coordSystem }

func (r vhC15Same) all() bool { return r.styleNoDashes() && r.dashes && r.views() }

func vhC15Mat(a [6]float64) Matrix { return Matrix{{a[0], a[1], a[2]}, {a[3], a[4], a[5]}} }

func vhC15Args() [6]float64 {
	return [6]float64{vhReal(), vhReal(), vhReal(), vhReal(), vhReal(), vhReal()}
}

// vhC15SymContext: a context over a recording renderer with an arbitrary (publicly reachable:
// Style is exported, views have setters) state: stroke and fill on, symbolic stroke width, dash
// offset, ndash symbolic dashes, symbolic view and coordinate view.
func vhC15SymContext(rec *vhC15Rec, ndash int, cs CoordSystem) *Context {
	c := NewContext(rec)
	c.SetStrokeColor(Black)
	w := vhReal()
	vAssume(w >= 0)
	c.SetStrokeWidth(w)
	off := vhReal()
	d := make([]float64, ndash)
	for i := range d {
		d[i] = vhReal()
	}
	c.SetDashes(off, d...)
	c.SetView(vhC15Mat(vhC15Args()))
	c.SetCoordView(vhC15Mat(vhC15Args()))
	c.SetCoordSystem(cs)
	return c
}

// stubs for the geometry behind DrawPath's dash check (outside the subject): any length >= 0, any
// valid dash start.
func vhC15LengthAny(p *Path) float64 {
	l := vNondetF64()
	vAssume(l >= 0)
	return l
}

func vhC15DashStartAny(offset float64, d []float64) (int, float64) {
	i := vNondetIntN(4)
	vAssume(0 <= i && i < len(d))
	pos := vNondetF64()
	vAssume(pos <= 0)
	return i, pos
}

func vhC15LinePath() *Path {
	p := &Path{}
	p.MoveTo(0, 0)
	p.LineTo(10, 0)
	p.LineTo(10, 5)
	return p
}

var vhC15Gradient = NewLinearGradient(Point{0, 0}, Point{1, 1})
var vhC15Pattern = &HatchPattern{}

// ---------------------------------------------------------------------------------------------
// H1 stack discipline

const vhC15NOps = 16

func vhC15Apply(c *Context, op int, a [6]float64, path *Path) {
	switch op {
	case 0:
		c.SetStrokeWidth(a[0])
	case 1:
		c.SetDashes(a[0], a[1], a[2])
	case 2:
		c.SetFillColor(color.RGBA{0x20, 0x40, 0x60, 0x80})
	case 3:
		c.SetView(vhC15Mat(a))
	case 4:
		c.Translate(a[0], a[1])
	case 5:
		c.Rotate(a[0])
	case 6:
		c.SetCoordSystem(CartesianIV)
	case 7:
		c.SetCoordView(vhC15Mat(a))
	case 8:
		c.ResetStyle()
	case 9:
		c.DrawPath(a[0], a[1], path)
	case 10:
		c.Scale(a[0], a[1])
	case 11:
		c.SetFillRule(EvenOdd)
	case 12:
		c.SetStrokeCapper(RoundCap)
	case 13:
		c.SetStrokeJoiner(RoundJoin)
	case 14:
		c.SetStroke(vhC15Gradient)
	case 15:
		c.ShearAbout(a[0], a[1], a[2], a[3])
	}
}

// vhC15ChooseOps: thorough: any three operations; quick: at most one DrawPath (op 9) among them and
// a reduced choice for the third.
func vhC15ChooseOps() (b, c, d int) {
	if vTier() == 1 {
		return vChoose(0, vhC15NOps-1), vChoose(0, vhC15NOps-1), vChoose(0, vhC15NOps-1)
	}
	nd := []int{0, 1, 2, 3, 4, 5, 6, 7, 8, 10, 11, 12, 13, 14, 15}
	small := []int{0, 1, 3, 8}
	last := []int{1, 4, 8}
	switch vChoose(0, 3) {
	case 0:
		return nd[vChoose(0, len(nd)-1)], nd[vChoose(0, len(nd)-1)], last[vChoose(0, 2)]
	case 1:
		return 9, nd[vChoose(0, len(nd)-1)], last[vChoose(0, 2)]
	case 2:
		return nd[vChoose(0, len(nd)-1)], 9, last[vChoose(0, 2)]
	}
	return small[vChoose(0, 3)], small[vChoose(0, 3)], 9
}

// History  Push B Push C Pop [inner check] D Pop [outer check] Pop Pop [no-op check], with B, C, D
// arbitrary operations (setters, view changes, DrawPath of a dashed path) with symbolic arguments.
func VH_C15_stack_Q() {
	rec := &vhC15Rec{w: 200, h: 100}
	c := vhC15SymContext(rec, 3, CartesianII)
	path := vhC15LinePath()
	opB, opC, opD := vhC15ChooseOps()
	aB, aC, aD := vhC15Args(), vhC15Args(), vhC15Args()
	vStub("(*github.com/tdewolff/canvas.Path).Length", vhC15LengthAny)
	vStub("github.com/tdewolff/canvas.dashStart", vhC15DashStartAny)

	s0 := vhC15Snapshot(c)
	c.Push()
	vhC15Apply(c, opB, aB, path)
	s1 := vhC15Snapshot(c)
	c.Push()
	vhC15Apply(c, opC, aC, path)
	c.Pop()
	inner := vhC15Compare(c, s1)
	vhC15Apply(c, opD, aD, path)
	c.Pop()
	outer := vhC15Compare(c, s0)
	vAssert("C15.stack.depth", len(c.stack) == 0)

	vAssert("C15.stack.inner_pop_restores_style", inner.styleNoDashes())
	vAssert("C15.stack.inner_pop_restores_views", inner.views())
	vAssert("C15.stack.inner_pop_restores_dash_contents", inner.dashes)
	vAssert("C15.stack.outer_pop_restores_style", outer.styleNoDashes())
	vAssert("C15.stack.outer_pop_restores_views", outer.views())
	vAssert("C15.stack.outer_pop_restores_dash_contents", outer.dashes)

	// unbalanced Pop does nothing
	s2 := vhC15Snapshot(c)
	c.Pop()
	c.Pop()
	vAssert("C15.stack.unbalanced_pop_noop", vhC15Compare(c, s2).all() && len(c.stack) == 0)
}

// DrawPath uses the draw state and does not change it ("style setters affect only subsequent
// draws"): the complete state, including the dash contents, is the same after drawing, and what
// was handed to the renderer is not changed by later draws and setters (no slice aliasing).
func VH_C15_draw_keeps_state_Q() {
	rec := &vhC15Rec{w: 200, h: 100}
	n := vChoose(0, 4)
	c := vhC15SymContext(rec, n, CartesianI)
	path := vhC15LinePath()
	x, y := vhReal(), vhReal()
	vStub("(*github.com/tdewolff/canvas.Path).Length", vhC15LengthAny)
	vStub("github.com/tdewolff/canvas.dashStart", vhC15DashStartAny)
	s0 := vhC15Snapshot(c)
	c.DrawPath(x, y, path)
	same := vhC15Compare(c, s0)
	vAssert("C15.draw.keeps_style", same.styleNoDashes())
	vAssert("C15.draw.keeps_views", same.views())
	vAssert("C15.draw.keeps_dash_contents", same.dashes)
	vAssert("C15.draw.path_untouched", vhSameData(path.d, vhC15LinePath().d))
	vAssert("C15.draw.one_call", len(rec.calls) == 1)
	if len(rec.calls) != 1 {
		return
	}
	c.DrawPath(x, y, path)
	c.SetDashes(1, 2, 3)
	c.SetStrokeWidth(7)
	first := rec.calls[0]
	vAssert("C15.draw.rendered_style_not_aliased", vhSameData(first.style.Dashes, first.dashes) && vhSameData(first.data, path.d))
	vAssert("C15.draw.second_draw_rendered", len(rec.calls) == 2)
}

// ---------------------------------------------------------------------------------------------
// setters change only their field

func VH_C15_setters_Q() {
	rec := &vhC15Rec{w: 200, h: 100}
	c := vhC15SymContext(rec, 2, CoordSystem(vChoose(0, 1)*3))
	a := vhC15Args()
	s0 := vhC15Snapshot(c)
	col := color.RGBA{0x20, 0x40, 0x60, 0x80}
	op := vChoose(0, 27)
	paintOp := op
	if op >= 8 && op < 16 {
		paintOp = op - 8
	}
	if op < 16 {
		stroke := op >= 8
		switch paintOp {
		case 0:
			if stroke {
				c.SetStroke(Paint{Color: col})
			} else {
				c.SetFill(Paint{Color: col})
			}
		case 1:
			if stroke {
				c.SetStroke(col)
			} else {
				c.SetFill(col)
			}
		case 2:
			if stroke {
				c.SetStroke(vhC15Gradient)
			} else {
				c.SetFill(vhC15Gradient)
			}
		case 3:
			if stroke {
				c.SetStroke(vhC15Pattern)
			} else {
				c.SetFill(vhC15Pattern)
			}
		case 4:
			if stroke {
				c.SetStroke(nil)
			} else {
				c.SetFill(nil)
			}
		case 5:
			if stroke {
				c.SetStrokeColor(col)
			} else {
				c.SetFillColor(col)
			}
		case 6:
			if stroke {
				c.SetStrokeGradient(vhC15Gradient)
			} else {
				c.SetFillGradient(vhC15Gradient)
			}
		case 7:
			if stroke {
				c.SetStrokePattern(vhC15Pattern)
			} else {
				c.SetFillPattern(vhC15Pattern)
			}
		}
		var want Paint
		switch paintOp {
		case 0, 1, 5:
			want = Paint{Color: col}
		case 2, 6:
			want = Paint{Gradient: vhC15Gradient}
		case 3, 7:
			want = Paint{Pattern: vhC15Pattern}
		}
		got := c.Style.Fill
		if stroke {
			got = c.Style.Stroke
		}
		if paintOp != 4 {
			// (what SetFill/SetStroke do with a value that is no paint is not documented)
			vAssert("C15.setter.paint_value", vhC15PaintEq(got, want))
		}
		r := vhC15Compare(c, s0)
		if stroke {
			r.stroke = true
		} else {
			r.fill = true
		}
		vAssert("C15.setter.paint_only", r.all())
		return
	}
	r := vhC15Same{}
	switch op {
	case 16:
		c.SetStrokeWidth(a[0])
		vAssert("C15.setter.value", c.Style.StrokeWidth == a[0])
		r = vhC15Compare(c, s0)
		r.width = true
	case 17:
		c.SetStrokeCapper(RoundCap)
		vAssert("C15.setter.value", c.Style.StrokeCapper == RoundCap)
		r = vhC15Compare(c, s0)
		r.capper = true
	case 18:
		c.SetStrokeJoiner(BevelJoin)
		vAssert("C15.setter.value", c.Style.StrokeJoiner == BevelJoin)
		r = vhC15Compare(c, s0)
		r.joiner = true
	case 19:
		c.SetDashes(a[0], a[1], a[2], a[3])
		vAssert("C15.setter.value", c.Style.DashOffset == a[0] && vhSameData(c.Style.Dashes, []float64{a[1], a[2], a[3]}))
		r = vhC15Compare(c, s0)
		r.dashOffset, r.dashes = true, true
	case 20:
		c.SetFillRule(EvenOdd)
		vAssert("C15.setter.value", c.Style.FillRule == EvenOdd)
		r = vhC15Compare(c, s0)
		r.rule = true
	case 21:
		c.ResetStyle()
		d := vhC15Snap{st: ContextState{Style: DefaultStyle}, dashes: []float64{}}
		rd := vhC15Compare(c, d)
		vAssert("C15.setter.value", rd.styleNoDashes() && rd.dashes)
		r = vhC15Compare(c, s0)
		r.fill, r.stroke, r.width, r.capper, r.joiner, r.dashOffset, r.dashes, r.rule = true, true, true, true, true, true, true, true
	case 22:
		c.SetCoordSystem(CartesianIII)
		vAssert("C15.setter.value", c.coordSystem == CartesianIII)
		r = vhC15Compare(c, s0)
		r.coordSystem = true
	case 23:
		c.SetCoordView(vhC15Mat(a))
		vAssert("C15.setter.value", vhC07MatEq(c.CoordView(), vhC15Mat(a)))
		r = vhC15Compare(c, s0)
		r.coordView = true
	case 24:
		// maps (0,0)--(width,height) to rect
		w, h := 4.0, 10.0
		rect := Rect{a[0], a[1], a[2], a[3]}
		c.SetCoordRect(rect, w, h)
		p0, p1 := c.CoordView().Dot(Point{0, 0}), c.CoordView().Dot(Point{w, h})
		vAssert("C15.setter.value", p0.X == rect.X0 && p0.Y == rect.Y0 && vhC07Near(p1.X, rect.X1) && vhC07Near(p1.Y, rect.Y1))
		r = vhC15Compare(c, s0)
		r.coordView = true
	case 25:
		c.SetView(vhC15Mat(a))
		vAssert("C15.setter.value", vhC07MatEq(c.View(), vhC15Mat(a)))
		r = vhC15Compare(c, s0)
		r.view = true
	case 26:
		c.ResetView()
		vAssert("C15.setter.value", vhC07MatEq(c.View(), Identity))
		r = vhC15Compare(c, s0)
		r.view = true
	case 27:
		// SetZIndex on a renderer without z-index support: nothing happens
		c.SetZIndex(3)
		r = vhC15Compare(c, s0)
	}
	vAssert("C15.setter.only_its_field", r.all())
	vAssert("C15.setter.no_render_calls", len(rec.calls) == 0)
}

// ---------------------------------------------------------------------------------------------
// H2 view helpers post-multiply

func VH_C15_view_helpers_Q() {
	rec := &vhC15Rec{w: 200, h: 100}
	c := NewContext(rec)
	op := vChoose(0, 9)
	sv, sa, sp := vhC07Mode()
	view, a, p := vhC07M(sv), vhC07Args(sa), vhC07P(sp)
	var m2 Matrix
	if op == 9 {
		m2 = vhC07M(sa)
	}
	c.SetView(view)
	s0 := vhC15Snapshot(c)
	want := vhC07Action(op, a, p)
	switch op {
	case 0:
		c.Translate(a[0], a[1])
	case 1:
		c.Scale(a[0], a[1])
	case 2:
		c.Shear(a[0], a[1])
	case 3:
		c.ReflectX()
	case 4:
		c.ReflectY()
	case 5:
		c.ReflectXAbout(a[0])
	case 6:
		c.ReflectYAbout(a[0])
	case 7:
		c.ScaleAbout(a[0], a[1], a[2], a[3])
	case 8:
		c.ShearAbout(a[0], a[1], a[2], a[3])
	case 9:
		c.ComposeView(m2)
		want = m2.Dot(p)
	}
	got := c.View().Dot(p)
	exp := view.Dot(want)
	vAssert("C15.view.post_multiplies", got.X == exp.X && got.Y == exp.Y)
	r := vhC15Compare(c, s0)
	r.view = true
	vAssert("C15.view.only_view_changes", r.all())
}

func VH_C15_view_rotate_Q() {
	rec := &vhC15Rec{w: 200, h: 100}
	c := NewContext(rec)
	about := vChoose(0, 1) == 1
	mode := vChoose(0, 1+vTier())
	srot, sp := mode == 0 || mode == 2, mode == 1 || mode == 2
	view := vhC07M(mode == 2)
	rot := vhC07Rot(srot)
	p := vhC07P(sp)
	ctr := Point{}
	if about {
		ctr = vhC07P(sp)
	}
	c.SetView(view)
	s, cs := math.Sincos(rot * math.Pi / 180.0)
	if about {
		c.RotateAbout(rot, ctr.X, ctr.Y)
	} else {
		c.Rotate(rot)
	}
	dx, dy := p.X-ctr.X, p.Y-ctr.Y
	exp := view.Dot(Point{ctr.X + cs*dx - s*dy, ctr.Y + s*dx + cs*dy})
	got := c.View().Dot(p)
	vAssert("C15.view.rotate_post_multiplies", vhC07PtSame(got, exp, srot))
}

// ---------------------------------------------------------------------------------------------
// H3 draw matrix per coordinate system

// vhC15CSV: the documented meaning of the coordinate systems on a W x H target whose own system
// is Cartesian I (origin bottom-left): II origin bottom-right, III top-right, IV top-left.
func vhC15CSV(cs CoordSystem, w, h float64, p Point) Point {
	switch cs {
	case CartesianII:
		return Point{w - p.X, p.Y}
	case CartesianIII:
		return Point{w - p.X, h - p.Y}
	case CartesianIV:
		return Point{p.X, h - p.Y}
	}
	return p
}

func VH_C15_drawpath_matrix_Q() {
	w, h := vhReal(), vhReal()
	vAssume(w > 0 && h > 0)
	rec := &vhC15Rec{w: w, h: h}
	c := NewContext(rec)
	cs := CoordSystem(vChoose(0, 3))
	// one of view / coordView / (position and point) symbolic, thorough: all
	sv, sc, sp := vhC07Mode()
	view, coordView := vhC07M(sv), vhC07M(sc)
	pos, p := Point{3, -2}, Point{}
	if sp {
		pos, p = vhC07P(true), vhC07P(true)
	} else {
		p = vhC07P(sc)
	}
	c.SetCoordSystem(cs)
	c.SetView(view)
	c.SetCoordView(coordView)
	path := vhC15LinePath()
	path2 := vhC15LinePath().Translate(1, 1)
	npaths := 1
	if sp {
		npaths = vChoose(1, 2)
	}
	s0 := vhC15Snapshot(c)
	if npaths == 1 {
		c.DrawPath(pos.X, pos.Y, path)
	} else {
		c.DrawPath(pos.X, pos.Y, path, path2)
	}
	vAssert("C15.drawpath.one_call_per_path", len(rec.calls) == npaths)
	if len(rec.calls) != npaths {
		return
	}
	vAssert("C15.drawpath.state_unchanged", vhC15Compare(c, s0).all())
	cp := coordView.Dot(pos)
	exp := vhC15CSV(cs, w, h, view.Dot(Point{cp.X + p.X, cp.Y + p.Y}))
	okM, okP, okS := true, true, true
	for k, call := range rec.calls {
		got := call.m.Dot(p)
		okM = okM && got.X == exp.X && got.Y == exp.Y
		src := path
		if k == 1 {
			src = path2
		}
		okP = okP && call.kind == 0 && call.path == src && vhSameData(call.data, src.d)
		okS = okS && vhC15PaintEq(call.style.Fill, s0.st.Style.Fill) && vhC15PaintEq(call.style.Stroke, s0.st.Style.Stroke) &&
			call.style.StrokeWidth == s0.st.Style.StrokeWidth && call.style.FillRule == s0.st.Style.FillRule && len(call.dashes) == 0
	}
	vAssert("C15.drawpath.matrix", okM)
	vAssert("C15.drawpath.path_passed", okP)
	vAssert("C15.drawpath.style_passed", okS)
}

// nothing is rendered without fill and stroke
func VH_C15_drawpath_nopaint_Q() {
	rec := &vhC15Rec{w: 200, h: 100}
	c := NewContext(rec)
	c.SetFill(nil)
	sw := vhReal()
	if vChoose(0, 1) == 1 {
		// a stroke paint with non-positive width is no stroke
		c.SetStrokeColor(Black)
		vAssume(sw <= 0)
	}
	c.SetStrokeWidth(sw)
	c.DrawPath(vhReal(), vhReal(), vhC15LinePath())
	vAssert("C15.drawpath.nothing_without_paint", len(rec.calls) == 0)
}

func vhC15Det(m Matrix) float64 { return m[0][0]*m[1][1] - m[0][1]*m[1][0] }

// DrawText / DrawImage: the object's origin is placed at CSV.view.(coordView.(x,y)) and the flip
// of the coordinate system is compensated (orientation, i.e. the sign of the determinant of the
// linear part, is that of the view; with an axis-parallel view the linear part is the view's).
func VH_C15_drawtext_image_Q() {
	w, h := vhReal(), vhReal()
	vAssume(w > 0 && h > 0)
	rec := &vhC15Rec{w: w, h: h}
	c := NewContext(rec)
	cs := CoordSystem(vChoose(0, 3))
	symView := vChoose(0, 1) == 1
	view := vhC07M(symView)
	pos := vhC07P(!symView)
	c.SetCoordSystem(cs)
	c.SetView(view)
	origin := vhC15CSV(cs, w, h, view.Dot(pos))
	diag := view[0][1] == 0 && view[1][0] == 0
	if vChoose(0, 1) == 0 {
		txt := &Text{lines: []line{{y: 0, spans: []TextSpan{{Text: "a", Width: 1}}}}}
		c.DrawText(pos.X, pos.Y, txt)
		vAssert("C15.drawtext.one_call", len(rec.calls) == 1 && rec.calls[0].kind == 1 && rec.calls[0].text == txt)
		if len(rec.calls) != 1 {
			return
		}
		m := rec.calls[0].m
		o := m.Dot(Point{})
		vAssert("C15.drawtext.origin", o.X == origin.X && o.Y == origin.Y)
		vAssert("C15.drawtext.orientation_kept", vhC15Det(m) == vhC15Det(view))
		if diag {
			vAssert("C15.drawtext.upright", m[0][0] == view[0][0] && m[1][1] == view[1][1] && m[0][1] == 0 && m[1][0] == 0)
		}
	} else {
		img := image.NewRGBA(image.Rect(0, 0, 4, 2))
		c.DrawImage(pos.X, pos.Y, img, DPMM(2.0))
		vAssert("C15.drawimage.one_call", len(rec.calls) == 1 && rec.calls[0].kind == 2)
		if len(rec.calls) != 1 {
			return
		}
		m := rec.calls[0].m
		// the image occupies [x, x+4/2] x [y, y+2/2] in the user's coordinate system: its centre
		ctr := m.Dot(Point{2, 1})
		ectr := vhC15CSV(cs, w, h, view.Dot(Point{pos.X + 1, pos.Y + 0.5}))
		vAssert("C15.drawimage.position", ctr.X == ectr.X && ctr.Y == ectr.Y)
		vAssert("C15.drawimage.orientation_kept", vhC15Det(m)*4 == vhC15Det(view))
		if diag {
			vAssert("C15.drawimage.upright", m[0][0]*2 == view[0][0] && m[1][1]*2 == view[1][1] && m[0][1] == 0 && m[1][0] == 0)
		}
	}
}

// ---------------------------------------------------------------------------------------------
// H4 replay order

func vhC15TagPath(k int) *Path {
	p := &Path{}
	p.MoveTo(float64(k), 0)
	p.LineTo(float64(k)+1, 1)
	return p
}

// n draws (paths, a text, an image) under z-indices from {-1, 0, 2} in every order are replayed
// in ascending z-index, then drawing order, with view.Mul(recorded matrix) and the recorded style.
func VH_C15_replay_order_Q() {
	n := 3 + vTier()
	cv := New(200, 100)
	c := NewContext(cv)
	view := vhC15Mat(vhC15Args())
	zs := make([]int, n)
	kinds := make([]int, n)
	ms := make([]Matrix, n)
	txt := &Text{lines: []line{{y: 0, spans: []TextSpan{{Text: "a", Width: 1}}}}}
	img := image.NewRGBA(image.Rect(0, 0, 4, 2))
	probe := &vhC15Rec{w: 200, h: 100}
	pc := NewContext(probe)
	for k := 0; k < n; k++ {
		zs[k] = []int{-1, 0, 2}[vChoose(0, 2)]
		if k == 1 {
			kinds[k] = vChoose(0, 2)
		}
		c.SetZIndex(zs[k])
		c.SetFillColor(color.RGBA{uint8(k + 1), 0, 0, 255})
		c.Translate(float64(k)+0.5, 2)
		pc.Translate(float64(k)+0.5, 2)
		switch kinds[k] {
		case 0:
			c.DrawPath(float64(k), 1, vhC15TagPath(k))
			pc.DrawPath(float64(k), 1, vhC15TagPath(k))
		case 1:
			c.DrawText(float64(k), 1, txt)
			pc.DrawText(float64(k), 1, txt)
		case 2:
			c.DrawImage(float64(k), 1, img, DPMM(1.0))
			pc.DrawImage(float64(k), 1, img, DPMM(1.0))
		}
		// the matrix the draw hands to a plain renderer (its composition is the subject of H3)
		ms[k] = probe.calls[k].m
	}
	// expected order: stable by z
	var order []int
	for _, z := range []int{-1, 0, 2} {
		for k := 0; k < n; k++ {
			if zs[k] == z {
				order = append(order, k)
			}
		}
	}
	rec := &vhC15Rec{w: 200, h: 100}
	cv.RenderViewTo(rec, view)
	vAssert("C15.replay.count", len(rec.calls) == n)
	if len(rec.calls) != n {
		return
	}
	okKind, okM, okContent := true, true, true
	for i, k := range order {
		call := rec.calls[i]
		okKind = okKind && call.kind == kinds[k]
		okM = okM && vhC07MatEq(call.m, view.Mul(ms[k]))
		switch kinds[k] {
		case 0:
			okContent = okContent && vhSameData(call.data, vhC15TagPath(k).d) && call.style.Fill.Color == color.RGBA{uint8(k + 1), 0, 0, 255}
		case 1:
			okContent = okContent && call.text == txt
		case 2:
			okContent = okContent && call.img == image.Image(img)
		}
	}
	vAssert("C15.replay.order_and_kind", okKind)
	vAssert("C15.replay.matrix", okM)
	vAssert("C15.replay.content", okContent)
	// replaying does not consume the canvas: a second replay gives the same calls
	rec2 := &vhC15Rec{w: 200, h: 100}
	cv.RenderTo(rec2)
	ok2 := len(rec2.calls) == n
	if ok2 {
		for i, k := range order {
			ok2 = ok2 && rec2.calls[i].kind == kinds[k] && vhC07MatEq(rec2.calls[i].m, ms[k])
		}
	}
	vAssert("C15.replay.renderto_identity_view", ok2)
}

// ---------------------------------------------------------------------------------------------
// H5 Canvas.Transform / Clip / Fit on rectangle layers

// vhC15LayerMat: mode 0 symbolic translation and axis scale (|s| >= 1/8, either sign); mode 1 a
// concrete invertible linear part (rotation, shear, reflection, ...) with symbolic translation.
func vhC15LayerMat(mode int) Matrix {
	if mode == 0 {
		sx, sy := vhReal(), vhReal()
		vAssume((sx >= 0.125 || sx <= -0.125) && (sy >= 0.125 || sy <= -0.125))
		return Matrix{{sx, 0, vhReal()}, {0, sy, vhReal()}}
	}
	m := vhC07Mat(vChoose(0, vhC07NMat-1))
	m[0][2], m[1][2] = vhReal(), vhReal()
	return m
}

var vhC15Corners = [4]Point{{0, 0}, {10, 0}, {10, 5}, {0, 5}}

func vhC15RectLayers(nl, mode int) (*Canvas, [2]Matrix) {
	var ms [2]Matrix
	for k := 0; k < nl; k++ {
		ms[k] = vhC15LayerMat(mode)
	}
	cv := New(200, 100)
	c := NewContext(cv)
	for k := 0; k < nl; k++ {
		c.SetZIndex(1 - k)
		c.SetView(ms[k])
		c.DrawPath(0, 0, Rectangle(10, 5))
	}
	// replay order is by z-index: layer 1 (z=0) before layer 0 (z=1)
	if nl == 2 {
		ms[0], ms[1] = ms[1], ms[0]
	}
	return cv, ms
}

func VH_C15_transform_clip_Q() {
	nl := vChoose(1, 2)
	mode := vChoose(0, 1)
	t := vhC15Mat(vhC15Args())
	clip := Rect{vhReal(), vhReal(), vhReal(), vhReal()}
	vAssume(clip.X0 <= clip.X1 && clip.Y0 <= clip.Y1)
	p := vhC07Pt(vChoose(0, 4))
	cv, ms := vhC15RectLayers(nl, mode)
	if vChoose(0, 1) == 0 {
		cv.Transform(t)
		rec := &vhC15Rec{}
		cv.RenderTo(rec)
		ok := len(rec.calls) == nl
		if ok {
			for k := 0; k < nl; k++ {
				got, exp := rec.calls[k].m.Dot(p), t.Dot(ms[k].Dot(p))
				ok = ok && got.X == exp.X && got.Y == exp.Y
			}
		}
		vAssert("C15.canvas.transform_moves_all_layers", ok)
		vAssert("C15.canvas.transform_keeps_size", cv.W == 200 && cv.H == 100)
	} else {
		cv.Clip(clip)
		rec := &vhC15Rec{}
		cv.RenderTo(rec)
		ok := len(rec.calls) == nl
		if ok {
			for k := 0; k < nl; k++ {
				got, exp := rec.calls[k].m.Dot(p), ms[k].Dot(p)
				ok = ok && got.X == exp.X-clip.X0 && got.Y == exp.Y-clip.Y0
			}
		}
		vAssert("C15.canvas.clip_moves_origin", ok)
		vAssert("C15.canvas.clip_size", cv.W == clip.X1-clip.X0 && cv.H == clip.Y1-clip.Y0)
	}
}

// After Fit(margin) every corner of every (filled, unstroked) rectangle layer lies within
// [margin, W-margin] x [margin, H-margin] and each side is touched.
func VH_C15_fit_Q() {
	nl := vChoose(1, 2)
	mode := vChoose(0, 1)
	margin := vhReal()
	vAssume(margin >= 0)
	cv, _ := vhC15RectLayers(nl, mode)
	cv.Fit(margin)
	rec := &vhC15Rec{}
	cv.RenderTo(rec)
	vAssert("C15.canvas.fit_keeps_layers", len(rec.calls) == nl)
	if len(rec.calls) != nl {
		return
	}
	in := true
	tl, tr, tb, tt := false, false, false, false
	for k := 0; k < nl; k++ {
		for _, q := range vhC15Corners {
			e := rec.calls[k].m.Dot(q)
			in = in && margin-1e-9 <= e.X && e.X <= cv.W-margin+1e-9 && margin-1e-9 <= e.Y && e.Y <= cv.H-margin+1e-9
			tl = tl || vhC07Near(e.X, margin)
			tr = tr || vhC07Near(e.X, cv.W-margin)
			tb = tb || vhC07Near(e.Y, margin)
			tt = tt || vhC07Near(e.Y, cv.H-margin)
		}
	}
	vAssert("C15.canvas.fit_content_inside_margin", in)
	vAssert("C15.canvas.fit_tight", tl && tr && tb && tt)
}

// H3c FitImage: the image, drawn through the matrix handed to the renderer, relates to the
// rectangle as the strategy says.  Image sizes from a set (landscape, portrait, square), rectangle
// from a table of sizes at a symbolic position, coordinate system I and IV, identity view.
//   ImageFill:    the image box is the rectangle.
//   ImageContain: the image box lies inside the rectangle, shares its centre, keeps the image's
//                 aspect ratio and touches the rectangle in at least one dimension.
//   ImageCover:   the (centrally cropped) image box is the rectangle; the crop is symmetric, in one
//                 dimension only, keeps everything that belongs into the rectangle and less than
//                 one pixel more on either side.
func VH_C15_fitimage_Q() {
	sizes := [][2]int{{4, 2}, {2, 4}, {3, 3}, {8, 2}}
	sz := sizes[vChoose(0, len(sizes)-1)]
	img := image.NewRGBA(image.Rect(0, 0, sz[0], sz[1]))
	iw, ih := float64(sz[0]), float64(sz[1])
	rx, ry := vhReal(), vhReal()
	// the rectangle's size comes from a table (with a symbolic size the resolutions are quotients of
	// unknowns and the crop a symbolic slice bound); its position is symbolic
	rsizes := [][2]float64{{8, 2}, {2, 8}, {5, 5}, {6, 3}, {3, 7.5}, {7, 1.5}}
	rs := rsizes[vChoose(0, len(rsizes)-1)]
	rw, rh := rs[0], rs[1]
	rect := Rect{rx, ry, rx + rw, ry + rh}
	fit := []ImageFit{ImageFill, ImageContain, ImageCover}[vChoose(0, 2)]
	cs := []CoordSystem{CartesianI, CartesianIV}[vChoose(0, 1)]
	W, H := 40.0, 30.0
	rec := &vhC15Rec{w: W, h: H}
	c := NewContext(rec)
	c.SetCoordSystem(cs)
	c.FitImage(img, rect, fit)
	vAssert("C15.fitimage.one_call", len(rec.calls) == 1 && rec.calls[0].kind == 2)
	if len(rec.calls) != 1 {
		return
	}
	m := rec.calls[0].m
	sub := rec.calls[0].img.Bounds().Size()
	sw, sh := float64(sub.X), float64(sub.Y)
	a, b := m.Dot(Point{0, 0}), m.Dot(Point{sw, sh})
	bx0, bx1 := math.Min(a.X, b.X), math.Max(a.X, b.X)
	by0, by1 := math.Min(a.Y, b.Y), math.Max(a.Y, b.Y)
	// the rectangle in the target's own (Cartesian I) system
	ex0, ex1 := rect.X0, rect.X1
	ey0, ey1 := rect.Y0, rect.Y1
	if cs == CartesianIV {
		ey0, ey1 = H-rect.Y1, H-rect.Y0
	}
	near := func(p, q float64) bool { return p-q <= 1e-9 && q-p <= 1e-9 }
	switch fit {
	case ImageFill:
		vAssert("C15.fitimage.fill_is_the_rectangle", near(bx0, ex0) && near(bx1, ex1) && near(by0, ey0) && near(by1, ey1) && sub.X == sz[0] && sub.Y == sz[1])
	case ImageContain:
		inside := bx0 >= ex0-1e-9 && bx1 <= ex1+1e-9 && by0 >= ey0-1e-9 && by1 <= ey1+1e-9
		centred := near(bx0+bx1, ex0+ex1) && near(by0+by1, ey0+ey1)
		aspect := near((bx1-bx0)*ih, (by1-by0)*iw)
		touches := near(bx1-bx0, rw) || near(by1-by0, rh)
		vAssert("C15.fitimage.contain", inside && centred && aspect && touches && sub.X == sz[0] && sub.Y == sz[1])
	case ImageCover:
		isRect := near(bx0, ex0) && near(bx1, ex1) && near(by0, ey0) && near(by1, ey1)
		// symmetric crop of whole pixels in one dimension only
		cropX, cropY := sz[0]-sub.X, sz[1]-sub.Y
		crop := cropX >= 0 && cropY >= 0 && cropX%2 == 0 && cropY%2 == 0 && (cropX == 0 || cropY == 0)
		// the crop keeps at least the part of the image that belongs into the rectangle and less
		// than one pixel more on either side (whole pixels are cropped)
		aspect := true
		if iw*rh > ih*rw { // the image is relatively wider: cropped in x
			ideal := ih * rw / rh
			aspect = sh == ih && sw >= ideal-1e-9 && sw < ideal+2
		} else if iw*rh < ih*rw {
			ideal := iw * rh / rw
			aspect = sw == iw && sh >= ideal-1e-9 && sh < ideal+2
		} else {
			aspect = sw == iw && sh == ih
		}
		vAssert("C15.fitimage.cover", isRect && crop && aspect)
	}
}

// H3d DrawPath and dashes: the Context decides per path whether the dash pattern matters (solid,
// nothing, dashed) before it hands the style to the renderer.  Renderers measure the pattern in
// units of the stroke width (ScaleDash(StrokeWidth, ...), as the rasterizer does), so the decision
// has to be taken for the scaled pattern: for a line of length L drawn with stroke width w and
// pattern d, "solid" is right only if every position of (0,L) is drawn by the pattern w*d shifted
// by w*offset, "no stroke" only if none is, and a pattern that is handed on must be equivalent to d.
// Line length, width, two pattern entries and the offset symbolic (multiples of 1/4).
func VH_C15_drawpath_dashes_Q() {
	vStub("math.Mod", vhModBounded)
	vStub("math.Hypot", vhHypotQ)
	w := []float64{0.25, 0.5, 1, 2, 4}[vChoose(0, 4)]
	a, b := vNondetDyadic(6, 2), vNondetDyadic(6, 2)
	vAssume(0.25 <= a && a <= 6 && 0.25 <= b && b <= 6)
	off := vNondetDyadic(7, 2)
	vAssume(0 <= off && off <= 2*(a+b))
	L := vNondetDyadic(7, 2)
	vAssume(0.25 <= L && L <= 12)
	rec := &vhC15Rec{w: 100, h: 100}
	c := NewContext(rec)
	c.SetFillColor(Transparent)
	c.SetStrokeColor(Black)
	c.SetStrokeWidth(w)
	c.SetDashes(off, a, b)
	p := &Path{}
	p.d = []float64{MoveToCmd, 0, 0, MoveToCmd, LineToCmd, L, 0, LineToCmd}
	c.DrawPath(1, 2, p)
	x := vNondetF64()
	vAssume(0 < x && x < L)
	// general position: not within 1e-6 of a boundary of the scaled pattern
	gp := true
	for k := -1; k <= 8; k++ {
		base := (float64(k)*(a+b) - off) * w
		gp = gp && (x-base >= 1e-6 || base-x >= 1e-6) && (x-(base+a*w) >= 1e-6 || (base+a*w)-x >= 1e-6)
	}
	vAssume(gp && L <= 8*(a+b)*w)
	want := vhOnPattern(off*w, []float64{a * w, b * w}, x)
	if len(rec.calls) == 0 {
		vAssert("C15.dashes.nothing_only_if_nothing_drawn", !want)
		return
	}
	st := rec.calls[0].style
	switch {
	case !st.HasStroke():
		vAssert("C15.dashes.nothing_only_if_nothing_drawn", !want)
	case len(rec.calls[0].dashes) == 0:
		vAssert("C15.dashes.solid_only_if_all_drawn", want)
	default:
		d := rec.calls[0].dashes
		sd := make([]float64, len(d))
		for i := range d {
			sd[i] = d[i] * w
		}
		vAssert("C15.dashes.kept_pattern_equivalent", vhOnPattern(st.DashOffset*w, sd, x) == want)
	}
}

// H3e several paths in one DrawPath call: the solid/nothing/dashed decision of one path must not
// leak into the next one.  A short line that lies in a gap of the pattern (no stroke) followed by a
// long line (dashed), and the other way round; offset symbolic inside the gap.
func VH_C15_drawpath_dashes_two_Q() {
	vStub("math.Mod", vhModBounded)
	vStub("math.Hypot", vhHypotQ)
	off := vNondetDyadic(6, 2)
	vAssume(4.25 <= off && off <= 6) // pattern 4 on, 4 off: the path starts inside the gap
	rec := &vhC15Rec{w: 100, h: 100}
	c := NewContext(rec)
	c.SetFillColor(Transparent)
	c.SetStrokeColor(Black)
	c.SetStrokeWidth(1)
	c.SetDashes(off, 4, 4)
	short := &Path{}
	short.d = []float64{MoveToCmd, 0, 0, MoveToCmd, LineToCmd, 1, 0, LineToCmd} // ends before the gap ends (off+1 <= 8 needs off <= 7)
	long := &Path{}
	long.d = []float64{MoveToCmd, 0, 5, MoveToCmd, LineToCmd, 30, 5, LineToCmd}
	if vChoose(0, 1) == 0 {
		c.DrawPath(0, 0, short, long)
		// only the long one is drawn (a draw without fill and stroke is dropped) or the short one
		// arrives without stroke
		var longCall *vhC15Call
		for i := range rec.calls {
			if rec.calls[i].path == long {
				longCall = &rec.calls[i]
			}
		}
		vAssert("C15.dashes.two.long_path_still_stroked", longCall != nil && longCall.style.HasStroke() && len(longCall.dashes) == 2)
	} else {
		c.DrawPath(0, 0, long, short)
		ok := len(rec.calls) >= 1 && rec.calls[0].path == long && rec.calls[0].style.HasStroke() && len(rec.calls[0].dashes) == 2
		for i := range rec.calls {
			if rec.calls[i].path == short {
				ok = ok && !rec.calls[i].style.HasStroke()
			}
		}
		vAssert("C15.dashes.two.each_path_its_own_decision", ok)
	}
}

// H3f the immediate-mode helpers Fill / Stroke / FillStroke: the current path is drawn once with
// only the requested paints, the style of the context is as before, and the current path starts
// anew.
func VH_C15_fill_stroke_helpers_Q() {
	vStub("math.Hypot", vhHypotQ)
	rec := &vhC15Rec{w: 100, h: 100}
	c := NewContext(rec)
	x, y := vhReal(), vhReal()
	vAssume(x >= 0.01 || x <= -0.01 || y >= 0.01 || y <= -0.01)
	vAssume(5*x-3*y >= 0.1 || 5*x-3*y <= -0.1) // the two lines are not collinear (they would be merged)
	c.SetFillColor(Red)
	c.SetStrokeColor(Blue)
	c.SetStrokeWidth(2)
	c.MoveTo(0, 0)
	c.LineTo(x, y)
	c.LineTo(x+3, y+5)
	c.Close()
	s0 := vhC15Snapshot(c)
	which := vChoose(0, 2)
	switch which {
	case 0:
		c.Fill()
	case 1:
		c.Stroke()
	default:
		c.FillStroke()
	}
	vAssert("C15.helpers.state_unchanged", vhC15Compare(c, s0).all())
	vAssert("C15.helpers.one_draw", len(rec.calls) == 1 && rec.calls[0].kind == 0)
	if len(rec.calls) != 1 {
		return
	}
	st := rec.calls[0].style
	vAssert("C15.helpers.paints", st.HasFill() == (which != 1) && st.HasStroke() == (which != 0) &&
		(!st.HasFill() || st.Fill.Color == Red) && (!st.HasStroke() || (st.Stroke.Color == Blue && st.StrokeWidth == 2)))
	subs, ok := vhDecode(rec.calls[0].data)
	vAssert("C15.helpers.path_drawn", ok && len(subs) == 1 && subs[0].closed && len(subs[0].segs) >= 2 && vhPtEq(subs[0].start, Point{0, 0}))
	// the current path starts anew: what a further helper call draws is empty
	c.FillStroke()
	empty := true
	for _, call := range rec.calls[1:] {
		empty = empty && len(call.data) == 0
	}
	vAssert("C15.helpers.path_reset", empty)
}
