package canvas

import "math"

// C10-H6: Split returns subpaths that cannot overwrite their neighbours (cap == len), cover the
// data exactly, and leave the receiver untouched even when the caller appends to a piece.
func VH_C10_split_Q() {
	p := &Path{}
	nsub := vChoose(1, 2+vTier())
	for s := 0; s < nsub; s++ {
		nseg := vChoose(0, 1+vTier())
		if s < nsub-1 && nseg == 0 {
			nseg = 1
		}
		vhRawSubpath(p, vhReal, vhChooseKinds(nseg, []int{vhLine, vhQuad}), vChoose(0, 1)*boolToInt(nseg > 0))
	}
	vAssume(vhWF(p))
	before := vhCopyData(p.d)
	ps := p.Split()
	total := 0
	capOK := true
	for _, q := range ps {
		capOK = capOK && cap(q.d) == len(q.d)
		total += len(q.d)
	}
	vAssert("C10.split.cap_limited", capOK)
	// pieces tile the data (a trailing lone MoveTo is dropped)
	subs, _ := vhDecode(before)
	want := 0
	for _, s := range subs {
		if len(s.segs) > 0 {
			want++
		}
	}
	vAssert("C10.split.count", len(ps) == want)
	// the caller appends to every piece: the receiver's data outside that piece and all sibling
	// pieces must stay as they are (in-place edits inside the piece's own range are aliasing by
	// design and not demanded here)
	snap := make([][]float64, len(ps))
	starts := make([]int, len(ps))
	off := 0
	for i, q := range ps {
		snap[i] = vhCopyData(q.d)
		starts[i] = off
		off += len(q.d)
	}
	for i, q := range ps {
		n0 := len(q.d)
		q.d = append(q.d, LineToCmd, vhReal(), vhReal(), LineToCmd)
		q.d = append(q.d, CloseCmd, q.d[1], q.d[2], CloseCmd)
		good := true
		for j, r := range ps {
			if j != i {
				good = good && vhSameData(r.d, snap[j])
			}
		}
		vAssert("C10.split.sibling_unchanged", good)
		outside := true
		for k := range before {
			if k < starts[i] || k >= starts[i]+n0 {
				outside = outside && p.d[k] == before[k]
			}
		}
		vAssert("C10.split.receiver_outside_piece_unchanged", outside)
		snap[i] = vhCopyData(q.d)
	}
}

func boolToInt(b bool) int {
	if b {
		return 1
	}
	return 0
}

// C10-H3: Join/Append one step: p well-formed (last subpath open or closed), q well-formed with
// one or two subpaths (the second possibly closed).  Post: structurally well-formed, every Close
// record carries the start of its own subpath, q unchanged, p's earlier records unchanged.
func VH_C10_join_Q() {
	vStub("math.Hypot", vhHypotQ)
	vStub("math.Atan2", vhAtan2Sign)
	// p concrete (keeps LineTo's collinearity test linear), q symbolic
	p := &Path{}
	switch vChoose(0, 3) {
	case 0:
		p.d = []float64{MoveToCmd, 0, 0, MoveToCmd, LineToCmd, 4, 0, LineToCmd}
	case 1:
		p.d = []float64{MoveToCmd, 0, 0, MoveToCmd, LineToCmd, 4, 0, LineToCmd, LineToCmd, 4, 3, LineToCmd}
	case 2:
		p.d = []float64{MoveToCmd, 0, 0, MoveToCmd, QuadToCmd, 2, 2, 4, 0, QuadToCmd}
	case 3:
		p.d = []float64{MoveToCmd, 0, 0, MoveToCmd, LineToCmd, 4, 0, LineToCmd, LineToCmd, 4, 3, LineToCmd, CloseCmd, 0, 0, CloseCmd}
	}
	q := &Path{}
	nq := vChoose(1, 2)
	// first subpath of q: a line, optionally followed by a cubic, open or closed; second
	// subpath: two lines or one cubic, open or closed
	if vChoose(0, 1) == 0 {
		vhRawSubpath(q, vhReal, []int{vhLine}, vChoose(0, 1))
	} else {
		vhRawSubpath(q, vhReal, []int{vhLine, vhCube}, vChoose(0, 1))
	}
	if nq == 2 {
		if vChoose(0, 1) == 0 {
			vhRawSubpath(q, vhReal, []int{vhLine, vhLine}, vChoose(0, 1))
		} else {
			vhRawSubpath(q, vhReal, []int{vhCube}, vChoose(0, 1))
		}
	}
	vAssume(vhWF(q))
	// the interesting case: q starts where p ends (a real join) - or not (fallback to append)
	forced := vChoose(0, 1) == 1
	if forced {
		ex, ey := p.d[len(p.d)-3], p.d[len(p.d)-2]
		q.d[1], q.d[2] = ex, ey
		// keep the Close record of q's first subpath pointing at its (new) start
		for _, o := range vhRecords(q.d)[1:] {
			if q.d[o] == MoveToCmd {
				break
			}
			if q.d[o] == CloseCmd {
				q.d[o+1], q.d[o+2] = ex, ey
			}
		}
		vAssume(vhWF(q))
	} else {
		// general position: a free q does not start within 1e-6 of p's end (the Equal() boundary
		// cannot be reproduced exactly in floating point)
		vAssume(math.Abs(q.d[1]-p.d[len(p.d)-3]) > 1e-6 || math.Abs(q.d[2]-p.d[len(p.d)-2]) > 1e-6)
	}
	joined := forced && p.d[len(p.d)-1] != CloseCmd
	pStart := p.StartPos()
	pre := vhCopyData(p.d)
	qBefore := vhCopyData(q.d)
	r := p.Join(q)
	vAssert("C10.join.struct_wf", vhStructWF(r))
	vAssert("C10.join.arg_unchanged", vhSameData(q.d, qBefore))
	// all records of p except the last are unchanged in the result
	offs := vhRecords(pre)
	keep := offs[len(offs)-1]
	same := len(r.d) >= keep
	if same {
		for i := 0; i < keep; i++ {
			same = same && r.d[i] == pre[i]
		}
	}
	vAssert("C10.join.prefix_unchanged", same)
	// the pen ends where q ends; closedness of the result = closedness of q
	// zero-length commands may be dropped: the pen is within a few Epsilon of the requested end
	// "like executing the commands of q on p": a Close in q's first subpath closes p's subpath
	wantPos := q.Pos()
	if joined && nq == 1 && q.Closed() {
		wantPos = pStart
	}
	vAssert("C10.join.end", vhNearPt(r.Pos(), wantPos))
	vAssert("C10.join.closed", r.Closed() == q.Closed())
	// a Close of q's first subpath that was joined returns to the start of p's subpath
	if joined {
		subs, _ := vhDecode(r.d)
		good := true
		for _, sb := range subs {
			if sb.closed {
				good = good && sb.segs[len(sb.segs)-1].end.Equals(sb.start)
			}
		}
		vAssert("C10.join.close_targets_own_subpath", good)
	}
	// every later subpath of q arrives unchanged (same records) at the tail of the result
	if nq == 2 {
		qoffs := vhRecords(qBefore)
		// find the second MoveTo of q
		second := 0
		for _, o := range qoffs[1:] {
			if qBefore[o] == MoveToCmd {
				second = o
			}
		}
		tail := qBefore[second:]
		ok := len(r.d) >= len(tail)
		if ok {
			got := r.d[len(r.d)-len(tail):]
			for i := range tail {
				ok = ok && got[i] == tail[i]
			}
		}
		vAssert("C10.join.later_subpaths_verbatim", ok)
	}
}

// Append: plain concatenation, arguments unchanged; a receiver that is empty or holds only a
// MoveTo is replaced (no MoveTo directly after a MoveTo), and an empty accumulator can be reused:
// an earlier result is not changed by a later Append on the same empty receiver.
func VH_C10_append_Q() {
	p := &Path{}
	switch vChoose(0, 2) {
	case 1:
		vhRawSubpath(p, vhReal, vhChooseKinds(vChoose(1, 2), []int{vhLine, vhArc}), vChoose(0, 1))
		vAssume(vhWF(p))
	case 2:
		p.d = append(p.d, MoveToCmd, vhReal(), vhReal(), MoveToCmd) // a lone MoveTo
	}
	q := &Path{}
	vhRawSubpath(q, vhReal, vhChooseKinds(vChoose(0, 2), []int{vhLine, vhCube}), 0)
	vAssume(vhWF(q))
	pre := vhCopyData(p.d)
	qBefore := vhCopyData(q.d)
	r := p.Append(q)
	vAssert("C10.append.arg_unchanged", vhSameData(q.d, qBefore))
	vAssert("C10.append.struct_wf", vhStructWF(r))
	// no MoveTo directly followed by a MoveTo
	noDouble := true
	offs := vhRecords(r.d)
	for k := 0; k+1 < len(offs); k++ {
		noDouble = noDouble && !(r.d[offs[k]] == MoveToCmd && r.d[offs[k+1]] == MoveToCmd)
	}
	vAssert("C10.append.no_double_moveto", noDouble)
	if len(qBefore) > 4 {
		want := append(vhCopyData(pre), qBefore...)
		if len(pre) <= 4 {
			want = qBefore // an empty/MoveTo-only receiver is replaced
		}
		vAssert("C10.append.concat", vhSameData(r.d, want))
	}
	// reuse of an empty accumulator
	if len(pre) == 0 && len(qBefore) > 4 {
		first := vhCopyData(r.d)
		q2 := &Path{}
		vhRawSubpath(q2, vhReal, []int{vhLine}, 0)
		p.Append(q2)
		vAssert("C10.append.earlier_result_unchanged", vhSameData(r.d, first))
		vAssert("C10.append.empty_receiver_stays_empty", len(p.d) == 0)
	}
}
