package canvas

import "math"

// C10-H2: one-step induction for the path builders.  Pre-state: any well-formed path (see
// vhPreState) with rational coordinates; one builder call with arbitrary rational arguments.
// Post: structurally well-formed, earlier records untouched, and the pen is at the requested
// point unless the segment was dropped as zero-length.

func vhCheckStep(name string, pre []float64, p *Path, req Point, kind int) {
	vAssert("C10."+name+".struct_wf", vhStructWF(p))
	// every record of the pre-state except its last is unchanged
	offs := vhRecords(pre)
	keep := 0
	if len(offs) > 0 {
		keep = offs[len(offs)-1]
	}
	same := len(p.d) >= keep
	if same {
		for i := 0; i < keep; i++ {
			same = same && p.d[i] == pre[i]
		}
	}
	vAssert("C10."+name+".prefix_unchanged", same)
	// at most MoveTo + one segment are appended
	vAssert("C10."+name+".growth", len(p.d) <= len(pre)+4+8)
	if kind >= 0 {
		start := Point{}
		if len(pre) > 0 {
			start = Point{pre[len(pre)-3], pre[len(pre)-2]}
		}
		pos := p.Pos()
		dropped := vhSameData(p.d, pre)
		if dropped {
			vAssert("C10."+name+".dropped_only_if_zero_length", start.Equals(req))
		} else {
			vAssert("C10."+name+".pen_at_requested_point", vhPtEq(pos, req))
		}
	}
}

func VH_C10_step_moveto_Q() {
	p := vhPreState(vhReal, 2, []int{vhLine, vhQuad, vhCube, vhArc})
	pre := vhCopyData(p.d)
	x, y := vNondetF64(), vNondetF64()
	p.MoveTo(x, y)
	vhCheckStep("moveto", pre, p, Point{x, y}, -1)
	vAssert("C10.moveto.pen", vhPtEq(p.Pos(), Point{x, y}) && vhPtEq(p.StartPos(), Point{x, y}))
	vAssert("C10.moveto.no_double_move", len(p.d) < 8 || p.d[len(p.d)-5] != MoveToCmd)
}

func VH_C10_step_lineto_Q() {
	vStub("math.Hypot", vhHypotQ)
	p := vhPreState(vhReal, 2, []int{vhLine, vhQuad, vhCube, vhArc})
	pre := vhCopyData(p.d)
	x, y := vNondetF64(), vNondetF64()
	p.LineTo(x, y)
	vhCheckStep("lineto", pre, p, Point{x, y}, vhLine)
	vAssert("C10.lineto.last_is_line_or_unchanged", vhSameData(p.d, pre) || p.d[len(p.d)-1] == LineToCmd)
	// the new last line segment is not zero-length
	if !vhSameData(p.d, pre) {
		subs, _ := vhDecode(p.d)
		last := subs[len(subs)-1]
		sg := last.segs[len(last.segs)-1]
		vAssert("C10.lineto.nonzero", !vhPtEq(sg.start, sg.end))
	}
}

func VH_C10_step_close_Q() {
	vStub("math.Atan2", vhAtan2Sign)
	p := vhPreState(vhReal, 2, []int{vhLine, vhQuad, vhCube, vhArc})
	pre := vhCopyData(p.d)
	startPos := p.StartPos()
	p.Close()
	vhCheckStep("close", pre, p, Point{}, -1)
	switch {
	case len(pre) == 0:
		vAssert("C10.close.empty", len(p.d) == 0)
	case pre[len(pre)-1] == CloseCmd:
		vAssert("C10.close.idempotent", vhSameData(p.d, pre))
	case pre[len(pre)-1] == MoveToCmd:
		vAssert("C10.close.drops_lonely_move", len(p.d) == len(pre)-4)
	default:
		vAssert("C10.close.closed", p.Closed() && p.Pos().Equals(startPos))
	}
}

func VH_C10_step_curves_Q() {
	vStub("math.Hypot", vhHypotQ)
	p := vhPreState(vhReal, 1, []int{vhLine, vhQuad, vhCube, vhArc})
	pre := vhCopyData(p.d)
	x, y := vNondetF64(), vNondetF64()
	a, b := vNondetF64(), vNondetF64()
	if vChoose(0, 1) == 0 {
		p.QuadTo(a, b, x, y)
		vhCheckStep("quadto", pre, p, Point{x, y}, vhQuad)
		if !vhSameData(p.d, pre) {
			last := p.d[len(p.d)-1]
			vAssert("C10.quadto.kind", last == QuadToCmd || last == LineToCmd)
			if last == QuadToCmd {
				vAssert("C10.quadto.control", p.d[len(p.d)-5] == a && p.d[len(p.d)-4] == b)
			}
		}
	} else {
		c, d := vNondetF64(), vNondetF64()
		p.CubeTo(a, b, c, d, x, y)
		vhCheckStep("cubeto", pre, p, Point{x, y}, vhCube)
		if !vhSameData(p.d, pre) {
			last := p.d[len(p.d)-1]
			vAssert("C10.cubeto.kind", last == CubeToCmd || last == LineToCmd)
			if last == CubeToCmd {
				vAssert("C10.cubeto.control", p.d[len(p.d)-7] == a && p.d[len(p.d)-6] == b && p.d[len(p.d)-5] == c && p.d[len(p.d)-4] == d)
			}
		}
	}
}

// vhOnChord: the control point c lies on the segment from s to e (so the curve traces the
// straight segment) - exactly collinear and between the end points.
func vhOnChord(s, e, c Point) bool {
	d := e.Sub(s)
	v := c.Sub(s)
	perp := d.X*v.Y - d.Y*v.X
	dot := d.X*v.X + d.Y*v.Y
	return perp == 0 && 0 <= dot && dot <= d.X*d.X+d.Y*d.Y
}

// C10: QuadTo/CubeTo may replace the curve by a line only when that does not change the traced
// geometry, i.e. when every control point lies on the chord between start and end.  Start and end
// are concrete, the control points are start + t*(end-start) + u*perp(end-start) with symbolic t
// and u (u exactly 0 or |u| >= 0.01), which keeps the collinearity decision linear.
func VH_C10_curve_degrade_Q() {
	vStub("math.Hypot", vhHypotQ)
	vStub("math.Atan2", vhAtan2GP)
	vStub("math.Mod", vhMod2Pi)
	ends := [3]Point{{3, 4}, {4, 0}, {0, -2}}
	e := ends[vChoose(0, 2)]
	n := Point{-e.Y, e.X}
	cp := func() Point {
		t := vNondetF64()
		vAssume(-2 <= t && t <= 3)
		u := 0.0
		if vChoose(0, 1) == 1 {
			u = vNondetF64()
			vAssume((0.01 <= u && u <= 2) || (-2 <= u && u <= -0.01))
		}
		// keep clear of the Equal() tolerance at the end points
		vAssume(u != 0 || ((t <= -1e-3 || t >= 1e-3 || t == 0) && (t <= 1-1e-3 || t >= 1+1e-3 || t == 1)))
		return Point{t*e.X + u*n.X, t*e.Y + u*n.Y}
	}
	p := &Path{}
	p.MoveTo(0, 0)
	if vChoose(0, 1) == 0 {
		c := cp()
		p.QuadTo(c.X, c.Y, e.X, e.Y)
		last := p.d[len(p.d)-1]
		vAssert("C10.degrade.quad_kind", last == QuadToCmd || last == LineToCmd)
		if last == LineToCmd {
			vAssert("C10.degrade.quad_line_only_if_control_on_chord", vhOnChord(Point{}, e, c))
		}
	} else {
		c1, c2 := cp(), cp()
		p.CubeTo(c1.X, c1.Y, c2.X, c2.Y, e.X, e.Y)
		last := p.d[len(p.d)-1]
		vAssert("C10.degrade.cube_kind", last == CubeToCmd || last == LineToCmd)
		if last == LineToCmd {
			vAssert("C10.degrade.cube_line_only_if_controls_on_chord", vhOnChord(Point{}, e, c1) && vhOnChord(Point{}, e, c2))
		}
	}
	vAssert("C10.degrade.pen", vhPtEq(p.Pos(), e))
}

// C10: one step ArcTo from any well-formed pre-state.  Radii (any sign, also near zero), rotation
// (degrees, |rot| <= 630), flags and end point symbolic.  The record must be the canonical form
// the package documents: radii positive with rx >= ry, rotation in [0, pi), and it must describe the
// same ellipse orientation as the arguments: either the radii in the given order and the rotation
// congruent to rot modulo 180 degrees, or the radii swapped and the rotation congruent to rot+90
// degrees; a circle is stored with rotation 0.  The radii are the arguments' absolute values scaled
// by max(1, lambda), lambda being what ellipseRadiiCorrection returns (replaced in the symbolic run
// by "any number"; natively the real function).  Zero radii give a line.  Flags and end point are
// stored as given.
var vhC10Lambda float64

func vhC10RadiiCorr(start Point, rx, ry, phi float64, end Point) float64 { return vhC10Lambda }

func VH_C10_step_arcto_Q() {
	vStub("math.Hypot", vhHypotQ)
	vStub("math.Mod", vhMod2Pi)
	vStub("github.com/tdewolff/canvas.ellipseRadiiCorrection", vhC10RadiiCorr)
	p := vhPreState(vhReal, 1, []int{vhLine, vhQuad, vhArc})
	pre := vhCopyData(p.d)
	x, y := vhReal(), vhReal()
	rx, ry := vNondetF64(), vNondetF64()
	vAssume(-8 <= rx && rx <= 8 && -8 <= ry && ry <= 8)
	// general position for the library's tolerance decisions
	ax, ay := math.Abs(rx), math.Abs(ry)
	vAssume((ax == 0 || ax >= 1e-6) && (ay == 0 || ay >= 1e-6) && (ax == ay || math.Abs(ax-ay) >= 1e-6))
	rot := vNondetF64()
	vAssume(-630 <= rot && rot <= 630)
	large, sweep := vNondetBool(), vNondetBool()
	lam := vNondetF64()
	vAssume(0 <= lam && lam <= 4)
	vhC10Lambda = lam
	start := Point{}
	if len(pre) > 0 {
		start = Point{pre[len(pre)-3], pre[len(pre)-2]}
	}
	p.ArcTo(rx, ry, rot, large, sweep, x, y)
	vhCheckStep("arcto", pre, p, Point{x, y}, vhArc)
	if vhSameData(p.d, pre) {
		return
	}
	last := p.d[len(p.d)-1]
	if ax == 0 || ay == 0 {
		vAssert("C10.arcto.zero_radius_gives_line", last == LineToCmd || last == CloseCmd)
		return
	}
	vAssert("C10.arcto.kind", last == ArcToCmd)
	if last != ArcToCmd {
		return
	}
	n := len(p.d)
	srx, sry, sphi, sfl := p.d[n-7], p.d[n-6], p.d[n-5], p.d[n-4]
	vAssert("C10.arcto.canonical_radii_and_rotation", srx >= sry && sry > 0 && 0 <= sphi && sphi < math.Pi)
	vAssert("C10.arcto.flags_and_end", sfl == fromArcFlags(large, sweep) && p.d[n-3] == x && p.d[n-2] == y)
	R, r := math.Max(ax, ay), math.Min(ax, ay)
	// the scale actually applied: what the real function says for the canonical arguments
	l := ellipseRadiiCorrection(start, R, r, sphi, Point{x, y})
	if l < 1 {
		l = 1
	}
	vAssert("C10.arcto.radii_are_the_arguments_scaled", vhNear(srx, R*l) && vhNear(sry, r*l))
	if ax == ay {
		vAssert("C10.arcto.circle_has_rotation_zero", sphi == 0)
		return
	}
	base := rot * math.Pi / 180.0
	if ax < ay {
		base += math.Pi / 2
	}
	j := (sphi - base) / math.Pi
	vAssert("C10.arcto.same_orientation_modulo_pi", math.Abs(j-math.Round(j)) <= 1e-9)
}

// C10: Path.Arc (centre form).  "If the difference between theta0 and theta1 is bigger than 360
// degrees, one full circle will be drawn and the remaining part of diff % 360."  Circle of symbolic
// radius r from the pen position (0,0) or (3,-2); start angle and extent from a grid (extents up to
// +-810 degrees).  Expected records: for |extent| >= 360 two arcs that lead to the opposite point and
// back to the start, then (unless the remainder is 0) one arc to centre + r(cos theta1, sin theta1)
// whose sweep flag is the sign of the extent and whose large flag says whether the remainder
// exceeds 180 degrees.  ellipseRadiiCorrection is replaced by 1 (the end points lie on the circle).
func vhC10One(start Point, rx, ry, phi float64, end Point) float64 { return 1 }

func VH_C10_arc_Q() {
	vStub("math.Hypot", vhHypotQ)
	vStub("github.com/tdewolff/canvas.ellipseRadiiCorrection", vhC10One)
	r := vNondetF64()
	vAssume(0.5 <= r && r <= 8)
	pen := []Point{{0, 0}, {3, -2}}[vChoose(0, 1)]
	th0 := []float64{0, 90, -45}[vChoose(0, 2)]
	exts := []float64{60, 200, 360, 450, 630, 720, 810}
	ext := exts[vChoose(0, len(exts)-1)]
	if vChoose(0, 1) == 1 {
		ext = -ext
	}
	th1 := th0 + ext
	p := &Path{}
	p.MoveTo(pen.X, pen.Y)
	p.Arc(r, r, 0, th0, th1)
	subs, ok := vhDecode(p.d)
	vAssert("C10.arc.decodable", ok && len(subs) == 1 && vhStructWF(p))
	if !ok || len(subs) != 1 {
		return
	}
	segs := subs[0].segs
	a := ext
	if a < 0 {
		a = -a
	}
	rem := a
	for rem >= 360 {
		rem -= 360
	}
	want := 1
	if a >= 360 {
		want = 3
		if rem == 0 {
			want = 2
		}
	}
	vAssert("C10.arc.record_count", len(segs) == want)
	if len(segs) != want {
		return
	}
	c0, s0 := math.Cos(th0*math.Pi/180), math.Sin(th0*math.Pi/180)
	c1, s1 := math.Cos(th1*math.Pi/180), math.Sin(th1*math.Pi/180)
	centre := Point{pen.X - r*c0, pen.Y - r*s0}
	near := func(p, q Point) bool { return vhNear6(p.X, q.X) && vhNear6(p.Y, q.Y) }
	allArcs := true
	for _, sg := range segs {
		allArcs = allArcs && sg.cmd == ArcToCmd && vhNear6(sg.a[0], r) && vhNear6(sg.a[1], r)
		_, sw := toArcFlags(sg.a[3])
		allArcs = allArcs && sw == (ext > 0)
	}
	vAssert("C10.arc.all_arcs_of_radius_r_in_the_right_direction", allArcs)
	if a >= 360 {
		opp := Point{2*centre.X - pen.X, 2*centre.Y - pen.Y}
		vAssert("C10.arc.full_turn_first", near(segs[0].end, opp) && near(segs[1].end, pen))
	}
	if rem != 0 {
		last := segs[len(segs)-1]
		lg, _ := toArcFlags(last.a[3])
		vAssert("C10.arc.remainder_end_point", near(last.end, Point{centre.X + r*c1, centre.Y + r*s1}))
		if rem != 180 {
			vAssert("C10.arc.remainder_large_flag", lg == (rem > 180))
		}
	}
}
