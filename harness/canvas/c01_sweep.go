package canvas

import "math"

// C01/C02 whole-operation checks: the real Bentley-Ottmann sweep is executed on concrete
// rectilinear/diagonal shapes taken from a table of degenerate configurations (nested holes and
// islands, coincident and partially overlapping edges, shared vertices, a hole directly above a
// non-result edge, vertical edges, self-intersections); the *sample point* is symbolic, so the
// solver decides the region equality for every point of the plane that is not within 1e-5 of a
// boundary line.  (An experiment with a symbolic shape coordinate - the inner square sliding by a real dx - did
// not finish: > 1500 symbolic decisions per path and math.Round in the snap rounding; see DESIGN.md.)

type vhPgon [][2]float64

func vhPgonPath(polys []vhPgon) *Path {
	p := &Path{}
	for _, poly := range polys {
		p.MoveTo(poly[0][0], poly[0][1])
		for _, v := range poly[1:] {
			p.LineTo(v[0], v[1])
		}
		p.Close()
	}
	return p
}

func vhRect(x0, y0, x1, y1 float64, ccw bool) vhPgon {
	if ccw {
		return vhPgon{{x0, y0}, {x1, y0}, {x1, y1}, {x0, y1}}
	}
	return vhPgon{{x0, y0}, {x0, y1}, {x1, y1}, {x1, y0}}
}

// vhWindingAt: winding number of the (closed) subpaths of p around (x,y) by the crossing rule,
// written branch-free so that it becomes one term; clear reports whether (x,y) is at least 1e-5
// (in cross-product units per unit length) away from every edge's supporting segment.
func vhWindingAt(p *Path, x, y float64) (wn int, clear bool) {
	var w int8 // 8-bit counter: far cheaper for the solver than 64-bit adders, ample for <= 100 edges
	clear = true
	// the solver is asked for points at least 1e-5 away from the boundaries; the replay accepts
	// half of that, so that rounding the model to float64 cannot flip the assumption
	m := 1e-5
	if !vSymbolic() {
		m = 0.5e-5
	}
	subs, _ := vhDecode(p.d)
	for _, sb := range subs {
		pts := []Point{sb.start}
		for _, sg := range sb.segs {
			pts = append(pts, sg.end)
		}
		n := len(pts)
		for i := 0; i < n; i++ {
			a, b := pts[i], pts[(i+1)%n]
			if vhPtEq(a, b) {
				continue
			}
			cross := (b.X-a.X)*(y-a.Y) - (x-a.X)*(b.Y-a.Y)
			if a.Y <= y && b.Y > y && cross > 0 {
				w++
			}
			if a.Y > y && b.Y <= y && cross < 0 {
				w--
			}
			// general position w.r.t. this edge
			xmin, xmax := math.Min(a.X, b.X), math.Max(a.X, b.X)
			ymin, ymax := math.Min(a.Y, b.Y), math.Max(a.Y, b.Y)
			l := math.Abs(b.X-a.X) + math.Abs(b.Y-a.Y)
			far := math.Abs(cross) >= m*l || x < xmin-m || x > xmax+m || y < ymin-m || y > ymax+m
			clear = clear && far && math.Abs(y-a.Y) >= m
		}
	}
	return int(w), clear
}

// table of subject shapes (index, description in comments)
func vhC02Shapes(k int) []vhPgon {
	switch k {
	case 0: // plain square
		return []vhPgon{vhRect(0, 0, 10, 10, true)}
	case 1: // square with a properly oriented hole
		return []vhPgon{vhRect(0, 0, 10, 10, true), vhRect(3, 3, 7, 7, false)}
	case 2: // nested squares, same orientation (winding 2 inside)
		return []vhPgon{vhRect(0, 0, 10, 10, true), vhRect(3, 3, 7, 7, true)}
	case 3: // hole with an island (nesting depth 2)
		return []vhPgon{vhRect(0, 0, 12, 12, true), vhRect(2, 2, 10, 10, false), vhRect(4, 4, 8, 8, true)}
	case 4: // two partially overlapping squares
		return []vhPgon{vhRect(0, 0, 6, 6, true), vhRect(3, 3, 9, 9, true)}
	case 5: // bow-tie (self-intersection)
		return []vhPgon{{{0, 0}, {6, 6}, {6, 0}, {0, 6}}}
	case 6: // squares sharing an edge (coincident opposite edges)
		return []vhPgon{vhRect(0, 0, 5, 5, true), vhRect(5, 0, 10, 5, true)}
	case 7: // hole traced twice (coincident hole contours) inside a square
		return []vhPgon{vhRect(0, 0, 10, 10, true), vhRect(3, 3, 7, 7, false), vhRect(3, 3, 7, 7, false)}
	case 8: // clockwise square with a counter-clockwise square inside
		return []vhPgon{vhRect(0, 0, 10, 10, false), vhRect(3, 3, 7, 7, true)}
	case 9: // two holes side by side sharing a vertex column, one directly above a hole edge
		return []vhPgon{vhRect(0, 0, 10, 10, true), vhRect(3, 3, 7, 5, false), vhRect(3, 5, 5, 7, false)}
	case 10: // hole in hole nesting with shared corner
		return []vhPgon{vhRect(0, 0, 10, 10, true), vhRect(2, 2, 8, 8, false), vhRect(2, 2, 5, 5, true)}
	case 11: // triangle with a vertical edge and a diagonal, overlapping a square
		return []vhPgon{{{0, 0}, {8, 0}, {8, 8}}, vhRect(4, -2, 12, 4, true)}
	case 12: // two holes stacked in one outer contour, the upper one directly above the lower one's top edge
		return []vhPgon{vhRect(0, 0, 10, 12, true), vhRect(3, 2, 7, 4, false), vhRect(3, 6, 7, 9, false)}
	case 13: // three holes in a column, the middle one shifted
		return []vhPgon{vhRect(0, 0, 10, 14, true), vhRect(3, 1, 7, 3, false), vhRect(4, 5, 8, 7, false), vhRect(3, 9, 7, 12, false)}
	case 18: // a line there and back (zero area) from the start point of a self-crossing hexagon that it crosses three times
		return []vhPgon{{{0, 0}, {4, 8}}, {{0, 0}, {0, 8}, {3, 0}, {1, 3}, {1, 7}, {5, 2}}}
	case 19: // the same hexagon, the zero-area subpath last
		return []vhPgon{{{0, 0}, {0, 8}, {3, 0}, {1, 3}, {1, 7}, {5, 2}}, {{0, 0}, {4, 8}}}
	case 20: // a vertex lying exactly on a steeply descending edge of the same contour (slope -1)
		return []vhPgon{{{3, 0}, {0, 3}, {1, 0}, {2, 2}, {1, 2}}}
	case 21: // the same with the vertex on an edge of another contour, slope -2
		return []vhPgon{{{4, 0}, {0, 8}, {0, 0}}, {{2, 4}, {6, 4}, {6, 6}}}
	case 22: // three self-crossing heptagons on a 5x5 grid with many collinear overlapping edges (finding D94)
		return []vhPgon{{{2, 2}, {4, 2}, {2, 3}, {2, 4}, {3, 0}, {1, 1}}, {{0, 2}, {3, 2}, {1, 3}, {4, 1}, {0, 3}, {4, 4}, {2, 1}}, {{3, 2}, {1, 2}, {2, 3}, {0, 1}, {1, 3}, {3, 3}, {2, 0}}}
	default: // stacked triangular holes
		return []vhPgon{vhRect(0, 0, 10, 12, true), {{3, 2}, {5, 4}, {7, 2}}, {{3, 6}, {5, 9}, {7, 6}}}
	}
}

// vhC02Tail: an open two-point subpath following the closed contours of some shapes (it fills
// nothing, so the region is that of the closed contours).
func vhC02Tail(k int) (vhPgon, []vhPgon) {
	switch k {
	case 15: // stray open segment beside a triangle
		return vhPgon{{6, 1}, {8, 3}}, []vhPgon{{{0, 0}, {5, 5}, {0, 5}}}
	case 16: // open segment lying on an edge of the triangle
		return vhPgon{{0, 0}, {3, 3}}, []vhPgon{{{0, 0}, {5, 5}, {0, 5}}}
	case 17: // open segment crossing the triangle
		return vhPgon{{-1, 3}, {4, 4.5}}, []vhPgon{{{0, 0}, {5, 5}, {0, 5}}}
	}
	return nil, nil
}

const vhC02NShapes = 23

// C02: Settle(rule) fills exactly what the input fills under the rule; output windings are 0/1
// and every output contour's orientation makes NonZero, EvenOdd and Positive agree.
func VH_C02_settle_region_Q() {
	shape := vChoose(0, vhC02NShapes-1)
	var p *Path
	if tail, closed := vhC02Tail(shape); tail != nil {
		p = vhPgonPath(closed)
		p.MoveTo(tail[0][0], tail[0][1])
		p.LineTo(tail[1][0], tail[1][1])
	} else {
		p = vhPgonPath(vhC02Shapes(shape))
	}
	before := vhCopyData(p.d)
	rule := FillRule(vChoose(0, 3))
	vKnown("D74", shape == 16)
	vKnown("D94", shape == 22)
	if shape == 22 && rule == EvenOdd && vTier() == 0 {
		return // the one rule under which shape 22 settles: about 100 result edges, 2 minutes of queries (thorough tier only)
	}
	// the three public entry points must agree
	var r *Path
	switch vChoose(0, 2) {
	case 0:
		r = p.Settle(rule)
	case 1:
		r = Paths(p.Split()).Settle(rule)
	default:
		r = Paths{p}.Settle(rule)
	}
	vAssert("C02.settle.receiver_unchanged", vhSameData(p.d, before))
	vAssert("C02.settle.wellformed", vhStructWF(r))
	x, y := vNondetF64(), vNondetF64()
	vAssume(-5 <= x && x <= 20 && -5 <= y && y <= 20)
	win, c1 := vhWindingAt(p, x, y)
	wout, c2 := vhWindingAt(r, x, y)
	vAssume(c1 && c2)
	vAssert("C02.settle.same_region", rule.Fills(win) == (wout != 0))
	vAssert("C02.settle.canonical_winding_0_or_1", wout == 0 || wout == 1)
}

// C01: the five Boolean operations against the set algebra of the operands' regions.
func vhC01Pairs(k int) ([]vhPgon, []vhPgon) {
	switch k {
	case 0: // overlapping squares
		return []vhPgon{vhRect(0, 0, 6, 6, true)}, []vhPgon{vhRect(3, 3, 9, 9, true)}
	case 1: // Q inside P
		return []vhPgon{vhRect(0, 0, 10, 10, true)}, []vhPgon{vhRect(3, 3, 7, 7, true)}
	case 2: // shared edge, Q to the right
		return []vhPgon{vhRect(0, 0, 5, 5, true)}, []vhPgon{vhRect(5, 0, 10, 5, true)}
	case 3: // P a frame, Q a rectangle inside the hole sharing the hole's bottom-left corner
		return []vhPgon{vhRect(0, 0, 10, 10, true), vhRect(3, 3, 7, 7, false)}, []vhPgon{vhRect(3, 3, 5, 6, true)}
	case 4: // identical operands
		return []vhPgon{vhRect(0, 0, 10, 10, true), vhRect(3, 3, 7, 7, false)}, []vhPgon{vhRect(0, 0, 10, 10, true), vhRect(3, 3, 7, 7, false)}
	case 5: // clockwise Q crossing P's corner
		return []vhPgon{vhRect(0, 0, 6, 6, true)}, []vhPgon{vhRect(4, 4, 10, 10, false)}
	case 6: // collinear partially overlapping steep edges (line y = 4x - 4)
		return []vhPgon{{{1, 0}, {2, 4}, {-3, 4}}}, []vhPgon{{{1.5, 2}, {2.5, 6}, {6, 2}}}
	case 7: // frame and a rectangle inside its bottom band touching the hole's bottom edge from below
		return []vhPgon{vhRect(0, 0, 10, 10, true), vhRect(2, 4, 8, 8, false)}, []vhPgon{vhRect(3, 1, 6, 4, true)}
	case 8: // Q with two contours, one outside P's bounding box
		return []vhPgon{vhRect(0, 0, 6, 6, true)}, []vhPgon{vhRect(3, 3, 9, 9, true), vhRect(20, 20, 22, 22, true)}
	case 9: // vertical shared edge segment, diagonal crossing
		return []vhPgon{{{0, 0}, {6, 0}, {6, 6}}}, []vhPgon{{{6, 2}, {10, 2}, {6, 8}}}
	case 10: // empty subject
		return nil, []vhPgon{vhRect(0, 0, 6, 6, true)}
	case 11: // empty clipping path
		return []vhPgon{vhRect(0, 0, 6, 6, true)}, nil
	case 12: // P a frame whose hole is away from Q (the hole's box does not touch Q's box)
		return []vhPgon{vhRect(0, 0, 20, 20, true), vhRect(12, 12, 18, 18, false)}, []vhPgon{vhRect(1, 1, 5, 5, true)}
	case 13: // Q a frame whose hole is away from P
		return []vhPgon{vhRect(1, 1, 5, 5, true)}, []vhPgon{vhRect(0, 0, 20, 20, true), vhRect(12, 12, 18, 18, false)}
	case 14: // P with an island inside its hole, Q over the outer ring only
		return []vhPgon{vhRect(0, 0, 20, 20, true), vhRect(6, 6, 18, 18, false), vhRect(10, 10, 14, 14, true)}, []vhPgon{vhRect(-2, 1, 3, 4, true)}
	case 15: // self-crossing P whose two crossing edges become neighbours in the sweep only after a third edge of P between them has ended; Q to the right of the crossing
		return []vhPgon{{{0, 0}, {10, 5}, {12, 5}, {12, 0}, {10, 0}, {0, 6}, {-1, 3}, {3, 3}}}, []vhPgon{vhRect(8, 2, 9, 3, true)}
	case 16: // operands far apart (bounding boxes do not touch)
		return []vhPgon{vhRect(0, 0, 2, 2, true)}, []vhPgon{vhRect(5, 5, 7, 7, true)}
	default: // Q a line there and back (zero area) that pokes into P and ends inside it: a dangling cut for DivideBy
		return []vhPgon{{{0, 0}, {2, 4}, {4, 5}}}, []vhPgon{{{0, 7}, {3, 4}}}
	}
}

const vhC01NPairs = 18

func VH_C01_boolean_region_Q() {
	pair := vChoose(0, vhC01NPairs-1)
	pp, qq := vhC01Pairs(pair)
	p, q := vhPgonPath(pp), vhPgonPath(qq)
	pBefore, qBefore := vhCopyData(p.d), vhCopyData(q.d)
	op := vChoose(0, 4)
	var r *Path
	switch op {
	case 0:
		r = p.And(q)
	case 1:
		r = p.Or(q)
	case 2:
		r = p.Xor(q)
	case 3:
		r = p.Not(q)
	default:
		r = p.DivideBy(q)
	}
	vAssert("C01.boolean.operands_unchanged", vhSameData(p.d, pBefore) && vhSameData(q.d, qBefore))
	vAssert("C01.boolean.wellformed", vhStructWF(r))
	x, y := vNondetF64(), vNondetF64()
	vAssume(-5 <= x && x <= 25 && -5 <= y && y <= 25)
	wp, c1 := vhWindingAt(p, x, y)
	wq, c2 := vhWindingAt(q, x, y)
	wr, c3 := vhWindingAt(r, x, y)
	vAssume(c1 && c2 && c3)
	fp, fq := wp != 0, wq != 0
	want := false
	switch op {
	case 0:
		want = fp && fq
	case 1:
		want = fp || fq
	case 2:
		want = fp != fq
	case 3:
		want = fp && !fq
	default:
		want = fp
	}
	vAssert("C01.boolean.set_algebra", (wr != 0) == want)
}

// The Paths API (Paths.And/Or/Xor/Not): the operands are lists of paths whose elements may have
// several contours themselves; the result region is the set algebra of the union of the subject
// elements and the union of the clipping elements, however the contours are distributed over the
// elements.  Three distributions of the same contours: every contour its own element, all contours
// of an operand in one element (unsplit), and first contour alone + the rest together.
func vhC01Paths(polys []vhPgon, dist int) Paths {
	var ps Paths
	switch {
	case dist == 0 || len(polys) < 2:
		for _, pg := range polys {
			ps = append(ps, vhPgonPath([]vhPgon{pg}))
		}
	case dist == 1:
		ps = Paths{vhPgonPath(polys)}
	default:
		ps = Paths{vhPgonPath(polys[:1]), vhPgonPath(polys[1:])}
	}
	return ps
}

func VH_C01_paths_api_Q() {
	var pp, qq []vhPgon
	switch vChoose(0, 2) {
	case 0: // subject one square; clipping: two disjoint squares, one overlapping the subject
		pp = []vhPgon{vhRect(0, 0, 6, 6, true)}
		qq = []vhPgon{vhRect(3, 3, 9, 9, true), vhRect(12, 0, 15, 3, true)}
	case 1: // subject two squares; clipping a frame (outer + hole) over both
		pp = []vhPgon{vhRect(0, 0, 4, 4, true), vhRect(6, 0, 10, 4, true)}
		qq = []vhPgon{vhRect(2, 1, 8, 3, true), vhRect(3, 1.5, 7, 2.5, false)}
	default: // three clipping contours
		pp = []vhPgon{vhRect(0, 0, 10, 10, true)}
		qq = []vhPgon{vhRect(1, 1, 3, 3, true), vhRect(4, 4, 6, 12, true), vhRect(8, -2, 12, 2, true)}
	}
	ps, qs := vhC01Paths(pp, vChoose(0, 2)), vhC01Paths(qq, vChoose(0, 2))
	// the caller's view of its two slices: the same path objects with the same data afterwards
	psElems, qsElems := append([]*Path{}, ps...), append([]*Path{}, qs...)
	var psData, qsData [][]float64
	for _, e := range ps {
		psData = append(psData, vhCopyData(e.d))
	}
	for _, e := range qs {
		qsData = append(qsData, vhCopyData(e.d))
	}
	op := vChoose(0, 3)
	var r *Path
	switch op {
	case 0:
		r = ps.And(qs)
	case 1:
		r = ps.Or(qs)
	case 2:
		r = ps.Xor(qs)
	default:
		r = ps.Not(qs)
	}
	same := len(ps) == len(psElems) && len(qs) == len(qsElems)
	for i := 0; same && i < len(ps); i++ {
		same = ps[i] == psElems[i] && vhSameData(ps[i].d, psData[i])
	}
	for i := 0; same && i < len(qs); i++ {
		same = qs[i] == qsElems[i] && vhSameData(qs[i].d, qsData[i])
	}
	vAssert("C01.paths.callers_slices_unchanged", same)
	vAssert("C01.paths.wellformed", vhStructWF(r))
	p, q := vhPgonPath(pp), vhPgonPath(qq)
	x, y := vNondetF64(), vNondetF64()
	vAssume(-5 <= x && x <= 25 && -5 <= y && y <= 25)
	vhBandY(y, -5, 25, p, q, r)
	wp, c1 := vhWindingAt(p, x, y)
	wq, c2 := vhWindingAt(q, x, y)
	wr, c3 := vhWindingAt(r, x, y)
	vAssume(c1 && c2 && c3)
	fp, fq := wp != 0, wq != 0
	want := false
	switch op {
	case 0:
		want = fp && fq
	case 1:
		want = fp || fq
	case 2:
		want = fp != fq
	default:
		want = fp && !fq
	}
	vAssert("C01.paths.set_algebra", (wr != 0) == want)
}

// The repository's own test operands with the region oracle (see c01_suite_data.go).
func VH_C01_suite_region_Q() {
	k := vChoose(0, len(vhC01SuitePairs)-1)
	p, q := MustParseSVGPath(vhC01SuitePairs[k][0]), MustParseSVGPath(vhC01SuitePairs[k][1])
	if !vhAllClosed(p) || !vhAllClosed(q) {
		return // the region claim is about closed paths (open subject paths are clipped as lines)
	}
	pBefore, qBefore := vhCopyData(p.d), vhCopyData(q.d)
	op := vChoose(0, 3+vTier()) // DivideBy only in the thorough tier (its region claim has recorded findings)
	var r *Path
	switch op {
	case 0:
		r = p.And(q)
	case 1:
		r = p.Or(q)
	case 2:
		r = p.Xor(q)
	case 3:
		r = p.Not(q)
	default:
		r = p.DivideBy(q)
	}
	vAssert("C01.suite.operands_unchanged", vhSameData(p.d, pBefore) && vhSameData(q.d, qBefore))
	vAssert("C01.suite.wellformed", vhStructWF(r))
	x, y := vNondetF64(), vNondetF64()
	vAssume(-30 <= x && x <= 40)
	vhBandY(y, -30, 40, p, q, r)
	wp, c1 := vhWindingAt(p, x, y)
	wq, c2 := vhWindingAt(q, x, y)
	wr, c3 := vhWindingAt(r, x, y)
	vAssume(c1 && c2 && c3)
	fp, fq := wp != 0, wq != 0
	want := false
	switch op {
	case 0:
		want = fp && fq
	case 1:
		want = fp || fq
	case 2:
		want = fp != fq
	case 3:
		want = fp && !fq
	default:
		want = fp
	}
	vAssert("C01.suite.set_algebra", (wr != 0) == want)
}

func VH_C02_suite_region_Q() {
	k := vChoose(0, len(vhC02SuiteShapes)-1)
	p := MustParseSVGPath(vhC02SuiteShapes[k])
	before := vhCopyData(p.d)
	rule := FillRule(vChoose(0, 3))
	r := p.Settle(rule)
	vAssert("C02.suite.receiver_unchanged", vhSameData(p.d, before))
	vAssert("C02.suite.wellformed", vhStructWF(r))
	x, y := vNondetF64(), vNondetF64()
	vAssume(-30 <= x && x <= 40)
	vhBandY(y, -30, 40, p, r)
	win, c1 := vhWindingAt(p, x, y)
	wout, c2 := vhWindingAt(r, x, y)
	vAssume(c1 && c2)
	vAssert("C02.suite.same_region", rule.Fills(win) == (wout != 0))
	vAssert("C02.suite.canonical_winding_0_or_1", wout == 0 || wout == 1)
}

func vhAllClosed(p *Path) bool {
	subs, ok := vhDecode(p.d)
	if !ok {
		return false
	}
	for _, sb := range subs {
		if !sb.closed {
			return false
		}
	}
	return true
}

// vhBandY splits the plane into the horizontal bands between consecutive vertex levels of the
// given paths (one path of the exploration per band, chosen with vChoose) and assumes that y
// lies inside the chosen band, at least 2e-5 away from its borders.  With y in a known band every
// "does this edge span y" test of the winding oracle is decided, which keeps the queries small.
func vhBandY(y float64, lo, hi float64, paths ...*Path) {
	levels := []float64{lo, hi}
	for _, p := range paths {
		subs, _ := vhDecode(p.d)
		for _, sb := range subs {
			levels = append(levels, sb.start.Y)
			for _, sg := range sb.segs {
				levels = append(levels, sg.end.Y)
			}
		}
	}
	// insertion sort and de-duplication (all concrete)
	for i := 1; i < len(levels); i++ {
		for j := i; j > 0 && levels[j] < levels[j-1]; j-- {
			levels[j], levels[j-1] = levels[j-1], levels[j]
		}
	}
	var uniq []float64
	for _, l := range levels {
		if l < lo || l > hi {
			continue
		}
		if len(uniq) == 0 || l-uniq[len(uniq)-1] > 1e-4 {
			uniq = append(uniq, l)
		}
	}
	k := vChoose(0, len(uniq)-2)
	vAssume(uniq[k]+2e-5 <= y && y <= uniq[k+1]-2e-5)
}
