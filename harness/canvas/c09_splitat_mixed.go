package canvas

import "math"

// C09: SplitAt on a line followed by a curve (quadratic, cubic, rotated elliptical arc) and a
// closing line.  The geometry is concrete; the first cut t1 is a symbolic position on the first
// line, the optional second cut lies exactly on the vertex between the line and the curve.
// After the last cut the remaining segments must be copied verbatim, and a cut exactly on the
// vertex must start a new piece that begins with the curve.

func vhC09MixedShape(k int) *Path {
	p := &Path{}
	switch k {
	case 0:
		p.d = []float64{MoveToCmd, 0, 0, MoveToCmd, LineToCmd, 10, 0, LineToCmd, QuadToCmd, 15, 5, 10, 10, QuadToCmd, LineToCmd, 0, 10, LineToCmd}
	case 1:
		p.d = []float64{MoveToCmd, 0, 0, MoveToCmd, LineToCmd, 10, 0, LineToCmd, CubeToCmd, 12, 2, 12, 8, 10, 10, CubeToCmd, LineToCmd, 0, 10, LineToCmd}
	default: // arc with rx != ry, rotated by 0.5 rad, large=0 sweep=1
		p.d = []float64{MoveToCmd, 0, 0, MoveToCmd, LineToCmd, 10, 0, LineToCmd, ArcToCmd, 6, 3, 0.5, 2, 14, 4, ArcToCmd, LineToCmd, 0, 10, LineToCmd}
	}
	return p
}

func vhC09SameRecord(a, b []float64) bool {
	if len(a) != len(b) {
		return false
	}
	ok := true
	for i := range a {
		ok = ok && math.Abs(a[i]-b[i]) <= 1e-9
	}
	return ok
}

func VH_C09_splitat_mixed_Q() {
	k := vChoose(0, 2)
	p := vhC09MixedShape(k)
	before := vhCopyData(p.d)
	t1 := vNondetF64()
	vAssume(0.01 <= t1 && t1 <= 9.99)
	vertexCut := vChoose(0, 1) == 1
	var qs []*Path
	if vertexCut {
		qs = p.SplitAt(t1, 10)
	} else {
		qs = p.SplitAt(t1)
	}
	vAssert("C09.mixed.receiver_unchanged", vhSameData(p.d, before))
	want := 2
	if vertexCut {
		want = 3
	}
	vAssert("C09.mixed.count", len(qs) == want)
	if len(qs) != want {
		return
	}
	// first piece: the line from the start to the cut
	a := qs[0].d
	vAssert("C09.mixed.first_piece", len(a) == 8 && a[1] == 0 && a[2] == 0 && a[4] == LineToCmd && vhNear(a[5], t1) && vhNear(a[6], 0))
	// the records after the first line, verbatim
	rest := before[8:]
	last := qs[len(qs)-1].d
	if vertexCut {
		b := qs[1].d
		vAssert("C09.mixed.second_piece", len(b) == 8 && vhNear(b[1], t1) && vhNear(b[2], 0) && b[4] == LineToCmd && vhNear(b[5], 10) && vhNear(b[6], 0))
		vAssert("C09.mixed.third_starts_at_vertex", len(last) >= 4 && last[0] == MoveToCmd && vhNear(last[1], 10) && vhNear(last[2], 0))
		if len(last) >= 4 {
			vAssert("C09.mixed.remaining_segments_verbatim", vhC09SameRecord(last[4:], rest))
		}
	} else {
		vAssert("C09.mixed.second_starts_at_cut", len(last) >= 8 && last[0] == MoveToCmd && vhNear(last[1], t1) && vhNear(last[2], 0) && last[4] == LineToCmd && vhNear(last[5], 10) && vhNear(last[6], 0))
		if len(last) >= 8 {
			vAssert("C09.mixed.remaining_segments_verbatim", vhC09SameRecord(last[8:], rest))
		}
	}
}
