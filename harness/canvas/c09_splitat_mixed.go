package canvas

import "math"

// C09: SplitAt on a line followed by a curve (quadratic, cubic, rotated elliptical arc) and a
// closing line.  The geometry is concrete; the first cut t1 is a symbolic position on the first
// line, the optional second cut lies exactly on the vertex between the line and the curve.
// After the last cut the remaining segments must be copied verbatim, and a cut exactly on the
// vertex must start a new piece that begins with the curve.

func vhC09MixedShape(k int) *Path {
	p := &Path{}
	switch k {
	case 0:
		p.d = []float64{MoveToCmd, 0, 0, MoveToCmd, LineToCmd, 10, 0, LineToCmd, QuadToCmd, 15, 5, 10, 10, QuadToCmd, LineToCmd, 0, 10, LineToCmd}
	case 1:
		p.d = []float64{MoveToCmd, 0, 0, MoveToCmd, LineToCmd, 10, 0, LineToCmd, CubeToCmd, 12, 2, 12, 8, 10, 10, CubeToCmd, LineToCmd, 0, 10, LineToCmd}
	default: // arc with rx != ry, rotated by 0.5 rad, large=0 sweep=1
		p.d = []float64{MoveToCmd, 0, 0, MoveToCmd, LineToCmd, 10, 0, LineToCmd, ArcToCmd, 6, 3, 0.5, 2, 14, 4, ArcToCmd, LineToCmd, 0, 10, LineToCmd}
	}
	return p
}

func vhC09SameRecord(a, b []float64) bool {
	if len(a) != len(b) {
		return false
	}
	ok := true
	for i := range a {
		ok = ok && math.Abs(a[i]-b[i]) <= 1e-9
	}
	return ok
}

func VH_C09_splitat_mixed_Q() {
	k := vChoose(0, 2)
	p := vhC09MixedShape(k)
	before := vhCopyData(p.d)
	t1 := vNondetF64()
	vAssume(0.01 <= t1 && t1 <= 9.99)
	vertexCut := vChoose(0, 1) == 1
	var qs []*Path
	if vertexCut {
		qs = p.SplitAt(t1, 10)
	} else {
		qs = p.SplitAt(t1)
	}
	vAssert("C09.mixed.receiver_unchanged", vhSameData(p.d, before))
	want := 2
	if vertexCut {
		want = 3
	}
	vAssert("C09.mixed.count", len(qs) == want)
	if len(qs) != want {
		return
	}
	// first piece: the line from the start to the cut
	a := qs[0].d
	vAssert("C09.mixed.first_piece", len(a) == 8 && a[1] == 0 && a[2] == 0 && a[4] == LineToCmd && vhNear(a[5], t1) && vhNear(a[6], 0))
	// the records after the first line, verbatim
	rest := before[8:]
	last := qs[len(qs)-1].d
	if vertexCut {
		b := qs[1].d
		vAssert("C09.mixed.second_piece", len(b) == 8 && vhNear(b[1], t1) && vhNear(b[2], 0) && b[4] == LineToCmd && vhNear(b[5], 10) && vhNear(b[6], 0))
		vAssert("C09.mixed.third_starts_at_vertex", len(last) >= 4 && last[0] == MoveToCmd && vhNear(last[1], 10) && vhNear(last[2], 0))
		if len(last) >= 4 {
			vAssert("C09.mixed.remaining_segments_verbatim", vhC09SameRecord(last[4:], rest))
		}
	} else {
		vAssert("C09.mixed.second_starts_at_cut", len(last) >= 8 && last[0] == MoveToCmd && vhNear(last[1], t1) && vhNear(last[2], 0) && last[4] == LineToCmd && vhNear(last[5], 10) && vhNear(last[6], 0))
		if len(last) >= 8 {
			vAssert("C09.mixed.remaining_segments_verbatim", vhC09SameRecord(last[8:], rest))
		}
	}
}

// C09: several cuts inside one Bézier.  The curves are uniformly parametrised straight Béziers
// (control points equally spaced on a line: the point at parameter t is start + t (end - start),
// and the arc length is linear in t), so that with the inverse arc length replaced by its exact
// linear form every cut point has a closed form: the k-th piece ends at start + (t_k/L)(end -
// start).  Three cut positions in one cubic or quadratic (12 combinations from grids; concrete enumeration): the bookkeeping
// of the running parameter across cuts (global parameter of the last cut against the parameter
// on the remaining part) decides the third cut.
func vhC09InvSpeedLinear(N int, gl gaussLegendreFunc, fp func(float64) float64, tmin, tmax float64) (func(float64) float64, float64) {
	dT := vhC09CurveLen
	return func(l float64) float64 { return tmin + (tmax-tmin)*l/dT }, dT
}

var vhC09CurveLen float64

func VH_C09_splitat_many_cuts_Q() {
	if !vInterp() {
		return
	}
	vStub("!github.com/tdewolff/canvas.invSpeedPolynomialChebyshevApprox", vhC09InvSpeedLinear)
	p := &Path{}
	cubic := vChoose(0, 1) == 1
	// from (0,0) to (30,0) resp. (0,0) to (18,24): length 30
	dir := []Point{{1, 0}, {0.6, 0.8}}[vChoose(0, 1)]
	at := func(s float64) Point { return Point{dir.X * s, dir.Y * s} }
	if cubic {
		p.d = []float64{MoveToCmd, 0, 0, MoveToCmd, CubeToCmd, at(10).X, at(10).Y, at(20).X, at(20).Y, at(30).X, at(30).Y, CubeToCmd}
	} else {
		p.d = []float64{MoveToCmd, 0, 0, MoveToCmd, QuadToCmd, at(15).X, at(15).Y, at(30).X, at(30).Y, QuadToCmd}
	}
	vhC09CurveLen = 30
	// cut positions from grids (with symbolic cuts every query is a polynomial in the cuts through
	// cubicBezierSplit and the builders' collinearity tests: 4-6 minutes and dozens of unknowns);
	// the running-parameter bookkeeping does not depend on where the cuts are
	t1 := []float64{2.5, 7}[vChoose(0, 1)]
	t2 := []float64{11, 15.5}[vChoose(0, 1)]
	t3 := []float64{16.25, 22.5, 29}[vChoose(0, 2)]
	qs := p.SplitAt(t1, t2, t3)
	vAssertI("C09.manycuts.count", len(qs) == 4)
	if len(qs) != 4 {
		return
	}
	ok := true
	prev := Point{0, 0}
	ends := []float64{t1, t2, t3, 30}
	for k, q := range qs {
		subs, dec := vhDecode(q.d)
		ok = ok && dec && len(subs) == 1 && len(subs[0].segs) == 1
		if !ok {
			break
		}
		st, en := subs[0].start, subs[0].segs[0].end
		w := at(ends[k])
		ok = ok && math.Abs(st.X-prev.X) <= 1e-6 && math.Abs(st.Y-prev.Y) <= 1e-6 && math.Abs(en.X-w.X) <= 1e-6 && math.Abs(en.Y-w.Y) <= 1e-6
		prev = w
	}
	vAssertI("C09.manycuts.every_cut_at_its_arc_length", ok)
}
