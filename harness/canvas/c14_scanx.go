package canvas

import (
	"image/color"
	"math"
	"reflect"

	"github.com/srwiley/scanx"
	"golang.org/x/image/math/fixed"
)

// C14-H2: what Path.ToScanxScanner hands to the scanx scanner.
//
// The scanner is a concrete struct type of a third-party package (no interface), so its two entry
// points Start and Line are replaced by recording stubs.  Natively the stubs do not exist (the
// real scanner accumulates cells that cannot be read back from package canvas), therefore every
// assertion about the recorded calls sits under vSymbolic(): a solver model of such an assertion
// cannot be confirmed by the native replay and would be printed UNDISCHARGED, never VIOLATION.
// The fixed-point kernel fixedPoint26_6 is checked on its own (native and symbolic agree).

type vhC14Ev struct {
	kind int // 0 Start, 1 Line
	p    fixed.Point26_6
}

var vhC14Rec []vhC14Ev

func vhC14Start(s *scanx.Scanner, a fixed.Point26_6) { vhC14Rec = append(vhC14Rec, vhC14Ev{0, a}) }
func vhC14Line(s *scanx.Scanner, a fixed.Point26_6)  { vhC14Rec = append(vhC14Rec, vhC14Ev{1, a}) }

// vhC14Near: the 26.6 value v represents the pixel coordinate t up to the conversion error.
// trunc(64t+0.5) is round-half-up for 64t >= -0.5 (error <= 1/128 px) and rounds towards zero
// after the shift for negative values (error < 3/128 px); the bound asserted is the one the
// property can use: 1/64 px for coordinates inside the image (t >= 0), 1/32 px anywhere.
func vhC14Near(v fixed.Int26_6, t float64) bool {
	e := float64(v)/64 - t
	if t >= 0 {
		return -1.0/64 <= e && e <= 1.0/64
	}
	return -1.0/32 <= e && e <= 1.0/32
}

var vhC14Dpmm = []float64{1, 0.5, 8, 96 / 25.4}

// The conversion kernel is checked on its own (VH_C14_fixed26_6_Q); here it is replaced by "any
// function": it records its arguments and returns fresh arbitrary fixed-point values, so the
// sequence check stays in linear real arithmetic and the scanner calls are matched with the
// conversions through the returned values.
type vhC14Cv struct {
	x, y float64
	out  fixed.Point26_6
}

var vhC14Conv []vhC14Cv

// The symbolic-only form of "every open subpath (not only the last) is closed by a line" cannot
// be confirmed natively (stub-only observation) and is violated on the current tree (finding D33,
// see VH_C14_scanx_open_Q for the natively confirmed single-subpath form).  Switch on once the
// converter closes open subpaths; until then it would only print UNDISCHARGED.
const vhC14AssertImplicitClose = true

func vhC14Fixed(x, y float64) fixed.Point26_6 {
	out := fixed.Point26_6{X: fixed.Int26_6(int32(vNondetInt())), Y: fixed.Int26_6(int32(vNondetInt()))}
	vhC14Conv = append(vhC14Conv, vhC14Cv{x, y, out})
	return out
}

// VH_C14_scanx_polyline_Q: polylines of 1..3 line segments (4 in the thorough tier) in 1..2 subpaths, each subpath open
// or closed, symbolic real coordinates, resolution from a concrete set (the product
// coordinate*dpmm stays linear), symbolic image height dy.
func VH_C14_scanx_polyline_Q() {
	vStub("!(*github.com/srwiley/scanx.Scanner).Start", vhC14Start)
	vStub("!(*github.com/srwiley/scanx.Scanner).Line", vhC14Line)
	vStub("github.com/tdewolff/canvas.fixedPoint26_6", vhC14Fixed)
	vhC14Rec, vhC14Conv = nil, nil
	dpmm := vhC14Dpmm[vChoose(0, len(vhC14Dpmm)-1)]
	dy := vNondetF64()
	vAssume(0 <= dy && dy <= 1<<20)
	lim := float64(1<<20) / dpmm
	gen := func() float64 {
		x := vNondetF64()
		vAssume(-lim <= x && x <= lim)
		return x
	}
	// shape: number of subpaths, segments per subpath, closed flags
	p := &Path{}
	type sub struct {
		n      int
		closed bool
	}
	var shape []sub
	nsub := vChoose(1, 2)
	left := 3 + vTier()
	for s := 0; s < nsub; s++ {
		n := vChoose(1, left-(nsub-1-s))
		left -= n
		c := vChoose(0, 1)
		shape = append(shape, sub{n, c == 1})
		vhRawSubpath(p, gen, make([]int, n), c)
	}
	pre := vhCopyData(p.d)

	ras := scanx.NewScanner(nil, 4, 4)
	p.ToScanxScanner(ras, dy, DPMM(dpmm))

	if !vSymbolic() {
		return
	}
	vAssert("C14.scanx.path_unchanged", vhSameData(p.d, pre))
	rec, conv := vhC14Rec, vhC14Conv
	// srcIs: point q handed to the scanner is the conversion of pixel coordinates (X, Y).  The
	// conversion stub returns arbitrary values, so this must hold in particular when all its
	// results are different, which pins q to its own conversion; an implementation may convert
	// a point once and pass it twice.
	srcIs := func(q fixed.Point26_6, X, Y float64) bool {
		r := false
		for _, c := range conv {
			r = r || (q == c.out && c.x == X && c.y == Y)
		}
		return r
	}
	samePx := func(q1, q2 fixed.Point26_6) bool {
		r := false
		for _, a := range conv {
			for _, b := range conv {
				r = r || (q1 == a.out && q2 == b.out && a.x == b.x && a.y == b.y)
			}
		}
		return r
	}
	// expected call sequence, from the shape alone
	k := 0 // index into rec
	i := 0 // index into p.d
	okKinds, okCoords, okClosed, okImplicitClose := true, true, true, true
	at := func(k int, x, y float64) bool {
		return k < len(rec) && srcIs(rec[k].p, x*dpmm, dy-y*dpmm)
	}
	for _, sh := range shape {
		// Start at the MoveTo
		okKinds = okKinds && k < len(rec) && rec[k].kind == 0
		okCoords = okCoords && at(k, pre[i+1], pre[i+2])
		startRec := k
		k++
		i += 4
		nl := sh.n
		if sh.closed {
			nl++ // the Close record is a line back to the start
		}
		for j := 0; j < nl; j++ {
			okKinds = okKinds && k < len(rec) && rec[k].kind == 1
			okCoords = okCoords && at(k, pre[i+1], pre[i+2])
			k++
			i += 4
		}
		if k > len(rec) {
			continue
		}
		if sh.closed {
			// the closing line goes to exactly the start pixel coordinates (no gap)
			okClosed = okClosed && samePx(rec[k-1].p, rec[startRec].p)
		} else {
			// Filling treats an open subpath as closed by a straight line.  scanx does not close
			// contours itself (Start only moves the pen), so the converter has to emit that line:
			// either an extra Line back to the start follows, or the subpath ends where it began.
			if k < len(rec) && rec[k].kind == 1 && samePx(rec[k].p, rec[startRec].p) {
				k++
			} else {
				okImplicitClose = okImplicitClose && samePx(rec[k-1].p, rec[startRec].p)
			}
		}
	}
	vAssert("C14.scanx.call_count", len(rec) == k)
	vAssert("C14.scanx.start_per_subpath_line_per_vertex", okKinds)
	vAssert("C14.scanx.coords_scaled_yflipped", okCoords)
	vAssert("C14.scanx.closed_contour_exact", okClosed)
	if vhC14AssertImplicitClose {
		vAssert("C14.scanx.open_subpath_implicitly_closed", okImplicitClose)
	}
}

// vhC14Pen: the scanner's pen position after the conversion.  Symbolically it is the point of
// the last recorded Start/Line; natively the real scanner ran and its unexported pen field is
// read by reflection (the interpreter cannot do that: its concrete self-test run of this harness
// ends "unsupported" and only the native run decides a counterexample).
func vhC14Pen(ras *scanx.Scanner) fixed.Point26_6 {
	if vSymbolic() {
		return vhC14Rec[len(vhC14Rec)-1].p
	}
	a := reflect.ValueOf(ras).Elem().FieldByName("a")
	return fixed.Point26_6{X: fixed.Int26_6(a.Field(0).Int()), Y: fixed.Int26_6(a.Field(1).Int())}
}

// VH_C14_scanx_open_Q: natively confirmable form of "an open subpath is handed over as a closed
// contour": after converting one open two-segment polyline (the fill region of M a L b L c is
// the triangle abc) the scanner's pen must be back on the (converted) start point, because scanx
// never closes a contour by itself.  Real fixedPoint26_6, real coordinates, dpmm = 1.
func VH_C14_scanx_open_Q() {
	vStub("(*github.com/srwiley/scanx.Scanner).Start", vhC14Start)
	vStub("(*github.com/srwiley/scanx.Scanner).Line", vhC14Line)
	vhC14Rec = nil
	gen := func() float64 { return vNondetDyadic(6, 2) } // k/4, k in [-32,31]: cheap for the real scanner
	p := &Path{}
	vhRawSubpath(p, gen, make([]int, 2), 0)
	dy := 16.0
	ras := scanx.NewScanner(nil, 16, 16)
	p.ToScanxScanner(ras, dy, DPMM(1))
	start := fixedPoint26_6(p.d[1], dy-p.d[2])
	pen := vhC14Pen(ras)
	vKnown("D33", true)
	vAssert("C14.scanx.open_subpath_pen_returns_to_start", pen == start)
}

// VH_C14_fixed26_6_Q: the conversion kernel alone, exact reals, any pixel value in +-2^20.
func VH_C14_fixed26_6_Q() {
	x, y := vNondetF64(), vNondetF64()
	vAssume(-(1<<20) <= x && x <= 1<<20 && -(1<<20) <= y && y <= 1<<20)
	q := fixedPoint26_6(x, y)
	vAssert("C14.fixed.error_bound", vhC14Near(q.X, x) && vhC14Near(q.Y, y))
	// tight form: round half up for 64x >= -1/2
	ex := float64(q.X) - 64*x
	if 64*x >= -0.5 {
		vAssert("C14.fixed.round_half_up", -0.5 < ex && ex <= 0.5)
	} else {
		vAssert("C14.fixed.negative_towards_zero", 0.5 <= ex && ex < 1.5)
	}
}

// VH_C14_fixed26_6: IEEE values (comparisons exact, arithmetic uninterpreted): the kernel never
// panics and is deterministic for every bit pattern; with concrete inputs the host arithmetic is
// used, so a few representative values are pinned.
func VH_C14_fixed26_6() {
	x, y := vNondetF64(), vNondetF64()
	vAssume(!math.IsNaN(x) && !math.IsInf(x, 0) && !math.IsNaN(y) && !math.IsInf(y, 0))
	vAssume(-(1<<20) <= x && x <= 1<<20 && -(1<<20) <= y && y <= 1<<20)
	a := fixedPoint26_6(x, y)
	b := fixedPoint26_6(x, y)
	vAssert("C14.fixed.deterministic", a == b)
	c := fixedPoint26_6(1.5, -1.4/64)
	vAssert("C14.fixed.pinned", c.X == 96 && c.Y == 0)
}

// C14-H4: "for any ... coordinate system": the matrix a Context applies for its coordinate system
// on a W x H target maps a point to its position in the target's own (Cartesian I) system:
// II mirrors x about W/2, III mirrors both, IV mirrors y about H/2.  W, H and the point symbolic.
func VH_C14_coordsystem_Q() {
	w, h := vhReal(), vhReal()
	vAssume(w > 0 && h > 0)
	rec := &vhC15Rec{w: w, h: h}
	c := NewContext(rec)
	cs := CoordSystem(vChoose(0, 3))
	c.SetCoordSystem(cs)
	p := Point{vhReal(), vhReal()}
	got := c.CoordSystemView().Dot(p)
	exp := vhC15CSV(cs, w, h, p)
	vAssert("C14.coordsystem.view", got.X == exp.X && got.Y == exp.Y)
}

// C14-H6 (gradient evaluation, colors.go): Stops.At(t) is the gradient: the colour of the first
// stop up to its offset, linear interpolation between consecutive stops, the colour of the last
// stop from its offset on.  Stop offsets from tables (with and without stops at 0 and 1), opaque
// palette colours, t symbolic in [0,1]; channels compared within 1/255 plus the 8-bit truncation.
var vhC14GOffsets = [][]float64{{0, 1}, {0.25, 0.75}, {0, 0.5}, {0.5, 1}, {0, 0.3, 1}, {0.2, 0.5, 0.9}, {0, 0.25, 0.5, 1}}
var vhC14GColors = []color.RGBA{{255, 0, 0, 255}, {0, 0, 255, 255}, {0, 255, 0, 255}, {255, 255, 0, 255}}

func VH_C14_gradient_stops_Q() {
	offs := vhC14GOffsets[vChoose(0, len(vhC14GOffsets)-1)]
	rot := vChoose(0, len(vhC14GColors)-1)
	stops := Stops{}
	for i, o := range offs {
		stops.Add(o, vhC14GColors[(i+rot)%len(vhC14GColors)])
	}
	t := vNondetF64()
	vAssume(0 <= t && t <= 1)
	for _, o := range offs {
		vAssume(t == o || t-o >= 1e-6 || o-t >= 1e-6)
	}
	got := stops.At(t)
	ch := func(c color.RGBA) [4]float64 {
		return [4]float64{float64(c.R), float64(c.G), float64(c.B), float64(c.A)}
	}
	var want [4]float64
	switch {
	case t <= stops[0].Offset:
		want = ch(stops[0].Color)
	case t >= stops[len(stops)-1].Offset:
		want = ch(stops[len(stops)-1].Color)
	default:
		for i := 0; i+1 < len(stops); i++ {
			if stops[i].Offset <= t && t < stops[i+1].Offset {
				u := (t - stops[i].Offset) / (stops[i+1].Offset - stops[i].Offset)
				a, b := ch(stops[i].Color), ch(stops[i+1].Color)
				for k := 0; k < 4; k++ {
					want[k] = a[k] + u*(b[k]-a[k])
				}
			}
		}
	}
	g := ch(got)
	// one query per channel
	vAssert("C14.gradient.stops_at_is_the_gradient.r", g[0]-want[0] <= 1.5 && want[0]-g[0] <= 1.5)
	vAssert("C14.gradient.stops_at_is_the_gradient.g", g[1]-want[1] <= 1.5 && want[1]-g[1] <= 1.5)
	vAssert("C14.gradient.stops_at_is_the_gradient.b", g[2]-want[2] <= 1.5 && want[2]-g[2] <= 1.5)
	vAssert("C14.gradient.stops_at_is_the_gradient.a", g[3]-want[3] <= 1.5 && want[3]-g[3] <= 1.5)
}

// C14-H7 ("rendering ... leaves the canvas, its paths and its gradients unchanged"; colors.go
// colour-space copies): Gradient.SetColorSpace and SetView return a gradient for the renderer and
// must leave the receiver - stops included - as it was; calling them twice gives the same result
// as calling them once.  Linear and radial gradients, 2-3 stops of which one has a symbolic opaque
// colour, sRGB / gamma 2.2 / linear colour spaces, a non-identity view.
func VH_C14_gradient_unchanged() {
	radial := vChoose(0, 1) == 1
	n := vChoose(2, 3)
	c := color.RGBA{vNondetByte(), vNondetByte(), vNondetByte(), 255}
	cols := []color.RGBA{c, {0, 0, 255, 255}, {10, 200, 30, 255}}
	offs := []float64{0, 0.5, 1}
	if n == 2 {
		offs = []float64{0, 1}
	}
	var g Gradient
	var stops *Stops
	if radial {
		rg := NewRadialGradient(Point{5, 5}, 1, Point{5, 5}, 6)
		for i := 0; i < n; i++ {
			rg.Add(offs[i], cols[i])
		}
		g, stops = rg, &rg.Stops
	} else {
		lg := NewLinearGradient(Point{0, 0}, Point{10, 0})
		for i := 0; i < n; i++ {
			lg.Add(offs[i], cols[i])
		}
		g, stops = lg, &lg.Stops
	}
	var cs ColorSpace
	switch vChoose(0, 2) {
	case 0:
		cs = SRGBColorSpace{}
	case 1:
		cs = GammaColorSpace{2.2}
	default:
		cs = LinearColorSpace{}
	}
	before := append(Stops{}, (*stops)...)
	g1 := g.SetColorSpace(cs)
	same := len(*stops) == len(before)
	for i := range before {
		same = same && (*stops)[i] == before[i]
	}
	vAssert("C14.gradient.setcolorspace_leaves_receiver", same)
	// the converted gradient does not depend on how often the conversion was asked for
	g2 := g.SetColorSpace(cs)
	a1, a2 := g1.At(2.5, 5), g2.At(2.5, 5)
	vAssert("C14.gradient.setcolorspace_repeatable", a1 == a2)
	g3 := g.SetView(Identity.Translate(3, 4).Scale(2, 2))
	same = len(*stops) == len(before)
	for i := range before {
		same = same && (*stops)[i] == before[i]
	}
	vAssert("C14.gradient.setview_leaves_receiver", same && g3 != nil)
}
