package canvas

import "math"

// C05-H1: dashStart phase equivalence in exact rational arithmetic.
// Pattern d of even length n (as Dash passes it), entries in (0,8], offset within +-3 periods.
// Oracle: the on/off state at distance x along the path, walking the pattern from (i0,pos0)
// exactly as Dash does, equals the specification on((offset+x) mod P).

func vhOnSpec(off float64, d []float64, P float64, x float64) bool {
	// position in pattern: (off + x) mod P, computed by bounded shifting (off+x in [-3P, 5P))
	u := off + x
	for k := 0; k < 4; k++ {
		if u < 0 {
			u += P
		}
	}
	for k := 0; k < 6; k++ {
		if u >= P {
			u -= P
		}
	}
	acc := 0.0
	for i := range d {
		if u < acc+d[i] {
			return i%2 == 0
		}
		acc += d[i]
	}
	return false // unreachable for 0 <= u < P
}

func vhOnWalk(i0 int, pos0 float64, d []float64, x float64) bool {
	// Dash: pos starts at pos0 (<=0); interval [pos, pos+d[i]) is state i
	i, pos := i0, pos0
	for k := 0; k < 3*len(d)+2; k++ {
		if x < pos+d[i] {
			return i%2 == 0
		}
		pos += d[i]
		i++
		if i == len(d) {
			i = 0
		}
	}
	return false
}

// vhModBounded is math.Mod for y > 0 and |x| <= 4y (exact in rational arithmetic); it replaces
// math.Mod in the symbolic run only (natively the real math.Mod runs).
func vhModBounded(x, y float64) float64 {
	r := x
	for k := 0; k < 4; k++ {
		if r <= -y {
			r += y
		}
	}
	for k := 0; k < 4; k++ {
		if r >= y {
			r -= y
		}
	}
	return r
}

func VH_C05_dashStart_Q() {
	vStub("math.Mod", vhModBounded)
	n := 2 * vChoose(1, 1+vTier())
	d := make([]float64, n)
	P := 0.0
	for i := range d {
		d[i] = vNondetDyadic(6, 2)
		vAssume(0 < d[i])
		P += d[i]
	}
	off := vNondetDyadic(10, 2)
	vAssume(-3*P <= off && off <= 3*P)
	i0, pos0 := dashStart(off, d)
	vAssert("C05.dashStart.index", 0 <= i0 && i0 < n)
	x := vNondetDyadic(8, 2)
	vAssume(0 <= x && x < 2*P)
	vAssert("C05.dashStart.phase", vhOnWalk(i0, pos0, d, x) == vhOnSpec(off, d, P, x))
	// Dash only records cut positions > 0, so the start must not lie after the path start
	vAssert("C05.dashStart.pos", pos0 <= 0)
}

// ---- C05-H2: dashCanonical ----
// Pattern entries are either exactly 0 or k/4 in (0,8): this keeps every Equal() decision of
// dashCanonical away from its 1e-10 tolerance, so the on/off function must be preserved exactly.

// vhOnPattern: is position x (path length coordinate) drawn under pattern d shifted by off?
// d is used as Dash uses it (odd length => doubled). P = period of the (doubled) pattern > 0.
func vhOnPattern(off float64, d []float64, x float64) bool {
	dd := d
	if len(d)%2 == 1 {
		dd = append(append([]float64{}, d...), d...)
	}
	P := 0.0
	for _, v := range dd {
		P += v
	}
	u := off + x
	for k := 0; k < 6; k++ {
		if u < 0 {
			u += P
		}
	}
	for k := 0; k < 8; k++ {
		if u >= P {
			u -= P
		}
	}
	on := false
	acc := 0.0
	for i := range dd {
		if acc <= u && u < acc+dd[i] && i%2 == 0 {
			on = true
		}
		acc += dd[i]
	}
	return on
}

func VH_C05_dashCanonical_Q() {
	n := vChoose(1, 3+vTier())
	d := make([]float64, n)
	sum := 0.0
	for i := range d {
		if vChoose(0, 1) == 1 {
			d[i] = vNondetDyadic(6, 2)
			vAssume(0 < d[i])
		}
		sum += d[i]
	}
	off := vNondetDyadic(9, 2)
	P := sum
	if n%2 == 1 {
		P = 2 * sum
	}
	vAssume(-2*P <= off && off <= 2*P)
	before := vhCopyData(d)
	off2, d2 := dashCanonical(off, d)
	vAssert("C05.dashCanonical.argument_unchanged", vhSameData(d, before))

	if sum == 0 {
		// all-zero pattern: nothing is drawn
		vAssert("C05.dashCanonical.allzero", len(d2) == 1 && d2[0] == 0)
		return
	}
	// which positions are drawn by the original pattern
	x := vNondetDyadic(8, 2)
	vAssume(0 <= x && x < 2*P)
	want := vhOnPattern(off, before, x)
	switch {
	case len(d2) == 0:
		vAssert("C05.dashCanonical.solid", want)
	case len(d2) == 1 && d2[0] == 0:
		vAssert("C05.dashCanonical.nothing", !want)
	default:
		good := true
		for _, v := range d2 {
			good = good && v > 0
		}
		vAssert("C05.dashCanonical.positive", good)
		vAssert("C05.dashCanonical.same_onoff", vhOnPattern(off2, d2, x) == want)
	}
}

// ---- C05-H3: the Dash driver on concrete axis-aligned polylines, symbolic pattern/offset ----
// Oracle (pointwise): a point at arc length x of a subpath (x symbolic, at least 1e-6 away from
// every dash boundary and from the subpath ends) lies on the output iff the pattern is "on" at x.

type vhC05Shape struct {
	pts    []Point // vertices of one subpath
	closed bool
}

func vhC05Shapes(k int) []vhC05Shape {
	switch k {
	case 0: // open L
		return []vhC05Shape{{pts: []Point{{0, 0}, {2, 0}, {2, 1}}}}
	case 1: // closed unit square (Close draws the last edge)
		return []vhC05Shape{{pts: []Point{{0, 0}, {1, 0}, {1, 1}, {0, 1}}, closed: true}}
	default: // two subpaths: the pattern restarts on each
		return []vhC05Shape{{pts: []Point{{0, 0}, {2, 0}, {2, 1}}}, {pts: []Point{{10, 10}, {10, 12}}}}
	}
}

func vhC05OnSeg(a, b, p Point) bool {
	// axis-aligned segment a-b contains p (with 1e-9 slack)
	const e = 1e-9
	xmin, xmax := a.X, b.X
	if xmax < xmin {
		xmin, xmax = xmax, xmin
	}
	ymin, ymax := a.Y, b.Y
	if ymax < ymin {
		ymin, ymax = ymax, ymin
	}
	return xmin-e <= p.X && p.X <= xmax+e && ymin-e <= p.Y && p.Y <= ymax+e
}

func VH_C05_dashdriver_Q() {
	shapes := vhC05Shapes(vChoose(0, 2))
	p := &Path{}
	for _, s := range shapes {
		p.MoveTo(s.pts[0].X, s.pts[0].Y)
		for _, q := range s.pts[1:] {
			p.LineTo(q.X, q.Y)
		}
		if s.closed {
			p.Close()
		}
	}
	before := vhCopyData(p.d)
	n := 2
	if vTier() == 1 {
		n = vChoose(1, 3)
	}
	d := make([]float64, n)
	sum := 0.0
	for i := range d {
		d[i] = vNondetDyadic(6, 3)
		vAssume(0 < d[i] && d[i] <= 4)
		sum += d[i]
	}
	// keep away from the repeated-pattern collapse tolerance: entries differ by 0 or >= 1/8 anyway
	P := sum
	if n%2 == 1 {
		P = 2 * sum
	}
	off := vNondetDyadic(8, 3)
	vAssume(-2*P <= off && off <= 2*P)
	dArg := vhCopyData(d)
	q := p.Dash(off, dArg...)
	vAssert("C05.dash.receiver_unchanged", vhSameData(p.d, before))
	vAssert("C05.dash.pattern_unchanged", vhSameData(dArg, d))
	vAssert("C05.dash.wellformed", vhWFOut(q))

	// pick a subpath and a position on it
	si := vChoose(0, len(shapes)-1)
	s := shapes[si]
	pts := s.pts
	if s.closed {
		pts = append(append([]Point{}, pts...), pts[0])
	}
	L := 0.0
	for k := 0; k+1 < len(pts); k++ {
		L += math.Abs(pts[k+1].X-pts[k].X) + math.Abs(pts[k+1].Y-pts[k].Y)
	}
	x := vNondetF64()
	vAssume(1e-6 <= x && x <= L-1e-6)
	// general position: x is at least 1e-6 away from every dash boundary (positions off+x = k*P + acc_i)
	// and from every vertex
	u := off + x
	for k := 0; k < 6; k++ {
		if u < 0 {
			u += P
		}
	}
	for k := 0; k < 8; k++ {
		if u >= P {
			u -= P
		}
	}
	dd := d
	if n%2 == 1 {
		dd = append(append([]float64{}, d...), d...)
	}
	acc := 0.0
	clear := u >= 1e-6 && u <= P-1e-6
	for i := range dd {
		acc += dd[i]
		clear = clear && math.Abs(u-acc) >= 1e-6
	}
	vAssume(clear)
	// the point at arc length x
	var pt Point
	T := 0.0
	awayFromVertex := true
	for k := 0; k+1 < len(pts); k++ {
		a, b := pts[k], pts[k+1]
		l := math.Abs(b.X-a.X) + math.Abs(b.Y-a.Y)
		if T <= x && x < T+l {
			f := (x - T) / l
			pt = Point{a.X + f*(b.X-a.X), a.Y + f*(b.Y-a.Y)}
		}
		T += l
		awayFromVertex = awayFromVertex && math.Abs(x-T) >= 1e-6
	}
	vAssume(awayFromVertex)
	want := vhOnPattern(off, d, x)
	// is pt on the output?
	subs, ok := vhDecode(q.d)
	vAssert("C05.dash.decodable", ok)
	covered := false
	for _, sub := range subs {
		for _, sg := range sub.segs {
			covered = covered || vhC05OnSeg(sg.start, sg.end, pt)
		}
	}
	vAssert("C05.dash.onoff_pointwise", covered == want)
}
