package canvas

import "math"

// C05-H1: dashStart phase equivalence in exact rational arithmetic.
// Pattern d of even length n (as Dash passes it), entries in (0,8], offset within +-3 periods.
// Oracle: the on/off state at distance x along the path, walking the pattern from (i0,pos0)
// exactly as Dash does, equals the specification on((offset+x) mod P).

func vhOnSpec(off float64, d []float64, P float64, x float64) bool {
	// position in pattern: (off + x) mod P, computed by bounded shifting (off+x in [-3P, 5P))
	u := off + x
	for k := 0; k < 4; k++ {
		if u < 0 {
			u += P
		}
	}
	for k := 0; k < 6; k++ {
		if u >= P {
			u -= P
		}
	}
	acc := 0.0
	for i := range d {
		if u < acc+d[i] {
			return i%2 == 0
		}
		acc += d[i]
	}
	return false // unreachable for 0 <= u < P
}

func vhOnWalk(i0 int, pos0 float64, d []float64, x float64) bool {
	// Dash: pos starts at pos0 (<=0); interval [pos, pos+d[i]) is state i
	i, pos := i0, pos0
	for k := 0; k < 3*len(d)+2; k++ {
		if x < pos+d[i] {
			return i%2 == 0
		}
		pos += d[i]
		i++
		if i == len(d) {
			i = 0
		}
	}
	return false
}

// vhModBounded is math.Mod for y > 0 and |x| <= 4y (exact in rational arithmetic); it replaces
// math.Mod in the symbolic run only (natively the real math.Mod runs).
func vhModBounded(x, y float64) float64 {
	r := x
	for k := 0; k < 4; k++ {
		if r <= -y {
			r += y
		}
	}
	for k := 0; k < 4; k++ {
		if r >= y {
			r -= y
		}
	}
	return r
}

func VH_C05_dashStart_Q() {
	vStub("math.Mod", vhModBounded)
	n := 2 * vChoose(1, 1+vTier())
	d := make([]float64, n)
	P := 0.0
	for i := range d {
		d[i] = vNondetDyadic(6, 2)
		vAssume(0 < d[i])
		P += d[i]
	}
	off := vNondetDyadic(10, 2)
	vAssume(-3*P <= off && off <= 3*P)
	i0, pos0 := dashStart(off, d)
	vAssert("C05.dashStart.index", 0 <= i0 && i0 < n)
	x := vNondetDyadic(8, 2)
	vAssume(0 <= x && x < 2*P)
	vAssert("C05.dashStart.phase", vhOnWalk(i0, pos0, d, x) == vhOnSpec(off, d, P, x))
	// Dash only records cut positions > 0, so the start must not lie after the path start
	vAssert("C05.dashStart.pos", pos0 <= 0)
}

// ---- C05-H2: dashCanonical ----
// Pattern entries are either exactly 0 or k/4 in (0,8): this keeps every Equal() decision of
// dashCanonical away from its 1e-10 tolerance, so the on/off function must be preserved exactly.

// vhOnPattern: is position x (path length coordinate) drawn under pattern d shifted by off?
// d is used as Dash uses it (odd length => doubled). P = period of the (doubled) pattern > 0.
func vhOnPattern(off float64, d []float64, x float64) bool {
	dd := d
	if len(d)%2 == 1 {
		dd = append(append([]float64{}, d...), d...)
	}
	P := 0.0
	for _, v := range dd {
		P += v
	}
	u := off + x
	for k := 0; k < 6; k++ {
		if u < 0 {
			u += P
		}
	}
	for k := 0; k < 8; k++ {
		if u >= P {
			u -= P
		}
	}
	on := false
	acc := 0.0
	for i := range dd {
		if acc <= u && u < acc+dd[i] && i%2 == 0 {
			on = true
		}
		acc += dd[i]
	}
	return on
}

func VH_C05_dashCanonical_Q() {
	n := vChoose(1, 3+vTier())
	d := make([]float64, n)
	sum := 0.0
	for i := range d {
		if vChoose(0, 1) == 1 {
			d[i] = vNondetDyadic(6, 2)
			vAssume(0 < d[i])
		}
		sum += d[i]
	}
	off := vNondetDyadic(9, 2)
	P := sum
	if n%2 == 1 {
		P = 2 * sum
	}
	vAssume(-2*P <= off && off <= 2*P)
	before := vhCopyData(d)
	off2, d2 := dashCanonical(off, d)
	vAssert("C05.dashCanonical.argument_unchanged", vhSameData(d, before))

	if sum == 0 {
		// all-zero pattern: nothing is drawn
		vAssert("C05.dashCanonical.allzero", len(d2) == 1 && d2[0] == 0)
		return
	}
	// which positions are drawn by the original pattern
	x := vNondetDyadic(8, 2)
	vAssume(0 <= x && x < 2*P)
	want := vhOnPattern(off, before, x)
	switch {
	case len(d2) == 0:
		vAssert("C05.dashCanonical.solid", want)
	case len(d2) == 1 && d2[0] == 0:
		vAssert("C05.dashCanonical.nothing", !want)
	default:
		good := true
		for _, v := range d2 {
			good = good && v > 0
		}
		vAssert("C05.dashCanonical.positive", good)
		vAssert("C05.dashCanonical.same_onoff", vhOnPattern(off2, d2, x) == want)
	}
}

// C05-H2b: the "repeated pattern" reduction of dashCanonical on longer patterns without zeros:
// 4 (thorough also 6) positive entries: the first half from a table, the second half repeating it
// in some positions and symbolic (k/4) in the others - the pattern may only be halved when the
// halves are equal.
func VH_C05_dashCanonical_repeat_Q() {
	n := 4 + 2*vChoose(0, vTier())
	first := vChoose(0, 2)
	d := make([]float64, n)
	sum := 0.0
	for i := range d {
		if i < n/2 {
			// first half concrete (keeps the on/off function piecewise linear in few unknowns)
			d[i] = [][3]float64{{5, 2, 1}, {1, 0.5, 3}, {2, 2, 2}}[first][i]
		} else if vChoose(0, 1) == 1 {
			d[i] = d[i-n/2] // repeats the first half here
		} else {
			d[i] = vNondetDyadic(6, 2)
			vAssume(0.25 <= d[i] && d[i] <= 6)
		}
		sum += d[i]
	}
	off := vNondetDyadic(9, 2)
	vAssume(-2*sum <= off && off <= 2*sum)
	before := vhCopyData(d)
	off2, d2 := dashCanonical(off, d)
	vAssert("C05.dashCanonical.repeat.argument_unchanged", vhSameData(d, before))
	x := vNondetDyadic(8, 2)
	vAssume(0 <= x && x < 2*sum)
	want := vhOnPattern(off, before, x)
	good := len(d2) > 0
	for _, v := range d2 {
		good = good && v > 0
	}
	vAssert("C05.dashCanonical.repeat.positive", good)
	if good {
		vAssert("C05.dashCanonical.repeat.same_onoff", vhOnPattern(off2, d2, x) == want)
	}
}

// ---- C05-H3: the Dash driver on concrete axis-aligned polylines, concrete pattern, symbolic offset ----
// Geometry and pattern are concrete (chosen from small tables that include several subpaths with
// different closedness and a pattern of odd length); the offset and the probe position are
// symbolic reals, so every phase of the pattern against every shape is covered.
// Oracles: (1) pointwise: a point at arc length x of a subpath (at least 1e-6 away from every dash
// boundary and vertex) lies on the output iff the pattern is "on" at x; (2) the pieces of an open subpath appear
// in path order (first one at the start vertex when the pattern starts on), and a closed subpath
// that starts and ends inside a dash has the two parts joined; (3) receiver/pattern unchanged, well-formed.

type vhC05Shape struct {
	pts    []Point // vertices of one subpath
	closed bool
}

func vhC05Shapes(k int) []vhC05Shape {
	openL := vhC05Shape{pts: []Point{{0, 0}, {2, 0}, {2, 1}}}
	square := vhC05Shape{pts: []Point{{20, 20}, {21, 20}, {21, 21}, {20, 21}}, closed: true}
	seg := vhC05Shape{pts: []Point{{40, 40}, {40, 42}}}
	switch k {
	case 0:
		return []vhC05Shape{openL}
	case 1:
		return []vhC05Shape{square}
	case 2:
		return []vhC05Shape{openL, seg}
	case 3:
		return []vhC05Shape{square, openL} // closedness differs from the last subpath's
	default:
		return []vhC05Shape{openL, square}
	}
}

func vhC05Patterns(k int) []float64 {
	switch k {
	case 0:
		return []float64{1, 0.5}
	case 1:
		return []float64{0.5, 1.5}
	case 2:
		return []float64{3, 1}
	case 3:
		return []float64{0.75} // odd length: doubled
	default:
		return []float64{0.5, 0.25, 1, 0.25}
	}
}

func vhC05OnSeg(a, b, p Point) bool {
	// axis-aligned segment a-b contains p (with 1e-9 slack)
	const e = 1e-9
	xmin, xmax := a.X, b.X
	if xmax < xmin {
		xmin, xmax = xmax, xmin
	}
	ymin, ymax := a.Y, b.Y
	if ymax < ymin {
		ymin, ymax = ymax, ymin
	}
	return xmin-e <= p.X && p.X <= xmax+e && ymin-e <= p.Y && p.Y <= ymax+e
}

func VH_C05_dashdriver_Q() {
	vStub("math.Mod", vhModBounded) // exact for |offset| <= 4 periods (here <= 2)
	// quick tier: the three two-subpath shapes (they contain the single-subpath cases)
	loShape := 2
	if vTier() == 1 {
		loShape = 0
	}
	shapeK := vChoose(loShape, 4)
	shapes := vhC05Shapes(shapeK)
	p := &Path{}
	for _, s := range shapes {
		p.MoveTo(s.pts[0].X, s.pts[0].Y)
		for _, q := range s.pts[1:] {
			p.LineTo(q.X, q.Y)
		}
		if s.closed {
			p.Close()
		}
	}
	before := vhCopyData(p.d)
	d := vhC05Patterns(vChoose(0, 1+3*vTier()))
	n := len(d)
	sum := 0.0
	for i := range d {
		sum += d[i]
	}
	P := sum
	if n%2 == 1 {
		P = 2 * sum
	}
	off := vNondetF64()
	vAssume(-2*P <= off && off <= 2*P)
	dArg := vhCopyData(d)
	q := p.Dash(off, dArg...)
	vAssert("C05.dash.receiver_unchanged", vhSameData(p.d, before))
	vAssert("C05.dash.pattern_unchanged", vhSameData(dArg, d))
	vAssert("C05.dash.wellformed", vhWFOut(q))
	subs, ok := vhDecode(q.d)
	vAssert("C05.dash.decodable", ok)

	// pattern phase at the start of every subpath: u0 = off mod P
	u0 := off
	for k := 0; k < 3; k++ {
		if u0 < 0 {
			u0 += P
		}
	}
	for k := 0; k < 3; k++ {
		if u0 >= P {
			u0 -= P
		}
	}
	dd := d
	if n%2 == 1 {
		dd = append(append([]float64{}, d...), d...)
	}
	// general position for the whole check: no dash boundary within 1e-6 of the start of a subpath
	accs := []float64{0}
	acc := 0.0
	for i := range dd {
		acc += dd[i]
		accs = append(accs, acc)
	}
	gp := true
	for _, a := range accs {
		gp = gp && math.Abs(u0-a) >= 1e-6
	}
	vAssume(gp)

	// pick a subpath
	si := vChoose(0, len(shapes)-1)
	s := shapes[si]
	pts := s.pts
	if s.closed {
		pts = append(append([]Point{}, pts...), pts[0])
	}
	L := 0.0
	for k := 0; k+1 < len(pts); k++ {
		L += math.Abs(pts[k+1].X-pts[k].X) + math.Abs(pts[k+1].Y-pts[k].Y)
	}
	// is there a dash boundary strictly inside (0,L)?  positions b with (u0+b) mod P in accs
	anyBoundary := false
	endClear := true
	nearEndHit := false
	for rep := 0; rep < 4; rep++ { // L <= 4, P >= 1.5: at most 3 periods
		for j := 1; j < len(accs); j++ {
			b := float64(rep)*P + accs[j] - u0
			anyBoundary = anyBoundary || (0 < b && b < L)
			endClear = endClear && math.Abs(b-L) >= 1e-6
			nearEndHit = nearEndHit || (L-9e-11 <= b && b <= L-1e-11)
		}
	}
	// variant "near end": a dash boundary lies within Epsilon before the end of the subpath
	// (what accumulated rounding produces for patterns that divide the length); the tail shorter
	// than Epsilon must not produce an extra cut that shifts the dash/gap parity
	nearEnd := vChoose(0, 1) == 1
	if nearEnd {
		vAssume(nearEndHit)
	} else {
		vAssume(endClear)
	}
	onStart := vhOnPattern(off, d, 0)
	onEnd := vhOnPattern(off, d, L)
	// the output pieces of this input subpath (subpaths are 20 apart), in output order
	lo, hi := s.pts[0].X-5, s.pts[0].X+5
	var starts []Point
	for _, sb := range subs {
		if len(sb.segs) > 0 && lo <= sb.start.X && sb.start.X <= hi {
			starts = append(starts, sb.start)
		}
	}
	// arc length of a point on the (concrete) polyline
	arclen := func(pt Point) float64 {
		T, res := 0.0, 0.0
		for k := 0; k+1 < len(pts); k++ {
			a, b := pts[k], pts[k+1]
			l := math.Abs(b.X-a.X) + math.Abs(b.Y-a.Y)
			if vhC05OnSeg(a, b, pt) && !(k+2 == len(pts) && s.closed && vhNearPt(pt, pts[0])) {
				res = T + math.Abs(pt.X-a.X) + math.Abs(pt.Y-a.Y)
			}
			T += l
		}
		return res
	}
	if !s.closed {
		// pieces of an open subpath come in path order and are never joined
		ordered := true
		for k := 0; k+1 < len(starts); k++ {
			ordered = ordered && arclen(starts[k]) < arclen(starts[k+1])
		}
		vAssert("C05.dash.open_pieces_in_path_order", ordered)
		if onStart && !nearEnd {
			vAssert("C05.dash.open_first_piece_at_start", len(starts) > 0 && vhNearPt(starts[0], pts[0]))
		}
	} else if onStart && onEnd && anyBoundary && !nearEnd {
		// a closed subpath that starts and ends inside a dash: the two parts are joined, so no
		// piece begins at the start vertex
		joined := true
		for _, st := range starts {
			joined = joined && !vhNearPt(st, pts[0])
		}
		vAssert("C05.dash.closed_wraparound_joined", joined)
	}

	// pointwise
	x := vNondetF64()
	vAssume(1e-6 <= x && x <= L-1e-6)
	u := off + x
	for k := 0; k < 4; k++ {
		if u < 0 {
			u += P
		}
	}
	for k := 0; k < 6; k++ {
		if u >= P {
			u -= P
		}
	}
	clear := true
	for _, a := range accs {
		clear = clear && math.Abs(u-a) >= 1e-6
	}
	vAssume(clear)
	var pt Point
	T := 0.0
	awayFromVertex := true
	for k := 0; k+1 < len(pts); k++ {
		a, b := pts[k], pts[k+1]
		l := math.Abs(b.X-a.X) + math.Abs(b.Y-a.Y)
		if T <= x && x < T+l {
			f := (x - T) / l
			pt = Point{a.X + f*(b.X-a.X), a.Y + f*(b.Y-a.Y)}
		}
		T += l
		awayFromVertex = awayFromVertex && math.Abs(x-T) >= 1e-6
	}
	vAssume(awayFromVertex)
	wantOn := vhOnPattern(off, d, x)
	covered := false
	for _, sub := range subs {
		for _, sg := range sub.segs {
			covered = covered || vhC05OnSeg(sg.start, sg.end, pt)
		}
	}
	vAssert("C05.dash.onoff_pointwise", covered == wantOn)
}

// C05-H4: checkDash ("whether a dash pattern is needed at all", used by Context.DrawPath): for a
// path of length L it answers "stroke solid", "stroke nothing" or "dash with this pattern".  Against
// the pattern's on/off function (odd-length patterns doubled, shifted by the offset):
//   solid   only if every position of (0,L) is drawn,
//   nothing only if no position of (0,L) is drawn,
//   a pattern only if it has the same on/off function as the one given.
// Path: one horizontal line of symbolic length; pattern of 1-3 positive entries k/4; offset within
// +-2 periods; the probed position symbolic in (0,L), away from dash boundaries.
func VH_C05_checkdash_Q() {
	vStub("math.Mod", vhModBounded)
	vStub("math.Hypot", vhHypotQ)
	n := vChoose(1, 3)
	d := make([]float64, n)
	P := 0.0
	for i := range d {
		d[i] = vNondetDyadic(6, 2)
		vAssume(0.25 <= d[i] && d[i] <= 6)
		P += d[i]
	}
	if n%2 == 1 {
		P *= 2
	}
	off := vNondetDyadic(8, 2)
	vAssume(-2*P <= off && off <= 2*P)
	L := vNondetDyadic(7, 2)
	vAssume(0.25 <= L && L <= 12)
	p := &Path{}
	p.d = []float64{MoveToCmd, 1, 2, MoveToCmd, LineToCmd, 1 + L, 2, LineToCmd}
	before := append([]float64{}, d...)
	dd, ok := p.checkDash(off, d)
	vAssert("C05.checkdash.pattern_argument_unchanged", vhSameData(d, before))
	x := vNondetF64()
	vAssume(0 < x && x < L)
	// general position: not within 1e-6 of a boundary of the given pattern
	gp := true
	for k := -3; k <= 3; k++ {
		acc := float64(k)*P - off
		for rep := 0; rep < 2; rep++ {
			for i := range d {
				gp = gp && (x-acc >= 1e-6 || acc-x >= 1e-6)
				acc += d[i]
			}
		}
	}
	vAssume(gp)
	want := vhOnPattern(off, d, x)
	switch {
	case ok && len(dd) == 0:
		vAssert("C05.checkdash.solid_only_if_all_drawn", want)
	case !ok:
		vAssert("C05.checkdash.nothing_only_if_nothing_drawn", !want)
	default:
		vAssert("C05.checkdash.kept_pattern_equivalent", vhOnPattern(off, dd, x) == want)
	}
}
