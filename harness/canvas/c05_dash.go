package canvas

// C05-H1: dashStart phase equivalence in exact rational arithmetic.
// Pattern d of even length n (as Dash passes it), entries in (0,8], offset within +-3 periods.
// Oracle: the on/off state at distance x along the path, walking the pattern from (i0,pos0)
// exactly as Dash does, equals the specification on((offset+x) mod P).

func vhOnSpec(off float64, d []float64, P float64, x float64) bool {
	// position in pattern: (off + x) mod P, computed by bounded shifting (off+x in [-3P, 5P))
	u := off + x
	for k := 0; k < 4; k++ {
		if u < 0 {
			u += P
		}
	}
	for k := 0; k < 6; k++ {
		if u >= P {
			u -= P
		}
	}
	acc := 0.0
	for i := range d {
		if u < acc+d[i] {
			return i%2 == 0
		}
		acc += d[i]
	}
	return false // unreachable for 0 <= u < P
}

func vhOnWalk(i0 int, pos0 float64, d []float64, x float64) bool {
	// Dash: pos starts at pos0 (<=0); interval [pos, pos+d[i]) is state i
	i, pos := i0, pos0
	for k := 0; k < 3*len(d)+2; k++ {
		if x < pos+d[i] {
			return i%2 == 0
		}
		pos += d[i]
		i++
		if i == len(d) {
			i = 0
		}
	}
	return false
}

// vhModBounded is math.Mod for y > 0 and |x| <= 4y (exact in rational arithmetic); it replaces
// math.Mod in the symbolic run only (natively the real math.Mod runs).
func vhModBounded(x, y float64) float64 {
	r := x
	for k := 0; k < 4; k++ {
		if r <= -y {
			r += y
		}
	}
	for k := 0; k < 4; k++ {
		if r >= y {
			r -= y
		}
	}
	return r
}

func VH_C05_dashStart_Q() {
	vStub("math.Mod", vhModBounded)
	n := 2 * vChoose(1, 1+vTier())
	d := make([]float64, n)
	P := 0.0
	for i := range d {
		d[i] = vNondetDyadic(6, 2)
		vAssume(0 < d[i])
		P += d[i]
	}
	off := vNondetDyadic(10, 2)
	vAssume(-3*P <= off && off <= 3*P)
	i0, pos0 := dashStart(off, d)
	vAssert("C05.dashStart.index", 0 <= i0 && i0 < n)
	x := vNondetDyadic(8, 2)
	vAssume(0 <= x && x < 2*P)
	vAssert("C05.dashStart.phase", vhOnWalk(i0, pos0, d, x) == vhOnSpec(off, d, P, x))
	// Dash only records cut positions > 0, so the start must not lie after the path start
	vAssert("C05.dashStart.pos", pos0 <= 0)
}
