package canvas

import "math"

// C04 — Stroke / Offset.
//
// H1 (VH_C04_dispatch_Q): cap/join dispatch of (*Path).offset (the kernel of Stroke) on
// symbolic-coordinate polylines of 1..3 segments, open and closed, with a recording Capper and
// Joiner.  Settling (Bentley-Ottmann) is not entered: offset() is called directly.
// Abstractions (all over-approximations): Point.Norm returns an arbitrary non-zero vector for a
// non-zero argument (recorded; the dispatch only compares normals), LineTo is its C10 contract,
// atan2 is free, intersectionLineLine (used by the inner-bend repair) returns 0..2 arbitrary
// intersections.  The distance sandwich of the property statement is outside the claim.

type vhC04CapRec struct {
	hw        float64
	pivot, n  Point
	posBefore Point
}

type vhC04JoinRec struct {
	hw            float64
	pivot, n0, n1 Point
	r0, r1        float64
	sameRhs       bool
}

type vhC04Rec struct {
	caps  []vhC04CapRec
	joins []vhC04JoinRec
	rhs   *Path
}

// recording capper: behaves like ButtCapper
type vhC04Capper struct{ rec *vhC04Rec }

func (c vhC04Capper) Cap(p *Path, halfWidth float64, pivot, n0 Point) {
	c.rec.caps = append(c.rec.caps, vhC04CapRec{halfWidth, pivot, n0, p.Pos()})
	end := pivot.Sub(n0)
	p.LineTo(end.X, end.Y)
}

// recording joiner: behaves like BevelJoiner
type vhC04Joiner struct{ rec *vhC04Rec }

func (j vhC04Joiner) Join(rhs, lhs *Path, halfWidth float64, pivot, n0, n1 Point, r0, r1 float64) {
	j.rec.joins = append(j.rec.joins, vhC04JoinRec{halfWidth, pivot, n0, n1, r0, r1, rhs != lhs})
	rEnd := pivot.Add(n1)
	lEnd := pivot.Sub(n1)
	nr, nl := len(rhs.d), len(lhs.d)
	pr, pl := rhs.Pos(), lhs.Pos()
	rhs.LineTo(rEnd.X, rEnd.Y)
	lhs.LineTo(lEnd.X, lEnd.Y)
	if vSymbolic() {
		// the join is called with both pens at pivot +- n0 and (general position) adds one record
		// per side; natively LineTo may merge collinear lines, hence symbolic only
		vAssert("C04.dispatch.join_pen_rhs", vhPtEq(pr, pivot.Add(n0)))
		vAssert("C04.dispatch.join_pen_lhs", vhPtEq(pl, pivot.Sub(n0)))
		vAssert("C04.dispatch.join_appends", len(rhs.d) == nr+4 && len(lhs.d) == nl+4)
	}
}

var vhC04Normals []Point

// Point.Norm: zero vector for the zero vector, otherwise some non-zero vector (length > 0)
func vhC04Norm(p Point, length float64) Point {
	if p.X == 0 && p.Y == 0 {
		vhC04Normals = append(vhC04Normals, Point{})
		return Point{}
	}
	// |n| = length: the larger component is between length/2 and length (enclosure of
	// length/sqrt(2) <= max(|nx|,|ny|) <= length)
	n := Point{vNondetF64(), vNondetF64()}
	ax, ay := math.Abs(n.X), math.Abs(n.Y)
	vAssume(ax <= length && ay <= length && (ax >= length/2 || ay >= length/2))
	vhC04Normals = append(vhC04Normals, n)
	return n
}

// intersectionLineLine as used by optimizeInnerBend, which only looks at "exactly one
// intersection, strictly inside both segments" and then at its position: either that (arbitrary
// position), or no intersection (stands for every other outcome).
func vhC04LineLine(zs Intersections, a0, a1, b0, b1 Point) Intersections {
	if vChoose(0, 1) == 1 {
		zs = append(zs, Intersection{Point{vNondetF64(), vNondetF64()}, [2]float64{0.5, 0.5}, [2]float64{0, 0}, false, false})
	}
	return zs
}

func vhC04Stubs() {
	vhC03Stubs() // Hypot enclosure, free atan2, LineTo/QuadTo/CubeTo contracts
	// general position (stated): offset lines and join lines are never collinear, i.e. LineTo
	// does not merge (with true normals a merge needs a turn angle below 2e-10 rad)
	vhC03Rich = false
	vhC04Normals = nil
	vStub("(github.com/tdewolff/canvas.Point).Norm", vhC04Norm)
	vStub("github.com/tdewolff/canvas.intersectionLineLine", vhC04LineLine)
}

func VH_C04_dispatch_Q() {
	vhC04Stubs()
	nseg := vChoose(1, 2) // 3 segments: > 9 min, not finished
	closed := vChoose(0, 1) == 1
	p := &Path{}
	kinds := make([]int, nseg)
	vhC03Subpath(p, kinds, closed) // vhLine == 0
	vAssume(vhWF(p))
	// scale bounds (stated): half width in [1e-6, 16] and every segment (incl. the closing line)
	// longer than 1e-6 in x or y.  At the scale of Epsilon (1e-10) Equal() identifies normals that
	// are 90 degrees apart and offset() panics natively (reported separately).
	hw := vNondetF64()
	vAssume(1e-6 <= hw && hw <= 16)
	tol := 0.01
	{
		subs, _ := vhDecode(p.d)
		for _, sg := range subs[0].segs {
			vAssume(math.Abs(sg.end.X-sg.start.X) > 1e-6 || math.Abs(sg.end.Y-sg.start.Y) > 1e-6)
		}
	}

	pts := []Point{{p.d[1], p.d[2]}}
	for i := 0; i < nseg; i++ {
		pts = append(pts, Point{p.d[4+4*i+1], p.d[4+4*i+2]})
	}
	before := vhCopyData(p.d)

	if !vSymbolic() {
		// natively (and in concrete self-tests) the Norm stub is not active: compute the normals
		// exactly as offset() does
		vhC04Normals = nil
		all := append([]Point{}, pts...)
		if closed {
			all = append(all, pts[0])
		}
		for i := 0; i+1 < len(all); i++ {
			vhC04Normals = append(vhC04Normals, all[i+1].Sub(all[i]).Rot90CW().Norm(hw))
		}
	}
	rec := &vhC04Rec{}
	rhs, lhs := p.offset(hw, vhC04Capper{rec}, vhC04Joiner{rec}, true, tol)
	vAssert("C04.dispatch.receiver_unchanged", vhSameData(p.d, before))

	// states: one per line segment, plus the closing line of a closed path (never shorter than
	// Epsilon for a well-formed polyline)
	nst := nseg
	if closed {
		nst++
		pts = append(pts, pts[0])
	}
	vAssert("C04.dispatch.one_normal_per_segment", len(vhC04Normals) == nst)
	if len(vhC04Normals) != nst {
		return
	}
	ns := vhC04Normals

	// expected joins: between consecutive segments (and last->first when closed) whose normals
	// differ by more than Epsilon
	type exp struct{ pivot, n0, n1 Point }
	var want []exp
	for i := 0; i < nst; i++ {
		j := i + 1
		if j == nst {
			if !closed {
				break
			}
			j = 0
		}
		if !ns[i].Equals(ns[j]) {
			want = append(want, exp{pts[i+1], ns[i], ns[j]})
		}
	}
	vAssert("C04.dispatch.join_count", len(rec.joins) == len(want))
	if len(rec.joins) == len(want) {
		okj := true
		for k, w := range want {
			g := rec.joins[k]
			okj = okj && vhPtEq(g.pivot, w.pivot) && vhPtEq(g.n0, w.n0) && vhPtEq(g.n1, w.n1) && g.hw == hw && math.IsNaN(g.r0) && math.IsNaN(g.r1) && g.sameRhs
		}
		vAssert("C04.dispatch.join_args", okj)
	}

	if closed {
		vAssert("C04.dispatch.closed_no_caps", len(rec.caps) == 0)
		vAssert("C04.dispatch.closed_two_sides", rhs != nil && lhs != nil)
		if rhs != nil && lhs != nil {
			vAssert("C04.dispatch.closed_results_closed", rhs.Closed() && lhs.Closed())
			vAssert("C04.dispatch.closed_results_wf", vhStructWF(rhs) && vhStructWF(lhs))
			rs, ok1 := vhDecode(rhs.d)
			ls, ok2 := vhDecode(lhs.d)
			vAssert("C04.dispatch.closed_single_subpaths", ok1 && ok2 && len(rs) == 1 && len(ls) == 1)
		}
	} else {
		vAssert("C04.dispatch.open_two_caps", len(rec.caps) == 2)
		if len(rec.caps) == 2 {
			c0, c1 := rec.caps[0], rec.caps[1]
			// first cap at the end of the path with the last normal, second at the start with the
			// opposite of the first normal
			vAssert("C04.dispatch.cap_end", vhPtEq(c0.pivot, pts[nseg]) && vhPtEq(c0.n, ns[nst-1]) && c0.hw == hw)
			vAssert("C04.dispatch.cap_start", vhPtEq(c1.pivot, pts[0]) && vhPtEq(c1.n, ns[0].Neg()) && c1.hw == hw)
		}
		vAssert("C04.dispatch.open_one_side", rhs != nil && lhs == nil)
		if rhs != nil {
			vAssert("C04.dispatch.open_result_closed", rhs.Closed())
			vAssert("C04.dispatch.open_result_wf", vhStructWF(rhs))
			rs, ok1 := vhDecode(rhs.d)
			vAssert("C04.dispatch.open_single_subpath", ok1 && len(rs) == 1)
		}
	}
}

// ---- H2: geometry of the simple cappers and joiners ------------------------------------------
//
// Butt/Square/Bevel: symbolic pivot, normal (any non-zero vector) and half width; LineTo is its
// contract (rich: drop within Epsilon, free merge).  The pen is at pivot+n0 as offset() leaves it.

func vhC04PenPath(pivot, n0 Point) *Path {
	p := &Path{}
	a := Point{vhReal(), vhReal()}
	s := pivot.Add(n0)
	vAssume(!a.Equals(s))
	p.d = append(p.d, MoveToCmd, a.X, a.Y, MoveToCmd, LineToCmd, s.X, s.Y, LineToCmd)
	return p
}

// vhC04Tail returns the vertices appended after the first `from` floats, ok=false if a record
// other than LineTo was appended.
func vhC04Tail(p *Path, from int) (pts []Point, ok bool) {
	ok = true
	for i := from; i < len(p.d); i += cmdLen(p.d[i]) {
		ok = ok && p.d[i] == LineToCmd
		n := cmdLen(p.d[i])
		pts = append(pts, Point{p.d[i+n-3], p.d[i+n-2]})
	}
	return
}

func VH_C04_caps_Q() {
	vhC03Stubs()
	vhC03Rich = false // general position: the cap lines are not collinear with the pen's last line
	pivot := Point{vhReal(), vhReal()}
	n0 := Point{vhReal(), vhReal()}
	vAssume(!n0.Equals(Point{}))
	hw := vNondetF64()
	vAssume(hw > 0)
	p := vhC04PenPath(pivot, n0)
	pre := vhCopyData(p.d)
	end := pivot.Sub(n0)
	if vChoose(0, 1) == 0 {
		ButtCapper{}.Cap(p, hw, pivot, n0)
		pts, ok := vhC04Tail(p, len(pre))
		vAssert("C04.butt.prefix_kept", len(p.d) >= len(pre) && vhSameData(p.d[:len(pre)], pre))
		vAssert("C04.butt.one_line", ok && len(pts) == 1)
		if len(pts) == 1 {
			vAssert("C04.butt.ends_at_pivot_minus_n0", vhPtEq(pts[0], end))
		}
		return
	}
	SquareCapper{}.Cap(p, hw, pivot, n0)
	pts, ok := vhC04Tail(p, len(pre))
	vAssert("C04.square.prefix_kept", len(p.d) >= len(pre) && vhSameData(p.d[:len(pre)], pre))
	vAssert("C04.square.three_lines", ok && len(pts) == 3)
	if len(pts) != 3 {
		return
	}
	c1, c2 := pts[0], pts[1]
	vAssert("C04.square.ends_at_pivot_minus_n0", vhPtEq(pts[2], end))
	// corners: the two pen positions pivot +- n0 pushed outwards by the vector e that is n0
	// turned 90 degrees counter clockwise (|e| = |n0| = half width beyond the end point)
	e1, e2 := c1.Sub(pivot.Add(n0)), c2.Sub(pivot.Sub(n0))
	vAssert("C04.square.same_push", vhPtEq(e1, e2))
	vAssert("C04.square.push_perpendicular", e1.Dot(n0) == 0)
	vAssert("C04.square.push_length", e1.Dot(e1) == n0.Dot(n0))
	vAssert("C04.square.push_outwards", n0.PerpDot(e1) > 0)
}

func VH_C04_bevel_Q() {
	vhC03Stubs()
	vhC03Rich = false
	pivot := Point{vhReal(), vhReal()}
	n0 := Point{vhReal(), vhReal()}
	n1 := Point{vhReal(), vhReal()}
	// offset() calls the joiner only for normals that differ by more than Epsilon
	vAssume(!n0.Equals(Point{}) && !n1.Equals(Point{}) && !n0.Equals(n1))
	hw := vNondetF64()
	vAssume(hw > 0)
	rhs := vhC04PenPath(pivot, n0)
	lhs := vhC04PenPath(pivot, n0.Neg())
	preR, preL := vhCopyData(rhs.d), vhCopyData(lhs.d)
	BevelJoiner{}.Join(rhs, lhs, hw, pivot, n0, n1, math.NaN(), math.NaN())
	pr, okr := vhC04Tail(rhs, len(preR))
	pl, okl := vhC04Tail(lhs, len(preL))
	vAssert("C04.bevel.prefix_kept", len(rhs.d) >= len(preR) && len(lhs.d) >= len(preL) && vhSameData(rhs.d[:len(preR)], preR) && vhSameData(lhs.d[:len(preL)], preL))
	vAssert("C04.bevel.one_line_each", okr && okl && len(pr) == 1 && len(pl) == 1)
	if len(pr) == 1 && len(pl) == 1 {
		vAssert("C04.bevel.rhs_to_pivot_plus_n1", vhPtEq(pr[0], pivot.Add(n1)))
		vAssert("C04.bevel.lhs_to_pivot_minus_n1", vhPtEq(pl[0], pivot.Sub(n1)))
	}
}

// Round cap / round join: normals hw*u for unit vectors u from a concrete set (so that |n| = hw
// exactly and ArcTo's radius correction is 1), hw from {0.5, 2}, pivot symbolic.  ArcTo runs for
// real.  Claims up to 1e-9 (host rounding of the concrete normals).
var vhC04Units = []Point{{1, 0}, {0, 1}, {-1, 0}, {0, -1}, {0.6, 0.8}, {-0.8, 0.6}, {0.6, -0.8}}

type vhC04Arc struct {
	rx, ry, phi  float64
	large, sweep bool
	end          Point
}

// vhC04OneArc: exactly one ArcTo record was appended after `from`
func vhC04OneArc(p *Path, from int) (a vhC04Arc, ok bool) {
	if len(p.d) != from+8 || p.d[from] != ArcToCmd {
		return a, false
	}
	a.rx, a.ry, a.phi = p.d[from+1], p.d[from+2], p.d[from+3]
	a.large, a.sweep = toArcFlags(p.d[from+4])
	a.end = Point{p.d[from+5], p.d[from+6]}
	return a, true
}

func VH_C04_round_Q() {
	vStub("math.Hypot", vhC03Hypot)
	pivot := Point{vhReal(), vhReal()}
	hw := []float64{0.5, 2}[vChoose(0, 1)]
	u0 := vhC04Units[vChoose(0, len(vhC04Units)-1)]
	n0 := u0.Mul(hw)
	if vChoose(0, 1) == 0 {
		p := &Path{}
		s := pivot.Add(n0)
		p.d = append(p.d, MoveToCmd, s.X, s.Y, MoveToCmd)
		RoundCapper{}.Cap(p, hw, pivot, n0)
		a, ok := vhC04OneArc(p, 4)
		vAssert("C04.roundcap.one_arc", ok)
		if ok {
			vAssert("C04.roundcap.radius_is_halfwidth", vhNear(a.rx, hw) && vhNear(a.ry, hw))
			vAssert("C04.roundcap.ends_at_pivot_minus_n0", vhPtEq(a.end, pivot.Sub(n0)))
			// half circle around the outside: counter clockwise from pivot+n0 to pivot-n0 passes
			// through pivot + rot90ccw(n0), the outward direction
			vAssert("C04.roundcap.ccw_small", a.sweep && !a.large)
		}
		return
	}
	u1 := vhC04Units[vChoose(0, len(vhC04Units)-1)]
	n1 := u1.Mul(hw)
	if n0.Equals(n1) {
		return // offset() does not join equal normals
	}
	rhs, lhs := &Path{}, &Path{}
	sr, sl := pivot.Add(n0), pivot.Sub(n0)
	rhs.d = append(rhs.d, MoveToCmd, sr.X, sr.Y, MoveToCmd)
	lhs.d = append(lhs.d, MoveToCmd, sl.X, sl.Y, MoveToCmd)
	RoundJoiner{}.Join(rhs, lhs, hw, pivot, n0, n1, math.NaN(), math.NaN())
	// turn direction from the normals, independently of the code: n1 clockwise of n0 (perp-dot
	// < 0) is a right turn, whose outer side is the left-hand side; a 180 degree turn (perp-dot
	// 0, n1 = -n0) may round either side
	pd := u0.PerpDot(u1)
	ar, okr := vhC04OneArc(rhs, 4)
	al, okl := vhC04OneArc(lhs, 4)
	rLine := len(rhs.d) == 8 && rhs.d[4] == LineToCmd
	lLine := len(lhs.d) == 8 && lhs.d[4] == LineToCmd
	vAssert("C04.roundjoin.one_arc_one_line", (okr && lLine) || (okl && rLine))
	vAssert("C04.roundjoin.ends", vhPtEq(rhs.Pos(), pivot.Add(n1)) && vhPtEq(lhs.Pos(), pivot.Sub(n1)))
	if pd < 0 {
		vAssert("C04.roundjoin.right_turn_arc_on_lhs", okl && rLine)
	} else if pd > 0 {
		vAssert("C04.roundjoin.left_turn_arc_on_rhs", okr && lLine)
	}
	if okr {
		// outer arc of a left turn runs counter clockwise
		vAssert("C04.roundjoin.rhs_arc", vhNear(ar.rx, hw) && vhNear(ar.ry, hw) && ar.sweep && !ar.large)
	}
	if okl {
		vAssert("C04.roundjoin.lhs_arc", vhNear(al.rx, hw) && vhNear(al.ry, hw) && !al.sweep && !al.large)
	}
}

// ---- H3: Path.Offset -------------------------------------------------------------------------
//
// (a) Equal(w, 0) returns the receiver itself, untouched.  (b) The sign of w selects the side:
// open polylines along +x / +y / -x / -y (symbolic position and lengths) move to their
// right-hand side by w for w > 0 and to the left-hand side by |w| for w < 0; open subpaths are
// never settled.  (Settle is replaced by a recording identity; it must not be reached.)

var vhC04SettleCalls int

func vhC04Settle(p *Path, fillRule FillRule) *Path {
	vhC04SettleCalls++
	return p
}

func VH_C04_offset_zero_Q() {
	p := vhPreState(vhReal, 2, []int{vhLine, vhQuad, vhCube, vhArc})
	before := vhCopyData(p.d)
	w := vNondetF64()
	vAssume(Equal(w, 0.0))
	q := p.Offset(w, 0.01)
	vAssert("C04.offset.zero_returns_receiver", q == p)
	vAssert("C04.offset.zero_unchanged", vhSameData(p.d, before))
}

func VH_C04_offset_side_Q() {
	vhC03Stubs()
	vhC03Rich = false
	vhC04SettleCalls = 0
	vStub("(*github.com/tdewolff/canvas.Path).Settle", vhC04Settle)
	// direction of travel and its right-hand side (y up: walking +x, the right hand points to -y)
	dirs := []Point{{1, 0}, {0, 1}, {-1, 0}, {0, -1}}
	right := []Point{{0, -1}, {1, 0}, {0, 1}, {-1, 0}}
	k := vChoose(0, 3)
	nseg := vChoose(1, 2)
	a := Point{vhReal(), vhReal()}
	p := &Path{}
	p.d = append(p.d, MoveToCmd, a.X, a.Y, MoveToCmd)
	pts := []Point{a}
	cur := a
	for i := 0; i < nseg; i++ {
		l := vNondetF64()
		vAssume(1e-6 <= l && l <= 8)
		cur = cur.Add(dirs[k].Mul(l))
		if i == 0 && nseg == 2 {
			// second segment continues after a 90 degree left turn
			k = (k + 1) % 4
		}
		p.d = append(p.d, LineToCmd, cur.X, cur.Y, LineToCmd)
		pts = append(pts, cur)
	}
	w := vNondetF64()
	vAssume((1e-6 <= w && w <= 4) || (-4 <= w && w <= -1e-6))
	before := vhCopyData(p.d)
	q := p.Offset(w, 0.01)
	vAssert("C04.offset.receiver_unchanged", vhSameData(p.d, before))
	vAssert("C04.offset.open_not_settled", vhC04SettleCalls == 0 || !vSymbolic())
	subs, ok := vhDecode(q.d)
	vAssert("C04.offset.one_open_subpath", ok && len(subs) == 1 && !subs[0].closed)
	if !ok || len(subs) != 1 {
		return
	}
	// first and last vertex of the result: the end points moved by w along the right-hand normal
	// of the first / last segment (w < 0: to the left)
	k0 := (k + 4 - (nseg - 1)) % 4
	first := pts[0].Add(right[k0].Mul(w))
	last := pts[nseg].Add(right[k].Mul(w))
	segs := subs[0].segs
	vAssert("C04.offset.starts_on_selected_side", vhNearPt(subs[0].start, first))
	vAssert("C04.offset.ends_on_selected_side", len(segs) > 0 && vhNearPt(segs[len(segs)-1].end, last))
}

// C04: MiterJoiner: the join never reaches farther than limit x halfWidth from the vertex: beyond
// that the gap joiner takes over (or the miter is clipped).  Unit normals and the half width are
// concrete (all ordered pairs of 7 directions that are neither equal nor opposite, i.e. left and
// right turns of many angles), the pivot and the limit are symbolic.
type vhC04Gap struct{ called *bool }

func (g vhC04Gap) Join(rhs, lhs *Path, halfWidth float64, pivot, n0, n1 Point, r0, r1 float64) {
	*g.called = true
	BevelJoin.Join(rhs, lhs, halfWidth, pivot, n0, n1, r0, r1)
}

func (g vhC04Gap) String() string { return "vhC04Gap" }

func VH_C04_miter_Q() {
	i := vChoose(0, len(vhC04Units)-1)
	j := vChoose(0, len(vhC04Units)-1)
	u0, u1 := vhC04Units[i], vhC04Units[j]
	if i == j || (u0.X == -u1.X && u0.Y == -u1.Y) {
		return
	}
	hw := []float64{0.5, 2}[vChoose(0, 1)]
	n0, n1 := u0.Mul(hw), u1.Mul(hw)
	pivot := []Point{{0, 0}, {3, -2}}[vChoose(0, 1)]
	limit := vNondetF64()
	vAssume(1 <= limit && limit <= 20)
	called := false
	jr := MiterJoiner{Limit: limit, GapJoiner: vhC04Gap{&called}}
	mk := func(n Point) *Path {
		s := pivot.Add(n)
		a := s.Add(n.Mul(2)) // the pen arrives perpendicular to the offset line, so that LineTo never merges the miter tip into the previous record
		p := &Path{}
		p.d = append(p.d, MoveToCmd, a.X, a.Y, MoveToCmd, LineToCmd, s.X, s.Y, LineToCmd)
		return p
	}
	rhs, lhs := mk(n0), mk(n0.Neg())
	nr, nl := len(rhs.d), len(lhs.d)
	jr.Join(rhs, lhs, hw, pivot, n0, n1, math.NaN(), math.NaN())
	// the miter tip is only drawn when it stays within max(limit, 1.001) x halfWidth of the
	// vertex; beyond that the gap joiner takes over
	lim := math.Max(limit, 1.001) * hw
	good := true
	if !called {
		for _, pth := range []*Path{rhs, lhs} {
			from := nr
			if pth == lhs {
				from = nl
			}
			pts, ok := vhC04Tail(pth, from)
			good = good && ok
			for _, q := range pts {
				dx, dy := q.X-pivot.X, q.Y-pivot.Y
				good = good && dx*dx+dy*dy <= lim*lim*(1+1e-6)
			}
		}
	}
	vAssert("C04.miter.tip_within_limit_of_vertex", good)
	vAssert("C04.miter.ends_on_offset_lines", vhNearPt(rhs.Pos(), pivot.Add(n1)) && vhNearPt(lhs.Pos(), pivot.Sub(n1)))
}

// C04: miter-clip (MiterJoiner without gap joiner): where the miter is longer than the limit it is cut
// off by a line across the corner.  Whatever the exact position of that line, the two new corners
// lie on the outer stroke edges of the two segments (the edges run straight on up to the cut), are
// mirror images of each other about the bisector (equal distance from the vertex), lie between the
// half width and the miter tip from the vertex, and both sides end on the offset points of the next
// segment.  Normals/half width concrete (left and right turns of many angles), pivot from two
// points, limit symbolic.
func VH_C04_miterclip_Q() {
	i := vChoose(0, len(vhC04Units)-1)
	j := vChoose(0, len(vhC04Units)-1)
	u0, u1 := vhC04Units[i], vhC04Units[j]
	if i == j || (u0.X == -u1.X && u0.Y == -u1.Y) {
		return
	}
	hw := []float64{0.5, 2}[vChoose(0, 1)]
	n0, n1 := u0.Mul(hw), u1.Mul(hw)
	pivot := []Point{{0, 0}, {3, -2}}[vChoose(0, 1)]
	limit := vNondetF64()
	vAssume(1 <= limit && limit <= 20)
	jr := MiterJoiner{Limit: limit, GapJoiner: nil}
	mk := func(n Point) *Path {
		s := pivot.Add(n)
		a := s.Add(n.Mul(2))
		p := &Path{}
		p.d = append(p.d, MoveToCmd, a.X, a.Y, MoveToCmd, LineToCmd, s.X, s.Y, LineToCmd)
		return p
	}
	rhs, lhs := mk(n0), mk(n0.Neg())
	nr, nl := len(rhs.d), len(lhs.d)
	jr.Join(rhs, lhs, hw, pivot, n0, n1, math.NaN(), math.NaN())
	vAssert("C04.miterclip.ends_on_offset_lines", vhNearPt(rhs.Pos(), pivot.Add(n1)) && vhNearPt(lhs.Pos(), pivot.Sub(n1)))
	// the outer side is the left one for a right turn
	cw := 0.0 <= n0.Rot90CW().Dot(n1)
	outer, from := rhs, nr
	o0, o1 := pivot.Add(n0), pivot.Add(n1)
	inner, ifrom := lhs, nl
	if cw {
		outer, from = lhs, nl
		o0, o1 = pivot.Sub(n0), pivot.Sub(n1)
		inner, ifrom = rhs, nr
	}
	ipts, okI := vhC04Tail(inner, ifrom)
	vAssert("C04.miterclip.inner_side_one_line", okI && len(ipts) == 1)
	pts, ok := vhC04Tail(outer, from)
	vAssert("C04.miterclip.outer_side_lines", ok && (len(pts) == 2 || len(pts) == 3))
	if !ok || (len(pts) != 2 && len(pts) != 3) {
		return
	}
	// cos of half the angle between the normals, half miter length
	cs := (u0.X*u1.X + u0.Y*u1.Y + 1) / 2 // cos^2(theta) = (1 + cos(2 theta)) / 2
	tip2 := hw * hw / cs                  // squared distance of the miter tip from the vertex
	if len(pts) == 2 {
		// unclipped: the tip, at the intersection of both outer edges
		q := pts[0]
		onE0 := math.Abs((q.X-o0.X)*n0.X+(q.Y-o0.Y)*n0.Y) <= 1e-9
		onE1 := math.Abs((q.X-o1.X)*n1.X+(q.Y-o1.Y)*n1.Y) <= 1e-9
		vAssert("C04.miterclip.unclipped_tip_on_both_edges", onE0 && onE1)
		return
	}
	m0, m1 := pts[0], pts[1]
	onE0 := math.Abs((m0.X-o0.X)*n0.X+(m0.Y-o0.Y)*n0.Y) <= 1e-9
	onE1 := math.Abs((m1.X-o1.X)*n1.X+(m1.Y-o1.Y)*n1.Y) <= 1e-9
	vAssert("C04.miterclip.corners_on_outer_edges", onE0 && onE1)
	d0 := (m0.X-pivot.X)*(m0.X-pivot.X) + (m0.Y-pivot.Y)*(m0.Y-pivot.Y)
	d1 := (m1.X-pivot.X)*(m1.X-pivot.X) + (m1.Y-pivot.Y)*(m1.Y-pivot.Y)
	vAssert("C04.miterclip.corners_symmetric", math.Abs(d0-d1) <= 1e-9*(1+d0))
	vAssert("C04.miterclip.corners_between_half_width_and_tip", hw*hw-1e-9 <= d0 && d0 <= tip2*(1+1e-9))
}

// C04: closed subpaths whose last *curve* already ends at the start point (zero-length Close
// record) are joined, not capped, and both offset sides come out closed.  Concrete shapes (a lens
// of two quadratics, a drop of a cubic and a line, a lens after another subpath), half width from
// a small set; the real offset() runs with recording cappers/joiners.
// recording joiner without the pen-position asserts of vhC04Joiner (after a curve the pen is only
// approximately at pivot+n0)
type vhC04PlainJoiner struct{ rec *vhC04Rec }

func (j vhC04PlainJoiner) Join(rhs, lhs *Path, halfWidth float64, pivot, n0, n1 Point, r0, r1 float64) {
	j.rec.joins = append(j.rec.joins, vhC04JoinRec{halfWidth, pivot, n0, n1, r0, r1, rhs != lhs})
	BevelJoin.Join(rhs, lhs, halfWidth, pivot, n0, n1, r0, r1)
}

func VH_C04_dispatch_curved_closed() {
	p := &Path{}
	switch vChoose(0, 2) {
	case 0: // lens: two quadratics, corner at the start/end point
		p.d = []float64{MoveToCmd, 0, 0, MoveToCmd, QuadToCmd, 5, 5, 10, 0, QuadToCmd, QuadToCmd, 5, -5, 0, 0, QuadToCmd, CloseCmd, 0, 0, CloseCmd}
	case 1: // drop: a line and a cubic returning to the start
		p.d = []float64{MoveToCmd, 0, 0, MoveToCmd, LineToCmd, 10, 0, LineToCmd, CubeToCmd, 10, 8, 0, 8, 0, 0, CubeToCmd, CloseCmd, 0, 0, CloseCmd}
	default: // same lens, but open (no Close record): caps expected
		p.d = []float64{MoveToCmd, 0, 0, MoveToCmd, QuadToCmd, 5, 5, 10, 0, QuadToCmd, QuadToCmd, 5, -5, 0, 0, QuadToCmd}
	}
	closed := p.Closed()
	hw := []float64{0.5, 1}[vChoose(0, 1)]
	before := vhCopyData(p.d)
	rec := &vhC04Rec{}
	rhs, lhs := p.offset(hw, vhC04Capper{rec}, vhC04PlainJoiner{rec}, true, 0.01)
	vAssert("C04.curved.receiver_unchanged", vhSameData(p.d, before))
	if closed {
		vAssert("C04.curved.closed_no_caps", len(rec.caps) == 0)
		// the corner at the start/end point gets a join whose pivot is that point
		has := false
		for _, j := range rec.joins {
			has = has || vhNearPt(j.pivot, Point{0, 0})
		}
		vAssert("C04.curved.join_at_closing_corner", has)
		vAssert("C04.curved.two_closed_sides", rhs != nil && lhs != nil && rhs.Closed() && lhs.Closed())
	} else {
		vAssert("C04.curved.open_two_caps", len(rec.caps) == 2)
		vAssert("C04.curved.open_one_closed_side", rhs != nil && lhs == nil && rhs.Closed())
	}
}

func vhNear6(a, b float64) bool { return math.Abs(a-b) <= 1e-6 }

// C04 (optimizeClose, used by offset() on closed outlines): it may only move the start of a closed
// polygon forward past a first vertex that lies on the straight line from the last vertex to the
// second one; the traced closed polyline must stay the same.  Polygons of 3-4 vertices: the last
// and second vertex (and the third) are concrete, the first vertex is L + t(S-L) + u N with symbolic
// t and u (u exactly 0 or |u| >= 0.01: on the line or clearly off it), optionally after another
// subpath.  The collinearity test stays linear that way.
func VH_C04_optimizeclose_Q() {
	vStub("math.Atan2", vhAtan2GP)
	vStub("math.Hypot", vhHypotQ)
	n := vChoose(3, 4)
	shapes := [][3]Point{{{0, 0}, {4, 0}, {4, 3}}, {{1, 1}, {4, 5}, {-2, 6}}, {{0, 0}, {0, -3}, {5, -3}}}
	sh := shapes[vChoose(0, len(shapes)-1)]
	L, S, T := sh[0], sh[1], sh[2] // last vertex, second vertex, third vertex
	d := S.Sub(L)
	nrm := Point{-d.Y, d.X}
	t := vNondetF64()
	vAssume(-1 <= t && t <= 2)
	u := 0.0
	if vChoose(0, 1) == 1 {
		u = vNondetF64()
		vAssume((0.01 <= u && u <= 1) || (-1 <= u && u <= -0.01))
	}
	// clear of the end points (zero-length segments are not well-formed input)
	vAssume(u != 0 || ((t <= -0.01 || t >= 0.01) && (t <= 0.99 || t >= 1.01)))
	first := Point{L.X + t*d.X + u*nrm.X, L.Y + t*d.Y + u*nrm.Y}
	var v []Point
	if n == 3 {
		v = []Point{first, S, L}
	} else {
		v = []Point{first, S, T, L}
	}
	p := &Path{}
	pre := 0
	if vChoose(0, 1) == 1 {
		p.d = append(p.d, MoveToCmd, 20, 20, MoveToCmd, LineToCmd, 21, 20, LineToCmd)
		pre = len(p.d)
	}
	p.d = append(p.d, MoveToCmd, v[0].X, v[0].Y, MoveToCmd)
	for i := 1; i < n; i++ {
		p.d = append(p.d, LineToCmd, v[i].X, v[i].Y, LineToCmd)
	}
	p.d = append(p.d, CloseCmd, v[0].X, v[0].Y, CloseCmd)
	before := vhCopyData(p.d)
	p.optimizeClose()
	vAssert("C04.optimizeclose.earlier_subpath_untouched", len(p.d) >= pre && vhSameData(p.d[:pre], before[:pre]))
	subs, ok := vhDecode(p.d[pre:])
	vAssert("C04.optimizeclose.one_closed_subpath", ok && len(subs) == 1 && subs[0].closed)
	if !ok || len(subs) != 1 {
		return
	}
	// the first vertex is redundant iff it lies strictly between L and S on their line
	redundant := u == 0 && 0 < t && t < 1
	var got []Point
	got = append(got, subs[0].start)
	for _, sg := range subs[0].segs {
		if sg.cmd != CloseCmd {
			got = append(got, sg.end)
		}
	}
	closeOK := len(subs[0].segs) > 0 && vhPtEq(subs[0].segs[len(subs[0].segs)-1].end, subs[0].start)
	same := func(want []Point) bool {
		if len(got) != len(want) {
			return false
		}
		eq := true
		for i := range want {
			eq = eq && vhPtEq(got[i], want[i])
		}
		return eq
	}
	if redundant {
		vAssert("C04.optimizeclose.same_polygon", closeOK && (same(v) || same(v[1:])))
	} else {
		vAssert("C04.optimizeclose.unchanged_when_first_vertex_is_a_corner", vhSameData(p.d, before))
	}
}

// C04: the offset curve of an elliptical arc keeps its distance from the arc.  Concrete arcs
// (radii, rotation and end parameters from grids of exact rationals; circles, wide and rotated
// ellipses, small and large arcs, both directions), concrete offsets below the smallest radius of
// curvature ry^2/rx (so that the parallel curve is regular), Offset() of the open arc (no caps, no
// joins).  Decided by the solver over every point of the returned curve (segment by segment with
// a symbolic position on the segment) and every point of the full ellipse (rational
// parametrisation in four charts): their distance is never below |w| - eps.  The companion bound
// (no vertex farther than |w| + eps from the arc) is a concrete observation per vertex.
// eps = flattening tolerance + the error of the library's cubic approximation of an ellipse.
func VH_C04_offset_arc_distance_Q() {
	vMerge(false)
	vLeanAsserts(true)
	vNLFirst(true)
	type arc struct {
		rx, ry float64
		rot    int // index into units: rotation of the ellipse
		i0, i1 int // indices into units: start and end parameter
		sweep  bool
		w      float64
	}
	units := [][2]float64{{1, 0}, {0.8, 0.6}, {0, 1}, {-0.6, 0.8}, {-0.96, 0.28}, {-0.6, -0.8}, {5.0 / 13, -12.0 / 13}}
	arcs := []arc{
		{4, 1, 0, 5, 6, true, 0.2},   // short flat piece at the bottom
		{4, 1, 0, 6, 1, true, 0.2},   // around the right tip (largest curvature)
		{4, 1, 0, 1, 6, true, 0.2},   // large arc over the top, the left tip and the bottom
		{6, 3, 1, 0, 3, true, 0.9},   // rotated ellipse
		{6, 3, 3, 4, 1, false, 0.9},  // rotated, clockwise
		{6, 3, 1, 2, 0, true, 0.9},   // rotated, large arc
		{3, 6, 0, 0, 2, true, 0.9},   // tall ellipse (stored with swapped radii)
		{5, 5, 0, 1, 5, true, 0.9},   // circle
		{5, 5, 0, 1, 5, false, 0.9},  // circle, clockwise, large arc
		{10, 5, 0, 0, 2, true, 1},    // quarter ellipse of the library's commented-out stroke tests
	}
	na := len(arcs)
	if vTier() == 0 {
		na = 5 // quick tier: the (4,1) ellipse and two arcs of the rotated (6,3) ellipse
	}
	a := arcs[vChoose(0, na-1)]
	w := a.w
	if vChoose(0, 1) == 1 {
		w = -w
	}
	cphi, sphi := units[a.rot][0], units[a.rot][1]
	c0, s0 := units[a.i0][0], units[a.i0][1]
	c1, s1 := units[a.i1][0], units[a.i1][1]
	cross := c0*s1 - s0*c1
	large := (cross < 0) == a.sweep
	pos := func(c, s float64) Point {
		return Point{a.rx*c*cphi - a.ry*s*sphi, a.rx*c*sphi + a.ry*s*cphi}
	}
	st, en := pos(c0, s0), pos(c1, s1)
	p := &Path{}
	p.MoveTo(st.X, st.Y)
	p.ArcTo(a.rx, a.ry, math.Atan2(sphi, cphi)*180/math.Pi, large, a.sweep, en.X, en.Y)
	before := vhCopyData(p.d)
	tol := 0.01
	o := p.Offset(w, tol)
	vAssert("C04.arcdist.receiver_unchanged", vhSameData(p.d, before))
	subs, ok := vhDecode(o.d)
	vAssert("C04.arcdist.one_open_curve", ok && len(subs) == 1 && !subs[0].closed && len(subs[0].segs) >= 1)
	if !ok || len(subs) != 1 {
		return
	}
	d := math.Abs(w)
	eps := 2*tol + 0.01
	// vertices rounded to 2^-20 (1e-6): keeps the polynomial coefficients of the queries short
	rnd := func(q Point) Point {
		return Point{math.Round(q.X*1048576) / 1048576, math.Round(q.Y*1048576) / 1048576}
	}
	// the ends of the curve are the ends of the arc moved along the normal: distance d
	vAssert("C04.arcdist.ends_at_distance", math.Abs(subs[0].start.Sub(st).Length()-d) <= 1e-6 && math.Abs(subs[0].segs[len(subs[0].segs)-1].end.Sub(en).Length()-d) <= 1e-6)

	// a point of the full ellipse: (qc, qs)/qd is a point of the unit circle; everything below is
	// kept free of divisions (polynomial inequalities in v and t)
	v := vhReal()
	vAssume(-1 <= v && v <= 1)
	qc, qs, qd := 1-v*v, 2*v, 1+v*v
	switch vChoose(0, 3) {
	case 1:
		qc, qs = -qs, qc
	case 2:
		qc, qs = -qc, -qs
	case 3:
		qc, qs = qs, -qc
	}
	Y := pos(qc, qs) // times qd
	t := vhReal()
	vAssume(0 <= t && t <= 1)
	chart2 := -1
	for _, sg := range subs[0].segs {
		switch sg.cmd {
		case LineToCmd:
			A, B := rnd(sg.start), rnd(sg.end)
			X := Point{A.X + t*(B.X-A.X), A.Y + t*(B.Y-A.Y)}
			dx, dy := X.X*qd-Y.X, X.Y*qd-Y.Y
			vAssert("C04.arcdist.no_point_closer_than_the_offset", dx*dx+dy*dy >= (d-eps)*(d-eps)*qd*qd)
		case ArcToCmd:
			// any point of the full ellipse this arc lies on
			rx2, ry2, phi2 := sg.a[0], sg.a[1], sg.a[2]
			l2, sw2 := toArcFlags(sg.a[3])
			cx2, cy2, _, _ := ellipseToCenter(sg.start.X, sg.start.Y, rx2, ry2, phi2, l2, sw2, sg.end.X, sg.end.Y)
			if chart2 < 0 {
				chart2 = vChoose(0, 3)
			}
			u := 2*t - 1
			uc, us, ud := 1-u*u, 2*u, 1+u*u
			switch chart2 {
			case 1:
				uc, us = -us, uc
			case 2:
				uc, us = -uc, -us
			case 3:
				uc, us = us, -uc
			}
			cp, sp := math.Cos(phi2), math.Sin(phi2)
			// X times ud
			Xx, Xy := cx2*ud+rx2*uc*cp-ry2*us*sp, cy2*ud+rx2*uc*sp+ry2*us*cp
			dx, dy := Xx*qd-Y.X*ud, Xy*qd-Y.Y*ud
			vAssert("C04.arcdist.no_point_closer_than_the_offset", dx*dx+dy*dy >= (d-eps)*(d-eps)*qd*qd*ud*ud)
		default:
			vAssert("C04.arcdist.segment_kinds", false)
			return
		}
	}

	// concrete companion: every vertex of the curve has a point of the arc within d + eps
	{
		th0 := math.Atan2(s0, c0)
		ext := math.Atan2(cross, c0*c1+s0*s1)
		if a.sweep && ext < 0 {
			ext += 2 * math.Pi
		} else if !a.sweep && ext > 0 {
			ext -= 2 * math.Pi
		}
		far := false
		for _, sg := range subs[0].segs {
			best := math.Inf(1)
			for k := 0; k <= 720; k++ {
				th := th0 + ext*float64(k)/720
				q := pos(math.Cos(th), math.Sin(th))
				best = math.Min(best, q.Sub(sg.end).Length())
			}
			far = far || best > d+eps
		}
		vAssert("C04.arcdist.no_vertex_farther_than_the_offset", !far)
	}
}

// C04 (Offset of closed contours, the whole code incl. the round joins and the settling): every
// closed subpath is moved by w to its own right-hand side - counter-clockwise contours grow for
// w > 0 (round corners) and shrink for w < 0 (sharp corners), clockwise contours the other way
// round - and keeps its orientation.  Concrete rectangles (one or two subpaths, same or mixed
// orientation, a frame with its hole second or first), concrete w, symbolic sample point at
// least 0.03 away from every moved boundary: the winding number of Offset's result around the
// point is the sum of the moved contours' winding numbers.
func VH_C04_offset_closed_region_Q() {
	vLeanAsserts(true)
	vNLFirst(true)
	type rect struct {
		x0, y0, x1, y1 float64
		ccw            bool
	}
	shapes := [][]rect{
		{{0, 0, 6, 6, true}},
		{{0, 0, 6, 6, false}},
		{{0, 0, 10, 10, true}, {3, 3, 7, 7, false}},
		{{3, 3, 7, 7, false}, {0, 0, 10, 10, true}},
		{{0, 0, 4, 4, true}, {8, 0, 12, 4, false}},
		{{0, 0, 4, 4, false}, {8, 0, 12, 4, true}},
	}
	sh := shapes[vChoose(0, len(shapes)-1)]
	w := []float64{1, -1, 0.5}[vChoose(0, 2)]
	var pg []vhPgon
	for _, r := range sh {
		pg = append(pg, vhRect(r.x0, r.y0, r.x1, r.y1, r.ccw))
	}
	p := vhPgonPath(pg)
	before := vhCopyData(p.d)
	q := p.Offset(w, 0.01)
	vAssert("C04.offsetclosed.receiver_unchanged", vhSameData(p.d, before))
	vAssert("C04.offsetclosed.wellformed", vhStructWF(q))
	x, y := vNondetF64(), vNondetF64()
	vAssume(-4 <= x && x <= 16 && -4 <= y && y <= 14)
	m := 0.03
	want := 0
	for _, r := range sh {
		d := w // how far the contour's region grows
		if !r.ccw {
			d = -w
		}
		in := false
		if d > 0 {
			dx := math.Max(math.Max(r.x0-x, x-r.x1), 0)
			dy := math.Max(math.Max(r.y0-y, y-r.y1), 0)
			dd := dx*dx + dy*dy
			vAssume(dd <= (d-m)*(d-m) || dd >= (d+m)*(d+m))
			in = dd <= d*d
		} else {
			// shrunk rectangle with sharp corners
			e := -d
			in = r.x0+e+m <= x && x <= r.x1-e-m && r.y0+e+m <= y && y <= r.y1-e-m
			out := x <= r.x0+e-m || x >= r.x1-e+m || y <= r.y0+e-m || y >= r.y1-e+m
			vAssume(in || out)
		}
		if in {
			if r.ccw {
				want++
			} else {
				want--
			}
		}
	}
	got, clear := vhWindingAt(q, x, y)
	vAssume(clear)
	vAssert("C04.offsetclosed.winding_of_the_moved_contours", got == want)
}

// C04 (whole Stroke with round caps and round joins: offset(), the cappers and joiners, the
// outline assembly and its settling): with round caps and joins the stroke is exactly the set of
// points within w/2 of the path.  Concrete polylines - open and closed, simple and
// self-intersecting (bow-ties of both orientations, a closed zig-zag that crosses itself twice),
// clockwise and counter-clockwise - and a sample point on one of 11 vertical lines with a symbolic
// height, at least 0.03 away from the distance w/2: the point is inside Stroke's result (non-zero winding) iff it is closer than w/2
// to some segment.
func VH_C04_stroke_region_Q() {
	vLeanAsserts(true)
	vNLFirst(true)
	type shape struct {
		pts    vhPgon
		closed bool
	}
	shapes := []shape{
		{vhPgon{{0, 0}, {4, 4}, {4, 0}, {0, 4}}, true},          // bow-tie, closed
		{vhPgon{{0, 0}, {4, 0}, {0, 4}, {4, 4}}, true},          // bow-tie the other way round
		{vhPgon{{0, 0}, {4, 4}, {4, 0}, {0, 4}, {0, 0}}, false}, // the same trace, open
		{vhPgon{{0, 0}, {6, 0}, {6, 6}, {0, 6}}, true},          // square, counter-clockwise
		{vhPgon{{0, 0}, {0, 6}, {6, 6}, {6, 0}}, true},          // square, clockwise
		{vhPgon{{0, 0}, {6, 3}, {0, 6}, {6, 6}, {0, 3}, {6, 0}}, true}, // closed zig-zag crossing itself twice
		{vhPgon{{0, 0}, {5, 0}, {1, 3}}, false},                 // open with a sharp bend
	}
	sh := shapes[vChoose(0, len(shapes)-1)]
	w := []float64{1, 2}[vChoose(0, 1)]
	p := &Path{}
	p.MoveTo(sh.pts[0][0], sh.pts[0][1])
	for _, v := range sh.pts[1:] {
		p.LineTo(v[0], v[1])
	}
	if sh.closed {
		p.Close()
	}
	before := vhCopyData(p.d)
	s := p.Stroke(w, RoundCap, RoundJoin, 0.01)
	vAssert("C04.strokeregion.receiver_unchanged", vhSameData(p.d, before))
	vAssert("C04.strokeregion.wellformed", vhStructWF(s))
	// the sample point runs over 11 vertical lines (concrete x, symbolic y): the distance tests
	// are then quadratic and the crossing tests linear in one unknown
	x := []float64{-0.71, -0.23, 0.37, 1.13, 1.89, 2.61, 3.17, 3.83, 4.41, 5.29, 6.37}[vChoose(0, 10)]
	y := vNondetF64()
	vAssume(-2 <= y && y <= 8)
	hw, m := w/2, 0.03
	near := false
	n := len(sh.pts)
	last := n - 1
	if sh.closed {
		last = n
	}
	for i := 0; i < last; i++ {
		a, b := sh.pts[i], sh.pts[(i+1)%n]
		dx, dy := b[0]-a[0], b[1]-a[1]
		ll := dx*dx + dy*dy
		// squared distance times ll, by the position of the foot point
		t := (x-a[0])*dx + (y-a[1])*dy
		var d2 float64 // squared distance
		if t <= 0 {
			d2 = (x-a[0])*(x-a[0]) + (y-a[1])*(y-a[1])
		} else if t >= ll {
			d2 = (x-b[0])*(x-b[0]) + (y-b[1])*(y-b[1])
		} else {
			c := dx*(y-a[1]) - dy*(x-a[0])
			d2 = c * c / ll
		}
		vAssume(d2 <= (hw-m)*(hw-m) || d2 >= (hw+m)*(hw+m))
		near = near || d2 <= hw*hw
	}
	got, clear := vhWindingAt(s, x, y)
	vAssume(clear)
	vAssert("C04.strokeregion.inside_iff_within_half_the_width", (got != 0) == near)
}
