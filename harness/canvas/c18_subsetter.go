package canvas

// C18-H1: one inductive step of FontSubsetter.Get.  Pre-state: any subsetter reachable by a
// sequence of Get calls, i.e. IDs[0] = 0 (.notdef), IDs injective, IDMap the inverse of IDs, with
// 1..3 entries (4 in the thorough tier) of symbolic 16-bit glyph ids.  One call Get(g) with a
// symbolic g, then a second one.  (Bound: fewer than 65536 entries, otherwise uint16(len) wraps.)

func vhC18Pre(n int) *FontSubsetter {
	s := NewFontSubsetter()
	for i := 1; i < n; i++ {
		g := uint16(vNondetInt())
		fresh := true
		for _, h := range s.IDs {
			fresh = fresh && h != g
		}
		vAssume(fresh)
		s.IDs = append(s.IDs, g)
		s.IDMap[g] = uint16(i)
	}
	return s
}

// vhC18Inv: the documented shape of a subsetter.
func vhC18Inv(s *FontSubsetter) bool {
	ok := len(s.IDs) >= 1 && s.IDs[0] == 0 && len(s.IDMap) == len(s.IDs)
	for i := range s.IDs {
		c, has := s.IDMap[s.IDs[i]]
		ok = ok && has && int(c) == i
		for j := 0; j < i; j++ {
			ok = ok && s.IDs[i] != s.IDs[j]
		}
	}
	return ok
}

func VH_C18_subsetter_get() {
	n := vChoose(1, 3+vTier())
	s := vhC18Pre(n)
	vAssert("C18.subsetter.pre_inv", vhC18Inv(s)) // the generator produces what it claims
	pre := append([]uint16{}, s.IDs...)
	g := uint16(vNondetInt())
	known := false
	for _, h := range pre {
		known = known || h == g
	}

	c := s.Get(g)

	vAssert("C18.subsetter.inv_preserved", vhC18Inv(s))
	same := len(s.IDs) >= len(pre)
	for i := 0; same && i < len(pre); i++ {
		same = same && s.IDs[i] == pre[i]
	}
	vAssert("C18.subsetter.old_codes_unchanged", same)
	vAssert("C18.subsetter.code_names_glyph", int(c) < len(s.IDs) && s.IDs[c] == g)
	vAssert("C18.subsetter.notdef_is_zero", (g == 0) == (c == 0))
	if known {
		vAssert("C18.subsetter.known_glyph_no_growth", len(s.IDs) == len(pre))
	} else {
		vAssert("C18.subsetter.new_glyph_next_code", len(s.IDs) == len(pre)+1 && int(c) == len(pre))
	}
	vAssert("C18.subsetter.list_is_ids", len(s.List()) == len(s.IDs))

	// asking again gives the same code and changes nothing
	mid := append([]uint16{}, s.IDs...)
	c2 := s.Get(g)
	stable := c2 == c && len(s.IDs) == len(mid)
	for i := 0; stable && i < len(mid); i++ {
		stable = stable && s.IDs[i] == mid[i]
	}
	vAssert("C18.subsetter.get_twice_stable", stable)
	vAssert("C18.subsetter.inv_after_second", vhC18Inv(s))
}

// VH_C18_subsetter_two: two different glyphs never share a code (codes are injective), and the
// order of first use decides the codes.
func VH_C18_subsetter_two() {
	n := vChoose(1, 2+vTier())
	s := vhC18Pre(n)
	g, h := uint16(vNondetInt()), uint16(vNondetInt())
	cg := s.Get(g)
	ch := s.Get(h)
	vAssert("C18.subsetter.codes_injective", (g == h) == (cg == ch))
	vAssert("C18.subsetter.first_code_survives", s.Get(g) == cg)
	vAssert("C18.subsetter.inv_after_two", vhC18Inv(s))
}
