package canvas

import "math"

// Concrete companions for three numeric cores that the solver cannot reach (transcendental
// functions, cubic roots, flattening error).  Inputs are concrete tables, the oracles are
// independent dense evaluations; the harnesses are executed by the interpreter (host math on
// concrete values) and natively, but no solver verdict is involved - they only widen what a
// changed tree is confronted with.  They are listed separately in DESIGN.md.

// independent evaluation of an SVG arc (endpoint parametrisation, W3C implementation notes F.6)
func vhArcPoint(x1, y1, rx, ry, phi float64, large, sweep bool, x2, y2, t float64) Point {
	cosp, sinp := math.Cos(phi), math.Sin(phi)
	dx, dy := (x1-x2)/2, (y1-y2)/2
	x1p, y1p := cosp*dx+sinp*dy, -sinp*dx+cosp*dy
	lam := x1p*x1p/(rx*rx) + y1p*y1p/(ry*ry)
	if lam > 1 {
		s := math.Sqrt(lam)
		rx, ry = rx*s, ry*s
	}
	num := rx*rx*ry*ry - rx*rx*y1p*y1p - ry*ry*x1p*x1p
	den := rx*rx*y1p*y1p + ry*ry*x1p*x1p
	c := 0.0
	if den > 0 && num > 0 {
		c = math.Sqrt(num / den)
	}
	if large == sweep {
		c = -c
	}
	cxp, cyp := c*rx*y1p/ry, -c*ry*x1p/rx
	cx, cy := cosp*cxp-sinp*cyp+(x1+x2)/2, sinp*cxp+cosp*cyp+(y1+y2)/2
	ang := func(ux, uy, vx, vy float64) float64 {
		a := math.Atan2(ux*vy-uy*vx, ux*vx+uy*vy)
		return a
	}
	th1 := ang(1, 0, (x1p-cxp)/rx, (y1p-cyp)/ry)
	dth := ang((x1p-cxp)/rx, (y1p-cyp)/ry, (-x1p-cxp)/rx, (-y1p-cyp)/ry)
	if !sweep && dth > 0 {
		dth -= 2 * math.Pi
	} else if sweep && dth < 0 {
		dth += 2 * math.Pi
	}
	th := th1 + t*dth
	ex, ey := rx*math.Cos(th), ry*math.Sin(th)
	return Point{cosp*ex - sinp*ey + cx, sinp*ex + cosp*ey + cy}
}

// C07 companion: Transform of a rotated elliptical arc maps the points of the arc.
func VH_C07_companion_arc_points() {
	type arcT struct {
		rx, ry, rot  float64
		large, sweep bool
		x2, y2       float64
	}
	arcs := []arcT{{6, 3, 30, false, true, 8, 3}, {6, 3, 60, true, false, 5, -4}, {4, 2, 110, false, false, -3, 5}}
	mats := []Matrix{Identity.Scale(2, 0.5), Identity.Shear(0.5, 0), Identity.ReflectX(), Identity.Rotate(40).Scale(1, 3), Identity.Shear(0.3, -0.4).Translate(2, 1)}
	a := arcs[vChoose(0, len(arcs)-1)]
	m := mats[vChoose(0, len(mats)-1)]
	p := &Path{}
	p.MoveTo(0, 0)
	p.ArcTo(a.rx, a.ry, a.rot, a.large, a.sweep, a.x2, a.y2)
	q := p.Copy().Transform(m)
	ok := len(q.d) == 12 && q.d[4] == ArcToCmd
	vAssert("C07.companion.still_an_arc", ok)
	if !ok {
		return
	}
	qs := Point{q.d[1], q.d[2]}
	l2, s2 := toArcFlags(q.d[8])
	worst := 0.0
	for i := 0; i <= 8; i++ {
		t := float64(i) / 8
		want := m.Dot(vhArcPoint(0, 0, p.d[5], p.d[6], p.d[7], a.large, a.sweep, a.x2, a.y2, t))
		best := math.Inf(1)
		for j := 0; j <= 400; j++ {
			g := vhArcPoint(qs.X, qs.Y, q.d[5], q.d[6], q.d[7], l2, s2, q.d[9], q.d[10], float64(j)/400)
			best = math.Min(best, math.Hypot(g.X-want.X, g.Y-want.Y))
		}
		worst = math.Max(worst, best)
	}
	vAssert("C07.companion.image_points_on_transformed_arc", worst <= 0.05)
}

// C06 companion: points inside / outside a full rotated ellipse (two arcs).
func VH_C06_companion_rotated_ellipse() {
	rots := []float64{0, 30, 50, 75, 110, 130}
	rot := rots[vChoose(0, len(rots)-1)]
	rx, ry := 6.0, 3.0
	phi := rot * math.Pi / 180
	sx, sy := rx*math.Cos(phi), rx*math.Sin(phi)
	p := &Path{}
	p.MoveTo(sx, sy)
	p.ArcTo(rx, ry, rot, false, true, -sx, -sy)
	p.ArcTo(rx, ry, rot, false, true, sx, sy)
	p.Close()
	bad := 0
	for i := -7; i <= 7; i++ {
		for j := -7; j <= 7; j++ {
			x, y := float64(i)+0.37, float64(j)+0.21
			u := math.Cos(phi)*x + math.Sin(phi)*y
			v := -math.Sin(phi)*x + math.Cos(phi)*y
			f := u*u/(rx*rx) + v*v/(ry*ry)
			if math.Abs(f-1) < 0.05 {
				continue // too close to the boundary
			}
			if p.Contains(x, y, NonZero) != (f < 1) {
				bad++
			}
		}
	}
	vAssert("C06.companion.contains_matches_ellipse_equation", bad == 0)
}

// C03 companion: flattening cubics with a late inflection stays within a small multiple of the
// tolerance.
func VH_C03_companion_late_inflection() {
	type cub struct{ p0, p1, p2, p3 Point }
	cs := []cub{
		{Point{0, 0}, Point{10, 0}, Point{20, 1}, Point{22, 12}},
		{Point{0, 0}, Point{8, 1}, Point{18, -1}, Point{20, 10}},
		{Point{0, 0}, Point{12, 6}, Point{16, -8}, Point{30, 4}},
		{Point{0, 0}, Point{5, 10}, Point{10, -10}, Point{15, 0}},
		// S-shaped curves with the inflection near one end, in both directions of travel
		{Point{0, 0}, Point{30, 50}, Point{80, 40}, Point{100, 45}},
		{Point{100, 45}, Point{80, 40}, Point{30, 50}, Point{0, 0}},
		{Point{14, 95}, Point{71, 41}, Point{53, 34}, Point{1, 3}},
		{Point{1, 3}, Point{53, 34}, Point{71, 41}, Point{14, 95}},
		// two inflection points inside (0,1) (control polygon crossing itself), to be flattened at
		// coarse tolerances for which the flat ranges around the two inflections overlap
		{Point{0, 0}, Point{95, 80}, Point{5, 80}, Point{100, 0}},
		{Point{0, 0}, Point{70, 60}, Point{-10, 70}, Point{60, 0}},
		{Point{500, 400}, Point{10, 250}, Point{450, 10}, Point{120, 220}},
		{Point{120, 220}, Point{450, 10}, Point{10, 250}, Point{500, 400}},
		// 12-14: hairpins: the curve runs out almost straight, turns sharply and runs back
		// (finding D84 for 12 and 13, where the turn lies in the flat range around a near-cusp)
		{Point{0, 0}, Point{5, 1}, Point{6, 0}, Point{0, 1}},
		{Point{0, 0}, Point{6, 8}, Point{6, 5}, Point{0, 3}},
		{Point{0, 0}, Point{7, 1}, Point{8, 7}, Point{6, 2}},
	}
	k := vChoose(0, len(cs)-1)
	c := cs[k]
	tol := []float64{1, 0.1, 0.01, 3, 8}[vChoose(0, 4)]
	vKnown("D84", k == 12 || k == 13 || k == 14)
	p := &Path{}
	p.MoveTo(c.p0.X, c.p0.Y)
	p.CubeTo(c.p1.X, c.p1.Y, c.p2.X, c.p2.Y, c.p3.X, c.p3.Y)
	f := p.Flatten(tol)
	co := f.Coords()
	worst := 0.0
	for i := 0; i <= 200; i++ {
		t := float64(i) / 200
		mt := 1 - t
		x := mt*mt*mt*c.p0.X + 3*mt*mt*t*c.p1.X + 3*mt*t*t*c.p2.X + t*t*t*c.p3.X
		y := mt*mt*mt*c.p0.Y + 3*mt*mt*t*c.p1.Y + 3*mt*t*t*c.p2.Y + t*t*t*c.p3.Y
		best := math.Inf(1)
		for k := 0; k+1 < len(co); k++ {
			a, b := co[k], co[k+1]
			dx, dy := b.X-a.X, b.Y-a.Y
			l2 := dx*dx + dy*dy
			s := 0.0
			if l2 > 0 {
				s = math.Max(0, math.Min(1, ((x-a.X)*dx+(y-a.Y)*dy)/l2))
			}
			best = math.Min(best, math.Hypot(x-(a.X+s*dx), y-(a.Y+s*dy)))
		}
		worst = math.Max(worst, best)
	}
	vAssert("C03.companion.curve_within_5_tolerances_of_polyline", worst <= 5*tol)
	vAssert("C03.companion.endpoints_exact", len(co) >= 2 && vhPtEq(co[0], c.p0) && vhPtEq(co[len(co)-1], c.p3))
}

// C03 companion: the contract the replace-driver harnesses assume of the arc rewriters, on a grid
// of concrete arcs (the centre-form grid of VH_C08_ellipse_to_center): Flatten gives only lines,
// ReplaceArcs only cubics (and lines), both start and end exactly at the arc's end points, and every
// vertex of the flattening lies within 2 tolerances of the ellipse.  Concrete; no solver verdict.
func VH_C03_companion_arcs() {
	radii := [][2]float64{{1, 1}, {2, 1}, {5, 0.5}, {10, 10}}
	rr := radii[vChoose(0, len(radii)-1)]
	rx, ry := rr[0], rr[1]
	rots := [][2]float64{{1, 0}, {0.8, 0.6}, {0, 1}, {-0.6, 0.8}}
	rot := rots[vChoose(0, len(rots)-1)]
	cphi, sphi := rot[0], rot[1]
	units := [][2]float64{{1, 0}, {0.8, 0.6}, {0, 1}, {-0.96, 0.28}, {-0.6, -0.8}, {0.5, 0.8660254037844386}, {-0.5, 0.8660254037844386}}
	i0 := vChoose(0, len(units)-1)
	i1 := vChoose(0, len(units)-1)
	if i0 == i1 {
		return
	}
	c0, s0 := units[i0][0], units[i0][1]
	c1, s1 := units[i1][0], units[i1][1]
	cross := c0*s1 - s0*c1
	if math.Abs(cross) < 1e-3 {
		return
	}
	sweep := vChoose(0, 1) == 1
	large := (cross < 0) == sweep
	x0, y0 := rx*c0*cphi-ry*s0*sphi, rx*c0*sphi+ry*s0*cphi
	x1, y1 := rx*c1*cphi-ry*s1*sphi, rx*c1*sphi+ry*s1*cphi
	phi := math.Atan2(sphi, cphi)
	p := &Path{d: []float64{MoveToCmd, x0, y0, MoveToCmd, ArcToCmd, rx, ry, phi, fromArcFlags(large, sweep), x1, y1, ArcToCmd}}
	// a coarse and a fine tolerance: an approximation whose error does not shrink with the
	// tolerance (D83: arcs were flattened through Béziers that are 0.2 % of the radius off) only
	// shows at the fine one
	tol := []float64{0.01, 0.0005}[vChoose(0, 1)]
	f := p.Flatten(tol)
	co := f.Coords()
	onlyLines := true
	for i := 0; i < len(f.d); i += cmdLen(f.d[i]) {
		onlyLines = onlyLines && (f.d[i] == MoveToCmd || f.d[i] == LineToCmd)
	}
	worst, worstMid := 0.0, 0.0
	dev := func(q Point) float64 {
		// implicit equation of the ellipse around the origin
		u := (cphi*q.X + sphi*q.Y) / rx
		v := (-sphi*q.X + cphi*q.Y) / ry
		return math.Abs(math.Sqrt(u*u+v*v)-1) * ry // a lower bound of the distance: scale of the smaller radius
	}
	for i, q := range co {
		worst = math.Max(worst, dev(q))
		if i > 0 {
			worstMid = math.Max(worstMid, dev(co[i-1].Interpolate(q, 0.5)))
		}
	}
	vAssert("C03.companion.arc_flatten_lines_from_start_to_end", onlyLines && len(co) >= 2 && vhPtEq(co[0], Point{x0, y0}) && vhNearPt(co[len(co)-1], Point{x1, y1}))
	vAssert("C03.companion.arc_flatten_vertices_near_ellipse", worst <= 2*tol)
	vAssert("C03.companion.arc_flatten_chords_near_ellipse", worstMid <= 2*tol)
	r := p.ReplaceArcs()
	noArcs := true
	for i := 0; i < len(r.d); i += cmdLen(r.d[i]) {
		noArcs = noArcs && r.d[i] != ArcToCmd
	}
	rc := r.Coords()
	vAssert("C03.companion.replacearcs_no_arcs_from_start_to_end", noArcs && len(rc) >= 2 && vhPtEq(rc[0], Point{x0, y0}) && vhNearPt(rc[len(rc)-1], Point{x1, y1}))
}

// vhTrueLen measures a path on a dense independent evaluation of its segments (n chords each).
func vhTrueLen(p *Path, n int) float64 {
	subs, ok := vhDecode(p.d)
	if !ok {
		return math.NaN()
	}
	l := 0.0
	for _, sb := range subs {
		for _, sg := range sb.segs {
			prev := sg.start
			for k := 1; k <= n; k++ {
				t := float64(k) / float64(n)
				var q Point
				switch sg.cmd {
				case QuadToCmd:
					c := Point{sg.a[0], sg.a[1]}
					u := 1 - t
					q = Point{u*u*sg.start.X + 2*u*t*c.X + t*t*sg.end.X, u*u*sg.start.Y + 2*u*t*c.Y + t*t*sg.end.Y}
				case CubeToCmd:
					c1, c2 := Point{sg.a[0], sg.a[1]}, Point{sg.a[2], sg.a[3]}
					u := 1 - t
					q = Point{u*u*u*sg.start.X + 3*u*u*t*c1.X + 3*u*t*t*c2.X + t*t*t*sg.end.X, u*u*u*sg.start.Y + 3*u*u*t*c1.Y + 3*u*t*t*c2.Y + t*t*t*sg.end.Y}
				case ArcToCmd:
					large, sweep := toArcFlags(sg.a[3])
					q = vhArcPoint(sg.start.X, sg.start.Y, sg.a[0], sg.a[1], sg.a[2], large, sweep, sg.end.X, sg.end.Y, t)
				default:
					q = Point{sg.start.X + t*(sg.end.X-sg.start.X), sg.start.Y + t*(sg.end.Y-sg.start.Y)}
				}
				l += math.Hypot(q.X-prev.X, q.Y-prev.Y)
				prev = q
			}
		}
	}
	return l
}

// C09 companion: accuracy of Length() and of the cut positions of SplitAt on single curved
// segments, against the dense independent evaluation above.  The property allows about one per
// cent for Length; the same allowance (of the whole length) is used for the cut positions.
// Shapes: arcs of circles and of 2:1, 6:1 and 12:1 ellipses from a quarter to nearly the whole
// ellipse, rotated or not, and quadratic/cubic Béziers with evenly and very unevenly spaced
// control points; cuts at 10, 25, 50, 75, 90 and 95 % of Length().
func VH_C09_companion_lengths() {
	shapes := []string{
		"M10 0A10 10 0 0 1 0 10",           // 0 quarter circle
		"M10 0A10 10 0 1 1 7.0711 -7.0711", // 1 315 degrees of a circle
		"M6 0A6 3 0 0 1 0 3",               // 2 quarter of a 2:1 ellipse
		"M0 0A6 3 0 1 1 12 0",              // 3 half of a 2:1 ellipse (radii fit exactly)
		"M4 6A6 3 0 1 0 3 6",               // 4 nearly a whole 2:1 ellipse
		"M0 0A6 1 0 0 1 6 1",               // 5 quarter of a 6:1 ellipse
		"M4 6A6 1 0 1 0 3 6",               // 6 nearly a whole 6:1 ellipse
		"M0 0A6 1 90 1 1 5 6",              // 7 rotated 6:1 ellipse, radii scaled up to fit
		"M0 0A12 1 0 1 1 24 0",             // 8 half of a 12:1 ellipse
		"M0 0Q5 5 10 0",                    // 9 symmetric quadratic
		"M0 0Q5 20 6 0",                    // 10 tall narrow quadratic
		"M0 0C0 10 20 10 20 0",             // 11 cubic of the upstream tests
		"M0 0C0 10 1 10 1 0",               // 12 hairpin cubic
		"M0 0C10 0 -4 1 6 1",               // 13 cubic with a near-cusp
	}
	k := vChoose(0, len(shapes)-1)
	p := MustParseSVGPath(shapes[k])
	ref := vhTrueLen(p, 1500)
	L := p.Length()
	vKnown("D79", k == 12)
	vAssert("C09.companion.length_within_one_per_cent", math.Abs(L-ref) <= 0.01*ref)
	fr := []float64{0.1, 0.25, 0.5, 0.75, 0.9, 0.95}[vChoose(0, 5)]
	qs := p.SplitAt(fr * L)
	vAssert("C09.companion.two_pieces", len(qs) == 2)
	if len(qs) != 2 {
		return
	}
	l0, l1 := vhTrueLen(qs[0], 1500), vhTrueLen(qs[1], 1500)
	vKnown("D78", k == 4 || k == 6 || k == 7 || k == 8)
	vKnown("D79", k == 10 || k == 12 || k == 13)
	vAssert("C09.companion.pieces_make_up_the_curve", math.Abs(l0+l1-ref) <= 0.002*ref)
	vAssert("C09.companion.cut_within_one_per_cent_of_the_length", math.Abs(l0-fr*L) <= 0.01*ref)
}

// C06 companion: elliptical segments (one arc closed by its chord) whose end points lie off the
// ellipse's axes: Windings/Crossings/Contains against the analytic region (inside the ellipse and
// on the arc's side of the chord).  The ray then meets the arc near its ends, where the test
// whether a hit of the full ellipse belongs to the arc decides.
func VH_C06_companion_elliptic_segment() {
	units := [][2]float64{{1, 0}, {0.8, 0.6}, {0, 1}, {-0.6, 0.8}, {-0.96, 0.28}, {-0.6, -0.8}, {5.0 / 13, -12.0 / 13}}
	rr := [][2]float64{{6, 3}, {5, 1}}[vChoose(0, 1)]
	rx, ry := rr[0], rr[1]
	rot := units[vChoose(0, 3)]
	cphi, sphi := rot[0], rot[1]
	pairs := [][2]int{{1, 3}, {1, 5}, {6, 1}, {3, 6}, {4, 1}, {5, 3}}
	pr := pairs[vChoose(0, len(pairs)-1)]
	sweep := vChoose(0, 1) == 1
	c0, s0 := units[pr[0]][0], units[pr[0]][1]
	c1, s1 := units[pr[1]][0], units[pr[1]][1]
	cross := c0*s1 - s0*c1
	large := (cross < 0) == sweep
	cx, cy := 1.0, -2.0
	pos := func(c, s float64) Point {
		return Point{cx + rx*c*cphi - ry*s*sphi, cy + rx*c*sphi + ry*s*cphi}
	}
	st, en := pos(c0, s0), pos(c1, s1)
	p := &Path{}
	p.MoveTo(st.X, st.Y)
	p.ArcTo(rx, ry, math.Atan2(sphi, cphi)*180/math.Pi, large, sweep, en.X, en.Y)
	p.Close()
	chord := en.Sub(st)
	cl := chord.Length()
	bad := 0
	for i := -8; i <= 8; i++ {
		for j := -8; j <= 8; j++ {
			x, y := cx+float64(i)*0.9+0.137, cy+float64(j)*0.9+0.071
			u := cphi*(x-cx) + sphi*(y-cy)
			v := -sphi*(x-cx) + cphi*(y-cy)
			f := u*u/(rx*rx) + v*v/(ry*ry)
			side := (chord.X*(y-st.Y) - chord.Y*(x-st.X)) / cl // > 0: left of the chord
			if math.Abs(f-1) < 0.05 || math.Abs(side) < 0.05 {
				continue
			}
			in := f < 1 && (side < 0) == sweep
			want := 0
			if in && sweep {
				want = 1
			} else if in {
				want = -1
			}
			w, bnd := p.Windings(x, y)
			n, _ := p.Crossings(x, y)
			if bnd || w != want || p.Contains(x, y, NonZero) != in || n%2 == 0 == in {
				bad++
			}
		}
	}
	vAssert("C06.companion.segment_windings_match_the_analytic_region", bad == 0)
}

// C04 companion: stroke of single Béziers and arcs with round caps and joins against the distance to
// a dense independent evaluation of the curve: grid points closer than w/2 - 0.05 must be inside,
// points farther than w/2 + 0.05 outside.  Gentle and S-shaped curves, an arc, and two hairpins
// whose radius of curvature at the tip (0.02) is far below w/2 - there the outer side must sweep
// round the tip, which the flattened offset does not (finding D82).
func VH_C04_companion_curve_stroke() {
	shapes := []string{
		"M0 0C2 3 6 3 8 0",     // 0 gentle arch
		"M0 0C4 4 4 -4 8 0",    // 1 S-curve with an inflection
		"M0 0Q4 6 8 0",         // 2 quadratic
		"M0 3A4 2 0 0 1 8 3",   // 3 half ellipse
		"M0 0C7 1 8 7 6 2",     // 4 hairpin (near-cusp)
		"M0 0L4 0C1 5 3 1 8 0", // 5 line into a tight loop
		"M0 0C3 0 5 1 5 4",     // 6 quarter turn
	}
	k := vChoose(0, len(shapes)-1)
	w := []float64{1, 2}[vChoose(0, 1)]
	p := MustParseSVGPath(shapes[k])
	s := p.Stroke(w, RoundCap, RoundJoin, 0.01)
	// dense polyline of the curve
	subs, ok := vhDecode(p.d)
	if !ok {
		vAssert("C04.companion.decodes", false)
		return
	}
	var pts []Point
	for _, sb := range subs {
		pts = append(pts, sb.start)
		for _, sg := range sb.segs {
			for i := 1; i <= 240; i++ {
				t := float64(i) / 240
				u := 1 - t
				var q Point
				switch sg.cmd {
				case QuadToCmd:
					c := Point{sg.a[0], sg.a[1]}
					q = Point{u*u*sg.start.X + 2*u*t*c.X + t*t*sg.end.X, u*u*sg.start.Y + 2*u*t*c.Y + t*t*sg.end.Y}
				case CubeToCmd:
					c1, c2 := Point{sg.a[0], sg.a[1]}, Point{sg.a[2], sg.a[3]}
					q = Point{u*u*u*sg.start.X + 3*u*u*t*c1.X + 3*u*t*t*c2.X + t*t*t*sg.end.X, u*u*u*sg.start.Y + 3*u*u*t*c1.Y + 3*u*t*t*c2.Y + t*t*t*sg.end.Y}
				case ArcToCmd:
					large, sweep := toArcFlags(sg.a[3])
					q = vhArcPoint(sg.start.X, sg.start.Y, sg.a[0], sg.a[1], sg.a[2], large, sweep, sg.end.X, sg.end.Y, t)
				default:
					q = Point{sg.start.X + t*(sg.end.X-sg.start.X), sg.start.Y + t*(sg.end.Y-sg.start.Y)}
				}
				pts = append(pts, q)
			}
		}
	}
	missing, extra := 0, 0
	for i := 0; i <= 15; i++ {
		for j := 0; j <= 13; j++ {
			x, y := -2+float64(i)*0.8+0.113, -3+float64(j)*0.8+0.071
			d := math.Inf(1)
			for _, q := range pts {
				d = math.Min(d, math.Hypot(q.X-x, q.Y-y))
			}
			if math.Abs(d-w/2) < 0.05 {
				continue
			}
			in := s.Contains(x, y, NonZero)
			if d < w/2 && !in {
				missing++
			} else if d > w/2 && in {
				extra++
			}
		}
	}
	vKnown("D82", k == 4 || k == 5)
	vAssert("C04.companion.points_within_half_the_width_are_inside", missing == 0)
	vAssert("C04.companion.points_beyond_half_the_width_are_outside", extra == 0)
}

// C06 companion: CCW() of simple closed contours whose bottom-right-most point is a cusp - the
// arriving and the leaving segment have the same tangent line there and at least one of them is
// curved, so that CCW must fall back on the curvature tie-break.  Base shapes (all clockwise or
// all counter clockwise by construction) x mirror in y x reversal x rotation of the start point;
// the oracle is the sign of the shoelace area of an independent dense sampling.  Seed C06-b.
type vhCuspSeg struct {
	pts       []Point // 2: line, 3: quadratic, 4: cubic control polygon; nil: circular arc
	c         Point   // arc centre
	r, a0, a1 float64 // arc radius and start/end angle (radians, |a1-a0| < pi)
}

func (s vhCuspSeg) at(t float64) Point {
	if s.pts == nil {
		a := s.a0 + (s.a1-s.a0)*t
		return Point{s.c.X + s.r*math.Cos(a), s.c.Y + s.r*math.Sin(a)}
	}
	q := append([]Point{}, s.pts...)
	for n := len(q) - 1; n > 0; n-- {
		for i := 0; i < n; i++ {
			q[i] = Point{q[i].X + (q[i+1].X-q[i].X)*t, q[i].Y + (q[i+1].Y-q[i].Y)*t}
		}
	}
	return q[0]
}

func VH_C06_companion_ccw_cusp() {
	P := func(x, y float64) Point { return Point{x, y} }
	shapes := [][]vhCuspSeg{
		// two quadratics meeting in a 180 degree cusp at (4,0), one above and one below the axis
		{{pts: []Point{P(0, 1), P(2, 0), P(4, 0)}}, {pts: []Point{P(4, 0), P(2, 0), P(0, -1)}}, {pts: []Point{P(0, -1), P(0, 1)}}},
		// quadratic arriving, straight line leaving along the tangent
		{{pts: []Point{P(0, 1), P(2, 0), P(4, 0)}}, {pts: []Point{P(4, 0), P(0, 0)}}, {pts: []Point{P(0, 0), P(0, 1)}}},
		// two quadratics on the same side of the tangent, different curvature
		{{pts: []Point{P(0, 1), P(2, 0), P(4, 0)}}, {pts: []Point{P(4, 0), P(2, 0), P(0, 0.5)}}, {pts: []Point{P(0, 0.5), P(0, 1)}}},
		// two cubics on the same side of the tangent
		{{pts: []Point{P(0, 1), P(1, 0.2), P(3, 0), P(4, 0)}}, {pts: []Point{P(4, 0), P(2, 0), P(1, 0.1), P(0, 0.5)}}, {pts: []Point{P(0, 0.5), P(0, 1)}}},
		// two internally tangent circles: vertical common tangent at (4,0)
		{{c: P(3, 0), r: 1, a0: math.Pi, a1: 0}, {c: P(2, 0), r: 2, a0: 0, a1: math.Pi}, {pts: []Point{P(0, 0), P(2, 0)}}},
	}
	segs := shapes[vChoose(0, len(shapes)-1)]
	mirror := vChoose(0, 1) == 1
	reverse := vChoose(0, 1) == 1
	rot := vChoose(0, 2)
	if mirror {
		ms := []vhCuspSeg{}
		for _, s := range segs {
			m := vhCuspSeg{c: Point{s.c.X, -s.c.Y}, r: s.r, a0: -s.a0, a1: -s.a1}
			for _, q := range s.pts {
				m.pts = append(m.pts, Point{q.X, -q.Y})
			}
			ms = append(ms, m)
		}
		segs = ms
	}
	if reverse {
		rs := []vhCuspSeg{}
		for i := len(segs) - 1; i >= 0; i-- {
			s := segs[i]
			m := vhCuspSeg{c: s.c, r: s.r, a0: s.a1, a1: s.a0}
			for j := len(s.pts) - 1; j >= 0; j-- {
				m.pts = append(m.pts, s.pts[j])
			}
			rs = append(rs, m)
		}
		segs = rs
	}
	segs = append(append([]vhCuspSeg{}, segs[rot:]...), segs[:rot]...)

	const N = 64
	area := 0.0
	p := &Path{}
	st := segs[0].at(0)
	p.MoveTo(st.X, st.Y)
	for i, s := range segs {
		a := s.at(0)
		for k := 1; k <= N; k++ {
			b := s.at(float64(k) / N)
			area += a.X*b.Y - a.Y*b.X
			a = b
		}
		switch {
		case s.pts == nil:
			p.ArcTo(s.r, s.r, 0, false, s.a0 < s.a1, a.X, a.Y)
		case len(s.pts) == 2:
			if i < len(segs)-1 { // a final straight segment is the implicit closing edge
				p.LineTo(s.pts[1].X, s.pts[1].Y)
			}
		case len(s.pts) == 3:
			p.QuadTo(s.pts[1].X, s.pts[1].Y, s.pts[2].X, s.pts[2].Y)
		default:
			p.CubeTo(s.pts[1].X, s.pts[1].Y, s.pts[2].X, s.pts[2].Y, s.pts[3].X, s.pts[3].Y)
		}
	}
	p.Close()
	vAssert("C06.companion.ccw_at_a_cusp_is_the_sign_of_the_area", math.Abs(area) > 0.5 && p.CCW() == (area > 0))
}
