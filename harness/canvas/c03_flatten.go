package canvas

import "math"

// C03 — Flatten / ReplaceArcs / XMonotone.
//
// H2 (VH_C03_flatten_Q, VH_C03_replacearcs_Q, VH_C03_xmonotone_Q): the `replace` driver behind
// the three public rewrites, on symbolic well-formed paths of every command shape inside the
// bounds below.  The per-segment rewriters are replaced by their structural contract ("a path
// that starts at the segment's start point and consists of <= 2 pieces of the allowed kinds,
// none shorter than Epsilon, ending at the segment's end point within Epsilon / at a computed
// point for arcs"); the builders LineTo/QuadTo/CubeTo that Join() re-executes are replaced by
// their contracts from C10-H2 (drop / merge or degrade / append), because their geometric
// tests are non-linear.  The numeric content (distance <= tolerance) is outside the claim.
//
// "rich" mode explores every outcome of those contracts (empty result, dropped pieces, merged
// lines, curves degraded to lines, displaced end point); it is used for inputs with at most one
// rewritten segment (rich mode for two rewritten segments needs > 10^4 paths per operation and
// did not finish in the budget).  The other inputs are explored under general position:
// rewriters return 1..2 pieces of the regular kind, no collinear merge, no degradation.

func vhC03Any() float64 { return vNondetF64() }

var vhC03Rich bool

// vhC03Subpath appends MoveTo + segments (+ Close) with symbolic coordinates, radii, rotation
// and (symbolic) arc flags.
func vhC03Subpath(p *Path, kinds []int, closed bool) {
	sx, sy := vhReal(), vhReal()
	p.d = append(p.d, MoveToCmd, sx, sy, MoveToCmd)
	for _, k := range kinds {
		switch k {
		case vhLine:
			p.d = append(p.d, LineToCmd, vhReal(), vhReal(), LineToCmd)
		case vhQuad:
			p.d = append(p.d, QuadToCmd, vhReal(), vhReal(), vhReal(), vhReal(), QuadToCmd)
		case vhCube:
			p.d = append(p.d, CubeToCmd, vhReal(), vhReal(), vhReal(), vhReal(), vhReal(), vhReal(), CubeToCmd)
		case vhArc:
			rx, ry, phi, fl := vhReal(), vhReal(), vhReal(), vhReal()
			p.d = append(p.d, ArcToCmd, rx, ry, phi, fl, vhReal(), vhReal(), ArcToCmd)
		}
	}
	if closed {
		p.d = append(p.d, CloseCmd, sx, sy, CloseCmd)
	}
}

var vhC03All = []int{vhLine, vhQuad, vhCube, vhArc}

// vhC03Input: one subpath of 1..2 (quick) / 3 (thorough) segments of every kind, or two
// subpaths (first 1 (quick) / 1..2 (thorough) segments, second 1 segment), each open or closed.
// rewritten[k] tells which segment kinds the operation under test rewrites.
func vhC03Input(rewritten [4]bool) *Path {
	p := &Path{}
	var all []int
	if vChoose(0, 1) == 0 {
		nseg := vChoose(1, 2+vTier())
		ks := vhChooseKinds(nseg, vhC03All)
		vhC03Subpath(p, ks, vChoose(0, 1) == 1)
		all = append(all, ks...)
	} else {
		nseg := vChoose(1, 1+vTier())
		ks := vhChooseKinds(nseg, vhC03All)
		vhC03Subpath(p, ks, vChoose(0, 1) == 1)
		ks2 := vhChooseKinds(1, vhC03All)
		vhC03Subpath(p, ks2, vChoose(0, 1) == 1)
		all = append(append(all, ks...), ks2...)
	}
	n := 0
	for _, k := range all {
		if rewritten[k] {
			n++
		}
	}
	vhC03Rich = n <= 1
	vAssume(vhWF(p))
	// Known finding D25: a closed subpath all of whose segments return to their own start point
	// (single-curve loops) and whose rewriting collapses to a point is removed by Close() inside
	// Join while replace() keeps a stale index: panic / lost subpath.
	subs, _ := vhDecode(p.d)
	region := false
	for _, sub := range subs {
		all := true
		for _, sg := range sub.segs {
			// general position (stated bound): no segment (incl. the closing line) is shorter
			// than Epsilon unless it returns exactly to its start point
			vAssume(vhPtEq(sg.start, sg.end) || !sg.start.Equals(sg.end))
			all = all && (sg.cmd == CloseCmd || vhPtEq(sg.start, sg.end))
		}
		region = region || (sub.closed && all)
	}
	// D25 (fixed: the panic): in this region a loop whose rewriting collapses to a point is
	// dropped as zero-length; only panic-freedom and well-formedness are demanded there.
	vhC03LoopRegion = region
	return p
}

var vhC03LoopRegion bool

// ---- contract stubs -------------------------------------------------------------------------

const (
	vhC03EndAny    = 0 // last vertex is a computed point (EllipsePos(theta1)): arbitrary
	vhC03EndEquals = 1 // last vertex is `end` within Epsilon (exact unless a last piece was dropped)
)

// vhC03Pieces returns MoveTo(p0) followed by one record per letter of a shape chosen from
// `rich` (rich mode) or `simple`: L line, Q quadratic, C cubic, A arc.  No piece is shorter than
// Epsilon (the builders drop those); arcs carry valid parameters.
func vhC03Pieces(p0, end Point, rich, simple []string, endMode int) *Path {
	shapes := simple
	if vhC03Rich {
		shapes = rich
	} else {
		endMode = vhC03EndEquals
	}
	shape := shapes[vChoose(0, len(shapes)-1)]
	p := &Path{}
	p.d = append(p.d, MoveToCmd, p0.X, p0.Y, MoveToCmd)
	last := p0
	for _, ch := range []byte(shape) {
		v := Point{vhC03Any(), vhC03Any()}
		switch ch {
		case 'L':
			vAssume(!v.Equals(last))
			p.d = append(p.d, LineToCmd, v.X, v.Y, LineToCmd)
		case 'Q':
			cp := Point{vhC03Any(), vhC03Any()}
			vAssume(!(v.Equals(last) && cp.Equals(last)))
			p.d = append(p.d, QuadToCmd, cp.X, cp.Y, v.X, v.Y, QuadToCmd)
		case 'C':
			cp1, cp2 := Point{vhC03Any(), vhC03Any()}, Point{vhC03Any(), vhC03Any()}
			vAssume(!(v.Equals(last) && cp1.Equals(last) && cp2.Equals(last)))
			p.d = append(p.d, CubeToCmd, cp1.X, cp1.Y, cp2.X, cp2.Y, v.X, v.Y, CubeToCmd)
		case 'A':
			rx, ry, phi, fl := vhC03Any(), vhC03Any(), vhC03Any(), vhC03Any()
			vAssume(!v.Equals(last) && ry > 0 && ry <= rx && 0 <= phi && phi < math.Pi && (fl == 0 || fl == 1 || fl == 2 || fl == 3))
			p.d = append(p.d, ArcToCmd, rx, ry, phi, fl, v.X, v.Y, ArcToCmd)
		}
		last = v
	}
	if endMode == vhC03EndEquals {
		vAssume(last.Equals(end))
	}
	return p
}

var (
	vhC03PolyRich, vhC03PolySimple   = []string{"", "L", "LL"}, []string{"L", "LL"}
	vhC03CubesRich, vhC03CubesSimple = []string{"", "L", "C", "LC", "CL", "CC"}, []string{"C", "CC"}
	// the x-monotone splitters return an empty path only when every piece is dropped, i.e. for a
	// curve whose control polygon is smaller than 2*Epsilon: outside the bound
	vhC03XQRich, vhC03XQSimple = []string{"L", "Q", "LQ", "QL", "QQ"}, []string{"Q", "QQ"}
	vhC03XCRich, vhC03XCSimple = []string{"L", "C", "LC", "CL", "CC"}, []string{"C", "CC"}
	vhC03XARich, vhC03XASimple = []string{"", "L", "A", "AA"}, []string{"A", "AA"}
)

func vhC03FlatQuad(p0, p1, p2 Point, tolerance float64) *Path {
	return vhC03Pieces(p0, p2, vhC03PolyRich, vhC03PolySimple, vhC03EndEquals)
}
func vhC03FlatCube(p0, p1, p2, p3 Point, tolerance float64) *Path {
	return vhC03Pieces(p0, p3, vhC03PolyRich, vhC03PolySimple, vhC03EndEquals)
}

// the ellipse branch of flattenEllipticArc ends at the numerically computed EllipsePos(theta1)
func vhC03FlatArc(start Point, rx, ry, phi float64, large, sweep bool, end Point, tolerance float64) *Path {
	return vhC03Pieces(start, end, vhC03PolyRich, vhC03PolySimple, vhC03EndAny)
}

// arcToCube: CubeTo per cubic piece (may degrade to a line or be dropped); the last end point
// is the computed EllipsePos(theta1)
func vhC03ArcToCube(start Point, rx, ry, phi float64, large, sweep bool, end Point) *Path {
	return vhC03Pieces(start, end, vhC03CubesRich, vhC03CubesSimple, vhC03EndAny)
}
func vhC03XQuad(p0, p1, p2 Point) *Path {
	return vhC03Pieces(p0, p2, vhC03XQRich, vhC03XQSimple, vhC03EndEquals)
}
func vhC03XCube(p0, p1, p2, p3 Point) *Path {
	return vhC03Pieces(p0, p3, vhC03XCRich, vhC03XCSimple, vhC03EndEquals)
}

// xmonotoneEllipticArc: ArcTo per piece (degrades to a line for radii below Epsilon); the end
// points are computed EllipsePos values
func vhC03XArc(start Point, rx, ry, phi float64, large, sweep bool, end Point) *Path {
	return vhC03Pieces(start, end, vhC03XARich, vhC03XASimple, vhC03EndAny)
}

// sqrt(...) >= 0
func vhC03RadiiCorrection(start Point, rx, ry, phi float64, end Point) float64 {
	l := vNondetF64()
	vAssume(l >= 0)
	return l
}

const vhC03Pkg = "github.com/tdewolff/canvas."

// ---- oracle -----------------------------------------------------------------------------------

const (
	vhC03Flatten = iota
	vhC03ReplaceArcs
	vhC03XMonotone
)

func vhC03Check(before []float64, p, q *Path, mode int) {
	vAssert("C03.replace.receiver_unchanged", vhSameData(p.d, before))
	vAssert("C03.replace.struct_wf", vhStructWF(q))

	// commands left in the result (commands are concrete values)
	okCmds := true
	for i := 0; i < len(q.d); i += cmdLen(q.d[i]) {
		c := q.d[i]
		switch mode {
		case vhC03Flatten:
			okCmds = okCmds && (c == MoveToCmd || c == LineToCmd || c == CloseCmd)
		case vhC03ReplaceArcs:
			okCmds = okCmds && c != ArcToCmd
		}
	}
	switch mode {
	case vhC03Flatten:
		vAssert("C03.flatten.only_lines", okCmds)
		vAssert("C03.flatten.Flat", q.Flat())
	case vhC03ReplaceArcs:
		vAssert("C03.replacearcs.no_arcs", okCmds)
	}

	if vhC03LoopRegion {
		return
	}
	ps, _ := vhDecode(before)
	qs, ok := vhDecode(q.d)
	vAssert("C03.replace.subpath_count", ok && len(qs) == len(ps))
	if !ok || len(qs) != len(ps) {
		return
	}
	for k := range ps {
		a, b := ps[k], qs[k]
		vAssert("C03.replace.subpath_start", vhPtEq(a.start, b.start))
		vAssert("C03.replace.closedness", a.closed == b.closed)
		ae, be := a.start, b.start
		if len(a.segs) > 0 {
			ae = a.segs[len(a.segs)-1].end
		}
		if len(b.segs) > 0 {
			be = b.segs[len(b.segs)-1].end
		}
		// LineTo/Close drop a segment shorter than Epsilon: end points agree within Epsilon
		vAssert("C03.replace.subpath_end", ae.Equals(be))
	}
}

// vhC03LineTo is the contract of (*Path).LineTo established by C10-H2 (VH_C10_step_lineto_Q):
// a segment shorter than Epsilon is dropped; if the previous command is a LineTo the new line
// may be merged into it (real code: when collinear and extending - a non-linear test, replaced
// here by a free choice in rich mode, and assumed not to happen otherwise); otherwise it is
// appended, after an implicit MoveTo when the path is empty or closed.
func vhC03LineTo(p *Path, x, y float64) {
	start := p.Pos()
	end := Point{x, y}
	if start.Equals(end) {
		return
	}
	if vhC03Rich && 8 <= len(p.d) && p.d[len(p.d)-1] == LineToCmd {
		// the real test (same direction on the dominant axis) implies that the merged line is at
		// least as long as the previous one on that axis, hence not shorter than Epsilon
		prevStart := Point{p.d[len(p.d)-7], p.d[len(p.d)-6]}
		if !prevStart.Equals(end) && vNondetBool() {
			p.d[len(p.d)-3] = x
			p.d[len(p.d)-2] = y
			return
		}
	}
	if len(p.d) == 0 {
		p.MoveTo(0.0, 0.0)
	} else if p.d[len(p.d)-1] == CloseCmd {
		p.MoveTo(p.d[len(p.d)-3], p.d[len(p.d)-2])
	}
	p.d = append(p.d, LineToCmd, end.X, end.Y, LineToCmd)
}

// vhC03QuadTo / vhC03CubeTo: contracts of the curve builders established by C10-H2
// (VH_C10_step_curves_Q): a curve whose points all coincide within Epsilon is dropped; a curve
// with distinct end points may degrade to LineTo (real code: when the control points lie on the
// chord - an atan2 test of non-linear arguments, replaced by a free choice in rich mode);
// otherwise the record is appended unchanged after an implicit MoveTo when the path is empty or
// closed.
func vhC03QuadTo(p *Path, cpx, cpy, x, y float64) {
	start := p.Pos()
	cp, end := Point{cpx, cpy}, Point{x, y}
	if start.Equals(end) && start.Equals(cp) {
		return
	}
	if vhC03Rich && !start.Equals(end) && vNondetBool() {
		p.LineTo(x, y)
		return
	}
	if len(p.d) == 0 {
		p.MoveTo(0.0, 0.0)
	} else if p.d[len(p.d)-1] == CloseCmd {
		p.MoveTo(p.d[len(p.d)-3], p.d[len(p.d)-2])
	}
	p.d = append(p.d, QuadToCmd, cpx, cpy, x, y, QuadToCmd)
}

func vhC03CubeTo(p *Path, cpx1, cpy1, cpx2, cpy2, x, y float64) {
	start := p.Pos()
	cp1, cp2, end := Point{cpx1, cpy1}, Point{cpx2, cpy2}, Point{x, y}
	if start.Equals(end) && start.Equals(cp1) && start.Equals(cp2) {
		return
	}
	if vhC03Rich && !start.Equals(end) && vNondetBool() {
		p.LineTo(x, y)
		return
	}
	if len(p.d) == 0 {
		p.MoveTo(0.0, 0.0)
	} else if p.d[len(p.d)-1] == CloseCmd {
		p.MoveTo(p.d[len(p.d)-3], p.d[len(p.d)-2])
	}
	p.d = append(p.d, CubeToCmd, cpx1, cpy1, cpx2, cpy2, x, y, CubeToCmd)
}

// h with max(|x|,|y|) <= h <= |x|+|y| (branch-free form of vhHypotQ)
func vhC03Hypot(x, y float64) float64 {
	h := vNondetF64()
	ax, ay := math.Abs(x), math.Abs(y)
	vAssume(h >= ax && h >= ay && h <= ax+ay)
	return h
}

// atan2 in [-pi,pi]; the link between the sign of the result and the (non-linear) arguments is
// dropped (over-approximation)
func vhC03Atan2(y, x float64) float64 {
	r := vNondetF64()
	vAssume(-math.Pi <= r && r <= math.Pi)
	return r
}

func vhC03Stubs() {
	vhC03Rich = true
	vStub("math.Hypot", vhC03Hypot)
	vStub("math.Atan2", vhC03Atan2)
	vStub("(*github.com/tdewolff/canvas.Path).LineTo", vhC03LineTo)
	vStub("(*github.com/tdewolff/canvas.Path).QuadTo", vhC03QuadTo)
	vStub("(*github.com/tdewolff/canvas.Path).CubeTo", vhC03CubeTo)
	vStub(vhC03Pkg+"ellipseRadiiCorrection", vhC03RadiiCorrection)
}

func VH_C03_flatten_Q() {
	vhC03Stubs()
	vStub(vhC03Pkg+"flattenQuadraticBezier", vhC03FlatQuad)
	vStub(vhC03Pkg+"flattenCubicBezier", vhC03FlatCube)
	vStub(vhC03Pkg+"flattenEllipticArc", vhC03FlatArc)
	p := vhC03Input([4]bool{false, true, true, true})
	tol := vNondetF64()
	vAssume(tol > 0)
	before := vhCopyData(p.d)
	q := p.Flatten(tol)
	vhC03Check(before, p, q, vhC03Flatten)
}

func VH_C03_replacearcs_Q() {
	vhC03Stubs()
	vStub(vhC03Pkg+"arcToCube", vhC03ArcToCube)
	p := vhC03Input([4]bool{false, false, false, true})
	before := vhCopyData(p.d)
	q := p.ReplaceArcs()
	vhC03Check(before, p, q, vhC03ReplaceArcs)
}

func VH_C03_xmonotone_Q() {
	vhC03Stubs()
	vStub(vhC03Pkg+"xmonotoneQuadraticBezier", vhC03XQuad)
	vStub(vhC03Pkg+"xmonotoneCubicBezier", vhC03XCube)
	vStub(vhC03Pkg+"xmonotoneEllipticArc", vhC03XArc)
	p := vhC03Input([4]bool{false, true, true, true})
	before := vhCopyData(p.d)
	q := p.XMonotone()
	vhC03Check(before, p, q, vhC03XMonotone)
}

// ---- H3: x-monotone split of Béziers is exact (polynomial identities, exact reals) -----------
//
// x coordinates symbolic, y coordinates from a few concrete configurations (the split matrix
// depends on x only and acts on y linearly).  General position w.r.t. the library's tolerance
// (stated): the quantities the code compares with Equal()/IntervalExclusive() are either
// exactly at the compared value or farther than Epsilon from it; otherwise the split is
// skipped for an extremum closer than Epsilon to an end (documented tolerance) and the piece is
// non-monotone by a sub-Epsilon amount.

func vhC03Ys(n int) []float64 {
	switch vChoose(0, 1+vTier()) {
	case 0:
		return []float64{0, 1, 2, 3}[:n]
	case 1:
		return []float64{0, 2, -1, 1}[:n]
	}
	return []float64{1, 0, 0, 1}[:n]
}

func vhC03SameSignWeak(a, b float64) bool { return (a >= 0 && b >= 0) || (a <= 0 && b <= 0) }

// Exact claims are made in exact real arithmetic only (rounding is outside the claim): natively
// (and in the interpreter's concrete self-tests) the same fact is asserted up to 1e-9.
var vhC03NearOnly bool

func vhC03AssertSame(id string, ok, okNear bool) {
	if vSymbolic() && !vhC03NearOnly {
		vAssert(id, ok)
	} else {
		vAssert(id, okNear)
	}
}

func vhC03SameSignNear(a, b float64) bool {
	return (a >= -1e-9 && b >= -1e-9) || (a <= 1e-9 && b <= 1e-9)
}

func vhC03QuadAt(p0, p1, p2 Point, t float64) Point {
	// Bernstein form (independent of the de Casteljau construction used by the code)
	u := 1 - t
	return Point{u*u*p0.X + 2*u*t*p1.X + t*t*p2.X, u*u*p0.Y + 2*u*t*p1.Y + t*t*p2.Y}
}

func VH_C03_xmono_quad_Q() {
	vhC03NearOnly = false
	// QuadTo's collinearity tests (atan2 of non-linear arguments) and LineTo's merge test are
	// over-approximated (free): a piece may degrade to a LineTo at will; exactness is asserted
	// for the pieces that stay curves
	vhC03Stubs()
	ys := vhC03Ys(3)
	// end points from concrete configurations, the control point's x symbolic
	ex := [][2]float64{{0, 1}, {1, -2}, {0, 0}, {-1, 3}}[vChoose(0, 1+2*vTier())]
	p0 := Point{ex[0], ys[0]}
	// (p0.X symbolic as well: two-variable rational identities, z3 answered unknown)
	p1 := Point{vhReal(), ys[1]}
	p2 := Point{ex[1], ys[2]}
	tdenom := p0.X - 2*p1.X + p2.X
	vAssume(tdenom == 0 || !Equal(tdenom, 0.0))
	if tdenom != 0 {
		if tr := (p0.X - p1.X) / tdenom; 0 < tr && tr < 1 {
			// general position: the extremum is farther than Epsilon from both end points (a
			// shorter piece is dropped by QuadTo and the neighbour starts displaced by <= Epsilon)
			m := vhC03QuadAt(p0, p1, p2, tr)
			vAssume(!m.Equals(p0) && !m.Equals(p2))
		}
	}
	q := xmonotoneQuadraticBezier(p0, p1, p2)
	subs, ok := vhDecode(q.d)
	vAssert("C03.xmono_quad.one_subpath", ok && len(subs) == 1 && !subs[0].closed)
	if !ok || len(subs) != 1 {
		return
	}
	segs := subs[0].segs
	vAssert("C03.xmono_quad.starts_at_p0", vhPtEq(subs[0].start, p0))
	vAssert("C03.xmono_quad.pieces", len(segs) <= 2)
	if len(segs) == 0 {
		// QuadTo drops a curve whose three points coincide within Epsilon
		vAssert("C03.xmono_quad.empty_only_if_degenerate", p0.Equals(p1) && p0.Equals(p2))
		return
	}
	vAssert("C03.xmono_quad.ends_at_p2", vhPtEq(segs[len(segs)-1].end, p2))
	vAssert("C03.xmono_quad.only_quads_or_lines", (segs[0].cmd == QuadToCmd || segs[0].cmd == LineToCmd) && (segs[len(segs)-1].cmd == QuadToCmd || segs[len(segs)-1].cmd == LineToCmd))
	// every piece is x-monotone: x'(s) of a quadratic is linear, so it keeps its sign iff the two
	// control-polygon steps do not have strictly opposite signs
	mono, monoNear := true, true
	for _, sg := range segs {
		if sg.cmd == QuadToCmd {
			mono = mono && vhC03SameSignWeak(sg.a[0]-sg.start.X, sg.end.X-sg.a[0])
			monoNear = monoNear && vhC03SameSignNear(sg.a[0]-sg.start.X, sg.end.X-sg.a[0])
		}
	}
	vhC03AssertSame("C03.xmono_quad.monotone", mono, monoNear)
	if len(segs) == 2 {
		// a split happened: the split point is an extremum of x (vertical tangent on both sides)
		// and lies on the original curve at the root t of x'(t)
		t := (p0.X - p1.X) / tdenom
		vAssert("C03.xmono_quad.t_inside", 0 < t && t < 1)
		mid := segs[0].end
		on := vhC03QuadAt(p0, p1, p2, t)
		vhC03AssertSame("C03.xmono_quad.split_on_curve", vhPtEq(mid, on), vhNearPt(mid, on))
		// x'(t) = 0
		dx := 2*(1-t)*(p1.X-p0.X) + 2*t*(p2.X-p1.X)
		vhC03AssertSame("C03.xmono_quad.split_is_root", dx == 0, vhNear(dx, 0))
		// the pieces are the restrictions of the original curve: compare at the parameter midpoint
		// (with the shared end points and degree 2 this fixes the piece)
		if segs[0].cmd == QuadToCmd {
			m := vhC03QuadAt(segs[0].start, Point{segs[0].a[0], segs[0].a[1]}, segs[0].end, 0.5)
			o := vhC03QuadAt(p0, p1, p2, t/2)
			vhC03AssertSame("C03.xmono_quad.piece0_on_curve", vhPtEq(m, o), vhNearPt(m, o))
		}
		if segs[1].cmd == QuadToCmd {
			m := vhC03QuadAt(segs[1].start, Point{segs[1].a[0], segs[1].a[1]}, segs[1].end, 0.5)
			o := vhC03QuadAt(p0, p1, p2, t+(1-t)/2)
			vhC03AssertSame("C03.xmono_quad.piece1_on_curve", vhPtEq(m, o), vhNearPt(m, o))
		}
	}
}

func vhC03CubeAt(p0, p1, p2, p3 Point, t float64) Point {
	u := 1 - t
	b0, b1, b2, b3 := u*u*u, 3*u*u*t, 3*u*t*t, t*t*t
	return Point{b0*p0.X + b1*p1.X + b2*p2.X + b3*p3.X, b0*p0.Y + b1*p1.Y + b2*p2.Y + b3*p3.Y}
}

// vhC03QuadNoSignChange: A(1-s)^2 + 2B s(1-s) + C s^2 keeps its (weak) sign on [0,1]
// (substitute u = s/(1-s) >= 0: A + 2Bu + Cu^2 >= 0 for all u >= 0 iff A,C >= 0 and (B >= 0 or
// B^2 <= AC)).
func vhC03QuadNoSignChange(A, B, C float64) bool {
	return (A >= 0 && C >= 0 && (B >= 0 || B*B <= A*C)) || (A <= 0 && C <= 0 && (B <= 0 || B*B <= A*C))
}

func vhC03QuadNoSignChangeNear(A, B, C float64) bool {
	const d = 1e-9
	return (A >= -d && C >= -d && (B >= -d || B*B <= A*C+d)) || (A <= d && C <= d && (B <= d || B*B <= A*C+d))
}

var vhC03SqrtArg, vhC03SqrtVal float64

func vhC03SqrtClosed(x float64) float64 {
	vAssume(x == vhC03SqrtArg)
	return vhC03SqrtVal
}

func vhC03Tiny(v float64) bool { return v != 0 && Equal(v, 0.0) }

func VH_C03_xmono_cube_Q() {
	// solveQuadraticFormula returns NaN constants on some arms: no if-conversion of float arms
	vMerge(false)
	vhC03Stubs()
	vhC03NearOnly = false
	// The x-polynomial is parametrised by its derivative x'(t)/3 = a t^2 + b t + c so that the
	// roots are rational in the symbolic inputs (p0.X = 0 by choice; y(t) = 3t, which makes points
	// at parameters farther than Epsilon apart distinct for Equals):
	//   0: a = k, two real roots r1 <= r2;  1: no real root, k((t-u)^2 + v^2), k in {1,-2};
	//   2: a = 0, linear derivative b t + c.
	k := []float64{1, -2}[vChoose(0, 1)]
	var a, b, c float64
	x0 := 0.0
	ys := []float64{0, 1, 2, 3}
	// the two-root case with symbolic roots/scale (shape 0) needs sqrt reasoning that z3 does not
	// finish
	// shape 0 is NOT explored: z3 4.8.12 answers unknown on its queries (kept for reference)
	shape := vChoose(1, 3)
	switch shape {
	case 3:
		// concrete x profiles with two extrema (all splitting branches), symbolic y control
		// points (everything linear)
		rr := [][2]float64{{0.25, 0.75}, {0.5, 2}, {-0.5, 0.5}, {-1, 2}, {0.5, 0.5}, {0, 0.5}}[vChoose(0, 5)]
		a, b, c = k, -k*(rr[0]+rr[1]), k*rr[0]*rr[1]
		// the code's re-parametrisation (t2-t1)/(1-t1) of concrete roots is rounded by the host
		// (e.g. 2/3): identities are claimed up to 1e-9 in this shape
		vhC03NearOnly = true
		x0 = []float64{0, -3}[vChoose(0, vTier())]
		ys = []float64{vhReal(), vhReal(), vhReal(), vhReal()}
	case 0:
		// quick tier: root pairs from concrete choices, the scale k symbolic (both signs);
		// thorough: the smaller root symbolic as well
		rr := [][2]float64{{0.25, 0.75}, {0.5, 2}, {-0.5, 0.5}, {-1, 2}, {0.5, 0.5}}[vChoose(0, 4)]
		r1, r2 := rr[0], rr[1]
		k = vNondetF64()
		vAssume(-8 <= k && k <= 8)
		if vTier() == 1 {
			r1 = vNondetF64()
		}
		vAssume(-2 <= r1 && r1 <= r2 && r2 <= 3)
		a, b, c = k, -k*(r1+r2), k*r1*r2
		// closed form of the square root of the discriminant b^2-4ac = k^2 (r2-r1)^2 (spares the
		// solver the s*s = x encoding); the stub refuses any other argument
		vhC03SqrtArg, vhC03SqrtVal = b*b-4.0*a*c, math.Abs(k)*(r2-r1)
		vStub("math.Sqrt", vhC03SqrtClosed)
	case 1:
		u := vNondetF64()
		vAssume(-2 <= u && u <= 3)
		v := []float64{1, 0.25}[vChoose(0, 1)]
		a, b, c = k, -2*k*u, k*(u*u+v*v)
	case 2:
		b, c = vNondetF64(), vNondetF64()
		vAssume(-8 <= b && b <= 8 && -8 <= c && c <= 8)
	}
	p0 := Point{x0, ys[0]}
	p1 := Point{p0.X + c, ys[1]}
	p2 := Point{p1.X + c + b/2, ys[2]}
	p3 := Point{p2.X + a + b + c, ys[3]}

	// general position w.r.t. the tolerance of solveQuadraticFormula / IntervalExclusive (stated)
	vAssume(!vhC03Tiny(a) && !vhC03Tiny(b) && !vhC03Tiny(c) && !vhC03Tiny(b*b-4*a*c))
	r1, r2 := solveQuadraticFormula(a, b, c)
	var ts []float64 // roots inside (0,1), ascending
	if !math.IsNaN(r1) && 0 < r1 && r1 < 1 {
		ts = append(ts, r1)
	}
	if !math.IsNaN(r2) && 0 < r2 && r2 < 1 {
		ts = append(ts, r2)
	}
	// an extremum is not closer than 1e-3 (in t) to an end point or to the other extremum
	// (pieces shorter than Epsilon are dropped by CubeTo and displace their neighbour)
	lo0 := 0.0
	for _, t := range ts {
		vAssume(t-lo0 >= 1e-3)
		lo0 = t
	}
	vAssume(1-lo0 >= 1e-3)

	q := xmonotoneCubicBezier(p0, p1, p2, p3)
	subs, ok := vhDecode(q.d)
	vAssert("C03.xmono_cube.one_subpath", ok && len(subs) == 1 && !subs[0].closed)
	if !ok || len(subs) != 1 {
		return
	}
	segs := subs[0].segs
	vAssert("C03.xmono_cube.starts_at_p0", vhPtEq(subs[0].start, p0))
	if len(segs) == 0 {
		vAssert("C03.xmono_cube.empty_only_if_degenerate", p0.Equals(p1) && p0.Equals(p2) && p0.Equals(p3))
		return
	}
	vAssert("C03.xmono_cube.ends_at_p3", vhPtEq(segs[len(segs)-1].end, p3))
	vAssert("C03.xmono_cube.pieces", len(segs) <= len(ts)+1)
	mono, monoNear := true, true
	kinds := true
	for _, sg := range segs {
		kinds = kinds && (sg.cmd == CubeToCmd || sg.cmd == LineToCmd)
		if sg.cmd == CubeToCmd {
			mono = mono && vhC03QuadNoSignChange(sg.a[0]-sg.start.X, sg.a[2]-sg.a[0], sg.end.X-sg.a[2])
			monoNear = monoNear && vhC03QuadNoSignChangeNear(sg.a[0]-sg.start.X, sg.a[2]-sg.a[0], sg.end.X-sg.a[2])
		}
	}
	vAssert("C03.xmono_cube.only_cubes_or_lines", kinds)
	vhC03AssertSame("C03.xmono_cube.monotone", mono, monoNear)
	if len(segs) == len(ts)+1 && len(ts) > 0 {
		// joints: on the original curve at the roots of x', in curve order, with vertical tangent
		joints, jointsNear := true, true
		roots, rootsNear := true, true
		for k, t := range ts {
			o := vhC03CubeAt(p0, p1, p2, p3, t)
			joints = joints && vhPtEq(segs[k].end, o)
			jointsNear = jointsNear && vhNearPt(segs[k].end, o)
			roots = roots && a*t*t+b*t+c == 0
			rootsNear = rootsNear && vhNear(a*t*t+b*t+c, 0)
		}
		vhC03AssertSame("C03.xmono_cube.joints_on_curve", joints, jointsNear)
		vhC03AssertSame("C03.xmono_cube.split_is_root", roots, rootsNear)
		// pieces are restrictions of the original: two interior parameter values (with the end
		// points: four points fix a cubic)
		lo := 0.0
		onCurve, onCurveNear := true, true
		for k, sg := range segs {
			hi := 1.0
			if k < len(ts) {
				hi = ts[k]
			}
			if sg.cmd == CubeToCmd {
				c1, c2 := Point{sg.a[0], sg.a[1]}, Point{sg.a[2], sg.a[3]}
				for _, s := range []float64{0.25, 0.5} {
					m, o := vhC03CubeAt(sg.start, c1, c2, sg.end, s), vhC03CubeAt(p0, p1, p2, p3, lo+(hi-lo)*s)
					onCurve = onCurve && vhPtEq(m, o)
					onCurveNear = onCurveNear && vhNearPt(m, o)
				}
			}
			lo = hi
		}
		vhC03AssertSame("C03.xmono_cube.pieces_on_curve", onCurve, onCurveNear)
	}
}

// ---- H1: structural contract of the real flatteners (small unwinding) -------------------------
//
// flattenQuadraticBezier on symbolic control points and tolerance > 0.  The step length
// t = 2*sqrt(tolerance*|denom/s2nom|) is taken from the grid {1/4, 1/2, 3/4, 2} (stub of
// math.Sqrt; with symbolic t the split coordinates are products of symbolic values and z3 does
// not finish), math.Hypot is a linear enclosure and LineTo its contract.  Bounds (stated): step
// lengths on that grid (quick: {1/4, 3/4, 2}), at most 2 (quick) / 3 (thorough) step computations.

var vhC03SqrtCalls int

func vhC03SqrtAny(x float64) float64 {
	vhC03SqrtCalls++
	vAssume(vhC03SqrtCalls <= 2+vTier())
	if vTier() == 0 {
		return []float64{0.125, 0.375, 1}[vChoose(0, 2)]
	}
	return []float64{0.125, 0.25, 0.375, 1}[vChoose(0, 3)]
}

func VH_C03_flatquad_Q() {
	vhC03Stubs()
	vhC03SqrtCalls = 0
	vStub("math.Sqrt", vhC03SqrtAny)
	p0 := Point{vhReal(), vhReal()}
	p1 := Point{vhReal(), vhReal()}
	p2 := Point{vhReal(), vhReal()}
	// the tolerance only feeds the (stubbed) step length; a concrete value avoids the Q-domain
	// product "symbolic * +Inf" for collinear control points (s2nom = 0)
	tol := 0.01
	q := flattenQuadraticBezier(p0, p1, p2, tol)
	subs, ok := vhDecode(q.d)
	vAssert("C03.flatquad.one_open_subpath", ok && len(subs) == 1 && !subs[0].closed)
	if !ok || len(subs) != 1 {
		return
	}
	vAssert("C03.flatquad.starts_at_p0", vhPtEq(subs[0].start, p0))
	segs := subs[0].segs
	lines := true
	for _, sg := range segs {
		lines = lines && sg.cmd == LineToCmd
	}
	vAssert("C03.flatquad.only_lines", lines)
	if len(segs) == 0 {
		vAssert("C03.flatquad.empty_only_if_closed_within_eps", p0.Equals(p2))
	} else {
		// the final LineTo(p2) is dropped when the previous vertex is within Epsilon of p2
		vAssert("C03.flatquad.ends_at_p2", segs[len(segs)-1].end.Equals(p2))
	}
	vAssert("C03.flatquad.vertex_bound", len(segs) <= 3+vTier())
}
