package canvas

// C06: the bounding-box pre-filter of RayIntersections for curved segments.  The control points
// and the ray origin are symbolic reals; the curve/line intersection routines (cubic roots, not
// encodable) are replaced by recorders.  Contract needed for correct winding numbers: whenever the
// ray's height lies within the hull's y-range and the ray starts left of the hull's right side,
// the intersection routine is consulted with a ray that starts at the query point and reaches
// beyond every control point (the curve lies in its hull); it is not consulted when the height is
// outside the hull by more than the tolerance.

var vhC06RayCalls int
var vhC06RayA0, vhC06RayA1 Point

func vhC06LineQuad(zs Intersections, l0, l1, p0, p1, p2 Point) Intersections {
	vhC06RayCalls++
	vhC06RayA0, vhC06RayA1 = l0, l1
	return zs
}

func vhC06LineCube(zs Intersections, l0, l1, p0, p1, p2, p3 Point) Intersections {
	vhC06RayCalls++
	vhC06RayA0, vhC06RayA1 = l0, l1
	return zs
}

func VH_C06_ray_prefilter_Q() {
	vStub("!github.com/tdewolff/canvas.intersectionLineQuad", vhC06LineQuad)
	vStub("!github.com/tdewolff/canvas.intersectionLineCube", vhC06LineCube)
	cubic := vChoose(0, 1) == 1
	n := 3
	if cubic {
		n = 4
	}
	pts := make([]Point, n)
	for i := range pts {
		pts[i] = Point{vhReal(), vhReal()}
	}
	p := &Path{}
	p.d = append(p.d, MoveToCmd, pts[0].X, pts[0].Y, MoveToCmd)
	if cubic {
		p.d = append(p.d, CubeToCmd, pts[1].X, pts[1].Y, pts[2].X, pts[2].Y, pts[3].X, pts[3].Y, CubeToCmd)
	} else {
		p.d = append(p.d, QuadToCmd, pts[1].X, pts[1].Y, pts[2].X, pts[2].Y, QuadToCmd)
	}
	x, y := vhReal(), vhReal()
	vhC06RayCalls = 0
	_ = p.RayIntersections(x, y)
	// the recorders exist only under the engine: interpreter-only assertions (vAssertI)
	xmax, ymin, ymax := pts[0].X, pts[0].Y, pts[0].Y
	for _, q := range pts[1:] {
		if q.X > xmax {
			xmax = q.X
		}
		if q.Y < ymin {
			ymin = q.Y
		}
		if q.Y > ymax {
			ymax = q.Y
		}
	}
	if ymin <= y && y <= ymax && x <= xmax {
		vAssertI("C06.rayfilter.hull_hit_is_examined", vhC06RayCalls == 1)
		if vhC06RayCalls == 1 {
			vAssertI("C06.rayfilter.ray_from_query_point", vhPtEq(vhC06RayA0, Point{x, y}))
			vAssertI("C06.rayfilter.ray_reaches_beyond_hull", vhC06RayA1.X > xmax && vhC06RayA1.Y == y)
		}
	}
	if y < ymin-1e-6 || y > ymax+1e-6 {
		vAssertI("C06.rayfilter.outside_hull_not_examined", vhC06RayCalls == 0)
	}
}

// C06: the same pre-filter for elliptical arcs.  Centre, radii (rx >= ry > 0, the form ArcTo
// stores), query point and the arc's end points are symbolic reals; the rotation is 0 or 90
// degrees, where the ellipse's true extent is known without trigonometry (rx by ry, or ry by rx).
// ellipseToCenter (trigonometric, not encodable) is replaced by a stand-in that returns the
// symbolic centre - its contract, checked separately by VH_C08_ellipse_to_center - and the
// line/ellipse intersection by a recorder.  Contract: whenever the ray's height lies within the
// ellipse's true y-extent and the ray starts left of its right side, the intersection routine is
// consulted with a ray from the query point that reaches beyond the ellipse.  (A filter that is
// tighter than the bounding disk but still contains the rotated ellipse passes.)  Seed C06-f.
var vhC06EC [4]float64

func vhC06EllipseToCenter(x0, y0, rx, ry, phi float64, large, sweep bool, x1, y1 float64) (float64, float64, float64, float64) {
	return vhC06EC[0], vhC06EC[1], vhC06EC[2], vhC06EC[3]
}

func vhC06LineEllipse(zs Intersections, l0, l1, center, radius Point, phi, theta0, theta1 float64) Intersections {
	vhC06RayCalls++
	vhC06RayA0, vhC06RayA1 = l0, l1
	return zs
}

func VH_C06_ray_prefilter_arc_Q() {
	vStub("!github.com/tdewolff/canvas.ellipseToCenter", vhC06EllipseToCenter)
	vStub("!github.com/tdewolff/canvas.intersectionLineEllipse", vhC06LineEllipse)
	rx, ry := vhReal(), vhReal()
	vAssume(0 < ry && ry <= rx)
	cx, cy := vhReal(), vhReal()
	upright := vChoose(0, 1) == 1
	phi, hx, hy := 0.0, rx, ry
	if upright {
		phi, hx, hy = 1.5707963267948966, ry, rx
	}
	vhC06EC = [4]float64{cx, cy, 0.0, 3.0}
	sx, sy, ex, ey := vhReal(), vhReal(), vhReal(), vhReal()
	p := &Path{}
	p.d = append(p.d, MoveToCmd, sx, sy, MoveToCmd)
	p.d = append(p.d, ArcToCmd, rx, ry, phi, float64(vChoose(0, 3)), ex, ey, ArcToCmd)
	x, y := vhReal(), vhReal()
	vhC06RayCalls = 0
	_ = p.RayIntersections(x, y)
	if cy-hy <= y && y <= cy+hy && x <= cx+hx {
		vAssertI("C06.rayfilter.arc.ellipse_hit_is_examined", vhC06RayCalls == 1)
		if vhC06RayCalls == 1 {
			vAssertI("C06.rayfilter.arc.ray_from_query_point", vhPtEq(vhC06RayA0, Point{x, y}))
			vAssertI("C06.rayfilter.arc.ray_reaches_beyond_ellipse", vhC06RayA1.X > cx+hx && vhC06RayA1.Y == y)
		}
	}
}
