package rasterizer

import (
	"image"
	"image/color"

	"github.com/srwiley/scanx"
	"github.com/tdewolff/canvas"
	"golang.org/x/image/draw"
	"golang.org/x/image/math/f64"
)

// C14-H5: rendering "leaves the canvas, its paths ... unchanged": RenderPath with an arbitrary
// (symbolic) matrix and a path with symbolic coordinates does not modify the caller's path, for
// fill only, stroke only and both; rendering the same path twice with the same matrix gives the
// same image.
//
// Symbolic run: the scan conversion itself (ToScanxScanner, Scanner.Draw: loops over symbolic
// fixed-point coordinates) is cut away; what remains is RenderPath's own handling of the path
// (copy, transform, bounds, stroke construction on the untransformed path).  The stroker is
// replaced by a shell returning a copy (its behaviour on its receiver is subject of C04/C10).
// Natively everything real runs, and the two images are compared.

func vhC14NoScan(p *canvas.Path, s *scanx.Scanner, h float64, res canvas.Resolution) {}
func vhC14NoDraw(s *scanx.Scanner)                                                   {}
func vhC14StrokeShell(p *canvas.Path, w float64, cr canvas.Capper, jr canvas.Joiner, tol float64) *canvas.Path {
	return p.Copy()
}

// Decompose is only consulted for arcs (none here): any six numbers
func vhC14Decompose(m canvas.Matrix) (float64, float64, float64, float64, float64, float64) {
	return vNondetF64(), vNondetF64(), vNondetF64(), vNondetF64(), vNondetF64(), vNondetF64()
}

func VH_C14_render_leaves_path_Q() {
	vStub("(github.com/tdewolff/canvas.Matrix).Decompose", vhC14Decompose)
	vStub("(*github.com/tdewolff/canvas.Path).ToScanxScanner", vhC14NoScan)
	vStub("(*github.com/srwiley/scanx.Scanner).Draw", vhC14NoDraw)
	vStub("(*github.com/tdewolff/canvas.Path).Stroke", vhC14StrokeShell)
	mode := vChoose(0, 2) // 0 fill, 1 stroke, 2 both
	// either the path or the matrix is symbolic (both at once make Transform's products
	// non-linear); the other one comes from a concrete set
	symPath := vChoose(0, 1) == 1
	p := &canvas.Path{}
	p.MoveTo(2, 3)
	p.LineTo(14, 4)
	p.LineTo(7, 12)
	if vChoose(0, 1) == 1 {
		p.Close()
	}
	if symPath {
		// symbolic coordinates: an arbitrary axis-aligned affine image of the triangle (the
		// builders' collinearity tests on fully free coordinates are non-linear)
		a, d, tx, ty := vNondetF64(), vNondetF64(), vNondetF64(), vNondetF64()
		vAssume(0.25 <= a && a <= 1.5 && 0.25 <= d && d <= 1.5 && -4 <= tx && tx <= 4 && -4 <= ty && ty <= 4)
		p = p.Transform(canvas.Matrix{{a, 0, tx}, {0, d, ty}})
	}
	ms := []canvas.Matrix{canvas.Identity.Translate(3, 2), canvas.Identity.Scale(0.5, 1.5), canvas.Identity.Rotate(90).Translate(0, -18), canvas.Identity.ReflectYAbout(10)}
	m := ms[vChoose(0, len(ms)-1)]
	if !symPath {
		for i := 0; i < 2; i++ {
			for j := 0; j < 3; j++ {
				v := vNondetF64()
				vAssume(-3 <= v && v <= 3)
				m[i][j] = v
			}
		}
	}
	style := canvas.DefaultStyle
	style.Fill = canvas.Paint{}
	if mode != 1 {
		style.Fill = canvas.Paint{Color: canvas.Black}
	}
	if mode != 0 {
		style.Stroke = canvas.Paint{Color: canvas.Red}
		style.StrokeWidth = 1.5
	}
	cmds := p.Len()
	c0 := p.Coords()
	r1 := New(20, 20, canvas.DPMM(1), canvas.LinearColorSpace{})
	r1.RenderPath(p, style, m)
	c1 := p.Coords()
	same := cmds == p.Len() && len(c0) == len(c1)
	if same {
		for i := range c0 {
			same = same && c0[i].X == c1[i].X && c0[i].Y == c1[i].Y
		}
	}
	vAssert("C14.render.path_unchanged", same)
	r2 := New(20, 20, canvas.DPMM(1), canvas.LinearColorSpace{})
	r2.RenderPath(p, style, m)
	c2 := p.Coords()
	same2 := len(c0) == len(c2)
	if same2 {
		for i := range c0 {
			same2 = same2 && c0[i].X == c2[i].X && c0[i].Y == c2[i].Y
		}
	}
	vAssert("C14.render.path_unchanged_second", same2)
	if !vSymbolic() {
		// native / concrete: the two renderings are pixel-identical
		a, b := r1.Image.(*image.RGBA), r2.Image.(*image.RGBA)
		eq := len(a.Pix) == len(b.Pix)
		if eq {
			for i := range a.Pix {
				eq = eq && a.Pix[i] == b.Pix[i]
			}
		}
		vAssert("C14.render.twice_same_image", eq)
	}
}

// C14-H8: gradients are painted in canvas coordinates: a pixel whose centre lies at canvas point
// (X,Y) inside the filled region gets the gradient's colour at (X,Y), for every resolution and
// with the vertical axis pointing up.  Linear gradients (horizontal, vertical, diagonal) over a
// 10x10 mm square at 1, 2 and 4 pixels per mm; pixels well inside the square; colours within 3/255
// (the gradient's own 8-bit truncation and half a pixel).  Concrete shapes, observed on the image.
func VH_C14_gradient_pixels() {
	res := []float64{1, 2, 4}[vChoose(0, 2)]
	dirs := [][2]canvas.Point{{{X: 0, Y: 0}, {X: 10, Y: 0}}, {{X: 0, Y: 0}, {X: 0, Y: 10}}, {{X: 0, Y: 0}, {X: 10, Y: 10}}, {{X: 2, Y: 8}, {X: 8, Y: 3}}}
	d := dirs[vChoose(0, len(dirs)-1)]
	g := canvas.NewLinearGradient(d[0], d[1])
	g.Add(0, canvas.Red)
	g.Add(1, canvas.Blue)
	stroke := vChoose(0, 1) == 1
	r := New(10, 10, canvas.DPMM(res), canvas.LinearColorSpace{})
	style := canvas.DefaultStyle
	p := canvas.Rectangle(10, 10)
	if stroke {
		// a thick stroke along the horizontal mid line covers the whole square
		style.Fill = canvas.Paint{}
		style.Stroke = canvas.Paint{Gradient: g}
		style.StrokeWidth = 10
		p = &canvas.Path{}
		p.MoveTo(0, 5)
		p.LineTo(10, 5)
	} else {
		style.Fill = canvas.Paint{Gradient: g}
	}
	r.RenderPath(p, style, canvas.Identity)
	img := r.Image.(*image.RGBA)
	n := int(10 * res)
	good := true
	for _, fx := range []float64{0.15, 0.5, 0.85} {
		for _, fy := range []float64{0.2, 0.5, 0.8} {
			px, py := int(fx*float64(n)), int(fy*float64(n))
			// centre of pixel (px,py) of the image in canvas coordinates (y up)
			X := (float64(px) + 0.5) / res
			Y := (float64(n-1-py) + 0.5) / res
			want := g.At(X, Y)
			got := img.RGBAAt(px, py)
			near := func(a, b uint8) bool { return int(a)-int(b) <= 3 && int(b)-int(a) <= 3 }
			good = good && near(got.R, want.R) && near(got.G, want.G) && near(got.B, want.B) && got.A == 255
		}
	}
	vAssert("C14.gradient.pixels_get_the_colour_at_their_canvas_point", good)
}

// C14-H9 ("colour space post-processing"): with a non-linear colour space the rasterizer converts
// paints to linear light, composites, and converts the image back on Close; an opaque paint
// therefore comes out as the colour that was asked for (within 2/255 for the two 8-bit
// conversions), for fills and for strokes alike, in the linear, sRGB and gamma 2.2 colour spaces.
// Concrete square / thick line, colour from a set with mid-range channels, observed on the image.
func VH_C14_colorspace() {
	var cs canvas.ColorSpace
	switch vChoose(0, 2) {
	case 0:
		cs = canvas.LinearColorSpace{}
	case 1:
		cs = canvas.SRGBColorSpace{}
	default:
		cs = canvas.GammaColorSpace{Gamma: 2.2}
	}
	cols := []color.RGBA{{128, 64, 200, 255}, {30, 180, 90, 255}, {255, 0, 0, 255}}
	c := cols[vChoose(0, len(cols)-1)]
	stroke := vChoose(0, 1) == 1
	r := New(10, 10, canvas.DPMM(1), cs)
	style := canvas.DefaultStyle
	p := canvas.Rectangle(8, 8).Translate(1, 1)
	if stroke {
		style.Fill = canvas.Paint{}
		style.Stroke = canvas.Paint{Color: c}
		style.StrokeWidth = 6
		p = &canvas.Path{}
		p.MoveTo(1, 5)
		p.LineTo(9, 5)
	} else {
		style.Fill = canvas.Paint{Color: c}
	}
	r.RenderPath(p, style, canvas.Identity)
	r.Close()
	got := r.Image.(*image.RGBA).RGBAAt(5, 5)
	near := func(a, b uint8) bool { return int(a)-int(b) <= 2 && int(b)-int(a) <= 2 }
	vAssert("C14.colorspace.opaque_paint_comes_out_as_asked", near(got.R, c.R) && near(got.G, c.G) && near(got.B, c.B) && got.A == 255)
}

// C14-H10: a draw with fill and stroke paints the interior with the fill paint and the stroke band
// with the stroke paint (the stroke on top where they overlap), and "later draws cover earlier
// ones".  Concrete square, colours from two sets, opaque and translucent stroke, observed on the image.
func VH_C14_fill_and_stroke() {
	fillC := []color.RGBA{{255, 0, 0, 255}, {0, 160, 0, 255}}[vChoose(0, 1)]
	strokeC := []color.RGBA{{0, 0, 255, 255}, {20, 20, 20, 255}}[vChoose(0, 1)]
	second := vChoose(0, 1) == 1
	r := New(20, 20, canvas.DPMM(1), canvas.LinearColorSpace{})
	style := canvas.DefaultStyle
	style.Fill = canvas.Paint{Color: fillC}
	style.Stroke = canvas.Paint{Color: strokeC}
	style.StrokeWidth = 4
	p := canvas.Rectangle(10, 10).Translate(5, 5) // (5,5)-(15,15): stroke band 3..7 and 13..17
	r.RenderPath(p, style, canvas.Identity)
	var over color.RGBA
	if second {
		// a later opaque draw over the lower left quarter
		over = color.RGBA{200, 200, 0, 255}
		s2 := canvas.DefaultStyle
		s2.Fill = canvas.Paint{Color: over}
		r.RenderPath(canvas.Rectangle(7, 7).Translate(1, 1), s2, canvas.Identity)
	}
	img := r.Image.(*image.RGBA)
	at := func(x, y int) color.RGBA { return img.RGBAAt(x, 20-1-y) }
	vAssert("C14.fillstroke.interior_has_fill_paint", at(11, 11) == fillC)
	vAssert("C14.fillstroke.band_has_stroke_paint", at(15, 10) == strokeC && at(10, 15) == strokeC && at(14, 14) == strokeC)
	vAssert("C14.fillstroke.outside_untouched", at(18, 18).A == 0 && at(1, 18).A == 0)
	if second {
		vAssert("C14.fillstroke.later_draw_covers", at(4, 4) == over && at(6, 6) == over && at(2, 6) == over)
		vAssert("C14.fillstroke.later_draw_only_where_it_paints", at(11, 11) == fillC && at(10, 15) == strokeC)
	}
}

// C14-H11 ("leaves the canvas ... unchanged", images): RenderImage must not modify the image it is
// given - it belongs to the caller's canvas and is rendered again on the next call - in the linear,
// sRGB and gamma colour spaces, with and without a rotation (a rotation makes the renderer work on a
// padded copy, a translation or scaling on the image itself).  2x2 image with mid-range colours;
// the scaler (x/image/draw) is cut out of the symbolic run.
func vhC14NoTransform(k *draw.Kernel, dst draw.Image, s2d f64.Aff3, src image.Image, sr image.Rectangle, op draw.Op, opts *draw.Options) {
}

func VH_C14_image_unchanged() {
	vStub("(*golang.org/x/image/draw.Kernel).Transform", vhC14NoTransform)
	var cs canvas.ColorSpace
	switch vChoose(0, 2) {
	case 0:
		cs = canvas.LinearColorSpace{}
	case 1:
		cs = canvas.SRGBColorSpace{}
	default:
		cs = canvas.GammaColorSpace{Gamma: 2.2}
	}
	img := image.NewRGBA(image.Rect(0, 0, 2, 2))
	pix := []color.RGBA{{128, 64, 200, 255}, {30, 180, 90, 255}, {60, 60, 60, 120}, {255, 255, 255, 255}}
	for i, c := range pix {
		img.SetRGBA(i%2, i/2, c)
	}
	m := canvas.Identity.Translate(2, 3)
	if vChoose(0, 1) == 1 {
		m = m.Rotate(30)
	}
	r := New(10, 10, canvas.DPMM(1), cs)
	r.RenderImage(img, m)
	same := true
	for i, c := range pix {
		same = same && img.RGBAAt(i%2, i/2) == c
	}
	vAssert("C14.image.caller_image_unchanged", same)
}

// C14-H12: "a pixel whose centre lies outside by more than a pixel is left untouched", for a
// renderer made by FromImage on an image that already has content: after a small opaque square has
// been drawn (and the renderer closed), pixels away from the square still hold what they held, in
// every colour space.  Concrete; observed on the image.
func VH_C14_fromimage_untouched() {
	var cs canvas.ColorSpace
	k := vChoose(0, 2)
	switch k {
	case 0:
		cs = canvas.LinearColorSpace{}
	case 1:
		cs = canvas.SRGBColorSpace{}
	default:
		cs = canvas.GammaColorSpace{Gamma: 2.2}
	}
	img := image.NewRGBA(image.Rect(0, 0, 12, 12))
	bg := color.RGBA{128, 100, 60, 255}
	for y := 0; y < 12; y++ {
		for x := 0; x < 12; x++ {
			img.SetRGBA(x, y, bg)
		}
	}
	r := FromImage(img, canvas.DPMM(1), cs)
	style := canvas.DefaultStyle
	style.Fill = canvas.Paint{Color: canvas.Black}
	r.RenderPath(canvas.Rectangle(3, 3).Translate(1, 1), style, canvas.Identity)
	r.Close()
	// D73: in a non-linear colour space Close converts every pixel, also the untouched ones
	vKnown("D73", k != 0)
	vAssert("C14.fromimage.untouched_pixels_keep_their_content", img.RGBAAt(9, 2) == bg && img.RGBAAt(6, 6) == bg && img.RGBAAt(10, 10) == bg)
	vAssert("C14.fromimage.square_painted", img.RGBAAt(2, 12-1-2).R <= 2)
}
