package rasterizer

import (
	"image"
	"math"

	"github.com/srwiley/scanx"
	"github.com/tdewolff/canvas"
	"golang.org/x/image/draw"
)

// C14-H1: the image made by New / Draw has width x resolution by height x resolution pixels
// (to the nearest pixel).  The allocation of the pixel buffer and of the scanner's row index need
// a `make` with a symbolic size, so the three constructors are replaced by shells that keep the
// rectangle; natively the real ones run.

func vhC14NewRGBA(r image.Rectangle) *image.RGBA {
	return &image.RGBA{Pix: nil, Stride: 4 * r.Dx(), Rect: r}
}
func vhC14NewImgSpanner(img interface{}) *scanx.ImgSpanner { return &scanx.ImgSpanner{} }
func vhC14NewScanner(xs scanx.Spanner, width, height int) *scanx.Scanner {
	return &scanx.Scanner{UseNonZeroWinding: true}
}

var vhC14Dpmm = []float64{1, 0.5, 8, 96 / 25.4}

// vhC14FromImage: FromImage without its zero/overflow test (checked by VH_C14_fromimage: it does
// not panic for the sizes used here); the 64-bit division of that test by a symbolic pixel count
// derived from a real is what the solver cannot digest.
func vhC14FromImage(img draw.Image, resolution canvas.Resolution, colorSpace canvas.ColorSpace) *Rasterizer {
	return &Rasterizer{Image: img, resolution: resolution, colorSpace: colorSpace, scanner: &scanx.Scanner{UseNonZeroWinding: true}}
}

func vhC14SizeStubs() {
	// no if-conversion: image.Rect's corner swap stays a fork, so Max.X is the plain converted
	// integer and float64(Dx()) goes back to integer/real arithmetic instead of bit-vectors
	vMerge(false)
	vStub("image.NewRGBA", vhC14NewRGBA)
	vStub("github.com/tdewolff/canvas/renderers/rasterizer.FromImage", vhC14FromImage)
}

func vhC14FromImageStubs() {
	vStub("github.com/srwiley/scanx.NewImgSpanner", vhC14NewImgSpanner)
	vStub("github.com/srwiley/scanx.NewScanner", vhC14NewScanner)
}

// VH_C14_fromimage: FromImage refuses exactly the empty images and those with more than
// MaxInt32 pixels.  Width from a concrete set (with a symbolic width the test's 64-bit division
// against the product form is a mul/div equivalence the solver does not finish), height any
// integer in [0, 2^16] (the replay allocates one int per row).
var vhC14Widths = []int{0, 1, 2, 3, 7, 64, 1000, 32767, 32768, 46340, 46341, 65536, 1 << 20, math.MaxInt32}

func VH_C14_fromimage() {
	vhC14FromImageStubs()
	dx, dy := vhC14Widths[vChoose(0, len(vhC14Widths)-1)], vNondetInt()
	vAssume(0 <= dy && dy <= 1<<16)
	img := &image.RGBA{Rect: image.Rectangle{Max: image.Point{X: dx, Y: dy}}, Stride: 4 * dx}
	panicked := false
	func() {
		defer func() {
			if recover() != nil {
				panicked = true
			}
		}()
		r := FromImage(img, canvas.DPMM(1), nil)
		vAssert("C14.fromimage.keeps_image", r.Bounds().Dx() == dx && r.Bounds().Dy() == dy)
	}()
	vAssert("C14.fromimage.refuses_only_empty_or_overflow", panicked == (dx == 0 || dy == 0 || dx*dy > math.MaxInt32))
}

// vhC14Nearest: n is a nearest integer of t
func vhC14Nearest(n int, t float64) bool {
	e := float64(n) - t
	return -0.5 <= e && e <= 0.5
}

// vhC14Dims draws the image size in millimetres: any reals with 1/2 px <= size*res <= 64 px
// (the replay allocates the image).
func vhC14Dims(dpmm float64) (w, h float64) {
	w, h = vNondetF64(), vNondetF64()
	vAssume(0.5 <= w*dpmm && w*dpmm <= 64 && 0.5 <= h*dpmm && h*dpmm <= 64)
	return w, h
}

// VH_C14_size_new_Q: New(w, h, res), res from a concrete set.
func VH_C14_size_new_Q() {
	vhC14SizeStubs()
	dpmm := vhC14Dpmm[vChoose(0, len(vhC14Dpmm)-1)]
	w, h := vhC14Dims(dpmm)
	r := New(w, h, canvas.DPMM(dpmm), canvas.LinearColorSpace{})
	b := r.Bounds()
	vAssert("C14.size.origin", b.Min.X == 0 && b.Min.Y == 0)
	vAssert("C14.size.new_width", vhC14Nearest(b.Dx(), w*dpmm))
	vAssert("C14.size.new_height", vhC14Nearest(b.Dy(), h*dpmm))
	// Size() reports the pixel grid back in millimetres
	sw, sh := r.Size()
	vAssert("C14.size.size_mm", sw*dpmm == float64(b.Dx()) && sh*dpmm == float64(b.Dy()))
}

// VH_C14_size_draw_Q: Draw(canvas) of an empty canvas of w x h mm.
func VH_C14_size_draw_Q() {
	vhC14SizeStubs()
	dpmm := vhC14Dpmm[vChoose(0, len(vhC14Dpmm)-1)]
	w, h := vhC14Dims(dpmm)
	c := canvas.New(w, h)
	img := Draw(c, canvas.DPMM(dpmm), canvas.LinearColorSpace{})
	b := img.Bounds()
	vAssert("C14.size.origin", b.Min.X == 0 && b.Min.Y == 0)
	vAssert("C14.size.draw_width", vhC14Nearest(b.Dx(), w*dpmm))
	vAssert("C14.size.draw_height", vhC14Nearest(b.Dy(), h*dpmm))
	cw, ch := c.Size()
	vAssert("C14.size.canvas_unchanged", cw == w && ch == h)
}

// VH_C14_size_zero_Q: sizes that round to zero pixels are refused with the documented panic
// instead of producing an empty image.
func VH_C14_size_zero_Q() {
	vStub("image.NewRGBA", vhC14NewRGBA)
	vhC14FromImageStubs()
	w, h := vNondetF64(), vNondetF64()
	vAssume(0 <= w && w <= 8 && 0 <= h && h <= 8)
	vAssume(w < 0.5 || h < 0.5)
	panicked := false
	func() {
		defer func() {
			if recover() != nil {
				panicked = true
			}
		}()
		New(w, h, canvas.DPMM(1), canvas.LinearColorSpace{})
	}()
	vAssert("C14.size.zero_refused", panicked)
}

// C14-H3: fill-rule hand-over.  Everything is concrete except the rule: two nested squares of the
// same orientation, 10x10 px image.  The centre has winding number 2: painted under NonZero, not
// painted under EvenOdd.  Observed on the image (public observable) and on the scanner's rule.
func VH_C14_fillrule() {
	rule := canvas.FillRule(vChoose(0, 1)) // NonZero, EvenOdd (Positive/Negative cannot be expressed by scanx)
	r := New(10, 10, canvas.DPMM(1), canvas.LinearColorSpace{})
	p := &canvas.Path{}
	p.MoveTo(1, 1)
	p.LineTo(9, 1)
	p.LineTo(9, 9)
	p.LineTo(1, 9)
	p.Close()
	p.MoveTo(3, 3)
	p.LineTo(7, 3)
	p.LineTo(7, 7)
	p.LineTo(3, 7)
	p.Close()
	style := canvas.DefaultStyle
	style.Fill = canvas.Paint{Color: canvas.Black}
	style.FillRule = rule
	r.RenderPath(p, style, canvas.Identity)
	img := r.Image.(*image.RGBA)
	ring := img.RGBAAt(2, 5).A
	centre := img.RGBAAt(5, 5).A
	outside := img.RGBAAt(0, 0).A
	vAssert("C14.fillrule.ring_painted", ring == 255 && outside == 0)
	vKnown("D10", rule == canvas.EvenOdd)
	vAssert("C14.fillrule.centre_follows_rule", (centre == 255) == rule.Fills(2))
	vAssert("C14.fillrule.scanner_rule", r.scanner.UseNonZeroWinding == (rule == canvas.NonZero))
}

// VH_C14_openfill: the same triangle with and without the final Close, 12x12 px.  The fill region
// of an open subpath is that of the subpath closed by a straight line (what the PDF/SVG
// back-ends and the library's own ToRasterizer do), so both must paint the interior pixel and
// leave the pixel outside untouched.  Concrete shape, observed on the image.
func VH_C14_openfill() {
	open := vChoose(0, 1) == 1
	r := New(12, 12, canvas.DPMM(1), canvas.LinearColorSpace{})
	p := &canvas.Path{}
	p.MoveTo(1, 1)
	p.LineTo(9, 1)
	p.LineTo(9, 9)
	if !open {
		p.Close()
	}
	style := canvas.DefaultStyle
	style.Fill = canvas.Paint{Color: canvas.Black}
	r.RenderPath(p, style, canvas.Identity)
	img := r.Image.(*image.RGBA)
	inside := img.RGBAAt(7, 12-1-3).A  // canvas point (7.5,3.5), well inside the triangle
	outside := img.RGBAAt(3, 12-1-7).A // canvas point (3.5,7.5), above the diagonal
	vKnown("D33", open)
	vAssert("C14.openfill.interior_painted", inside == 255)
	vAssert("C14.openfill.exterior_untouched", outside == 0)
}

// VH_C14_openfill_multi: several subpaths of which a non-final one is open: each is implicitly
// closed to its *own* start before the next one begins.  Concrete shapes, observed on the image.
func VH_C14_openfill_multi() {
	variant := vChoose(0, 2)
	r := New(24, 12, canvas.DPMM(1), canvas.LinearColorSpace{})
	p := &canvas.Path{}
	// first subpath: triangle (1,1) (9,1) (9,9), open in variants 0 and 1
	p.MoveTo(1, 1)
	p.LineTo(9, 1)
	p.LineTo(9, 9)
	if variant == 2 {
		p.Close()
	}
	// second subpath: square (13,2)-(21,10); open in variant 1
	p.MoveTo(13, 2)
	p.LineTo(21, 2)
	p.LineTo(21, 10)
	p.LineTo(13, 10)
	if variant != 1 {
		p.Close()
	}
	style := canvas.DefaultStyle
	style.Fill = canvas.Paint{Color: canvas.Black}
	r.RenderPath(p, style, canvas.Identity)
	img := r.Image.(*image.RGBA)
	at := func(x, y int) uint8 { return img.RGBAAt(x, 12-1-y).A }
	vAssert("C14.openfill_multi.first_interior_painted", at(7, 3) == 255)
	vAssert("C14.openfill_multi.first_exterior_untouched", at(3, 7) == 0)
	vAssert("C14.openfill_multi.second_interior_painted", at(17, 6) == 255 && at(14, 8) == 255)
	vAssert("C14.openfill_multi.between_untouched", at(11, 5) == 0 && at(11, 1) == 0 && at(11, 9) == 0)
}

// VH_C14_stroke_overlap: strokes are painted as the union of the stroke regions (non-zero),
// whatever the style's fill rule: where the strokes of two subpaths cross, the pixel is painted.
func VH_C14_stroke_overlap() {
	rule := canvas.FillRule(vChoose(0, 1))
	withFill := vChoose(0, 1) == 1
	r := New(12, 12, canvas.DPMM(1), canvas.LinearColorSpace{})
	p := &canvas.Path{}
	p.MoveTo(1, 6)
	p.LineTo(11, 6)
	p.MoveTo(6, 1)
	p.LineTo(6, 11)
	style := canvas.DefaultStyle
	style.Stroke = canvas.Paint{Color: canvas.Black}
	style.StrokeWidth = 2
	style.FillRule = rule
	if withFill {
		style.Fill = canvas.Paint{Color: canvas.Black}
	}
	r.RenderPath(p, style, canvas.Identity)
	img := r.Image.(*image.RGBA)
	at := func(x, y int) uint8 { return img.RGBAAt(x, 12-1-y).A }
	vAssert("C14.stroke.arms_painted", at(3, 6) == 255 && at(6, 3) == 255 && at(9, 5) == 255 && at(5, 9) == 255)
	vAssert("C14.stroke.crossing_painted", at(5, 5) == 255 && at(6, 6) == 255 && at(5, 6) == 255 && at(6, 5) == 255)
	vAssert("C14.stroke.outside_untouched", at(2, 2) == 0 && at(9, 9) == 0)
}
