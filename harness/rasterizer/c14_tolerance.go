package rasterizer

import (
	"math"

	"github.com/tdewolff/canvas"
)

// C14-H9: "strokes paint the stroke region in the same sense [within a pixel]": RenderPath makes the
// stroke outline in the path's own coordinates and transforms it afterwards, so the flattening
// tolerance it hands to Path.Stroke, enlarged by the view matrix, must stay within PixelTolerance
// pixels of the image.  The matrix is a symbolic enlargement (0.01 to 1000, separately along x and
// y) times one of four rotations/reflections, the resolution comes from a grid; Path.Stroke is a
// recorder (interpreter-only observation), the scan conversion is cut away.
var vhC14Tol float64

func vhC14StrokeRec(p *canvas.Path, w float64, cr canvas.Capper, jr canvas.Joiner, tol float64) *canvas.Path {
	vhC14Tol = tol
	return p.Copy()
}

func VH_C14_stroke_tolerance_Q() {
	if !vInterp() {
		return
	}
	vStub("!(*github.com/tdewolff/canvas.Path).ToScanxScanner", vhC14NoScan)
	vStub("!(*github.com/srwiley/scanx.Scanner).Draw", vhC14NoDraw)
	vStub("!(*github.com/tdewolff/canvas.Path).Stroke", vhC14StrokeRec)
	sx, sy := vNondetF64(), vNondetF64()
	vAssumeI(0.01 <= sx && sx <= 1000 && 0.01 <= sy && sy <= 1000)
	var m canvas.Matrix
	switch vChoose(0, 3) {
	case 0:
		m = canvas.Matrix{{sx, 0, 3}, {0, sy, 2}}
	case 1:
		m = canvas.Matrix{{0, -sy, 3}, {sx, 0, 2}} // quarter turn
	case 2:
		m = canvas.Matrix{{sx, 0, 3}, {0, -sy, 40}} // y-flip (imported SVG documents)
	default:
		m = canvas.Matrix{{0.6 * sx, -0.8 * sy, 3}, {0.8 * sx, 0.6 * sy, 2}}
	}
	dpmm := []float64{1, 3.5, 12}[vChoose(0, 2)]
	p := &canvas.Path{}
	p.MoveTo(0.1, 0.1)
	p.QuadTo(0.3, 0.5, 0.6, 0.1)
	style := canvas.DefaultStyle
	style.Fill = canvas.Paint{}
	style.Stroke = canvas.Paint{Color: canvas.Red}
	style.StrokeWidth = 0.05
	vhC14Tol = -1
	r := New(40, 40, canvas.DPMM(dpmm), canvas.LinearColorSpace{})
	r.RenderPath(p, style, m)
	vAssertI("C14.stroketol.stroked", vhC14Tol > 0)
	// the enlargement of m along its most stretched direction is at least its larger column norm
	// and at most sqrt(2) times that
	grow := math.Max(sx, sy)
	vAssertI("C14.stroketol.tolerance_within_a_tenth_of_a_pixel_on_the_image", vhC14Tol*grow <= canvas.PixelTolerance/dpmm*1.0000001 || grow <= 1)
	vAssertI("C14.stroketol.never_coarser_than_a_tenth_of_a_pixel", vhC14Tol <= canvas.PixelTolerance/dpmm*1.0000001)
}
