package pdf

import (
	"bytes"
	"image/color"

	"github.com/tdewolff/canvas"
)

// C12 (gradients): the colour function a PDF shading gets for a gradient's stops is the gradient:
// piecewise linear between consecutive stops, constant before the first and after the last stop.
// patternStopsFunction is evaluated by the rules of ISO 32000-1 7.10.3/7.10.4: a type 2 function is
// C0 + x^N (C1 - C0); a type 3 (stitching) function with k functions needs k-1 increasing Bounds
// inside its Domain and 2k Encode numbers, picks the subdomain that contains the input and maps it
// linearly onto the Encode interval of that function.  Stop offsets come from tables (2-5 stops,
// with and without stops at 0 and 1), colours are opaque palette colours, the parameter t is
// symbolic.

var vhC12GOffsets = [][]float64{
	{0, 1}, {0.25, 0.75}, {0, 0.5}, {0.5, 1},
	{0, 0.3, 1}, {0.2, 0.5, 0.9},
	{0, 0.25, 0.5, 1}, {0.1, 0.3, 0.6, 0.8}, {0, 0.2, 0.4, 0.7, 1},
}
var vhC12GColors = []color.RGBA{{255, 0, 0, 255}, {0, 0, 255, 255}, {0, 255, 0, 255}, {255, 255, 0, 255}, {0, 0, 0, 255}}

func vhC12Floats(v interface{}) ([]float64, bool) {
	a, ok := v.(pdfArray)
	if !ok {
		return nil, false
	}
	out := make([]float64, len(a))
	for i, e := range a {
		switch x := e.(type) {
		case float64:
			out[i] = x
		case int:
			out[i] = float64(x)
		default:
			return nil, false
		}
	}
	return out, true
}

// vhC12EvalFunc evaluates a type 2 (N=1) or type 3 function at x in [0,1].
func vhC12EvalFunc(f pdfDict, x float64) (rgb [3]float64, ok bool) {
	ft, _ := f["FunctionType"].(int)
	switch ft {
	case 2:
		c0, ok0 := vhC12Floats(f["C0"])
		c1, ok1 := vhC12Floats(f["C1"])
		n, okN := f["N"].(int)
		if !ok0 || !ok1 || !okN || n != 1 || len(c0) != 3 || len(c1) != 3 {
			return rgb, false
		}
		for i := 0; i < 3; i++ {
			rgb[i] = c0[i] + x*(c1[i]-c0[i])
		}
		return rgb, true
	case 3:
		fsa, okF := f["Functions"].(pdfArray)
		fsv := make([]pdfDict, len(fsa))
		for i := range fsa {
			d, isD := fsa[i].(pdfDict)
			okF = okF && isD
			fsv[i] = d
		}
		bounds, okB := vhC12Floats(f["Bounds"])
		encode, okE := vhC12Floats(f["Encode"])
		dom, okD := vhC12Floats(f["Domain"])
		k := len(fsv)
		if !okF || !okB || !okE || !okD || k < 1 || len(bounds) != k-1 || len(encode) != 2*k || len(dom) != 2 || dom[0] != 0 || dom[1] != 1 {
			return rgb, false
		}
		lo := dom[0]
		for i := 0; i < k-1; i++ {
			if !(lo <= bounds[i] && bounds[i] <= dom[1]) {
				return rgb, false
			}
			lo = bounds[i]
		}
		// subdomain i: bounds[i-1] <= x < bounds[i] (the last one includes Domain1)
		i := 0
		for i < k-1 && x >= bounds[i] {
			i++
		}
		a, b := dom[0], dom[1]
		if i > 0 {
			a = bounds[i-1]
		}
		if i < k-1 {
			b = bounds[i]
		}
		y := encode[2*i]
		if b > a {
			y = encode[2*i] + (x-a)*(encode[2*i+1]-encode[2*i])/(b-a)
		}
		return vhC12EvalFunc(fsv[i], y)
	}
	return rgb, false
}

// vhC12GradientSpec: the gradient as a function of t.
func vhC12GradientSpec(stops canvas.Stops, t float64) [3]float64 {
	c := func(s canvas.Stop) [3]float64 {
		return [3]float64{float64(s.Color.R) / 255, float64(s.Color.G) / 255, float64(s.Color.B) / 255}
	}
	if t <= stops[0].Offset {
		return c(stops[0])
	}
	for i := 0; i+1 < len(stops); i++ {
		if t < stops[i+1].Offset {
			u := (t - stops[i].Offset) / (stops[i+1].Offset - stops[i].Offset)
			a, b := c(stops[i]), c(stops[i+1])
			return [3]float64{a[0] + u*(b[0]-a[0]), a[1] + u*(b[1]-a[1]), a[2] + u*(b[2]-a[2])}
		}
	}
	return c(stops[len(stops)-1])
}

func VH_C12_pdf_gradient_Q() {
	offs := vhC12GOffsets[vChoose(0, len(vhC12GOffsets)-1)]
	rot := vChoose(0, len(vhC12GColors)-1)
	stops := canvas.Stops{}
	for i, o := range offs {
		stops = append(stops, canvas.Stop{Offset: o, Color: vhC12GColors[(i+rot)%len(vhC12GColors)]})
	}
	t := vNondetF64()
	vAssume(0 <= t && t <= 1)
	// general position: not within 1e-6 of a stop (the subdomains are half-open)
	for _, o := range offs {
		vAssume(t == o || t-o >= 1e-6 || o-t >= 1e-6)
	}
	f := patternStopsFunction(stops)
	got, ok := vhC12EvalFunc(f, t)
	vAssert("C12.gradient.function_wellformed", ok)
	if !ok {
		return
	}
	want := vhC12GradientSpec(stops, t)
	near := func(a, b float64) bool { return a-b <= 1e-9 && b-a <= 1e-9 }
	vAssert("C12.gradient.function_is_the_gradient", near(got[0], want[0]) && near(got[1], want[1]) && near(got[2], want[2]))
}

// The same gradients through the public API into a whole document: the page with the pattern
// resource can be written (no panic), the file is well-formed, the content selects a pattern
// that the page's resources define, and the shading dictionary carries the stitching function
// with as many Bounds as its Functions need.
func VH_C12_pdf_gradient_doc() {
	vhC13Stubs()
	offs := vhC12GOffsets[vChoose(0, len(vhC12GOffsets)-1)]
	radial := vChoose(0, 1) == 1
	var grad canvas.Gradient
	if radial {
		g := canvas.NewRadialGradient(canvas.Point{X: 5, Y: 5}, 1, canvas.Point{X: 5, Y: 5}, 6)
		for i, o := range offs {
			g.Add(o, vhC12GColors[i%len(vhC12GColors)])
		}
		grad = g
	} else {
		g := canvas.NewLinearGradient(canvas.Point{X: 0, Y: 0}, canvas.Point{X: 10, Y: 0})
		for i, o := range offs {
			g.Add(o, vhC12GColors[i%len(vhC12GColors)])
		}
		grad = g
	}
	p := &canvas.Path{}
	p.MoveTo(0, 0)
	p.LineTo(10, 0)
	p.LineTo(10, 5)
	p.Close()
	style := canvas.DefaultStyle
	style.Fill = canvas.Paint{Gradient: grad}
	buf := &bytes.Buffer{}
	r := New(buf, 100, 100, &Options{Compress: false, SubsetFonts: true})
	panicked := false
	var err error
	func() {
		defer func() {
			if recover() != nil {
				panicked = true
			}
		}()
		r.RenderPath(p, style, canvas.Identity)
		err = r.Close()
	}()
	vAssert("C12.gradient.doc.written_without_panic", !panicked && err == nil)
	if panicked {
		return
	}
	b := buf.Bytes()
	d := vhC13Open(b)
	vAssert("C12.gradient.doc.wellformed", d.ok && d.xrefOK && vhC13AllObjects(b, d))
	if !d.ok {
		return
	}
	// the single page: its content uses /P0 scn, its resources define Pattern P0
	cat, _ := vhC13Object(b, d, d.root)
	pe, _ := vhC13Find(cat, "Pages")
	node, okN := vhC13Object(b, d, pe.num)
	ke, _ := vhC13Find(node, "Kids")
	kids, okK := vhC13Kids(b, ke)
	if !okN || !okK || len(kids) != 1 {
		vAssert("C12.gradient.doc.pattern_defined", false)
		return
	}
	pg, _ := vhC13Object(b, d, kids[0])
	re, _ := vhC13Find(pg, "Resources")
	res, okR := vhC13Sub(b, re)
	con, _ := vhC13Find(pg, "Contents")
	content, okS := vhC13StreamOf(b, d, con.num)
	vAssert("C12.gradient.doc.pattern_defined", okR && okS && vhC13NamesDefined(content, b, res))
	// shape of the function inside the pattern dictionary
	pats, hasP := vhC13Find(res, "Pattern")
	good := okR && hasP
	if good {
		ps, okP := vhC13Sub(b, pats)
		p0, has0 := vhC13Find(ps, "P0")
		good = okP && has0
		if good {
			pd, okD := vhC13Sub(b, p0)
			sh, hasS := vhC13Find(pd, "Shading")
			good = okD && hasS
			if good {
				sd, okSd := vhC13Sub(b, sh)
				fn, hasF := vhC13Find(sd, "Function")
				good = okSd && hasF
				if good {
					fd, okFd := vhC13Sub(b, fn)
					ft, _ := vhC13Find(fd, "FunctionType")
					good = okFd && ft.kind == 'i' && (ft.num == 2 || ft.num == 3)
				}
			}
		}
	}
	vAssert("C12.gradient.doc.shading_has_function", good)
}

// The alpha graphics state is shared by everything that is painted: a gradient painted after a
// translucent colour must not inherit that colour's alpha (the rasterizer paints a gradient with
// the alpha of its stops; here the stops are opaque).  Two draws: a fill in a colour with symbolic
// alpha (1..254), then a fill or stroke with an opaque gradient; the alpha in effect at the second
// painting operator (ISO 32000-1 8.4.5: the last /ca or /CA selected by gs) must be 1.
func VH_C12_pdf_gradient_alpha_Q() {
	vhC12Stubs()
	a := vNondetByte()
	vAssume(1 <= a && a <= 254)
	c := color.RGBA{a, 0, 0, a} // premultiplied red
	asStroke := vChoose(0, 1) == 1
	g := canvas.NewLinearGradient(canvas.Point{X: 0, Y: 0}, canvas.Point{X: 10, Y: 0})
	g.Add(0, canvas.Red)
	g.Add(1, canvas.Blue)
	p := vhC12Path(true)
	buf := &bytes.Buffer{}
	r := New(buf, 100, 100, &Options{Compress: false, SubsetFonts: true})
	s1 := canvas.DefaultStyle
	s1.Fill = canvas.Paint{Color: c}
	r.RenderPath(p, s1, canvas.Identity)
	mark, markArgs := r.w.Len(), len(vhC12Args)
	if vhC12Recorded {
		mark = len(vhC12Fmt)
	}
	s2 := canvas.DefaultStyle
	if asStroke {
		s2.Fill = canvas.Paint{}
		s2.Stroke = canvas.Paint{Gradient: g}
		s2.StrokeWidth = 1
	} else {
		s2.Fill = canvas.Paint{Gradient: g}
	}
	r.RenderPath(p, s2, canvas.Identity)
	var t1, t2 []vhC12Tok
	if vhC12Recorded {
		t1 = vhC12Lex(vhC12Fmt[:mark], vhC12Args[:markArgs], true, nil)
		t2 = vhC12Lex(vhC12Fmt[mark:], vhC12Args[markArgs:], true, nil)
	} else {
		t1 = vhC12Lex(string(r.w.Bytes()[:mark]), nil, false, nil)
		t2 = vhC12Lex(string(r.w.Bytes()[mark:]), nil, false, nil)
	}
	var extg pdfDict
	if v, ok := r.w.resources["ExtGState"]; ok {
		extg, _ = v.(pdfDict)
	}
	// alpha selected by the last gs operator of a token list (fill alpha ca and stroke alpha CA
	// are always set together by this writer); 1 if none
	lastAlpha := func(toks []vhC12Tok, start float64) (float64, bool) {
		al, ok := start, true
		name := ""
		for _, t := range toks {
			if t.kind == vhC12Name {
				name = t.str
			} else if t.kind == vhC12Op && t.str == "gs" {
				d, has := extg[pdfName(name)].(pdfDict)
				v, isF := d["ca"].(float64)
				ok = ok && has && isF
				al = v
			}
		}
		return al, ok
	}
	a1, ok1 := lastAlpha(t1, 1)
	a2, ok2 := lastAlpha(t2, a1)
	vAssert("C12.gradient.alpha.states_defined", ok1 && ok2)
	want1 := float64(a) / 255
	vAssert("C12.gradient.alpha.first_draw_translucent", a1-want1 <= 1e-6 && want1-a1 <= 1e-6)
	vAssert("C12.gradient.alpha.gradient_painted_opaque", a2 == 1)
}

// The colours of the stops: premultiplied colours of any alpha, 0 included (red and alpha are
// symbolic bytes with red <= alpha, two stops at 0 and 1).  Every component the shading function
// yields is a finite number in [0,1] - the content of a PDF function dictionary must be numbers -
// and for stops that are not fully transparent it is the colour with the premultiplication undone.
func VH_C12_pdf_gradient_stopcolors_Q() {
	r0, a0, r1, a1 := vNondetByte(), vNondetByte(), vNondetByte(), vNondetByte()
	vAssume(r0 <= a0 && r1 <= a1)
	stops := canvas.Stops{{Offset: 0, Color: color.RGBA{r0, 0, 0, a0}}, {Offset: 1, Color: color.RGBA{r1, 0, 0, a1}}}
	t := vNondetF64()
	vAssume(0 <= t && t <= 1)
	f := patternStopsFunction(stops)
	got, ok := vhC12EvalFunc(f, t)
	vAssert("C12.gradient.stopcolors.function_wellformed", ok)
	if !ok {
		return
	}
	fin := true
	for _, v := range got {
		fin = fin && vFinite(v) && -1e-9 <= v && v <= 1+1e-9
	}
	vAssert("C12.gradient.stopcolors.components_are_numbers_in_0_1", fin)
	if a0 > 0 && a1 > 0 {
		c0, c1 := float64(r0)/float64(a0), float64(r1)/float64(a1)
		want := c0 + t*(c1-c0)
		vAssert("C12.gradient.stopcolors.premultiplication_undone", got[0]-want <= 1e-9 && want-got[0] <= 1e-9)
	}
}
