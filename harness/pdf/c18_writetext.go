package pdf

import (
	"bytes"
	"io"

	"github.com/tdewolff/canvas"
	canvasFont "github.com/tdewolff/font"
	canvasText "github.com/tdewolff/canvas/text"
)

// C18: WriteText writes the 2-byte character codes of the subsetted font as a PDF literal string.
// For every pair of 16-bit codes (symbolic) the bytes between "(" and ")" must decode, by the
// literal-string rules of ISO 32000-1 7.3.4.2 (backslash escapes, octal, balanced parentheses,
// bare CR/CRLF read as LF), back to exactly the four code bytes - otherwise a reader selects
// other glyphs or loses the end of the string.
// The subsetter's Get is replaced by "any code" (recorded), fmt.Fprintf by a writer of the verb-free
// formats; these exist only under the engine, so the section is interpreter-only (vAssertI).

var vhC18Codes []uint16

func vhC18AnyCode(s *canvas.FontSubsetter, glyphID uint16) uint16 {
	c := uint16(vNondetIntN(17))
	vhC18Codes = append(vhC18Codes, c)
	return c
}

func vhC18AdvanceSame(s *canvasFont.SFNT, g uint16) uint16 { return 500 }

func vhC18FprintfPlain(w io.Writer, format string, a ...interface{}) (int, error) {
	if len(a) == 0 {
		return w.Write([]byte(format))
	}
	return w.Write([]byte(" 0")) // kerning numbers are not the subject
}

// vhC18ReadLiteral decodes one literal string starting at b[i]=='('; returns the bytes and the
// index after the closing parenthesis, ok=false if the string is not terminated.
func vhC18ReadLiteral(b []byte, i int) (out []byte, next int, ok bool) {
	depth := 1
	i++
	for i < len(b) {
		c := b[i]
		switch {
		case c == '\\':
			i++
			if i >= len(b) {
				return out, i, false
			}
			e := b[i]
			switch e {
			case 'n':
				out = append(out, '\n')
			case 'r':
				out = append(out, '\r')
			case 't':
				out = append(out, '\t')
			case 'b':
				out = append(out, '\b')
			case 'f':
				out = append(out, '\f')
			case '(', ')', '\\':
				out = append(out, e)
			case '\r', '\n':
				// line continuation
				if e == '\r' && i+1 < len(b) && b[i+1] == '\n' {
					i++
				}
			default:
				if e >= '0' && e <= '7' {
					v := int(e - '0')
					for k := 0; k < 2 && i+1 < len(b) && b[i+1] >= '0' && b[i+1] <= '7'; k++ {
						i++
						v = v*8 + int(b[i]-'0')
					}
					out = append(out, byte(v))
				} else {
					out = append(out, e) // unknown escape: backslash ignored
				}
			}
			i++
		case c == '(':
			depth++
			out = append(out, c)
			i++
		case c == ')':
			depth--
			if depth == 0 {
				return out, i + 1, true
			}
			out = append(out, c)
			i++
		case c == '\r':
			out = append(out, '\n')
			i++
			if i < len(b) && b[i] == '\n' {
				i++
			}
		default:
			out = append(out, c)
			i++
		}
	}
	return out, i, false
}

func VH_C18_writetext_codes() {
	if !vInterp() {
		return
	}
	vMerge(false)
	vStub("!(*github.com/tdewolff/canvas.FontSubsetter).Get", vhC18AnyCode)
	vStub("!(*github.com/tdewolff/font.SFNT).GlyphAdvance", vhC18AdvanceSame)
	vStub("!fmt.Fprintf", vhC18FprintfPlain)
	sf := &canvasFont.SFNT{IsTrueType: true}
	sf.Head = vhC18New(sf.Head)
	sf.Head.UnitsPerEm = 1000
	f := &canvas.Font{SFNT: sf}
	pw := &pdfWriter{fontSubset: map[*canvas.Font]*canvas.FontSubsetter{f: canvas.NewFontSubsetter()}}
	w := &pdfPageWriter{Buffer: &bytes.Buffer{}, pdf: pw, font: f, fontSize: 10, inTextObject: true}
	n := vChoose(1, 2)
	glyphs := make([]canvasText.Glyph, n)
	for i := range glyphs {
		glyphs[i] = canvasText.Glyph{SFNT: sf, Size: 10, ID: uint16(i + 1), XAdvance: 500}
	}
	vhC18Codes = nil
	w.WriteText(canvas.HorizontalTB, glyphs)
	out := w.Bytes()
	vAssertI("C18.writetext.frame", len(out) >= 6 && out[0] == '[' && out[1] == '(')
	if len(out) < 6 || out[1] != '(' {
		return
	}
	dec, next, ok := vhC18ReadLiteral(out, 1)
	vAssertI("C18.writetext.string_terminated", ok)
	if !ok {
		return
	}
	vAssertI("C18.writetext.operator_follows", next+3 == len(out) && out[next] == ']' && out[next+1] == 'T' && out[next+2] == 'J')
	good := len(dec) == 2*len(vhC18Codes) && len(vhC18Codes) == n
	if good {
		for i, c := range vhC18Codes {
			good = good && dec[2*i] == byte(c>>8) && dec[2*i+1] == byte(c)
		}
	}
	vAssertI("C18.writetext.codes_decode_back", good)
}

// C18: "advances the pen by the laid-out advances".  WriteText shows glyphs with their hmtx (or
// vmtx) advances and corrects the pen with TJ numbers (thousandths of an em, subtracted from the
// pen position; ISO 32000-1 9.4.3).  For every glyph j the numbers written between glyph j and
// glyph j+1 must make up the difference between the laid-out advance and the font's own advance:
// | n_j + (laid_j - own_j) * 1000/unitsPerEm | <= 0.5 (the writer works in whole thousandths).
// Laid-out advances, own advances (stubbed GlyphAdvance / GlyphVerticalAdvance) symbolic,
// unitsPerEm from a set, 1-2 (thorough 3) glyphs, horizontal and vertical.  Interpreter-only: the
// stubs exist only under the engine.
var vhC18Shown int
var vhC18Own [8]uint16

type vhC18AdjT struct {
	after int
	n     int
}

var vhC18Adj []vhC18AdjT

func vhC18CountCode(s *canvas.FontSubsetter, glyphID uint16) uint16 {
	vhC18Shown++
	return glyphID
}
func vhC18OwnAdvance(s *canvasFont.SFNT, g uint16) uint16 { return vhC18Own[g&7] }

func vhC18FprintfAdj(w io.Writer, format string, a ...interface{}) (int, error) {
	if format == " %d" && len(a) == 1 {
		if n, ok := a[0].(int); ok {
			vhC18Adj = append(vhC18Adj, vhC18AdjT{vhC18Shown, n})
		}
	}
	return 0, nil
}

func VH_C18_writetext_advances_Q() {
	if !vInterp() {
		return
	}
	vStub("!(*github.com/tdewolff/canvas.FontSubsetter).Get", vhC18CountCode)
	vStub("!(*github.com/tdewolff/font.SFNT).GlyphAdvance", vhC18OwnAdvance)
	vStub("!(*github.com/tdewolff/font.SFNT).GlyphVerticalAdvance", vhC18OwnAdvance)
	vStub("!fmt.Fprintf", vhC18FprintfAdj)
	upems := []uint16{1000, 2048, 1024, 2000, 256}
	upem := upems[vChoose(0, len(upems)-1)]
	vertical := vChoose(0, 1) == 1
	sf := &canvasFont.SFNT{IsTrueType: true}
	sf.Head = vhC18New(sf.Head)
	sf.Head.UnitsPerEm = upem
	f := &canvas.Font{SFNT: sf}
	pw := &pdfWriter{fontSubset: map[*canvas.Font]*canvas.FontSubsetter{f: canvas.NewFontSubsetter()}}
	w := &pdfPageWriter{Buffer: &bytes.Buffer{}, pdf: pw, font: f, fontSize: 10, inTextObject: true}
	n := vChoose(1, 2+vTier())
	glyphs := make([]canvasText.Glyph, n)
	laid := make([]int32, n)
	for i := range glyphs {
		vhC18Own[i+1] = uint16(vNondetIntQ(13)) & 0x0FFF
		laid[i] = int32(vNondetIntQ(14))
		glyphs[i] = canvasText.Glyph{SFNT: sf, Size: 10, ID: uint16(i + 1), Vertical: vertical}
		if vertical {
			glyphs[i].YAdvance = laid[i]
		} else {
			glyphs[i].XAdvance = laid[i]
		}
	}
	// a glyph that the shaper displaced from the pen position (a mark positioned over its base):
	// the second glyph of a horizontal run gets an x offset of 100 units (finding D96: the pdf
	// writer does not look at glyph offsets of horizontal text)
	xoff := make([]int32, n+1)
	if !vertical && n >= 2 && vChoose(0, 1) == 1 {
		xoff[1] = 100
		glyphs[1].XOffset = 100
	}
	vhC18Shown = 0
	vhC18Adj = nil
	mode := canvas.HorizontalTB
	if vertical {
		mode = canvas.VerticalRL
	}
	w.WriteText(mode, glyphs)
	vAssertI("C18.advances.all_glyphs_shown", vhC18Shown == n)
	vKnown("D96", xoff[1] != 0)
	good := true
	for j := 0; j < n; j++ {
		own := int32(vhC18Own[j+1])
		if vertical {
			own = -own
		}
		sum := 0
		for _, a := range vhC18Adj {
			if a.after == j+1 {
				sum += a.n
			}
		}
		want := float64(laid[j]-own+xoff[j+1]-xoff[j]) * 1000.0 / float64(upem)
		err := float64(sum) + want
		good = good && -0.5-1e-9 <= err && err <= 0.5+1e-9
	}
	vAssertI("C18.advances.tj_numbers_make_up_the_difference", good)
	nowhere := true
	for _, a := range vhC18Adj {
		nowhere = nowhere && 1 <= a.after && a.after <= n
	}
	vAssertI("C18.advances.no_number_before_the_first_glyph", nowhere)
}
