package pdf

// C13-H3: streams.  Documents with page content (filled and stroked paths, 1-2 pages), with and
// without compression: every stream object's /Length is its byte count (checked by
// vhC13AllObjects), every stream whose dictionary names /Filter /FlateDecode inflates as a zlib
// stream (RFC 1950/1951) and the decoded page content has balanced q/Q and BT/ET.
//
// The engine cannot interpret compress/flate.  In the symbolic run and the interpreter's concrete
// runs zlib.Writer is replaced by an encoder that writes a valid zlib stream of stored blocks
// (RFC 1951 3.2.4) with the Adler-32 checksum, and the harness inflates with a reader for exactly
// that subset; natively the real compressor runs and the harness inflates with compress/zlib's
// reader.  What the writer does with the compressed bytes (Filter entry, Length, placement) is the
// real code in both.

import (
	"bytes"
	"compress/zlib"
	"image/color"
	"io"

	"github.com/tdewolff/canvas"
)

var vhC13ZW io.Writer
var vhC13ZBuf []byte

func vhC13ZNewWriter(w io.Writer) *zlib.Writer {
	vhC13ZW = w
	vhC13ZBuf = nil
	return &zlib.Writer{}
}

func vhC13ZWrite(z *zlib.Writer, p []byte) (int, error) {
	vhC13ZBuf = append(vhC13ZBuf, p...)
	return len(p), nil
}

func vhC13Adler(b []byte) uint32 {
	s1, s2 := uint32(1), uint32(0)
	for _, c := range b {
		s1 = (s1 + uint32(c)) % 65521
		s2 = (s2 + s1) % 65521
	}
	return s2<<16 | s1
}

func vhC13ZClose(z *zlib.Writer) error {
	out := []byte{0x78, 0x01}
	b := vhC13ZBuf
	for {
		n := len(b)
		final := byte(1)
		if n > 65535 {
			n = 65535
			final = 0
		}
		out = append(out, final, byte(n), byte(n>>8), ^byte(n), ^byte(n>>8))
		out = append(out, b[:n]...)
		b = b[n:]
		if final == 1 {
			break
		}
	}
	a := vhC13Adler(vhC13ZBuf)
	out = append(out, byte(a>>24), byte(a>>16), byte(a>>8), byte(a))
	vhC13ZW.Write(out)
	return nil
}

// vhC13InflateStored reads a zlib stream that consists of stored blocks.
func vhC13InflateStored(b []byte) ([]byte, bool) {
	if len(b) < 6 || b[0]&0x0F != 8 || (int(b[0])<<8|int(b[1]))%31 != 0 || b[1]&0x20 != 0 {
		return nil, false
	}
	i := 2
	var out []byte
	for {
		if i+5 > len(b) {
			return nil, false
		}
		hdr := b[i]
		if hdr&0x06 != 0 {
			return nil, false // not a stored block
		}
		n := int(b[i+1]) | int(b[i+2])<<8
		if b[i+3] != ^b[i+1] || b[i+4] != ^b[i+2] || i+5+n > len(b) {
			return nil, false
		}
		out = append(out, b[i+5:i+5+n]...)
		i += 5 + n
		if hdr&1 == 1 {
			break
		}
	}
	if i+4 != len(b) {
		return nil, false
	}
	a := vhC13Adler(out)
	return out, b[i] == byte(a>>24) && b[i+1] == byte(a>>16) && b[i+2] == byte(a>>8) && b[i+3] == byte(a)
}

func vhC13Inflate(b []byte) ([]byte, bool) {
	if vInterp() {
		return vhC13InflateStored(b)
	}
	r, err := zlib.NewReader(bytes.NewReader(b))
	if err != nil {
		return nil, false
	}
	out, err := io.ReadAll(r)
	return out, err == nil
}

// vhC13Balanced: q/Q and BT/ET are balanced and never go negative in a content stream.
func vhC13Balanced(b []byte) bool {
	depth, text := 0, 0
	good := true
	i := 0
	for i < len(b) {
		if vhC13WS(b[i]) {
			i++
			continue
		}
		if b[i] == '(' {
			p := &vhC13Reader{b: b, i: i, ok: true}
			p.str()
			i = p.i
			continue
		}
		j := i
		for j < len(b) && !vhC13WS(b[j]) && b[j] != '(' {
			j++
		}
		w := string(b[i:j])
		switch w {
		case "q":
			depth++
		case "Q":
			depth--
		case "BT":
			text++
		case "ET":
			text--
		}
		good = good && depth >= 0 && text >= 0 && text <= 1
		i = j
	}
	return good && depth == 0 && text == 0
}

// vhC13Streams decodes every stream object; ok=false if a Flate stream does not inflate or a
// decoded stream is unbalanced.  n is the number of streams, nflate those with /FlateDecode.
func vhC13Streams(b []byte, d vhC13Doc) (ok bool, n, nflate int) {
	ok = true
	for k := 1; k < len(d.offsets); k++ {
		p := &vhC13Reader{b: b, i: d.offsets[k], ok: true}
		if _, okn := p.uint(); !okn || !p.lit(" 0 obj") {
			return false, n, nflate
		}
		p.ws()
		es := p.dict()
		if !p.ok || !p.lit("stream") {
			continue
		}
		if !p.lit("\r\n") && !p.lit("\n") {
			return false, n, nflate
		}
		ln, has := vhC13Find(es, "Length")
		if !has || ln.kind != 'i' || p.i+ln.num > len(b) {
			return false, n, nflate
		}
		n++
		data := b[p.i : p.i+ln.num]
		if f, hasF := vhC13Find(es, "Filter"); hasF {
			if f.kind != 'n' || f.name != "FlateDecode" {
				return false, n, nflate
			}
			nflate++
			dec, okI := vhC13Inflate(data)
			if !okI {
				return false, n, nflate
			}
			data = dec
		}
		ok = ok && vhC13Balanced(data)
	}
	return ok, n, nflate
}

func VH_C13_streams() {
	vhC13Stubs()
	vStub("!compress/zlib.NewWriter", vhC13ZNewWriter)
	vStub("!(*compress/zlib.Writer).Write", vhC13ZWrite)
	vStub("!(*compress/zlib.Writer).Close", vhC13ZClose)
	compress := vChoose(0, 1) == 1
	pages := vChoose(1, 2)
	buf := &bytes.Buffer{}
	r := New(buf, 100, 100, &Options{Compress: compress, SubsetFonts: true})
	tri := &canvas.Path{}
	tri.MoveTo(10, 10)
	tri.LineTo(40, 10)
	tri.LineTo(25, 30)
	tri.Close()
	for k := 0; k < pages; k++ {
		if k > 0 {
			r.NewPage(50, 60)
		}
		// 0: nothing drawn (a stream of a few bytes, which deflate cannot shrink), 1: fill, 2: fill and stroke
		draw := vChoose(0, 2)
		if draw == 0 {
			continue
		}
		style := canvas.DefaultStyle
		style.Fill = canvas.Paint{Color: color.RGBA{200, 0, 0, 255}}
		if draw == 2 {
			style.Stroke = canvas.Paint{Color: color.RGBA{0, 0, 100, 255}}
			style.StrokeWidth = 2
		}
		r.RenderPath(tri, style, canvas.Identity.Translate(float64(k), 2))
	}
	// the title's length moves every later offset
	r.SetInfo(vhC13Sym(vChoose(0, 1)), "", "", "", "")
	err := r.Close()
	b := buf.Bytes()
	d := vhC13Open(b)
	vAssert("C13.streams.close_no_error", err == nil)
	vAssert("C13.streams.trailer_and_xref_readable", d.ok && d.xrefOK)
	if !d.ok {
		return
	}
	vAssert("C13.streams.objects_wellformed_and_stream_lengths", vhC13AllObjects(b, d))
	ok, n, nflate := vhC13Streams(b, d)
	vAssert("C13.streams.one_content_stream_per_page", n == pages)
	vAssert("C13.streams.filters_decode_and_content_balanced", ok)
	_ = nflate // whether a stream is compressed is the writer's choice; only consistency is demanded
}
