package pdf

// C13-H6: image XObjects.  Documents with one or two lossless images (2x2 or 3x1 pixels, RGBA
// with concrete premultiplied pixels from a small palette; the second draw may reuse the first
// image) on 1-2 pages, compression of page content off/on.  Read back: every image resource a page
// names with Do is an /XObject /Image with the image's /Width and /Height, 8 bits, /DeviceRGB, a
// Flate stream that inflates to exactly Width*Height*3 samples which are the un-premultiplied
// colours of the pixels; an image with a pixel of alpha < 255 has an /SMask that is a /DeviceGray
// image of the same size inflating to Width*Height samples = the alphas, a fully opaque one has
// none; an image drawn twice is embedded once; the xref/objects/lengths of the whole file hold.
// Same zlib arrangement as the streams harness (stored-block encoder under the engine).

import (
	"bytes"
	"image"
	"image/color"
	"image/jpeg"
	"io"

	"github.com/tdewolff/canvas"
)

var vhC13Palette = []color.RGBA{{255, 0, 0, 255}, {0, 128, 0, 255}, {0, 0, 100, 200}, {0, 0, 0, 0}, {60, 60, 60, 120}}

func vhC13Image(w, h int, pix []int) *image.RGBA {
	img := image.NewRGBA(image.Rect(0, 0, w, h))
	for i, k := range pix {
		img.SetRGBA(i%w, i/w, vhC13Palette[k])
	}
	return img
}

// vhC13StreamObj reads stream object n: dictionary and (inflated, if Flate) data.
func vhC13StreamObj(b []byte, d vhC13Doc, n int) (es []vhC13Entry, data []byte, ok bool) {
	if n <= 0 || n >= len(d.offsets) {
		return nil, nil, false
	}
	p := &vhC13Reader{b: b, i: d.offsets[n], ok: true}
	if _, okn := p.uint(); !okn || !p.lit(" 0 obj") {
		return nil, nil, false
	}
	p.ws()
	es = p.dict()
	if !p.ok || !p.lit("stream") {
		return es, nil, false
	}
	if !p.lit("\r\n") && !p.lit("\n") {
		return es, nil, false
	}
	ln, has := vhC13Find(es, "Length")
	if !has || ln.kind != 'i' || p.i+ln.num > len(b) {
		return es, nil, false
	}
	data = b[p.i : p.i+ln.num]
	if f, hasF := vhC13Find(es, "Filter"); hasF {
		if f.kind == 'n' && f.name == "DCTDecode" {
			return es, data, true // JPEG data, returned as it is
		}
		if f.kind != 'n' || f.name != "FlateDecode" {
			return es, nil, false
		}
		dec, okI := vhC13Inflate(data)
		if !okI {
			return es, nil, false
		}
		data = dec
	}
	return es, data, true
}

func vhC13IntIs(es []vhC13Entry, key string, v int) bool {
	e, has := vhC13Find(es, key)
	return has && e.kind == 'i' && e.num == v
}

func vhC13NameIs(es []vhC13Entry, key, v string) bool {
	e, has := vhC13Find(es, key)
	return has && e.kind == 'n' && e.name == v
}

// vhC13ImageOK: object n is the image XObject of img.
func vhC13ImageOK(b []byte, d vhC13Doc, n int, img *image.RGBA) bool {
	es, data, ok := vhC13StreamObj(b, d, n)
	if !ok {
		return false
	}
	sz := img.Bounds().Size()
	good := vhC13NameIs(es, "Type", "XObject") && vhC13NameIs(es, "Subtype", "Image") && vhC13IntIs(es, "Width", sz.X) && vhC13IntIs(es, "Height", sz.Y) &&
		vhC13IntIs(es, "BitsPerComponent", 8) && vhC13NameIs(es, "ColorSpace", "DeviceRGB") && len(data) == sz.X*sz.Y*3
	if !good {
		return false
	}
	translucent := false
	for y := 0; y < sz.Y; y++ {
		for x := 0; x < sz.X; x++ {
			c := img.RGBAAt(x, y)
			i := (y*sz.X + x) * 3
			if c.A != 0 {
				near := func(got byte, pre uint8) bool {
					want := int(pre) * 255 / int(c.A)
					return int(got)-want <= 1 && want-int(got) <= 1
				}
				good = good && near(data[i], c.R) && near(data[i+1], c.G) && near(data[i+2], c.B)
			}
			translucent = translucent || c.A != 255
		}
	}
	sm, hasMask := vhC13Find(es, "SMask")
	good = good && hasMask == translucent
	if hasMask && good {
		if sm.kind != 'r' {
			return false
		}
		ms, mdata, okM := vhC13StreamObj(b, d, sm.num)
		good = okM && vhC13NameIs(ms, "Subtype", "Image") && vhC13IntIs(ms, "Width", sz.X) && vhC13IntIs(ms, "Height", sz.Y) &&
			vhC13IntIs(ms, "BitsPerComponent", 8) && vhC13NameIs(ms, "ColorSpace", "DeviceGray") && len(mdata) == sz.X*sz.Y
		if good {
			for y := 0; y < sz.Y; y++ {
				for x := 0; x < sz.X; x++ {
					good = good && mdata[y*sz.X+x] == img.RGBAAt(x, y).A
				}
			}
		}
	}
	return good
}

func VH_C13_images() {
	vhC13Stubs()
	vStub("!compress/zlib.NewWriter", vhC13ZNewWriter)
	vStub("!(*compress/zlib.Writer).Write", vhC13ZWrite)
	vStub("!(*compress/zlib.Writer).Close", vhC13ZClose)
	compress := vChoose(0, 1) == 1
	// image A: 2x2, opaque or with translucent pixels; image B: 3x1
	var imgA *image.RGBA
	if vChoose(0, 1) == 0 {
		imgA = vhC13Image(2, 2, []int{0, 1, 1, 0})
	} else {
		imgA = vhC13Image(2, 2, []int{0, 2, 3, 4})
	}
	imgB := vhC13Image(3, 1, []int{1, 0, vChoose(0, 4)})
	if vChoose(0, 1) == 1 {
		// one pixel with a symbolic premultiplied colour (alpha from a set: its un-premultiplication
		// divides by the alpha)
		c := color.RGBA{vNondetByte(), vNondetByte(), vNondetByte(), []uint8{255, 128, 51, 1}[vChoose(0, 3)]}
		vAssume(c.R <= c.A && c.G <= c.A && c.B <= c.A)
		imgB.SetRGBA(2, 0, c)
	}
	plan := vChoose(0, 3) // 0: A;  1: A, B;  2: A, A (same image twice);  3: A on page 1, A and B on page 2
	buf := &bytes.Buffer{}
	r := New(buf, 100, 100, &Options{Compress: compress, SubsetFonts: true, ImageEncoding: canvas.Lossless})
	m1 := canvas.Identity.Translate(10, 10)
	m2 := canvas.Identity.Translate(40, 20).Scale(2, 2)
	type use struct {
		page int
		img  *image.RGBA
	}
	var uses []use
	r.RenderImage(imgA, m1)
	uses = append(uses, use{0, imgA})
	switch plan {
	case 1:
		r.RenderImage(imgB, m2)
		uses = append(uses, use{0, imgB})
	case 2:
		r.RenderImage(imgA, m2)
		uses = append(uses, use{0, imgA})
	case 3:
		r.NewPage(60, 60)
		r.RenderImage(imgA, m2)
		r.RenderImage(imgB, m1)
		uses = append(uses, use{1, imgA}, use{1, imgB})
	}
	err := r.Close()
	b := buf.Bytes()
	d := vhC13Open(b)
	vAssert("C13.images.readable", err == nil && d.ok && d.xrefOK)
	if !d.ok {
		return
	}
	vAssert("C13.images.objects_wellformed_and_stream_lengths", vhC13AllObjects(b, d))
	cat, okC := vhC13Object(b, d, d.root)
	pe, hasP := vhC13Find(cat, "Pages")
	if !okC || !hasP || pe.kind != 'r' || pe.num <= 0 || pe.num >= len(d.offsets) {
		vAssert("C13.images.page_tree", false)
		return
	}
	node, okN := vhC13Object(b, d, pe.num)
	ke, hasK := vhC13Find(node, "Kids")
	kids, okK := []int(nil), false
	if okN && hasK {
		kids, okK = vhC13Kids(b, ke)
	}
	npages := 1
	if plan == 3 {
		npages = 2
	}
	vAssert("C13.images.page_tree", okK && len(kids) == npages)
	if !okK || len(kids) != npages {
		return
	}
	// per page: the XObject resources Im0, Im1, ... in order of the draws on that page
	good := true
	refOf := map[*image.RGBA]int{}
	once := true
	for pg, kid := range kids {
		pgd, okG := vhC13Object(b, d, kid)
		re, hasR := vhC13Find(pgd, "Resources")
		if !okG || !hasR {
			good = false
			continue
		}
		res, okR := vhC13Sub(b, re)
		xe, hasX := vhC13Find(res, "XObject")
		if !okR || !hasX {
			good = false
			continue
		}
		xs, okX := vhC13Sub(b, xe)
		good = good && okX
		// one resource name per draw on this page, in order (a repeated image may get a second name
		// for the same object)
		var want []*image.RGBA
		for _, u := range uses {
			if u.page == pg {
				want = append(want, u.img)
			}
		}
		good = good && len(xs) == len(want)
		if !good {
			continue
		}
		for k, wimg := range want {
			e, has := vhC13Find(xs, "Im"+string(rune('0'+k)))
			if !has || e.kind != 'r' {
				good = false
				continue
			}
			good = good && vhC13ImageOK(b, d, e.num, wimg)
			if prev, seen := refOf[wimg]; seen {
				once = once && prev == e.num
			}
			refOf[wimg] = e.num
		}
		con, _ := vhC13Find(pgd, "Contents")
		if con.kind == 'r' {
			_, content, okS := vhC13StreamObj(b, d, con.num)
			good = good && okS && vhC13NamesDefined(content, b, res) && vhC13Balanced(content)
		} else {
			good = false
		}
	}
	vAssert("C13.images.xobjects_describe_the_images", good)
	vAssert("C13.images.same_image_embedded_once", once)
}

// C13: images with the lossy encoding.  The JPEG encoder of the standard library writes one colour
// component for an *image.Gray and three for every other image; the image dictionary must name a
// colour space with that many components, or no reader can decode the stream.  The encoder is
// replaced by a stand-in that writes a start-of-image marker and the component count.
func vhC13JpegEncode(w io.Writer, m image.Image, o *jpeg.Options) error {
	n := byte(3)
	if _, ok := m.(*image.Gray); ok {
		n = 1
	}
	_, err := w.Write([]byte{0xFF, 0xD8, n})
	return err
}

func VH_C13_images_lossy() {
	if !vInterp() {
		return
	}
	vhC13Stubs()
	vStub("!image/jpeg.Encode", vhC13JpegEncode)
	var img image.Image
	gray := vChoose(0, 1) == 1
	if gray {
		g := image.NewGray(image.Rect(0, 0, 2, 2))
		g.Pix[1] = 200
		img = g
	} else {
		img = vhC13Image(2, 2, []int{0, 1, 1, 0})
	}
	buf := &bytes.Buffer{}
	r := New(buf, 100, 100, &Options{Compress: false, SubsetFonts: true, ImageEncoding: canvas.Lossy})
	r.RenderImage(img, canvas.Identity.Translate(10, 10))
	err := r.Close()
	b := buf.Bytes()
	d := vhC13Open(b)
	vAssertI("C13.lossy.readable", err == nil && d.ok && d.xrefOK)
	if !d.ok {
		return
	}
	vAssertI("C13.lossy.objects_wellformed_and_stream_lengths", vhC13AllObjects(b, d))
	found, good := 0, true
	for n := 1; n < len(d.offsets); n++ {
		es, data, ok := vhC13StreamObj(b, d, n)
		if !ok || !vhC13NameIs(es, "Subtype", "Image") || !vhC13NameIs(es, "Filter", "DCTDecode") {
			continue
		}
		found++
		good = good && len(data) == 3 && data[0] == 0xFF && data[1] == 0xD8
		if good {
			if data[2] == 1 {
				good = vhC13NameIs(es, "ColorSpace", "DeviceGray")
			} else {
				good = vhC13NameIs(es, "ColorSpace", "DeviceRGB")
			}
		}
	}
	vAssertI("C13.lossy.one_dct_image", found == 1)
	vAssertI("C13.lossy.colour_space_has_the_components_of_the_jpeg", good)
}
