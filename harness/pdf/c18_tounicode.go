package pdf

import (
	"io"
	"strings"

	"github.com/tdewolff/canvas"
	canvasFont "github.com/tdewolff/font"
)

// C18-H3: the UTF-16 surrogate arithmetic of the ToUnicode CMap is written inline in
// pdfWriter.writeFont (writer.go:405-409) and cannot be called on its own.  writeFont itself is
// driven instead: a shell SFNT (zero tables; the table types are unexported and are allocated
// through type inference), the font-library calls replaced by "any value" stubs, the PDF object
// writers and fmt.Fprintf replaced by recorders.  The real loop over the glyph ids, the real
// surrogate arithmetic and the real bfchar/bfrange grouping run symbolically.
//
// Natively none of this can run (the real Subset/Write need a parsed font, and stubs do not
// exist natively), so the harnesses return at once outside the symbolic engine: a solver model
// could only be reported UNDISCHARGED, never VIOLATION.

func vhC18New[T any](p *T) *T { return new(T) }

type vhC18Fmt struct {
	format string
	args   []interface{}
}

var vhC18Fprintf []vhC18Fmt
var vhC18Vals []interface{}
var vhC18Uni []rune   // ToUnicode of glyph k (indexed by glyph id, concrete ids)
var vhC18Adv []uint16 // advance of glyph k

func vhC18FprintfStub(w io.Writer, format string, a ...interface{}) (int, error) {
	vhC18Fprintf = append(vhC18Fprintf, vhC18Fmt{format, a})
	return 0, nil
}
func vhC18BuilderString(b *strings.Builder) string { return "" }
func vhC18ReplaceAll(s, old, new string) string      { return s }
func vhC18WriteObject(w *pdfWriter, val interface{}) pdfRef {
	vhC18Vals = append(vhC18Vals, val)
	w.objOffsets = append(w.objOffsets, 0)
	return pdfRef(len(w.objOffsets))
}
func vhC18Write(w *pdfWriter, s string, v ...interface{}) {}
func vhC18WriteVal(w *pdfWriter, i interface{})            { vhC18Vals = append(vhC18Vals, i) }
func vhC18Subset(s *canvasFont.SFNT, glyphIDs []uint16, o canvasFont.SubsetOptions) (*canvasFont.SFNT, error) {
	return s, nil
}
func vhC18SFNTWrite(s *canvasFont.SFNT) []byte                    { return nil }
func vhC18Advance(s *canvasFont.SFNT, g uint16) uint16            { return vhC18Adv[g] }
func vhC18MkToUnicode[T any](_ *T) func(*T, uint16) rune {
	return func(_ *T, g uint16) rune { return vhC18Uni[g] }
}
func vhC18MkNameGet[T any, R any](_ *T, _ func(canvasFont.NameID) []R) func(*T, canvasFont.NameID) []R {
	return func(*T, canvasFont.NameID) []R { return nil }
}

// vhC18Setup builds the writer and a font with glyph ids 0..n-1 used in order (the subsetter
// state a text with these glyphs leaves behind).
func vhC18Setup(n int) (*pdfWriter, *canvas.Font) {
	sf := &canvasFont.SFNT{IsTrueType: true}
	sf.Head = vhC18New(sf.Head)
	sf.Head.UnitsPerEm = 1000
	sf.Hhea = vhC18New(sf.Hhea)
	sf.OS2 = vhC18New(sf.OS2)
	sf.Post = vhC18New(sf.Post)
	sf.Name = vhC18New(sf.Name)
	sf.Cmap = vhC18New(sf.Cmap)
	vStub("!fmt.Fprintf", vhC18FprintfStub)
	vStub("!strings.ReplaceAll", vhC18ReplaceAll) // base font name only; assembly helper inside
	vStub("!(*strings.Builder).String", vhC18BuilderString) // unsafe.String inside; nothing was written to it anyway
	vStub("!(*github.com/tdewolff/canvas/renderers/pdf.pdfWriter).writeObject", vhC18WriteObject)
	vStub("!(*github.com/tdewolff/canvas/renderers/pdf.pdfWriter).write", vhC18Write)
	vStub("!(*github.com/tdewolff/canvas/renderers/pdf.pdfWriter).writeVal", vhC18WriteVal)
	vStub("!(*github.com/tdewolff/font.SFNT).Subset", vhC18Subset)
	vStub("!(*github.com/tdewolff/font.SFNT).Write", vhC18SFNTWrite)
	vStub("!github.com/tdewolff/font.ParseSFNT", vhC13ParseSFNT)
	vStub("!(*github.com/tdewolff/font.SFNT).GlyphAdvance", vhC18Advance)
	vStub("!(*github.com/tdewolff/font.cmapTable).ToUnicode", vhC18MkToUnicode(sf.Cmap))
	vStub("!(*github.com/tdewolff/font.nameTable).Get", vhC18MkNameGet(sf.Name, sf.Name.Get))
	vhC18Fprintf, vhC18Vals = nil, nil
	f := &canvas.Font{SFNT: sf}
	w := &pdfWriter{
		objOffsets: []int{0, 0, 0, 0},
		fontSubset: map[*canvas.Font]*canvas.FontSubsetter{},
		compress:   false,
		subset:     true,
	}
	sub := canvas.NewFontSubsetter()
	for g := 1; g < n; g++ {
		sub.Get(uint16(g))
	}
	w.fontSubset[f] = sub
	return w, f
}

// vhC18Entries decodes the recorded bfchar/bfrange lines into (firstCID, lastCID, firstValue).
type vhC18Ent struct {
	lo, hi uint16
	val    uint32
}

func vhC18Entries() (ents []vhC18Ent, ok bool) {
	ok = true
	for _, r := range vhC18Fprintf {
		switch r.format {
		case "\n<%04X> <%04X>":
			lo, ok1 := r.args[0].(uint16)
			v, ok2 := r.args[1].(uint32)
			ok = ok && ok1 && ok2
			ents = append(ents, vhC18Ent{lo, lo, v})
		case "\n<%04X> <%04X> <%04X>":
			lo, ok1 := r.args[0].(uint16)
			hi, ok2 := r.args[1].(uint16)
			v, ok3 := r.args[2].(uint32)
			ok = ok && ok1 && ok2 && ok3
			ents = append(ents, vhC18Ent{lo, hi, v})
		}
	}
	return
}

// vhC18UTF16 decodes what a PDF reader sees in a <%04X> destination string: up to four hex
// digits are one UTF-16 code unit, eight digits are two units.
func vhC18UTF16(v uint32) (r uint32, wellFormed bool) {
	if v < 0x10000 {
		return v, v < 0xD800 || 0xE000 <= v
	}
	hi, lo := v>>16, v&0xFFFF
	return 0x10000 + (hi-0xD800)<<10 + (lo - 0xDC00), 0xD800 <= hi && hi < 0xDC00 && 0xDC00 <= lo && lo < 0xE000
}

// VH_C18_tounicode_surrogates: one glyph whose character is any supplementary code point.
func VH_C18_tounicode_surrogates() {
	if !vInterp() {
		return
	}
	w, f := vhC18Setup(2)
	u := rune(vNondetInt())
	vAssumeI(0x10000 <= u && u <= 0x10FFFF)
	vhC18Uni = []rune{0, u}
	vhC18Adv = []uint16{500, 500}
	w.writeFont(pdfRef(4), f, false)
	ents, ok := vhC18Entries()
	vAssertI("C18.tounicode.entries_recorded", ok && len(ents) == 2)
	if len(ents) != 2 {
		return
	}
	vAssertI("C18.tounicode.notdef_entry", ents[0].lo == 0 && ents[0].hi == 0 && ents[0].val == 0xFFFD)
	vAssertI("C18.tounicode.cid_of_glyph", ents[1].lo == 1 && ents[1].hi == 1)
	r, wf := vhC18UTF16(ents[1].val)
	vAssertI("C18.tounicode.surrogates_well_formed", wf && ents[1].val >= 0x10000)
	vAssertI("C18.tounicode.surrogates_decode_to_code_point", r == uint32(u))
}

// VH_C18_tounicode_map: 2..3 glyphs (4 in the thorough tier) with arbitrary characters (BMP
// non-surrogate or supplementary): the bfchar/bfrange entries cover every CID exactly once, in
// increasing order, and the value of each CID (first value + offset inside a range) decodes to
// the character of its glyph.
func VH_C18_tounicode_map() {
	if !vInterp() {
		return
	}
	n := vChoose(2, 3+vTier()) + 1 // glyph ids 0..n-1
	w, f := vhC18Setup(n)
	vhC18Uni = make([]rune, n)
	vhC18Adv = make([]uint16, n)
	for g := 1; g < n; g++ {
		u := rune(vNondetInt())
		vAssumeI(0 < u && u <= 0x10FFFF && !(0xD800 <= u && u < 0xE000))
		vhC18Uni[g] = u
		vhC18Adv[g] = 500
	}
	w.writeFont(pdfRef(4), f, false)
	ents, ok := vhC18Entries()
	vAssertI("C18.tounicode.entries_recorded", ok && len(ents) >= 1)
	next := 0
	okCover, okVal := true, true
	for _, e := range ents {
		okCover = okCover && int(e.lo) == next && e.lo <= e.hi
		if int(e.lo) != next || e.hi < e.lo || int(e.hi) >= n {
			okCover = false
			break
		}
		for cid := int(e.lo); cid <= int(e.hi); cid++ {
			r, wf := vhC18UTF16(e.val + uint32(cid-int(e.lo)))
			want := uint32(vhC18Uni[cid])
			if cid == 0 {
				want = 0xFFFD
			}
			okVal = okVal && wf && r == want
		}
		next = int(e.hi) + 1
	}
	vAssertI("C18.tounicode.every_cid_once", okCover && next == n)
	vAssertI("C18.tounicode.values_decode_to_characters", okVal)
}

// C18-H4: the W/DW width arrays written by writeFont, decoded as a PDF reader does (ISO 32000
// 9.7.4.3: `c [w1 ... wn]` gives CIDs c..c+n-1, `cfirst clast w` gives a range, everything else
// has the default width DW).  Every glyph advance (including .notdef's, which becomes DW) is drawn
// from the 3-value domain {0, 500, 600}: what matters to the run-length bookkeeping is which
// neighbours are equal, which runs equal DW and which equal the zero sentinel the code appends.
// All combinations are enumerated as separate concrete paths (symbolic advances go through
// float64 -> scale -> int, which neither float domain decides in reasonable time: 44 solver
// timeouts in 7 minutes - before the engine had integer shadows), so this harness is bounded
// exhaustive enumeration by the engine, not a solver verdict; VH_C18_warray_sym_Q below is the
// symbolic version.  1..6 glyphs besides .notdef (7 in the thorough tier; the range form needs a
// run of at least 5 equal widths).
var vhC18AdvDomain = []uint16{500, 0, 600}

func VH_C18_warray() {
	if !vInterp() {
		return
	}
	vMerge(false) // the run start/end indices must stay concrete (they are slice bounds)
	n := vChoose(1, 6+vTier()) + 1
	w, f := vhC18Setup(n)
	vhC18Uni = make([]rune, n)
	vhC18Adv = make([]uint16, n)
	for g := 0; g < n; g++ {
		vhC18Uni[g] = rune(0x40 + g)
		vhC18Adv[g] = vhC18AdvDomain[vChoose(0, 2)]
	}
	w.writeFont(pdfRef(4), f, false)

	// the font dictionary is the last value written
	ok := len(vhC18Vals) > 0
	if !ok {
		vAssertI("C18.warray.dict_written", false)
		return
	}
	dict, ok1 := vhC18Vals[len(vhC18Vals)-1].(pdfDict)
	vAssertI("C18.warray.dict_written", ok1)
	if !ok1 {
		return
	}
	desc := dict["DescendantFonts"].(pdfArray)[0].(pdfDict)
	DW := desc["DW"].(int)
	W := desc["W"].(pdfArray)
	got := make([]int, n)
	seen := make([]int, n)
	for c := range got {
		got[c] = DW
	}
	wf := true
	for i := 0; i < len(W) && wf; {
		c, isInt := W[i].(int)
		if !isInt || i+1 >= len(W) {
			wf = false
			break
		}
		switch nx := W[i+1].(type) {
		case pdfArray:
			for k, v := range nx {
				if c+k < n {
					got[c+k] = v.(int)
					seen[c+k]++
				}
			}
			wf = wf && len(nx) > 0
			i += 2
		case int:
			if i+2 >= len(W) || nx < c {
				wf = false
				break
			}
			for cid := c; cid <= nx; cid++ {
				if cid < n {
					got[cid] = W[i+2].(int)
					seen[cid]++
				}
			}
			i += 3
		default:
			wf = false
		}
	}
	vAssertI("C18.warray.well_formed", wf)
	okW, okOnce := true, true
	for c := 0; c < n; c++ {
		want := int(1000.0/float64(f.SFNT.Head.UnitsPerEm)*float64(vhC18Adv[c]) + 0.5)
		okW = okW && got[c] == want
		okOnce = okOnce && seen[c] <= 1
	}
	vAssertI("C18.warray.every_cid_gets_its_width", okW)
	vAssertI("C18.warray.no_cid_listed_twice", okOnce)
}

// C18-H4b: the same decoding with SYMBOLIC advances (any 12-bit advance per glyph, drawn as SMT Int
// variables; the engine's integer shadows keep float64 -> scale -> int in integer arithmetic), 1-6
// (thorough 7) glyphs besides .notdef.
func VH_C18_warray_sym_Q() {
	if !vInterp() {
		return
	}
	vMerge(false) // the run start/end indices must stay concrete (they are slice bounds)
	n := vChoose(1, 6+vTier()) + 1
	w, f := vhC18Setup(n)
	vhC18Uni = make([]rune, n)
	vhC18Adv = make([]uint16, n)
	for g := 0; g < n; g++ {
		vhC18Uni[g] = rune(0x40 + g)
		a := vNondetIntQ(13)
		vAssumeI(0 <= a && a <= 4095)
		vhC18Adv[g] = uint16(a)
	}
	w.writeFont(pdfRef(4), f, false)

	// the font dictionary is the last value written
	ok := len(vhC18Vals) > 0
	if !ok {
		vAssertI("C18.warraysym.dict_written", false)
		return
	}
	dict, ok1 := vhC18Vals[len(vhC18Vals)-1].(pdfDict)
	vAssertI("C18.warraysym.dict_written", ok1)
	if !ok1 {
		return
	}
	desc := dict["DescendantFonts"].(pdfArray)[0].(pdfDict)
	DW := desc["DW"].(int)
	W := desc["W"].(pdfArray)
	got := make([]int, n)
	seen := make([]int, n)
	for c := range got {
		got[c] = DW
	}
	wf := true
	for i := 0; i < len(W) && wf; {
		c, isInt := W[i].(int)
		if !isInt || i+1 >= len(W) {
			wf = false
			break
		}
		switch nx := W[i+1].(type) {
		case pdfArray:
			for k, v := range nx {
				if c+k < n {
					got[c+k] = v.(int)
					seen[c+k]++
				}
			}
			wf = wf && len(nx) > 0
			i += 2
		case int:
			if i+2 >= len(W) || nx < c {
				wf = false
				break
			}
			for cid := c; cid <= nx; cid++ {
				if cid < n {
					got[cid] = W[i+2].(int)
					seen[cid]++
				}
			}
			i += 3
		default:
			wf = false
		}
	}
	vAssertI("C18.warraysym.well_formed", wf)
	okW, okOnce := true, true
	for c := 0; c < n; c++ {
		want := int(1000.0/float64(f.SFNT.Head.UnitsPerEm)*float64(vhC18Adv[c]) + 0.5)
		okW = okW && got[c] == want
		okOnce = okOnce && seen[c] <= 1
	}
	vAssertI("C18.warraysym.every_cid_gets_its_width", okW)
	vAssertI("C18.warraysym.no_cid_listed_twice", okOnce)
}
