package pdf

// C13-H5: page tree and resources.  Documents of 1-3 pages of different sizes; each page draws
// nothing, an opaque fill, a translucent fill (an ExtGState resource) or a translucent fill and
// stroke with different alphas (two ExtGStates).  Read back: the catalog's /Pages node has
// /Type/Pages, /Count = number of pages and that many /Kids; every kid is a /Type/Page whose
// /Parent is the pages node and whose /Contents is a stream; every resource name a page's content
// uses with gs / Tf / Do / scn / SCN is defined in the matching sub-dictionary of that page's own
// /Resources.  A one-byte symbolic title moves all offsets.

import (
	"bytes"
	"image/color"

	"github.com/tdewolff/canvas"
)

func vhC13Sub(b []byte, e vhC13Entry) ([]vhC13Entry, bool) {
	p := &vhC13Reader{b: b, i: e.start, ok: true}
	if e.start+1 >= len(b) || b[e.start] != '<' || b[e.start+1] != '<' {
		return nil, false
	}
	es := p.dict()
	return es, p.ok
}

// vhC13Kids reads "[a 0 R b 0 R ...]" at e.start.
func vhC13Kids(b []byte, e vhC13Entry) ([]int, bool) {
	p := &vhC13Reader{b: b, i: e.start, ok: true}
	if !p.lit("[") {
		return nil, false
	}
	var kids []int
	for {
		p.ws()
		if p.lit("]") {
			return kids, true
		}
		n, ok := p.uint()
		if !ok || !p.lit(" 0 R") {
			return nil, false
		}
		kids = append(kids, n)
	}
}

// vhC13Nums reads "[n n n ...]" (decimal numbers) at e.start.
func vhC13Nums(b []byte, e vhC13Entry) ([]float64, bool) {
	i := e.start
	if i >= len(b) || b[i] != '[' {
		return nil, false
	}
	i++
	var out []float64
	for {
		for i < len(b) && vhC13WS(b[i]) {
			i++
		}
		if i >= len(b) {
			return nil, false
		}
		if b[i] == ']' {
			return out, true
		}
		neg := false
		if b[i] == '-' {
			neg = true
			i++
		}
		v, scale, digits, frac := 0.0, 1.0, 0, false
		for i < len(b) && ((b[i] >= '0' && b[i] <= '9') || (b[i] == '.' && !frac)) {
			if b[i] == '.' {
				frac = true
			} else {
				v = v*10 + float64(b[i]-'0')
				if frac {
					scale *= 10
				}
				digits++
			}
			i++
		}
		if digits == 0 {
			return nil, false
		}
		v /= scale
		if neg {
			v = -v
		}
		out = append(out, v)
	}
}

// vhC13StreamOf returns the bytes of the stream object n (no filter).
func vhC13StreamOf(b []byte, d vhC13Doc, n int) ([]byte, bool) {
	if n <= 0 || n >= len(d.offsets) {
		return nil, false
	}
	p := &vhC13Reader{b: b, i: d.offsets[n], ok: true}
	if _, ok := p.uint(); !ok || !p.lit(" 0 obj") {
		return nil, false
	}
	p.ws()
	es := p.dict()
	if !p.ok || !p.lit("stream") {
		return nil, false
	}
	if !p.lit("\r\n") && !p.lit("\n") {
		return nil, false
	}
	ln, has := vhC13Find(es, "Length")
	if _, filtered := vhC13Find(es, "Filter"); filtered || !has || ln.kind != 'i' || p.i+ln.num > len(b) {
		return nil, false
	}
	return b[p.i : p.i+ln.num], true
}

// vhC13NamesDefined: every "/Name op" with a resource-selecting operator names a key of the
// matching resource category.
func vhC13NamesDefined(content []byte, b []byte, res []vhC13Entry) bool {
	good := true
	lastName := ""
	i := 0
	for i < len(content) {
		if vhC13WS(content[i]) {
			i++
			continue
		}
		j := i + 1
		for j < len(content) && !vhC13WS(content[j]) && content[j] != '/' && content[j] != '[' && content[j] != '(' {
			j++
		}
		w := string(content[i:j])
		if w[0] == '/' {
			lastName = w[1:]
		} else {
			cat := ""
			switch w {
			case "gs":
				cat = "ExtGState"
			case "Tf":
				cat = "Font"
			case "Do":
				cat = "XObject"
			case "scn", "SCN":
				cat = "Pattern"
			}
			if cat != "" && lastName != "" {
				ce, has := vhC13Find(res, cat)
				if !has {
					good = false
				} else {
					sub, ok := vhC13Sub(b, ce)
					_, def := vhC13Find(sub, lastName)
					good = good && ok && def
				}
			}
			if w != "Tf" || true {
				// operands between a name and its operator (the size of Tf) do not reset the name
				if cat != "" || (w[0] < '0' || w[0] > '9') && w[0] != '-' && w[0] != '.' {
					lastName = ""
				}
			}
		}
		i = j
	}
	return good
}

func VH_C13_pagetree() {
	vhC13Stubs()
	pages := vChoose(1, 2+vTier())
	buf := &bytes.Buffer{}
	r := New(buf, 100, 100, &Options{Compress: false, SubsetFonts: true})
	sq := &canvas.Path{}
	sq.MoveTo(10, 10)
	sq.LineTo(40, 10)
	sq.LineTo(40, 30)
	sq.Close()
	for k := 0; k < pages; k++ {
		if k > 0 {
			r.NewPage(50+10*float64(k), 60)
		}
		draw := vChoose(0, 3)
		if draw == 0 {
			continue
		}
		style := canvas.DefaultStyle
		style.Fill = canvas.Paint{Color: color.RGBA{200, 0, 0, 255}}
		if draw >= 2 {
			style.Fill = canvas.Paint{Color: color.RGBA{100, 0, 0, 128}}
		}
		if draw == 3 {
			style.Stroke = canvas.Paint{Color: color.RGBA{0, 0, 60, 64}}
			style.StrokeWidth = 2
		}
		r.RenderPath(sq, style, canvas.Identity)
	}
	r.SetInfo(vhC13Sym(vChoose(0, 1)), "", "", "", "")
	err := r.Close()
	b := buf.Bytes()
	d := vhC13Open(b)
	vAssert("C13.pagetree.readable", err == nil && d.ok && d.xrefOK)
	if !d.ok {
		return
	}
	cat, okC := vhC13Object(b, d, d.root)
	pe, hasP := vhC13Find(cat, "Pages")
	vAssert("C13.pagetree.catalog_names_pages_node", okC && hasP && pe.kind == 'r' && pe.num > 0 && pe.num < len(d.offsets))
	if !(okC && hasP && pe.kind == 'r' && pe.num > 0 && pe.num < len(d.offsets)) {
		return
	}
	node, okN := vhC13Object(b, d, pe.num)
	tp, _ := vhC13Find(node, "Type")
	cnt, _ := vhC13Find(node, "Count")
	ke, hasK := vhC13Find(node, "Kids")
	kids, okK := []int(nil), false
	if hasK {
		kids, okK = vhC13Kids(b, ke)
	}
	vAssert("C13.pagetree.count_and_kids", okN && tp.kind == 'n' && tp.name == "Pages" && cnt.kind == 'i' && cnt.num == pages && okK && len(kids) == pages)
	if !okK {
		return
	}
	pagesOK, namesOK, sizeOK := true, true, true
	for pgIdx, kid := range kids {
		if kid <= 0 || kid >= len(d.offsets) {
			pagesOK = false
			continue
		}
		pg, okG := vhC13Object(b, d, kid)
		t2, _ := vhC13Find(pg, "Type")
		par, _ := vhC13Find(pg, "Parent")
		con, _ := vhC13Find(pg, "Contents")
		re, hasR := vhC13Find(pg, "Resources")
		pagesOK = pagesOK && okG && t2.kind == 'n' && t2.name == "Page" && par.kind == 'r' && par.num == pe.num && con.kind == 'r' && hasR
		// the page size in points (1 mm = 72/25.4 pt)
		mb, hasMB := vhC13Find(pg, "MediaBox")
		wmm, hmm := 100.0, 100.0
		if pgIdx > 0 {
			wmm, hmm = 50+10*float64(pgIdx), 60
		}
		if box, okB := vhC13Nums(b, mb); hasMB && okB && len(box) == 4 {
			nr := func(a, c float64) bool { return a-c <= 1e-5 && c-a <= 1e-5 }
			sizeOK = sizeOK && nr(box[0], 0) && nr(box[1], 0) && nr(box[2], wmm*72/25.4) && nr(box[3], hmm*72/25.4)
		} else {
			sizeOK = false
		}
		if !(okG && con.kind == 'r' && hasR) {
			continue
		}
		content, okS := vhC13StreamOf(b, d, con.num)
		res, okR := vhC13Sub(b, re)
		pagesOK = pagesOK && okS && okR
		if okS && okR {
			namesOK = namesOK && vhC13NamesDefined(content, b, res)
		}
	}
	vAssert("C13.pagetree.kids_are_pages_of_this_node", pagesOK)
	vAssert("C13.pagetree.resource_names_defined_in_page_resources", namesOK)
	vAssert("C13.pagetree.mediabox_is_page_size_in_points", sizeOK)
}
