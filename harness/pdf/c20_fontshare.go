package pdf

// C20 "rendering of distinct canvases may be called from any number of goroutines at once ...
// repeated calls with the same inputs give the same outputs regardless of what ran before": a
// loaded font is shared by every canvas that uses it, so writing a PDF must not write into
// anything reachable from the font (frame watch, engine only).  D99: the font library's Subset
// writes to the maxp, head and hhea tables (and the CFF local subroutines) it shares with its
// receiver - "sfnt.Maxp = &(*sfntOld.Maxp)" is no copy - so that embedding a subsetted font must
// hand Subset a private copy.  The library itself cannot be interpreted; its Subset is replaced by
// a stand-in that performs exactly those three shared writes on its receiver (part of the claim:
// the stand-in is read off sfnt_subset.go lines 137-138, 343-344, 352-353 of the pinned
// dependency), ParseSFNT by one that returns a fresh shell.

import (
	"bytes"

	canvasText "github.com/tdewolff/canvas/text"
	canvasFont "github.com/tdewolff/font"
)

func vhC20SubsetWritesReceiver(s *canvasFont.SFNT, glyphIDs []uint16, o canvasFont.SubsetOptions) (*canvasFont.SFNT, error) {
	if s.Maxp != nil {
		s.Maxp.NumGlyphs = uint16(len(glyphIDs))
	}
	if s.Head != nil {
		s.Head.IndexToLocFormat = 1 - s.Head.IndexToLocFormat
	}
	if s.Hhea != nil {
		s.Hhea.NumberOfHMetrics = uint16(len(glyphIDs))
	}
	return s, nil
}

// vhC13ParseSFNT stands in for the library's parser wherever writeFont makes its private copy:
// a fresh shell of the type the (stubbed) Write announced.
func vhC13ParseSFNT(b []byte, index int) (*canvasFont.SFNT, error) {
	tt := len(b) == 0 || b[0] == 0
	sf := &canvasFont.SFNT{IsTrueType: tt, IsCFF: !tt}
	sf.Head = vhC18New(sf.Head)
	sf.Head.UnitsPerEm = 1000
	sf.Hhea = vhC18New(sf.Hhea)
	sf.Maxp = vhC18New(sf.Maxp)
	return sf, nil
}

func VH_C20_pdf_font_left_unchanged() {
	if !vInterp() {
		return
	}
	vhC13Stubs()
	vStub("!strings.ReplaceAll", vhC13ReplaceAll)
	vStub("!(*github.com/tdewolff/font.SFNT).Subset", vhC20SubsetWritesReceiver)
	vStub("!(*github.com/tdewolff/font.SFNT).Write", vhC13FontWrite)
	vStub("!github.com/tdewolff/font.ParseSFNT", vhC13ParseSFNT)
	vStub("!(*github.com/tdewolff/font.SFNT).GlyphAdvance", vhC13FontAdvance)
	subset := vChoose(0, 1) == 1
	vertical := vChoose(0, 1) == 1
	fa := vhC13FakeFont(vChoose(0, 1) == 1)
	fa.SFNT.Maxp = vhC18New(fa.SFNT.Maxp)
	fa.SFNT.Maxp.NumGlyphs = 100
	fa.SFNT.Hhea.NumberOfHMetrics = 100
	buf := &bytes.Buffer{}
	r := New(buf, 100, 100, &Options{Compress: false, SubsetFonts: subset})
	r.w.StartTextObject()
	dir := canvasText.LeftToRight
	if vertical {
		dir = canvasText.TopToBottom
	}
	r.w.SetFont(fa, 10, dir)
	r.w.pdf.fontSubset[fa].Get(3)
	r.w.pdf.fontSubset[fa].Get(5)
	r.w.EndTextObject()
	vWatchValue(fa.SFNT)
	err := r.Close()
	vAssertI("C20.pdf_font.close_no_error", err == nil)
	vAssertI("C20.pdf_font.no_write_to_the_loaded_font_while_embedding_it", vWatchedWrites() == 0)
	vAssertI("C20.pdf_font.glyph_count_and_table_formats_kept", fa.SFNT.Maxp.NumGlyphs == 100 && fa.SFNT.Hhea.NumberOfHMetrics == 100 && fa.SFNT.Head.IndexToLocFormat == 0)
}
