package pdf

// C13-H4 / C18: documents that embed fonts.  "reserved object numbers for fonts written at close":
// getFont reserves an object number when a font is first selected; writeFont emits the font's
// objects (ToUnicode stream, font program, optionally the CIDToGIDMap stream, then the Type0
// dictionary under the reserved number) when the document is closed.  Documents of 1-2 pages
// select 1-2 fonts horizontally and/or vertically, with and without subsetting; the bytes are read
// back by the minimal PDF reader: every xref entry points at its "n 0 obj", every object is
// well-formed with correct stream lengths, every indirect reference "n 0 R" names an object of
// the table, every font named in a page's /Resources resolves to a /Type/Font dictionary, and a font
// selected for vertical writing is a Type0 font with /Encoding/Identity-V (horizontal: Identity-H)
// - ISO 32000-1 9.7.5.2: the writing mode comes from the CMap, and WriteText emits vertical
// advances for such text (C18 "x writing modes").
//
// The font library cannot be interpreted (table parsing, unsafe): the font is a hand-made SFNT
// shell whose library calls (Subset, Write, GlyphAdvance, Cmap.ToUnicode, Name.Get) are replaced by
// small stand-ins.  They exist only under the engine: interpreter-only observations (vAssertI).

import (
	"bytes"

	"github.com/tdewolff/canvas"
	canvasText "github.com/tdewolff/canvas/text"
	canvasFont "github.com/tdewolff/font"
)

func vhC13FontSubset(s *canvasFont.SFNT, glyphIDs []uint16, o canvasFont.SubsetOptions) (*canvasFont.SFNT, error) {
	return s, nil
}
func vhC13FontWrite(s *canvasFont.SFNT) []byte {
	if s.IsCFF {
		return []byte("OTTOprogram")
	}
	return []byte("\x00\x01\x00\x00program")
}
func vhC13FontAdvance(s *canvasFont.SFNT, g uint16) uint16   { return 500 + 10*g }
func vhC13MkToUnicode[T any](_ *T) func(*T, uint16) rune {
	return func(_ *T, g uint16) rune { return rune(0x40 + g) }
}
func vhC13MkNameGet[T any, R any](_ *T, _ func(canvasFont.NameID) []R) func(*T, canvasFont.NameID) []R {
	return func(*T, canvasFont.NameID) []R { return nil }
}
func vhC13ReplaceAll(s, old, new string) string { return vhC13Replace(s, old, new, -1) }

func vhC13FakeFont(trueType bool) *canvas.Font {
	sf := &canvasFont.SFNT{IsTrueType: trueType, IsCFF: !trueType}
	sf.Head = vhC18New(sf.Head)
	sf.Head.UnitsPerEm = 1000
	sf.Hhea = vhC18New(sf.Hhea)
	sf.OS2 = vhC18New(sf.OS2)
	sf.Post = vhC18New(sf.Post)
	sf.Name = vhC18New(sf.Name)
	sf.Cmap = vhC18New(sf.Cmap)
	vStub("!(*github.com/tdewolff/font.cmapTable).ToUnicode", vhC13MkToUnicode(sf.Cmap))
	vStub("!(*github.com/tdewolff/font.nameTable).Get", vhC13MkNameGet(sf.Name, sf.Name.Get))
	return &canvas.Font{SFNT: sf}
}

// vhC13RefsResolve: every "n 0 R" in the file names an in-use object of the table.
func vhC13RefsResolve(b []byte, d vhC13Doc) bool {
	good := true
	for i := 0; i+4 < len(b); i++ {
		if b[i] == ' ' && b[i+1] == '0' && b[i+2] == ' ' && b[i+3] == 'R' && (i+4 == len(b) || vhC13WS(b[i+4]) || vhC13Delim(b[i+4])) {
			j := i
			n, mul := 0, 1
			for j > 0 && '0' <= b[j-1] && b[j-1] <= '9' {
				j--
				n += int(b[j]-'0') * mul
				mul *= 10
			}
			if j < i {
				good = good && n > 0 && n < len(d.offsets)
			}
		}
	}
	return good
}

func VH_C13_fontdoc() {
	if !vInterp() {
		return
	}
	vhC13FontDoc(vChoose(1, 2), true, false)
}

// C18 "x writing modes": the same documents (one page), observing only the encoding of each
// selected font.
func VH_C18_fontdoc_mode() {
	if !vInterp() {
		return
	}
	vhC13FontDoc(1, false, true)
}

func vhC13FontDoc(pages int, structure, mode bool) {
	vhC13Stubs()
	vStub("!strings.ReplaceAll", vhC13ReplaceAll)
	vStub("!(*github.com/tdewolff/font.SFNT).Subset", vhC13FontSubset)
	vStub("!(*github.com/tdewolff/font.SFNT).Write", vhC13FontWrite)
	vStub("!github.com/tdewolff/font.ParseSFNT", vhC13ParseSFNT)
	vStub("!(*github.com/tdewolff/font.SFNT).GlyphAdvance", vhC13FontAdvance)
	subset := vChoose(0, 1) == 1
	// uses: bit 0 = font A horizontal, bit 1 = font A vertical, bit 2 = font B (CFF) horizontal
	uses := vChoose(1, 7)
	fa, fb := vhC13FakeFont(true), vhC13FakeFont(false)
	buf := &bytes.Buffer{}
	r := New(buf, 100, 100, &Options{Compress: false, SubsetFonts: subset})
	type sel struct {
		f        *canvas.Font
		vertical bool
	}
	var sels []sel
	if uses&1 != 0 {
		sels = append(sels, sel{fa, false})
	}
	if uses&2 != 0 {
		sels = append(sels, sel{fa, true})
	}
	if uses&4 != 0 {
		sels = append(sels, sel{fb, false})
	}
	for k := 0; k < pages; k++ {
		if k > 0 {
			r.NewPage(50, 60)
		}
		r.w.StartTextObject()
		for _, s := range sels {
			dir := canvasText.LeftToRight
			if s.vertical {
				dir = canvasText.TopToBottom
			}
			r.w.SetFont(s.f, 10, dir)
			// the glyphs a text in this font would use
			r.w.pdf.fontSubset[s.f].Get(3)
			r.w.pdf.fontSubset[s.f].Get(5)
		}
		r.w.EndTextObject()
	}
	if structure {
		r.SetInfo(vhC13Sym(vChoose(0, 1)), "", "", "", "")
	}
	// the references the writer handed out, before Close forgets nothing
	type want struct {
		ref      int
		vertical bool
	}
	var wants []want
	for _, s := range sels {
		m := r.w.pdf.fontsH
		if s.vertical {
			m = r.w.pdf.fontsV
		}
		wants = append(wants, want{int(m[s.f]), s.vertical})
	}
	err := r.Close()
	b := buf.Bytes()
	d := vhC13Open(b)
	if structure {
		vAssertI("C13.fontdoc.close_no_error", err == nil)
		vAssertI("C13.fontdoc.trailer_and_xref_readable", d.ok)
	}
	if !d.ok {
		return
	}
	if structure {
		vAssertI("C13.fontdoc.xref_entries_point_at_object_headers", d.xrefOK)
		vAssertI("C13.fontdoc.objects_wellformed_and_stream_lengths", vhC13AllObjects(b, d))
		vAssertI("C13.fontdoc.references_resolve", vhC13RefsResolve(b, d))
	}
	fontsOK, modeOK := true, true
	for _, wnt := range wants {
		if wnt.ref <= 0 || wnt.ref >= len(d.offsets) {
			fontsOK = false
			continue
		}
		es, ok := vhC13Object(b, d, wnt.ref)
		tp, _ := vhC13Find(es, "Type")
		st, _ := vhC13Find(es, "Subtype")
		en, _ := vhC13Find(es, "Encoding")
		fontsOK = fontsOK && ok && tp.kind == 'n' && tp.name == "Font" && st.kind == 'n' && st.name == "Type0"
		if wnt.vertical {
			modeOK = modeOK && en.kind == 'n' && en.name == "Identity-V"
		} else {
			modeOK = modeOK && en.kind == 'n' && en.name == "Identity-H"
		}
	}
	if structure {
		vAssertI("C13.fontdoc.reserved_numbers_hold_type0_fonts", fontsOK)
	}
	if mode {
		vAssertI("C18.fontdoc.encoding_matches_writing_mode", fontsOK && modeOK)
	}
}

// C18: "the glyph subsetter assigns each used glyph one stable code": the codes already written
// into a content stream stay valid when the same font is then used in the other writing
// direction (the horizontal and the vertical font object of a font are both written from one
// subsetter).  Fake font, font library stubbed as in the font documents above.
func VH_C18_codes_stable_across_directions() {
	if !vInterp() {
		return
	}
	vhC13Stubs()
	fa := vhC13FakeFont(true)
	buf := &bytes.Buffer{}
	r := New(buf, 100, 100, &Options{Compress: false, SubsetFonts: vChoose(0, 1) == 1})
	first := []canvasText.Direction{canvasText.LeftToRight, canvasText.TopToBottom}[vChoose(0, 1)]
	second := canvasText.TopToBottom
	if first == canvasText.TopToBottom {
		second = canvasText.LeftToRight
	}
	r.w.StartTextObject()
	r.w.SetFont(fa, 10, first)
	c5 := r.w.pdf.fontSubset[fa].Get(5)
	c3 := r.w.pdf.fontSubset[fa].Get(3)
	r.w.SetFont(fa, 12, second)
	d3 := r.w.pdf.fontSubset[fa].Get(3)
	d5 := r.w.pdf.fontSubset[fa].Get(5)
	d7 := r.w.pdf.fontSubset[fa].Get(7)
	r.w.EndTextObject()
	vAssertI("C18.codes.kept_when_the_font_is_used_in_the_other_direction", c3 == d3 && c5 == d5 && c3 != c5 && d7 != c3 && d7 != c5 && c3 != 0 && c5 != 0 && d7 != 0)
}
