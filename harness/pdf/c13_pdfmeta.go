package pdf

// C13-H1/H2: document information strings and the cross-reference table.
//
// A document is produced through the public API (New, SetInfo, SetLang, NewPage, Close) and the
// bytes written are read back by a minimal PDF reader written from PDF 32000-1:2008: the file is
// entered from its end (startxref, 7.5.5), the cross-reference table gives the object offsets
// (7.5.4), the trailer names the catalog and the information dictionary (7.5.5, 14.3.3), literal
// strings are read by the rules of 7.3.4.2 (escapes, balanced parentheses, an unescaped end-of-line
// marker reads as LF) and decoded as text strings (7.9.2.2: UTF-16BE with byte order mark, else
// PDFDocEncoding, which is the identity on the bytes used here).
//
// The writers print with fmt.Fprintf, which the engine cannot interpret: in the symbolic run it is
// replaced by vhC13Fprintf, a small formatter for the verbs the writer uses that hands the text
// to the real Write of the real target (bytes.Buffer is interpreted).  Natively the real Fprintf
// runs.  Both runs parse the bytes of the output buffer.

import (
	"bytes"
	"io"
	"time"

	"github.com/tdewolff/canvas"
)

// ---- formatter used instead of fmt.Fprintf in the symbolic run ----

func vhC13Itoa(out []byte, n int, width int) []byte {
	neg := n < 0
	if neg {
		n = -n
	}
	var tmp [24]byte
	k := 0
	for n > 0 || k == 0 {
		tmp[k] = byte('0' + n%10)
		n /= 10
		k++
	}
	if neg {
		out = append(out, '-')
	}
	for j := k; j < width; j++ {
		out = append(out, '0')
	}
	for k > 0 {
		k--
		out = append(out, tmp[k])
	}
	return out
}

// vhC13Dec prints a concrete float the way type dec does, up to rounding in the last place (the
// asserts do not depend on these digits).
func vhC13Dec(out []byte, f float64) []byte {
	if f < 0 {
		out = append(out, '-')
		f = -f
	}
	ip := int(f)
	frac := int((f-float64(ip))*1e8 + 0.5)
	if frac >= 100000000 {
		ip++
		frac -= 100000000
	}
	if ip != 0 || frac == 0 {
		out = vhC13Itoa(out, ip, 0)
	}
	if frac != 0 {
		out = append(out, '.')
		digs := vhC13Itoa(nil, frac, 8)
		n := len(digs)
		for n > 0 && digs[n-1] == '0' {
			n--
		}
		out = append(out, digs[:n]...)
	}
	return out
}

func vhC13Hex(out []byte, n uint64, width int) []byte {
	var tmp [16]byte
	k := 0
	for n > 0 || k == 0 {
		tmp[k] = "0123456789ABCDEF"[n&15]
		n >>= 4
		k++
	}
	for j := k; j < width; j++ {
		out = append(out, '0')
	}
	for k > 0 {
		k--
		out = append(out, tmp[k])
	}
	return out
}

func vhC13Arg(out []byte, a interface{}, width int) []byte {
	return vhC13ArgV(out, a, width, 'v')
}

func vhC13ArgV(out []byte, a interface{}, width int, verb byte) []byte {
	if verb == 'X' {
		switch v := a.(type) {
		case uint16:
			return vhC13Hex(out, uint64(v), width)
		case uint32:
			return vhC13Hex(out, uint64(v), width)
		case int:
			return vhC13Hex(out, uint64(v), width)
		}
	}
	switch v := a.(type) {
	case uint16:
		return vhC13Itoa(out, int(v), width)
	case uint32:
		return vhC13Itoa(out, int(v), width)
	case int:
		return vhC13Itoa(out, v, width)
	case pdfRef:
		return vhC13Itoa(out, int(v), width)
	case string:
		return append(out, v...)
	case pdfName:
		return append(out, string(v)...)
	case pdfFilter:
		return append(out, string(v)...)
	case dec:
		return vhC13Dec(out, float64(v))
	case float64:
		return vhC13Dec(out, v)
	}
	return append(out, "%!BADARG"...)
}

func vhC13Fprintf(w io.Writer, format string, a ...interface{}) (int, error) {
	out := []byte{}
	ai := 0
	for i := 0; i < len(format); i++ {
		c := format[i]
		if c != '%' || i+1 >= len(format) {
			out = append(out, c)
			continue
		}
		i++
		if format[i] == '%' {
			out = append(out, '%')
			continue
		}
		width := 0
		for i < len(format) && '0' <= format[i] && format[i] <= '9' {
			width = width*10 + int(format[i]-'0')
			i++
		}
		// verb: v, d, s or X
		verb := byte('v')
		if i < len(format) {
			verb = format[i]
		}
		if ai < len(a) {
			out = vhC13ArgV(out, a[ai], width, verb)
			ai++
		} else {
			out = append(out, "%!MISSING"...)
		}
	}
	return w.Write(out)
}

func vhC13Sprintf(format string, a ...interface{}) string {
	out := []byte{}
	ai := 0
	for i := 0; i < len(format); i++ {
		if format[i] == '%' && i+1 < len(format) && ai < len(a) {
			i++
			out = vhC13Arg(out, a[ai], 0)
			ai++
		} else {
			out = append(out, format[i])
		}
	}
	return string(out)
}

// strings.Replace(s, old, new, -1) for non-empty old (the standard library's uses assembly helpers)
func vhC13Replace(s, old, new string, n int) string {
	if len(old) == 0 || n >= 0 {
		panic("vhC13Replace: unsupported use")
	}
	out := []byte{}
	i := 0
	for i < len(s) {
		if i+len(old) <= len(s) && s[i:i+len(old)] == old {
			out = append(out, new...)
			i += len(old)
		} else {
			out = append(out, s[i])
			i++
		}
	}
	return string(out)
}

func vhC13Now() time.Time { return time.Time{} }

func vhC13TimeFormat(t time.Time, layout string) string { return "D:20000101000000Z" }

func vhC13Stubs() {
	vStub("!fmt.Fprintf", vhC13Fprintf)
	vStub("!fmt.Sprintf", vhC13Sprintf)
	vStub("!strings.Replace", vhC13Replace)
	vStub("!time.Now", vhC13Now)
	vStub("!(time.Time).Format", vhC13TimeFormat)
}

// ---- minimal PDF reader ----

type vhC13Reader struct {
	b  []byte
	i  int
	ok bool
}

func vhC13WS(c byte) bool {
	return c == ' ' || c == '\n' || c == '\r' || c == '\t' || c == '\f' || c == 0
}

func vhC13Delim(c byte) bool {
	return c == '(' || c == ')' || c == '<' || c == '>' || c == '[' || c == ']' || c == '{' || c == '}' || c == '/' || c == '%'
}

func (p *vhC13Reader) ws() {
	for p.i < len(p.b) {
		c := p.b[p.i]
		if vhC13WS(c) {
			p.i++
		} else if c == '%' {
			for p.i < len(p.b) && p.b[p.i] != '\n' && p.b[p.i] != '\r' {
				p.i++
			}
		} else {
			return
		}
	}
}

func (p *vhC13Reader) lit(s string) bool {
	if p.i+len(s) > len(p.b) {
		return false
	}
	for k := 0; k < len(s); k++ {
		if p.b[p.i+k] != s[k] {
			return false
		}
	}
	p.i += len(s)
	return true
}

func (p *vhC13Reader) uint() (int, bool) {
	n, k := 0, 0
	for p.i < len(p.b) && '0' <= p.b[p.i] && p.b[p.i] <= '9' {
		n = n*10 + int(p.b[p.i]-'0')
		p.i++
		k++
	}
	return n, k > 0
}

func (p *vhC13Reader) name() string {
	// at '/'
	p.i++
	j := p.i
	for j < len(p.b) && !vhC13WS(p.b[j]) && !vhC13Delim(p.b[j]) {
		j++
	}
	s := string(p.b[p.i:j])
	p.i = j
	return s
}

// str reads a literal string (7.3.4.2); p.i is at '('.
func (p *vhC13Reader) str() []byte {
	out := []byte{}
	p.i++
	depth := 1
	for p.i < len(p.b) {
		c := p.b[p.i]
		p.i++
		if c == '\\' {
			if p.i >= len(p.b) {
				p.ok = false
				return out
			}
			e := p.b[p.i]
			p.i++
			if e == 'n' {
				out = append(out, '\n')
			} else if e == 'r' {
				out = append(out, '\r')
			} else if e == 't' {
				out = append(out, '\t')
			} else if e == 'b' {
				out = append(out, '\b')
			} else if e == 'f' {
				out = append(out, '\f')
			} else if e == '(' || e == ')' || e == '\\' {
				out = append(out, e)
			} else if '0' <= e && e <= '7' {
				v := int(e - '0')
				for k := 0; k < 2 && p.i < len(p.b) && '0' <= p.b[p.i] && p.b[p.i] <= '7'; k++ {
					v = v*8 + int(p.b[p.i]-'0')
					p.i++
				}
				out = append(out, byte(v))
			} else if e == '\r' {
				// line continuation; CRLF counts as one end-of-line marker
				if p.i < len(p.b) && p.b[p.i] == '\n' {
					p.i++
				}
			} else if e == '\n' {
				// line continuation
			} else {
				out = append(out, e) // the REVERSE SOLIDUS is ignored
			}
		} else if c == '(' {
			depth++
			out = append(out, c)
		} else if c == ')' {
			depth--
			if depth == 0 {
				return out
			}
			out = append(out, c)
		} else if c == '\r' {
			if p.i < len(p.b) && p.b[p.i] == '\n' {
				p.i++
			}
			out = append(out, '\n')
		} else {
			out = append(out, c)
		}
	}
	p.ok = false // unterminated
	return out
}

type vhC13Entry struct {
	key   string
	kind  byte // 's' string, 'n' name, 'r' reference, 'i' integer, 'o' other
	str   []byte
	name  string
	num   int
	start int
}

// value reads one object; nested containers are skipped.
func (p *vhC13Reader) value() vhC13Entry {
	e := vhC13Entry{kind: 'o', start: p.i}
	if p.i >= len(p.b) {
		p.ok = false
		return e
	}
	c := p.b[p.i]
	switch {
	case c == '(':
		e.kind = 's'
		e.str = p.str()
	case c == '/':
		e.kind = 'n'
		e.name = p.name()
	case c == '<' && p.i+1 < len(p.b) && p.b[p.i+1] == '<':
		p.dict()
	case c == '<':
		for p.i < len(p.b) && p.b[p.i] != '>' {
			p.i++
		}
		p.i++
	case c == '[':
		p.i++
		for p.ok {
			p.ws()
			if p.i >= len(p.b) {
				p.ok = false
			} else if p.b[p.i] == ']' {
				p.i++
				break
			} else {
				p.value()
			}
		}
	case ('0' <= c && c <= '9') || c == '-' || c == '+' || c == '.':
		if c == '-' || c == '+' {
			p.i++
		}
		n, _ := p.uint()
		if p.i < len(p.b) && p.b[p.i] == '.' {
			p.i++
			p.uint()
		} else if c != '-' && c != '+' {
			e.kind = 'i'
			e.num = n
			// reference "n g R"?
			save := p.i
			p.ws()
			if _, ok := p.uint(); ok {
				p.ws()
				if p.lit("R") {
					e.kind = 'r'
				} else {
					p.i = save
				}
			} else {
				p.i = save
			}
		}
	case c == 't':
		p.ok = p.ok && p.lit("true")
	case c == 'f':
		p.ok = p.ok && p.lit("false")
	case c == 'n':
		p.ok = p.ok && p.lit("null")
	default:
		p.ok = false
	}
	return e
}

func (p *vhC13Reader) dict() []vhC13Entry {
	es := []vhC13Entry{}
	if !p.lit("<<") {
		p.ok = false
		return es
	}
	for p.ok {
		p.ws()
		if p.lit(">>") {
			return es
		}
		if p.i >= len(p.b) || p.b[p.i] != '/' {
			p.ok = false
			return es
		}
		key := p.name()
		p.ws()
		e := p.value()
		e.key = key
		es = append(es, e)
	}
	return es
}

func vhC13Find(es []vhC13Entry, key string) (vhC13Entry, bool) {
	for _, e := range es {
		if e.key == key {
			return e, true
		}
	}
	return vhC13Entry{}, false
}

// vhC13LastIndex finds the last occurrence of s; the tail of the file is concrete.
func vhC13LastIndex(b []byte, s string) int {
	for i := len(b) - len(s); i >= 0; i-- {
		m := true
		for k := 0; k < len(s) && m; k++ {
			m = b[i+k] == s[k]
		}
		if m {
			return i
		}
	}
	return -1
}

type vhC13Doc struct {
	ok      bool
	offsets []int // offsets[n] of object n (n>=1)
	size    int
	root    int
	info    int
	xrefOK  bool
}

// vhC13Open reads startxref, the cross-reference table and the trailer, and checks that every
// in-use entry n points at "n 0 obj".
func vhC13Open(b []byte) vhC13Doc {
	d := vhC13Doc{}
	sx := vhC13LastIndex(b, "startxref")
	if sx < 0 {
		return d
	}
	p := &vhC13Reader{b: b, i: sx + len("startxref"), ok: true}
	p.ws()
	xoff, ok := p.uint()
	for p.i < len(b) && vhC13WS(b[p.i]) {
		p.i++
	}
	if !ok || !p.lit("%%EOF") || xoff >= len(b) {
		return d
	}
	p.i = xoff
	if !p.lit("xref") {
		return d
	}
	p.ws()
	first, ok1 := p.uint()
	p.ws()
	count, ok2 := p.uint()
	if !ok1 || !ok2 || first != 0 {
		return d
	}
	// entries are exactly 20 bytes: "nnnnnnnnnn ggggg n eol" (7.5.4)
	for p.i < len(b) && (b[p.i] == '\r' || b[p.i] == '\n') {
		p.i++
	}
	d.offsets = make([]int, count)
	d.xrefOK = true
	for n := 0; n < count; n++ {
		if p.i+20 > len(b) {
			return d
		}
		off := 0
		for k := 0; k < 10; k++ {
			c := b[p.i+k]
			d.xrefOK = d.xrefOK && '0' <= c && c <= '9'
			off = off*10 + int(c-'0')
		}
		typ := b[p.i+17]
		d.xrefOK = d.xrefOK && b[p.i+10] == ' ' && b[p.i+16] == ' ' && (typ == 'n' || typ == 'f')
		eol0, eol1 := b[p.i+18], b[p.i+19]
		d.xrefOK = d.xrefOK && ((eol0 == ' ' && (eol1 == '\n' || eol1 == '\r')) || (eol0 == '\r' && eol1 == '\n'))
		d.xrefOK = d.xrefOK && (typ == 'f') == (n == 0)
		d.offsets[n] = off
		if typ == 'n' {
			// the object header must start exactly there
			q := &vhC13Reader{b: b, i: off, ok: true}
			num, okn := q.uint()
			hdr := okn && num == n && q.lit(" 0 obj")
			d.xrefOK = d.xrefOK && off < len(b) && hdr
		}
		p.i += 20
	}
	p.ws()
	if !p.lit("trailer") {
		return d
	}
	p.ws()
	tr := p.dict()
	if !p.ok {
		return d
	}
	sz, okS := vhC13Find(tr, "Size")
	rt, okR := vhC13Find(tr, "Root")
	in, okI := vhC13Find(tr, "Info")
	if !okS || !okR || !okI || rt.kind != 'r' || in.kind != 'r' || sz.kind != 'i' {
		return d
	}
	d.size, d.root, d.info = sz.num, rt.num, in.num
	d.ok = d.root > 0 && d.root < count && d.info > 0 && d.info < count
	return d
}

// vhC13Object reads the dictionary of object n.
func vhC13Object(b []byte, d vhC13Doc, n int) ([]vhC13Entry, bool) {
	p := &vhC13Reader{b: b, i: d.offsets[n], ok: true}
	if _, ok := p.uint(); !ok {
		return nil, false
	}
	if !p.lit(" 0 obj") {
		return nil, false
	}
	p.ws()
	es := p.dict()
	p.ws()
	return es, p.ok && p.lit("endobj")
}

// vhC13AllObjects: every object is "n 0 obj", a dictionary, optionally a stream whose /Length is
// the number of bytes between "stream" EOL and EOL "endstream" (7.3.8), then "endobj".
func vhC13AllObjects(b []byte, d vhC13Doc) bool {
	good := true
	for n := 1; n < len(d.offsets); n++ {
		p := &vhC13Reader{b: b, i: d.offsets[n], ok: true}
		if _, ok := p.uint(); !ok || !p.lit(" 0 obj") {
			return false
		}
		p.ws()
		es := p.dict()
		if !p.ok {
			return false
		}
		if p.lit("stream") {
			ln, has := vhC13Find(es, "Length")
			if !has || ln.kind != 'i' {
				return false
			}
			if !p.lit("\r\n") && !p.lit("\n") {
				return false
			}
			p.i += ln.num
			if p.i > len(b) {
				return false
			}
			p.ws()
			good = good && p.lit("endstream")
		}
		p.ws()
		good = good && p.lit("endobj")
	}
	return good
}

// vhC13Text decodes a text string (7.9.2.2) into UTF-16 code units / PDFDocEncoding bytes as runes.
func vhC13Text(s []byte) ([]rune, bool) {
	rs := []rune{}
	if len(s) >= 2 && s[0] == 0xFE && s[1] == 0xFF {
		if len(s)%2 != 0 {
			return rs, false
		}
		for i := 2; i+1 < len(s); i += 2 {
			u := rune(s[i])<<8 | rune(s[i+1])
			if 0xD800 <= u && u < 0xDC00 && i+3 < len(s) {
				u2 := rune(s[i+2])<<8 | rune(s[i+3])
				if 0xDC00 <= u2 && u2 < 0xE000 {
					u = 0x10000 + (u-0xD800)<<10 + (u2 - 0xDC00)
					i += 2
				}
			}
			rs = append(rs, u)
		}
		return rs, true
	}
	for _, c := range s {
		rs = append(rs, rune(c)) // PDFDocEncoding is the identity on TAB, LF, CR and 0x20-0x7E
	}
	return rs, true
}

// vhC13FieldIs: the entry holds exactly the text want ("" = absent or empty).
func vhC13FieldIs(es []vhC13Entry, key string, want []rune) bool {
	e, has := vhC13Find(es, key)
	if !has {
		return len(want) == 0
	}
	if e.kind != 's' {
		return false
	}
	got, ok := vhC13Text(e.str)
	if !ok || len(got) != len(want) {
		return false
	}
	same := true
	for i := range got {
		same = same && got[i] == want[i]
	}
	return same
}

// ---- inputs ----

// vhC13Sym is a string of n symbolic bytes out of TAB, LF, CR and the printable ASCII range.
func vhC13Sym(n int) string {
	b := make([]byte, n)
	for i := range b {
		c := vNondetByte()
		vAssume((0x20 <= c && c <= 0x7E) || c == '\t' || c == '\n' || c == '\r')
		b[i] = c
	}
	return string(b)
}

func vhC13Runes(s string, ascii bool) []rune {
	if ascii {
		rs := make([]rune, len(s))
		for i := 0; i < len(s); i++ {
			rs[i] = rune(s[i])
		}
		return rs
	}
	return []rune(s)
}

var vhC13Unicode = []string{
	"\u00e9t\u00e9",    // Latin-1 range
	"Dvo\u0159\u00e1k", // U+0159
	"\u010desky",       // U+010D: low byte 0x0D
	"\u0128(",          // U+0128: low byte 0x28, plus an ASCII parenthesis
	"\u015c\\",         // U+015C: low byte 0x5C, plus a backslash
	"\u20ac 5",         // Euro sign
	"\U0001F600",       // surrogate pair
	"\u0d0a",           // bytes 0D 0A
	"\u0a0d\u0129",     // bytes 0A 0D, 01 29
}

func vhC13Check(fields [6]string, ascii [6]bool, pages int) {
	vhC13Stubs()
	buf := &bytes.Buffer{}
	r := New(buf, 100, 100, &Options{Compress: false, SubsetFonts: true})
	for k := 1; k < pages; k++ {
		r.NewPage(50, 60)
		// a link annotation: nested dictionaries, an array of reals and strings with parentheses
		r.AddLink("http://example.org/a(b)c", canvas.Rect{X0: 1, Y0: 2, X1: 30.5, Y1: 4.25})
	}
	r.SetInfo(fields[0], fields[1], fields[2], fields[3], fields[4])
	r.SetLang(fields[5])
	err := r.Close()
	b := buf.Bytes()

	d := vhC13Open(b)
	vAssert("C13.close_no_error", err == nil)
	vAssert("C13.trailer_and_xref_readable", d.ok)
	if !d.ok {
		return
	}
	vAssert("C13.xref_entries_point_at_object_headers", d.xrefOK)
	vAssert("C13.xref_count_is_objects_plus_one", len(d.offsets) == d.size && d.size == 3+2*pages+1)
	vAssert("C13.objects_wellformed_and_stream_lengths", vhC13AllObjects(b, d))
	info, okI := vhC13Object(b, d, d.info)
	cat, okC := vhC13Object(b, d, d.root)
	vAssert("C13.info_and_catalog_dictionaries_wellformed", okI && okC)
	if !okI || !okC {
		return
	}
	// regions of the recorded findings: D12 /Lang is written from the creator; D13 a byte 0x0D
	// (CR in an ASCII string, or half of a UTF-16BE code unit) is written unescaped
	vKnown("D12", fields[5] != fields[4])
	cr := false
	for k := 0; k < 6; k++ {
		if ascii[k] {
			for i := 0; i < len(fields[k]); i++ {
				cr = cr || fields[k][i] == '\r'
			}
		} else {
			for _, r := range fields[k] {
				u1, u2 := r, rune(0)
				if r >= 0x10000 {
					u1, u2 = 0xD800+(r-0x10000)>>10, 0xDC00+(r-0x10000)&0x3FF
				}
				cr = cr || u1>>8 == 0x0D || u1&0xFF == 0x0D || u2>>8 == 0x0D || u2&0xFF == 0x0D
			}
		}
	}
	vKnown("D13", cr)
	tp, _ := vhC13Find(cat, "Type")
	vAssert("C13.root_is_catalog", tp.kind == 'n' && tp.name == "Catalog")
	vAssert("C13.meta.title", vhC13FieldIs(info, "Title", vhC13Runes(fields[0], ascii[0])))
	vAssert("C13.meta.subject", vhC13FieldIs(info, "Subject", vhC13Runes(fields[1], ascii[1])))
	vAssert("C13.meta.keywords", vhC13FieldIs(info, "Keywords", vhC13Runes(fields[2], ascii[2])))
	vAssert("C13.meta.author", vhC13FieldIs(info, "Author", vhC13Runes(fields[3], ascii[3])))
	vAssert("C13.meta.creator", vhC13FieldIs(info, "Creator", vhC13Runes(fields[4], ascii[4])))
	vAssert("C13.meta.lang", vhC13FieldIs(cat, "Lang", vhC13Runes(fields[5], ascii[5])))
}

// One field is a string of 0-2 (thorough: 3) symbolic ASCII bytes, the others are fixed and
// pairwise different; 1 or 2 pages.
func VH_C13_meta_ascii() {
	fields := [6]string{"T(1)", "S\\2", "K 3", "A)4", "C(5", "en-GB"}
	ascii := [6]bool{true, true, true, true, true, true}
	k := vChoose(0, 5)
	fields[k] = vhC13Sym(vChoose(0, 2+vTier()))
	vhC13Check(fields, ascii, vChoose(1, 2))
}

// One field is a concrete non-ASCII string (written as UTF-16BE), the others fixed ASCII.
func VH_C13_meta_unicode() {
	fields := [6]string{"Title", "Subject", "Key, words", "Author", "Creator", "nl-NL"}
	ascii := [6]bool{true, true, true, true, true, true}
	k := vChoose(0, 5)
	fields[k] = vhC13Unicode[vChoose(0, len(vhC13Unicode)-1)]
	ascii[k] = false
	vhC13Check(fields, ascii, 1)
}
