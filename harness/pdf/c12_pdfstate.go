package pdf

// C12-H1: PDF graphics-state cache.
//
// A PDF renderer made by the public constructor pdf.New (compression off), then TWO consecutive
// RenderPath calls with symbolic styles.  The page's content stream is read back as a list of
// tokens and run through a small PDF graphics-state interpreter written from PDF 32000-1:2008
// (8.4 graphics state, 8.5.3 path painting, 8.6.8 colour operators, 11.6.4.4 CA/ca): at every
// path-painting operator the effective fill colour, stroke colour, fill alpha, stroke alpha,
// line width, cap, join, miter limit and dash pattern must be the ones the style of that draw
// asks for.  Two draws suffice because every cache in pdfPageWriter compares against the
// previously set value only.
//
// Token list front-ends:
//   - symbolic run / interpreter self-test: fmt.Fprintf and (*bytes.Buffer).Write are replaced
//     (vStub "!…") by recorders which turn the concrete format strings and the (possibly symbolic)
//     operands into tokens;
//   - native replay: the bytes of the page buffer are lexed.
// Both give the same assert outcomes: numbers are compared with tolerance 1e-6 natively (the
// output is rounded to 8 decimals), exactly in the symbolic run.
//
// Bounds: colours are premultiplied RGBA bytes with A != 0 and R,G,B <= A; widths k/4 in
// [0.25,16]; miter limits k/4 in [1.25,16]; 0-2 dashes k/4 in [0.25,8], offset k/4 in [-8,8] and
// not below minus three periods; fill rule NonZero or EvenOdd; views identity, scale 2, scale
// (2,1); plain colours only (no gradients/patterns).  Path geometry is a fixed open or closed
// polyline and is not checked (ToPDF, Stroke, Dash are replaced in the symbolic run).

import (
	"bytes"
	"image/color"
	"io"
	"math"

	"github.com/tdewolff/canvas"
)

const (
	vhC12Num = iota
	vhC12Name
	vhC12Op
	vhC12ArrOpen
	vhC12ArrClose
	vhC12Bad
)

type vhC12Tok struct {
	kind int
	num  float64
	str  string
}

// recorded output of the symbolic run: all format strings concatenated (raw writes included;
// tokens may span calls, e.g. "f" + "*"), and the operands of their verbs in order
var vhC12Fmt string
var vhC12Args []interface{}
var vhC12Recorded bool

func vhC12IsWS(c byte) bool {
	return c == ' ' || c == '\n' || c == '\r' || c == '\t' || c == '\f' || c == 0
}

func vhC12IsDelim(c byte) bool {
	return c == '(' || c == ')' || c == '<' || c == '>' || c == '[' || c == ']' || c == '{' || c == '}' || c == '/' || c == '%'
}

// vhC12ParseNum parses [+-]?d*[.d*] (PDF 7.3.3); ok=false if s is not a number.
func vhC12ParseNum(s string) (float64, bool) {
	i := 0
	neg := false
	if i < len(s) && (s[i] == '+' || s[i] == '-') {
		neg = s[i] == '-'
		i++
	}
	mant := 0.0
	scale := 1.0
	digits := 0
	seenDot := false
	for ; i < len(s); i++ {
		c := s[i]
		if c == '.' && !seenDot {
			seenDot = true
		} else if '0' <= c && c <= '9' {
			mant = mant*10 + float64(c-'0')
			if seenDot {
				scale *= 10
			}
			digits++
		} else {
			return 0, false
		}
	}
	if digits == 0 {
		return 0, false
	}
	v := mant / scale
	if neg {
		v = -v
	}
	return v, true
}

func vhC12ArgTok(a interface{}, asName bool) vhC12Tok {
	if asName {
		switch v := a.(type) {
		case pdfName:
			return vhC12Tok{kind: vhC12Name, str: string(v)}
		case string:
			return vhC12Tok{kind: vhC12Name, str: v}
		}
		return vhC12Tok{kind: vhC12Bad}
	}
	switch v := a.(type) {
	case dec:
		return vhC12Tok{kind: vhC12Num, num: float64(v)}
	case float64:
		return vhC12Tok{kind: vhC12Num, num: v}
	case int:
		return vhC12Tok{kind: vhC12Num, num: float64(v)}
	}
	return vhC12Tok{kind: vhC12Bad}
}

// vhC12Lex appends the tokens of s.  With args != nil, s is a Printf format whose verbs (%v, %d)
// stand for one operand each; with args == nil, s is raw content-stream text ('%' starts a comment).
func vhC12Lex(s string, args []interface{}, format bool, out []vhC12Tok) []vhC12Tok {
	ai := 0
	i := 0
	for i < len(s) {
		c := s[i]
		switch {
		case vhC12IsWS(c):
			i++
		case c == '[':
			out = append(out, vhC12Tok{kind: vhC12ArrOpen})
			i++
		case c == ']':
			out = append(out, vhC12Tok{kind: vhC12ArrClose})
			i++
		case c == '%' && format:
			if i+1 < len(s) && (s[i+1] == 'v' || s[i+1] == 'd') && ai < len(args) {
				out = append(out, vhC12ArgTok(args[ai], false))
				ai++
			} else {
				out = append(out, vhC12Tok{kind: vhC12Bad})
			}
			i += 2
		case c == '%':
			for i < len(s) && s[i] != '\n' && s[i] != '\r' {
				i++
			}
		case c == '/':
			i++
			if format && i+1 < len(s) && s[i] == '%' && (s[i+1] == 'v' || s[i+1] == 's') && ai < len(args) {
				out = append(out, vhC12ArgTok(args[ai], true))
				ai++
				i += 2
			} else {
				j := i
				for j < len(s) && !vhC12IsWS(s[j]) && !vhC12IsDelim(s[j]) {
					j++
				}
				out = append(out, vhC12Tok{kind: vhC12Name, str: s[i:j]})
				i = j
			}
		case vhC12IsDelim(c):
			out = append(out, vhC12Tok{kind: vhC12Bad})
			i++
		default:
			j := i
			for j < len(s) && !vhC12IsWS(s[j]) && !vhC12IsDelim(s[j]) {
				j++
			}
			word := s[i:j]
			if v, ok := vhC12ParseNum(word); ok {
				out = append(out, vhC12Tok{kind: vhC12Num, num: v})
			} else {
				out = append(out, vhC12Tok{kind: vhC12Op, str: word})
			}
			i = j
		}
	}
	return out
}

// recorders (symbolic run and interpreter self-test only)
func vhC12Fprintf(w io.Writer, format string, a ...interface{}) (int, error) {
	vhC12Recorded = true
	vhC12Fmt = vhC12Fmt + format
	vhC12Args = append(vhC12Args, a...)
	return len(format), nil
}

func vhC12BufWrite(b *bytes.Buffer, p []byte) (int, error) {
	vhC12Recorded = true
	vhC12Fmt = vhC12Fmt + string(p) // the path data and operators written here contain no '%'
	return len(p), nil
}

// fmt.Sprintf is used by the code under test for resource names only ("A%d" etc.)
func vhC12Sprintf(format string, a ...interface{}) string {
	out := []byte{}
	ai := 0
	for i := 0; i < len(format); i++ {
		if format[i] == '%' && i+1 < len(format) && format[i+1] == 'd' && ai < len(a) {
			n, _ := a[ai].(int)
			ai++
			i++
			if n < 0 || n > 99 {
				out = append(out, '?')
			} else {
				if n >= 10 {
					out = append(out, byte('0'+n/10))
				}
				out = append(out, byte('0'+n%10))
			}
		} else {
			out = append(out, format[i])
		}
	}
	return string(out)
}

// geometry is not the subject: fixed path data with the same open/closed shape
func vhC12ToPDF(p *canvas.Path) string {
	if p.Empty() {
		return ""
	}
	if p.Closed() {
		return "0 0 m 1 0 l 1 1 l h"
	}
	return "0 0 m 1 0 l"
}

func vhC12Stroke(p *canvas.Path, w float64, cr canvas.Capper, jr canvas.Joiner, tolerance float64) *canvas.Path {
	q := &canvas.Path{}
	q.MoveTo(0, 0)
	q.LineTo(1, 0)
	q.LineTo(1, 1)
	q.Close()
	return q
}

func vhC12Dash(p *canvas.Path, offset float64, d ...float64) *canvas.Path {
	return p
}

func vhC12Stubs() {
	vhC12Fmt = ""
	vhC12Args = nil
	vhC12Recorded = false
	vStub("!fmt.Fprintf", vhC12Fprintf)
	vStub("!fmt.Sprintf", vhC12Sprintf)
	vStub("!(*bytes.Buffer).Write", vhC12BufWrite)
	vStub("!(*github.com/tdewolff/canvas.Path).ToPDF", vhC12ToPDF)
	vStub("!(*github.com/tdewolff/canvas.Path).Stroke", vhC12Stroke)
	vStub("!(*github.com/tdewolff/canvas.Path).Dash", vhC12Dash)
}

// ---- mini PDF graphics-state interpreter ----

type vhC12GS struct {
	fill, stroke [3]float64
	ca, CA       float64
	lw           float64
	cap, join    float64
	miter        float64
	dash         []float64
	phase        float64
}

type vhC12Event struct {
	fill, stroke, evenodd, closed bool
	gs                            vhC12GS
}

// vhC12RunPDF interprets toks[from:to]; gs is the state at from.  wellformed is false on an
// unknown operator or a wrong operand count.
func vhC12RunPDF(toks []vhC12Tok, gs vhC12GS, extg pdfDict) ([]vhC12Event, vhC12GS, bool) {
	evs := []vhC12Event{}
	ok := true
	nums := []float64{}
	arr := []float64{}
	inArr := false
	name := ""
	hasName := false
	lastH := false
	for _, t := range toks {
		switch t.kind {
		case vhC12Bad:
			ok = false
		case vhC12Num:
			if inArr {
				arr = append(arr, t.num)
			} else {
				nums = append(nums, t.num)
			}
		case vhC12Name:
			name = t.str
			hasName = true
		case vhC12ArrOpen:
			inArr = true
			arr = []float64{}
		case vhC12ArrClose:
			inArr = false
		case vhC12Op:
			n := len(nums)
			switch t.str {
			case "g":
				if n == 1 {
					gs.fill = [3]float64{nums[0], nums[0], nums[0]}
				} else {
					ok = false
				}
			case "G":
				if n == 1 {
					gs.stroke = [3]float64{nums[0], nums[0], nums[0]}
				} else {
					ok = false
				}
			case "rg":
				if n == 3 {
					gs.fill = [3]float64{nums[0], nums[1], nums[2]}
				} else {
					ok = false
				}
			case "RG":
				if n == 3 {
					gs.stroke = [3]float64{nums[0], nums[1], nums[2]}
				} else {
					ok = false
				}
			case "gs":
				d, found := pdfDict(nil), false
				if hasName && extg != nil {
					if v, has := extg[pdfName(name)]; has {
						d, found = v.(pdfDict)
					}
				}
				if found {
					if v, has := d["ca"]; has {
						if f, isF := v.(float64); isF {
							gs.ca = f
						} else {
							ok = false
						}
					}
					if v, has := d["CA"]; has {
						if f, isF := v.(float64); isF {
							gs.CA = f
						} else {
							ok = false
						}
					}
				} else {
					ok = false // resource name not defined in the page's ExtGState dictionary
				}
			case "w":
				if n == 1 {
					gs.lw = nums[0]
				} else {
					ok = false
				}
			case "J":
				if n == 1 {
					gs.cap = nums[0]
				} else {
					ok = false
				}
			case "j":
				if n == 1 {
					gs.join = nums[0]
				} else {
					ok = false
				}
			case "M":
				if n == 1 {
					gs.miter = nums[0]
				} else {
					ok = false
				}
			case "d":
				if n == 1 {
					gs.dash = arr
					gs.phase = nums[0]
					arr = []float64{}
				} else {
					ok = false
				}
			case "cm":
				ok = ok && n == 6
			case "m":
				ok = ok && n == 2
				lastH = false
			case "l":
				ok = ok && n == 2
				lastH = false
			case "c":
				ok = ok && n == 6
				lastH = false
			case "v", "y":
				ok = ok && n == 4
				lastH = false
			case "re":
				ok = ok && n == 4
				lastH = true
			case "h":
				ok = ok && n == 0
				lastH = true
			case "f", "F":
				evs = append(evs, vhC12Event{fill: true, closed: lastH, gs: gs})
				lastH = false
			case "f*":
				evs = append(evs, vhC12Event{fill: true, evenodd: true, closed: lastH, gs: gs})
				lastH = false
			case "S":
				evs = append(evs, vhC12Event{stroke: true, closed: lastH, gs: gs})
				lastH = false
			case "s":
				evs = append(evs, vhC12Event{stroke: true, closed: true, gs: gs})
				lastH = false
			case "B":
				evs = append(evs, vhC12Event{fill: true, stroke: true, closed: lastH, gs: gs})
				lastH = false
			case "B*":
				evs = append(evs, vhC12Event{fill: true, stroke: true, evenodd: true, closed: lastH, gs: gs})
				lastH = false
			case "b":
				evs = append(evs, vhC12Event{fill: true, stroke: true, closed: true, gs: gs})
				lastH = false
			case "b*":
				evs = append(evs, vhC12Event{fill: true, stroke: true, evenodd: true, closed: true, gs: gs})
				lastH = false
			case "n":
				lastH = false
			default:
				ok = false // not an operator of PDF 32000-1 Annex A used here (e.g. "S*")
			}
			nums = []float64{}
			hasName = false
		}
	}
	return evs, gs, ok
}

// vhC12Default is the initial graphics state of a page (PDF 32000-1 table 52/53).
func vhC12Default() vhC12GS {
	return vhC12GS{ca: 1, CA: 1, lw: 1, miter: 10, dash: []float64{}}
}

// ---- requested style ----

type vhC12Want struct {
	hasFill, hasStroke bool
	fillC, strokeC     color.RGBA
	evenodd            bool
	closed             bool
	native             bool // the stroke can be expressed with PDF stroke parameters
	width              float64
	cap, join          int
	miter              float64
	dash               []float64 // even length (odd patterns doubled), in output units
	phase              float64   // requested phase in output units (may be negative)
}

type vhC12Acc struct {
	wellformed, events                                  bool
	fillColor, fillAlpha, fillRule                      bool
	strokeColor, strokeAlpha, width, cap, join, miter   bool
	dashArray, dashPhase, closed, outlineFill, nativeOK bool
}

func vhC12NewAcc() *vhC12Acc {
	return &vhC12Acc{true, true, true, true, true, true, true, true, true, true, true, true, true, true, true, true}
}

func vhC12Eq(x, y float64) bool {
	if vSymbolic() {
		return x == y
	}
	d := x - y
	return -1e-6 <= d && d <= 1e-6
}

// PDF colours are not premultiplied (the alpha is the separate CA/ca parameter), canvas colours
// are: component = premultiplied component / alpha = R/A.  In the symbolic run the quotient is
// written (R/255)/(A/255), the same real number, so that a correct output is recognised without
// non-linear reasoning (the solver answers unknown on the cross-multiplied form).
func vhC12ColorIs(got [3]float64, c color.RGBA) bool {
	if vSymbolic() {
		a := float64(c.A) / 255.0
		return got[0] == float64(c.R)/255.0/a && got[1] == float64(c.G)/255.0/a && got[2] == float64(c.B)/255.0/a
	}
	a := float64(c.A)
	return vhC12Eq(got[0], float64(c.R)/a) && vhC12Eq(got[1], float64(c.G)/a) && vhC12Eq(got[2], float64(c.B)/a)
}

func (acc *vhC12Acc) checkFill(ev vhC12Event, want *vhC12Want) {
	acc.fillColor = acc.fillColor && vhC12ColorIs(ev.gs.fill, want.fillC)
	acc.fillAlpha = acc.fillAlpha && vhC12Eq(ev.gs.ca, float64(want.fillC.A)/255.0)
	acc.fillRule = acc.fillRule && ev.evenodd == want.evenodd
}

func (acc *vhC12Acc) checkStroke(ev vhC12Event, want *vhC12Want) {
	acc.nativeOK = acc.nativeOK && want.native
	acc.strokeColor = acc.strokeColor && vhC12ColorIs(ev.gs.stroke, want.strokeC)
	acc.strokeAlpha = acc.strokeAlpha && vhC12Eq(ev.gs.CA, float64(want.strokeC.A)/255.0)
	acc.width = acc.width && vhC12Eq(ev.gs.lw, want.width)
	acc.cap = acc.cap && ev.gs.cap == float64(want.cap)
	acc.join = acc.join && ev.gs.join == float64(want.join)
	if want.join == 0 {
		acc.miter = acc.miter && vhC12Eq(ev.gs.miter, want.miter)
	}
	acc.closed = acc.closed && ev.closed == want.closed
	// dash pattern: compare as even-length on/off sequence
	got := ev.gs.dash
	if len(got)%2 == 1 {
		got = append(append([]float64{}, got...), got...)
	}
	same := len(got) == len(want.dash)
	period := 0.0
	if same {
		for i := range got {
			same = same && vhC12Eq(got[i], want.dash[i])
			period += want.dash[i]
		}
	}
	acc.dashArray = acc.dashArray && same
	// phase: non-negative (PDF 32000-1 8.4.3.6 gives no meaning to a negative phase; Acrobat
	// rejects it) and congruent to the requested phase modulo the period
	ph := ev.gs.phase
	if len(want.dash) == 0 {
		acc.dashPhase = acc.dashPhase && ph >= 0
	} else {
		d := ph - want.phase
		cong := vhC12Eq(d, 0) || vhC12Eq(d, period) || vhC12Eq(d, 2*period) || vhC12Eq(d, 3*period) || vhC12Eq(d, 4*period)
		acc.dashPhase = acc.dashPhase && ph >= 0 && cong
	}
}

// the stroke drawn as the filled outline of the stroked path: fill paint = stroke paint, non-zero rule
func (acc *vhC12Acc) checkOutline(ev vhC12Event, want *vhC12Want) {
	acc.outlineFill = acc.outlineFill && vhC12ColorIs(ev.gs.fill, want.strokeC) &&
		vhC12Eq(ev.gs.ca, float64(want.strokeC.A)/255.0) && !ev.evenodd
}

func (acc *vhC12Acc) checkDraw(evs []vhC12Event, want *vhC12Want) {
	i := 0
	if want.hasFill && want.hasStroke && len(evs) > 0 && evs[0].fill && evs[0].stroke {
		acc.checkFill(evs[0], want)
		acc.checkStroke(evs[0], want)
		i = 1
	} else {
		if want.hasFill {
			if i < len(evs) && evs[i].fill && !evs[i].stroke {
				acc.checkFill(evs[i], want)
				i++
			} else {
				acc.events = false
			}
		}
		if want.hasStroke {
			if i < len(evs) && evs[i].stroke && !evs[i].fill {
				acc.checkStroke(evs[i], want)
				i++
			} else if i < len(evs) && evs[i].fill && !evs[i].stroke {
				acc.checkOutline(evs[i], want)
				i++
			} else {
				acc.events = false
			}
		}
	}
	if i != len(evs) {
		acc.events = false
	}
}

func (acc *vhC12Acc) assertAll() {
	vAssert("C12.pdf.operators_wellformed", acc.wellformed)
	vAssert("C12.pdf.paint_events", acc.events)
	vAssert("C12.pdf.fill_color", acc.fillColor)
	vAssert("C12.pdf.fill_alpha", acc.fillAlpha)
	vAssert("C12.pdf.fill_rule", acc.fillRule)
	vAssert("C12.pdf.stroke_color", acc.strokeColor)
	vAssert("C12.pdf.stroke_alpha", acc.strokeAlpha)
	vAssert("C12.pdf.line_width", acc.width)
	vAssert("C12.pdf.line_cap", acc.cap)
	vAssert("C12.pdf.line_join", acc.join)
	vAssert("C12.pdf.miter_limit", acc.miter)
	vAssert("C12.pdf.dash_array", acc.dashArray)
	vAssert("C12.pdf.dash_phase", acc.dashPhase)
	vAssert("C12.pdf.stroke_closed", acc.closed)
	vAssert("C12.pdf.outline_fill", acc.outlineFill)
	vAssert("C12.pdf.native_stroke_only_if_expressible", acc.nativeOK)
}

// ---- style generators ----

func vhC12Path(closed bool) *canvas.Path {
	p := &canvas.Path{}
	p.MoveTo(0, 0)
	p.LineTo(10, 0)
	p.LineTo(10, 10)
	if closed {
		p.Close()
	}
	return p
}

// a present (A != 0), valid premultiplied colour
// grey: 0 not grey, 1 grey (R=G=B), 2 free
func vhC12Color(grey int) color.RGBA {
	c := color.RGBA{vNondetByte(), vNondetByte(), vNondetByte(), vNondetByte()}
	vAssume(c.A != 0 && c.R <= c.A && c.G <= c.A && c.B <= c.A)
	if grey == 0 {
		vAssume(c.R != c.G)
	} else if grey == 1 {
		vAssume(c.R == c.G && c.R == c.B)
	}
	return c
}

// width on the grid k/4 in [0.25, 16]
func vhC12Width() float64 {
	w := vNondetDyadic(8, 2)
	vAssume(0.25 <= w && w <= 16)
	return w
}

var vhC12Red = color.RGBA{200, 40, 20, 255}
var vhC12Blue = color.RGBA{10, 30, 220, 255}

// vhC12Matrix: 0 identity, 1 uniform scale 2 (similarity), 2 non-uniform scale (not a similarity)
func vhC12Matrix(k int) (canvas.Matrix, float64, bool) {
	switch k {
	case 1:
		return canvas.Identity.Scale(2, 2), 2, true
	case 2:
		return canvas.Identity.Scale(2, 1), 0, false
	}
	return canvas.Identity, 1, true
}

// vhC12Joiner: 0 bevel, 1 round, 2 miter with bevel fallback and symbolic limit, 3 arcs (not
// expressible), 4 miter-clip (not expressible), 5 miter without limit (not expressible)
func vhC12Joiner(k int) (canvas.Joiner, int, float64, bool) {
	switch k {
	case 0:
		return canvas.BevelJoin, 2, 0, true
	case 1:
		return canvas.RoundJoin, 1, 0, true
	case 2:
		lim := vNondetDyadic(8, 2)
		vAssume(1.25 <= lim && lim <= 16)
		return canvas.MiterJoiner{GapJoiner: canvas.BevelJoin, Limit: lim}, 0, lim, true
	case 3:
		return canvas.ArcsJoin, -1, 0, false
	case 4:
		return canvas.MiterClipJoin, -1, 0, false
	}
	return canvas.MiterJoiner{GapJoiner: canvas.BevelJoin, Limit: math.NaN()}, -1, 0, false
}

func vhC12Capper(k int) (canvas.Capper, int) {
	switch k {
	case 1:
		return canvas.RoundCap, 1
	case 2:
		return canvas.SquareCap, 2
	}
	return canvas.ButtCap, 0
}

// vhC12Dashes: n entries on the grid k/4 in [0.25, 8]; offset on the grid k/4 in [-8, 8].
func vhC12Dashes(n int) (float64, []float64) {
	d := make([]float64, n)
	for i := range d {
		d[i] = vNondetDyadic(7, 2)
		vAssume(0.25 <= d[i] && d[i] <= 8)
	}
	off := 0.0
	if n > 0 {
		// a negative offset is at most three periods (period of the even-length pattern), so
		// that the writer's "add the period until non-negative" loop is bounded
		period := 0.0
		for i := range d {
			period += d[i]
		}
		if n%2 == 1 {
			period *= 2
		}
		off = vNondetDyadic(7, 2)
		vAssume(-8 <= off && off <= 8 && -3*period <= off)
	}
	return off, d
}

// vhC12Finish fills the derived fields of want from the style, matrix scale and expressibility.
func vhC12Finish(want *vhC12Want, st canvas.Style, scale float64, similar bool, joinOK bool, cap, join int, miter float64) {
	want.hasFill = st.HasFill()
	want.hasStroke = st.HasStroke()
	want.fillC = st.Fill.Color
	want.strokeC = st.Stroke.Color
	want.evenodd = st.FillRule == canvas.EvenOdd
	want.native = similar && joinOK
	want.width = st.StrokeWidth * scale
	want.cap, want.join, want.miter = cap, join, miter
	// the rasterizer dashes the path with Dashes*StrokeWidth and DashOffset*StrokeWidth before the
	// view is applied (rasterizer.go:90-94); under a similarity of factor scale this is the same
	// as dashing with scale times these lengths afterwards
	d := st.Dashes
	if len(d)%2 == 1 {
		d = append(append([]float64{}, d...), d...)
	}
	want.dash = make([]float64, len(d))
	for i := range d {
		want.dash[i] = d[i] * st.StrokeWidth * scale
	}
	want.phase = st.DashOffset * st.StrokeWidth * scale
}

type vhC12Draw struct {
	path  *canvas.Path
	style canvas.Style
	m     canvas.Matrix
	want  vhC12Want
}

// vhC12Run renders the draws on a fresh renderer and checks every draw.
func vhC12Run(draws []*vhC12Draw) {
	vhC12Stubs()
	buf := &bytes.Buffer{}
	r := New(buf, 100, 100, &Options{Compress: false, SubsetFonts: true, ImageEncoding: canvas.Lossless})
	prev, prevArgs := r.w.Len(), 0
	if vhC12Recorded {
		prev, prevArgs = len(vhC12Fmt), len(vhC12Args)
	}
	marks := make([]int, len(draws))
	markArgs := make([]int, len(draws))
	for i, d := range draws {
		r.RenderPath(d.path, d.style, d.m)
		if vhC12Recorded {
			marks[i], markArgs[i] = len(vhC12Fmt), len(vhC12Args)
		} else {
			marks[i] = r.w.Len()
		}
	}
	var extg pdfDict
	if v, ok := r.w.resources["ExtGState"]; ok {
		extg, _ = v.(pdfDict)
	}
	acc := vhC12NewAcc()
	gs := vhC12Default()
	for i, d := range draws {
		var toks []vhC12Tok
		if vhC12Recorded {
			toks = vhC12Lex(vhC12Fmt[prev:marks[i]], vhC12Args[prevArgs:markArgs[i]], true, nil)
			prevArgs = markArgs[i]
		} else {
			toks = vhC12Lex(string(r.w.Bytes()[prev:marks[i]]), nil, false, nil)
		}
		prev = marks[i]
		evs, ngs, ok := vhC12RunPDF(toks, gs, extg)
		gs = ngs
		acc.wellformed = acc.wellformed && ok
		acc.checkDraw(evs, &d.want)
	}
	vKnown("D9", vhC12RegionD9(draws))
	vKnown("D47", vhC12RegionSStar(draws))
	acc.assertAll()
}

// ---- regions of the recorded findings (see known_findings.txt) ----

func vhC12Sel(c bool, a, b uint8) uint8 {
	r := b
	if c {
		r = a
	}
	return r
}

// D9: SetFill/SetStroke return early when the paint equals the one last set for the same kind
// (initially opaque black) although the alpha selected last (by either kind; one ExtGState sets
// both CA and ca) is a different one.  The region replays exactly that: which alpha is in force
// at each painting operator.
func vhC12RegionD9(draws []*vhC12Draw) bool {
	cf, cs := color.RGBA{0, 0, 0, 255}, color.RGBA{0, 0, 0, 255}
	al := uint8(255)
	bad := false
	for _, d := range draws {
		w := &d.want
		if w.hasFill && w.hasStroke && w.native {
			alF := vhC12Sel(w.fillC == cf, al, w.fillC.A)
			alS := vhC12Sel(w.strokeC == cs, alF, w.strokeC.A)
			same := w.fillC.A == w.strokeC.A
			badSame := alS != w.fillC.A
			badDiff := alF != w.fillC.A || alS != w.strokeC.A
			bad = bad || (same && badSame) || (!same && badDiff)
			cf, cs, al = w.fillC, w.strokeC, alS
			continue
		}
		if w.hasFill {
			al = vhC12Sel(w.fillC == cf, al, w.fillC.A)
			bad = bad || al != w.fillC.A
			cf = w.fillC
		}
		if w.hasStroke && w.native {
			al = vhC12Sel(w.strokeC == cs, al, w.strokeC.A)
			bad = bad || al != w.strokeC.A
			cs = w.strokeC
		} else if w.hasStroke {
			al = vhC12Sel(w.strokeC == cf, al, w.strokeC.A)
			bad = bad || al != w.strokeC.A
			cf = w.strokeC
		}
	}
	return bad
}

// DX_SSTAR (provisional id): with the even-odd fill rule, "*" is appended to S/s when the stroke is painted by its own
// operator: stroke-only draws, and fill+stroke draws whose alphas differ (fill and stroke are then
// painted separately).
func vhC12RegionSStar(draws []*vhC12Draw) bool {
	bad := false
	for _, d := range draws {
		w := &d.want
		if w.hasStroke && w.native {
			if !w.hasFill {
				bad = bad || w.evenodd
			} else {
				bad = bad || (w.evenodd && w.fillC.A != w.strokeC.A)
			}
		}
	}
	return bad
}

// ---- harnesses ----

// paint: fill/stroke presence x symbolic premultiplied RGBA x fill rule; butt cap, bevel join,
// no dashes, identity view, widths 1.5 and 2.5 (symbolic widths: VH_C12_pdf_line_Q).
// Quick tier: all colours of a run are non-grey (rg/RG) or all grey (g/G); the first draw uses a
// closed path and the non-zero rule, the second an open path and a symbolic rule (the fill rule
// and the closing are part of the painting operator, not of the graphics state).  Thorough tier:
// grey-ness free per colour, rule symbolic in both draws, closed path first or second.
func VH_C12_pdf_paint_Q() {
	closedFirst := true
	grey := 2 // free
	if vTier() == 0 {
		grey = vChoose(0, 1)
	} else {
		closedFirst = vChoose(0, 1) == 1
	}
	draws := []*vhC12Draw{}
	for k := 0; k < 2; k++ {
		mode := vChoose(0, 2) // 0 fill, 1 stroke, 2 both
		st := canvas.DefaultStyle
		st.Fill = canvas.Paint{}
		st.Stroke = canvas.Paint{}
		if mode != 1 {
			st.Fill = canvas.Paint{Color: vhC12Color(grey)}
		}
		if mode != 0 {
			st.Stroke = canvas.Paint{Color: vhC12Color(grey)}
		}
		st.StrokeWidth = 1.5 + float64(k)
		st.StrokeJoiner = canvas.BevelJoin
		rule := canvas.NonZero
		if k == 1 || vTier() == 1 {
			if vNondetBool() {
				rule = canvas.EvenOdd
			}
		}
		st.FillRule = rule
		closed := closedFirst == (k == 0)
		d := &vhC12Draw{path: vhC12Path(closed), style: st, m: canvas.Identity}
		d.want.closed = closed
		vhC12Finish(&d.want, st, 1, true, true, 0, 2, 0)
		d.want.hasFill, d.want.hasStroke = mode != 1, mode != 0
		draws = append(draws, d)
	}
	vhC12Run(draws)
}

// line: stroke-only draws, opaque fixed colours; cap x join (incl. joins PDF cannot express) x
// symbolic miter limit x symbolic width; view identity or uniform scale.
func VH_C12_pdf_line_Q() {
	draws := []*vhC12Draw{}
	mk := vChoose(0, 1)
	for k := 0; k < 2; k++ {
		st := canvas.DefaultStyle
		st.Fill = canvas.Paint{}
		st.Stroke = canvas.Paint{Color: vhC12Red}
		st.StrokeWidth = vhC12Width()
		capper, capN := vhC12Capper(vChoose(0, 2))
		joiner, joinN, miter, joinOK := vhC12Joiner(vChoose(0, 3+2*vTier()))
		st.StrokeCapper = capper
		st.StrokeJoiner = joiner
		m, scale, similar := vhC12Matrix(mk)
		d := &vhC12Draw{path: vhC12Path(false), style: st, m: m}
		vhC12Finish(&d.want, st, scale, similar, joinOK, capN, joinN, miter)
		draws = append(draws, d)
	}
	vhC12Run(draws)
}

// dash: stroke-only draws with 0-2 symbolic dashes and symbolic offset and width; view identity,
// uniform scale or non-similarity (outline fallback), the same for both draws in the quick tier.
func VH_C12_pdf_dash_Q() {
	draws := []*vhC12Draw{}
	mk := vChoose(0, 2)
	for k := 0; k < 2; k++ {
		st := canvas.DefaultStyle
		st.Fill = canvas.Paint{}
		st.Stroke = canvas.Paint{Color: vhC12Blue}
		st.StrokeWidth = vhC12Width()
		st.DashOffset, st.Dashes = vhC12Dashes(vChoose(0, 2))
		if vTier() == 1 && k == 1 {
			mk = vChoose(0, 2)
		}
		m, scale, similar := vhC12Matrix(mk)
		d := &vhC12Draw{path: vhC12Path(false), style: st, m: m}
		vhC12Finish(&d.want, st, scale, similar, true, 0, 0, 4)
		draws = append(draws, d)
	}
	vhC12Run(draws)
}

// aba: three stroke-only draws A, B, A with the same style object for the first and the third:
// a cache that is not updated on one branch (e.g. when going back to a solid line) makes the
// third draw compare equal to a stale value.  B differs from A in dashes (solid), width, cap and
// join as chosen.
func VH_C12_pdf_aba_Q() {
	mkStyle := func(dashed bool, w float64, capK, joinK int) (canvas.Style, int, int, float64, bool) {
		st := canvas.DefaultStyle
		st.Fill = canvas.Paint{}
		st.Stroke = canvas.Paint{Color: vhC12Blue}
		st.StrokeWidth = w
		capper, capN := vhC12Capper(capK)
		joiner, joinN, miter, joinOK := vhC12Joiner(joinK)
		st.StrokeCapper = capper
		st.StrokeJoiner = joiner
		if dashed {
			st.DashOffset, st.Dashes = vhC12Dashes(2)
		}
		return st, capN, joinN, miter, joinOK
	}
	wA, wB := vhC12Width(), vhC12Width()
	capA, joinA := 0, vChoose(0, 1)
	capB, joinB := capA, joinA
	if vChoose(0, 1) == 1 {
		capB, joinB = (capA+1)%3, (joinA+1)%3
	}
	dashedB := vChoose(0, 1) == 1
	stA, capNA, joinNA, miterA, okA := mkStyle(true, wA, capA, joinA)
	stB, capNB, joinNB, miterB, okB := mkStyle(dashedB, wB, capB, joinB)
	draws := []*vhC12Draw{}
	for k := 0; k < 3; k++ {
		st, capN, joinN, miter, ok := stA, capNA, joinNA, miterA, okA
		if k == 1 {
			st, capN, joinN, miter, ok = stB, capNB, joinNB, miterB, okB
		}
		d := &vhC12Draw{path: vhC12Path(false), style: st, m: canvas.Identity}
		vhC12Finish(&d.want, st, 1, true, ok, capN, joinN, miter)
		draws = append(draws, d)
	}
	vhC12Run(draws)
}

// ops: one or two draws over the full matrix closed x fill rule x {fill, stroke, both} x
// {same alpha, different alpha}: the painting operator must realise the requested fill rule and
// close the stroked subpath exactly when the path is closed.
func VH_C12_pdf_ops_Q() {
	draws := []*vhC12Draw{}
	n := 1 + vChoose(0, 1)
	for k := 0; k < n; k++ {
		mode := vChoose(0, 2)
		closed := vChoose(0, 1) == 1
		rule := canvas.NonZero
		if vChoose(0, 1) == 1 {
			rule = canvas.EvenOdd
		}
		st := canvas.DefaultStyle
		st.Fill = canvas.Paint{}
		st.Stroke = canvas.Paint{}
		if mode != 1 {
			st.Fill = canvas.Paint{Color: vhC12Red}
		}
		if mode != 0 {
			st.Stroke = canvas.Paint{Color: vhC12Blue}
			if vChoose(0, 1) == 1 {
				st.Stroke = canvas.Paint{Color: color.RGBA{0, 0, 100, 128}} // translucent: alpha differs from the fill's
			}
		}
		st.StrokeWidth = 1.5
		st.StrokeJoiner = canvas.BevelJoin
		st.FillRule = rule
		d := &vhC12Draw{path: vhC12Path(closed), style: st, m: canvas.Identity}
		d.want.closed = closed
		vhC12Finish(&d.want, st, 1, true, true, 0, 2, 0)
		d.want.hasFill, d.want.hasStroke = mode != 1, mode != 0
		draws = append(draws, d)
	}
	vhC12Run(draws)
}
