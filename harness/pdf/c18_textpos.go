package pdf

import (
	"bytes"

	"github.com/tdewolff/canvas"
)

// C18: "advances the pen by the laid-out advances ... agree on where the text is": the text matrix.
// SetTextPosition caches the current text matrix and writes either a relative move (Td, when the
// linear part is unchanged) or a full matrix (Tm).  One step from any cached matrix P (table of 5,
// incl. rotation, mirror and shear, with symbolic translation) to any target M (same or another
// linear part, symbolic translation): interpreting the operator written by ISO 32000-1 9.4.2
// (Td: Tm = Tlm = [1 0 0 1 tx ty] x Tlm;  Tm: Tm = Tlm = [a b c d e f]) starting from P yields M.
// A second call to the same target writes nothing.  Tokens: Fprintf recorder under the engine,
// lexer of the page buffer natively (the C12 front-ends).

var vhC18Lin = [][4]float64{{1, 0, 0, 1}, {2, 0, 0, 2}, {0, 1, -1, 0}, {1, 0, 0, -1}, {1, 0, 0.5, 1}}

func vhC18Mat(k int, tx, ty float64) canvas.Matrix {
	l := vhC18Lin[k]
	// canvas.Matrix rows: [a c e; b d f] for the PDF matrix [a b c d e f]
	return canvas.Matrix{{l[0], l[2], tx}, {l[1], l[3], ty}}
}

func VH_C18_textposition_Q() {
	vhC12Stubs()
	kp := vChoose(0, len(vhC18Lin)-1)
	km := vChoose(0, len(vhC18Lin)-1)
	px, py, mx, my := vNondetF64(), vNondetF64(), vNondetF64(), vNondetF64()
	vAssume(-50 <= px && px <= 50 && -50 <= py && py <= 50 && -50 <= mx && mx <= 50 && -50 <= my && my <= 50)
	// general position for the Equal() decisions on the translation
	vAssume((mx == px || mx-px >= 1e-6 || px-mx >= 1e-6) && (my == py || my-py >= 1e-6 || py-my >= 1e-6))
	P, M := vhC18Mat(kp, px, py), vhC18Mat(km, mx, my)
	buf := &bytes.Buffer{}
	r := New(buf, 100, 100, &Options{Compress: false, SubsetFonts: true})
	w := r.w
	w.StartTextObject()
	w.textPosition = P
	mark, markArgs := w.Len(), len(vhC12Args)
	if vhC12Recorded {
		mark = len(vhC12Fmt)
	}
	w.SetTextPosition(M)
	var toks []vhC12Tok
	if vhC12Recorded {
		toks = vhC12Lex(vhC12Fmt[mark:], vhC12Args[markArgs:], true, nil)
	} else {
		toks = vhC12Lex(string(w.Bytes()[mark:]), nil, false, nil)
	}
	// interpret
	cur := P
	ok := true
	var nums []float64
	for _, t := range toks {
		switch t.kind {
		case vhC12Num:
			nums = append(nums, t.num)
		case vhC12Op:
			switch t.str {
			case "Td":
				if len(nums) != 2 {
					ok = false
				} else {
					// [1 0 0 1 tx ty] x Tlm: the translation is applied in text space
					d := cur.Dot(canvas.Point{X: nums[0], Y: nums[1]})
					cur[0][2], cur[1][2] = d.X, d.Y
				}
			case "Tm":
				if len(nums) != 6 {
					ok = false
				} else {
					cur = canvas.Matrix{{nums[0], nums[2], nums[4]}, {nums[1], nums[3], nums[5]}}
				}
			default:
				ok = false
			}
			nums = nil
		default:
			ok = false
		}
	}
	near := func(a, b float64) bool { return a-b <= 1e-6 && b-a <= 1e-6 }
	same := true
	for i := 0; i < 2; i++ {
		for j := 0; j < 3; j++ {
			same = same && near(cur[i][j], M[i][j])
		}
	}
	vAssert("C18.textposition.operators_wellformed", ok && len(nums) == 0)
	vAssert("C18.textposition.text_matrix_is_the_target", same)
	// idempotent: asking for the same position again writes nothing
	m2, a2 := w.Len(), len(vhC12Args)
	if vhC12Recorded {
		m2 = len(vhC12Fmt)
	}
	w.SetTextPosition(M)
	if vhC12Recorded {
		vAssert("C18.textposition.second_call_writes_nothing", len(vhC12Fmt) == m2 && len(vhC12Args) == a2)
	} else {
		vAssert("C18.textposition.second_call_writes_nothing", w.Len() == m2)
	}
}
