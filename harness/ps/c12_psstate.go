package ps

// C12-H2: PostScript graphics-state cache.
//
// A PS renderer made by the public constructor ps.New, then TWO consecutive RenderPath calls with
// symbolic styles.  The emitted program text is read back as a token list and run through a small
// PostScript graphics-state interpreter written from the PLRM 3rd ed. (4.8 colour, 4.5/8.2
// setlinewidth/setlinecap/setlinejoin/setmiterlimit/setdash, gsave/grestore, fill/eofill/stroke
// consume the current path): at every painting operator the current colour, line width, cap,
// join, miter limit and dash pattern must be the ones the style of that draw asks for.
// PostScript has no alpha (documented on type PS): the requested colour is the un-premultiplied
// 8-bit colour, as defined by image/color's NRGBAModel.
//
// Token list front-ends: as in harness/pdf/c12_pdfstate.go (recorders for fmt.Fprintf and
// (*bytes.Buffer).Write in the symbolic run, lexing the written bytes natively).
//
// Bounds: premultiplied colours with symbolic R,G,B <= A and A in {255,128} (quick tier: one
// alpha and one grey-ness per run); widths k/4 in [0.25,16]; miter limits k/4
// in [1.25,16]; 0-2 dashes k/4 in [0.25,8], offset k/4 in [-8,8] and not below minus three
// periods; fill rule NonZero or EvenOdd; views identity, scale 2, scale (2,1); plain colours only.
// Path geometry is a fixed polyline and is not checked (ToPS, Stroke, Dash are replaced in the
// symbolic run; toNRGBA by an equal function, see vhC12ToNRGBA and VH_C12_ps_tonrgba_lemma).

import (
	"bytes"
	"image/color"
	"io"
	"math"
	"time"

	"github.com/tdewolff/canvas"
)

const (
	vhC12Num = iota
	vhC12Name
	vhC12Op
	vhC12ArrOpen
	vhC12ArrClose
	vhC12Bad
)

type vhC12Tok struct {
	kind int
	num  float64
	str  string
}

// recorded output of the symbolic run: all format strings concatenated (raw writes included;
// tokens may span calls, e.g. "f" + "*"), and the operands of their verbs in order
var vhC12Fmt string
var vhC12Args []interface{}
var vhC12Recorded bool

func vhC12IsWS(c byte) bool {
	return c == ' ' || c == '\n' || c == '\r' || c == '\t' || c == '\f' || c == 0
}

func vhC12IsDelim(c byte) bool {
	return c == '(' || c == ')' || c == '<' || c == '>' || c == '[' || c == ']' || c == '{' || c == '}' || c == '/' || c == '%'
}

// vhC12ParseNum parses [+-]?d*[.d*] (PDF 7.3.3); ok=false if s is not a number.
func vhC12ParseNum(s string) (float64, bool) {
	i := 0
	neg := false
	if i < len(s) && (s[i] == '+' || s[i] == '-') {
		neg = s[i] == '-'
		i++
	}
	mant := 0.0
	scale := 1.0
	digits := 0
	seenDot := false
	for ; i < len(s); i++ {
		c := s[i]
		if c == '.' && !seenDot {
			seenDot = true
		} else if '0' <= c && c <= '9' {
			mant = mant*10 + float64(c-'0')
			if seenDot {
				scale *= 10
			}
			digits++
		} else {
			return 0, false
		}
	}
	if digits == 0 {
		return 0, false
	}
	v := mant / scale
	if neg {
		v = -v
	}
	return v, true
}

func vhC12ArgTok(a interface{}, asName bool) vhC12Tok {
	if asName {
		switch v := a.(type) {
		case string:
			return vhC12Tok{kind: vhC12Name, str: v}
		}
		return vhC12Tok{kind: vhC12Bad}
	}
	switch v := a.(type) {
	case dec:
		return vhC12Tok{kind: vhC12Num, num: float64(v)}
	case float64:
		return vhC12Tok{kind: vhC12Num, num: v}
	case int:
		return vhC12Tok{kind: vhC12Num, num: float64(v)}
	}
	return vhC12Tok{kind: vhC12Bad}
}

// vhC12Lex appends the tokens of s.  With args != nil, s is a Printf format whose verbs (%v, %d)
// stand for one operand each; with args == nil, s is raw content-stream text ('%' starts a comment).
func vhC12Lex(s string, args []interface{}, format bool, out []vhC12Tok) []vhC12Tok {
	ai := 0
	i := 0
	for i < len(s) {
		c := s[i]
		switch {
		case vhC12IsWS(c):
			i++
		case c == '[':
			out = append(out, vhC12Tok{kind: vhC12ArrOpen})
			i++
		case c == ']':
			out = append(out, vhC12Tok{kind: vhC12ArrClose})
			i++
		case c == '%' && format:
			if i+1 < len(s) && (s[i+1] == 'v' || s[i+1] == 'd') && ai < len(args) {
				out = append(out, vhC12ArgTok(args[ai], false))
				ai++
			} else {
				out = append(out, vhC12Tok{kind: vhC12Bad})
			}
			i += 2
		case c == '%':
			for i < len(s) && s[i] != '\n' && s[i] != '\r' {
				i++
			}
		case c == '/':
			i++
			if format && i+1 < len(s) && s[i] == '%' && (s[i+1] == 'v' || s[i+1] == 's') && ai < len(args) {
				out = append(out, vhC12ArgTok(args[ai], true))
				ai++
				i += 2
			} else {
				j := i
				for j < len(s) && !vhC12IsWS(s[j]) && !vhC12IsDelim(s[j]) {
					j++
				}
				out = append(out, vhC12Tok{kind: vhC12Name, str: s[i:j]})
				i = j
			}
		case vhC12IsDelim(c):
			out = append(out, vhC12Tok{kind: vhC12Bad})
			i++
		default:
			j := i
			for j < len(s) && !vhC12IsWS(s[j]) && !vhC12IsDelim(s[j]) {
				j++
			}
			word := s[i:j]
			if v, ok := vhC12ParseNum(word); ok {
				out = append(out, vhC12Tok{kind: vhC12Num, num: v})
			} else {
				out = append(out, vhC12Tok{kind: vhC12Op, str: word})
			}
			i = j
		}
	}
	return out
}

func vhC12Fprintf(w io.Writer, format string, a ...interface{}) (int, error) {
	vhC12Recorded = true
	vhC12Fmt = vhC12Fmt + format
	vhC12Args = append(vhC12Args, a...)
	return len(format), nil
}

func vhC12Fprint(w io.Writer, a ...interface{}) (int, error) {
	vhC12Recorded = true
	vhC12Fmt = vhC12Fmt + " "
	return 1, nil
}

func vhC12BufWrite(b *bytes.Buffer, p []byte) (int, error) {
	vhC12Recorded = true
	vhC12Fmt = vhC12Fmt + string(p) // the path data and operators written here contain no '%'
	return len(p), nil
}

func vhC12Now() time.Time { return time.Time{} }

func vhC12TimeFormat(t time.Time, layout string) string { return "now" }

// geometry is not the subject: fixed path data with the same open/closed shape
func vhC12ToPS(p *canvas.Path) string {
	if p.Empty() {
		return ""
	}
	if p.Closed() {
		return "0 0 moveto 1 0 lineto 1 1 lineto closepath"
	}
	return "0 0 moveto 1 0 lineto"
}

func vhC12Stroke(p *canvas.Path, w float64, cr canvas.Capper, jr canvas.Joiner, tolerance float64) *canvas.Path {
	q := &canvas.Path{}
	q.MoveTo(0, 0)
	q.LineTo(1, 0)
	q.LineTo(1, 1)
	q.Close()
	return q
}

func vhC12Dash(p *canvas.Path, offset float64, d ...float64) *canvas.Path {
	return p
}

// vhC12ToNRGBA replaces toNRGBA in the symbolic run: the same function, except that the values
// for alpha 255 and alpha 128 are written without the 32-bit multiplication and division (which
// cost the solver about a second per query): an opaque colour is its own un-premultiplied form,
// and for alpha 128 a component x <= 128 becomes 2x-1 (0 for 0).  VH_C12_ps_tonrgba_lemma proves
// the two functions equal on all valid premultiplied colours with these alphas.
func vhC12Half(x uint8) uint8 {
	d := uint8(0)
	if x != 0 {
		d = 1
	}
	return 2*x - d
}

func vhC12ToNRGBA(col color.Color) color.NRGBA {
	if c, ok := col.(color.RGBA); ok && c.A == 255 {
		return color.NRGBA{R: c.R, G: c.G, B: c.B, A: 255}
	} else if ok && c.A == 128 {
		return color.NRGBA{R: vhC12Half(c.R), G: vhC12Half(c.G), B: vhC12Half(c.B), A: 128}
	}
	r, g, b, a := col.RGBA()
	if a == 0 {
		return color.NRGBA{}
	}
	r = (r * 0xffff) / a
	g = (g * 0xffff) / a
	b = (b * 0xffff) / a
	return color.NRGBA{R: uint8(r >> 8), G: uint8(g >> 8), B: uint8(b >> 8), A: uint8(a >> 8)}
}

func vhC12Stubs() {
	vhC12Fmt = ""
	vhC12Args = nil
	vhC12Recorded = false
	vStub("!fmt.Fprintf", vhC12Fprintf)
	vStub("!fmt.Fprint", vhC12Fprint)
	vStub("github.com/tdewolff/canvas/renderers/ps.toNRGBA", vhC12ToNRGBA)
	vStub("!time.Now", vhC12Now)
	vStub("!(time.Time).Format", vhC12TimeFormat)
	vStub("!(*bytes.Buffer).Write", vhC12BufWrite)
	vStub("!(*github.com/tdewolff/canvas.Path).ToPS", vhC12ToPS)
	vStub("!(*github.com/tdewolff/canvas.Path).Stroke", vhC12Stroke)
	vStub("!(*github.com/tdewolff/canvas.Path).Dash", vhC12Dash)
}

// ---- mini PostScript graphics-state interpreter ----

type vhC12GS struct {
	col       [3]float64
	lw        float64
	cap, join float64
	miter     float64
	dash      []float64
	phase     float64
	hasPath   bool
	closed    bool
}

type vhC12Event struct {
	fill, stroke, evenodd bool
	gs                    vhC12GS
}

func vhC12RunPS(toks []vhC12Tok, gs vhC12GS) ([]vhC12Event, vhC12GS, bool) {
	evs := []vhC12Event{}
	ok := true
	stack := []vhC12GS{}
	nums := []float64{}
	arr := []float64{}
	hasArr := false
	inArr := false
	for _, t := range toks {
		switch t.kind {
		case vhC12Bad, vhC12Name:
			ok = false
		case vhC12Num:
			if inArr {
				arr = append(arr, t.num)
			} else {
				nums = append(nums, t.num)
			}
		case vhC12ArrOpen:
			inArr = true
			arr = []float64{}
		case vhC12ArrClose:
			inArr = false
			hasArr = true
		case vhC12Op:
			n := len(nums)
			switch t.str {
			case "setgray":
				if n == 1 {
					gs.col = [3]float64{nums[0], nums[0], nums[0]}
				} else {
					ok = false
				}
			case "setrgbcolor":
				if n == 3 {
					gs.col = [3]float64{nums[0], nums[1], nums[2]}
				} else {
					ok = false
				}
			case "setlinewidth":
				if n == 1 {
					gs.lw = nums[0]
				} else {
					ok = false
				}
			case "setlinecap":
				if n == 1 {
					gs.cap = nums[0]
				} else {
					ok = false
				}
			case "setlinejoin":
				if n == 1 {
					gs.join = nums[0]
				} else {
					ok = false
				}
			case "setmiterlimit":
				if n == 1 {
					gs.miter = nums[0]
				} else {
					ok = false
				}
			case "setdash":
				if n == 1 && hasArr {
					gs.dash = arr
					gs.phase = nums[0]
					arr = []float64{}
				} else {
					ok = false
				}
			case "gsave":
				stack = append(stack, gs)
			case "grestore":
				if len(stack) > 0 {
					gs = stack[len(stack)-1]
					stack = stack[:len(stack)-1]
				} else {
					ok = false
				}
			case "newpath":
				gs.hasPath, gs.closed = false, false
			case "moveto":
				ok = ok && n == 2
				gs.hasPath, gs.closed = true, false
			case "lineto":
				ok = ok && n == 2 && gs.hasPath
				gs.closed = false
			case "curveto":
				ok = ok && n == 6 && gs.hasPath
				gs.closed = false
			case "ellipse", "ellipsen":
				ok = ok && n == 7 && gs.hasPath
				gs.closed = false
			case "closepath":
				ok = ok && n == 0
				gs.closed = true
			case "fill":
				evs = append(evs, vhC12Event{fill: true, gs: gs})
				gs.hasPath, gs.closed = false, false
			case "eofill":
				evs = append(evs, vhC12Event{fill: true, evenodd: true, gs: gs})
				gs.hasPath, gs.closed = false, false
			case "stroke":
				evs = append(evs, vhC12Event{stroke: true, gs: gs})
				gs.hasPath, gs.closed = false, false
			default:
				ok = false
			}
			nums = []float64{}
			hasArr = false
		}
	}
	ok = ok && len(stack) == 0
	return evs, gs, ok
}

// vhC12Default is the initial graphics state of a page (PLRM table 4.1).
func vhC12Default() vhC12GS {
	return vhC12GS{lw: 1, miter: 10, dash: []float64{}}
}

// ---- requested style ----

type vhC12Want struct {
	hasFill, hasStroke bool
	fillC, strokeC     color.RGBA
	evenodd            bool
	closed             bool
	native             bool
	width              float64
	cap, join          int
	miter              float64
	dash               []float64
	phase              float64
}

type vhC12Acc struct {
	wellformed, events, pathPresent                   bool
	fillColor, fillRule                               bool
	strokeColor, width, cap, join, miter              bool
	dashArray, dashPhase, closed, outlineFill, native bool
}

func vhC12NewAcc() *vhC12Acc {
	return &vhC12Acc{true, true, true, true, true, true, true, true, true, true, true, true, true, true, true}
}

func vhC12Eq(x, y float64) bool {
	if vSymbolic() {
		return x == y
	}
	d := x - y
	return -1e-6 <= d && d <= 1e-6
}

// the requested colour: un-premultiplied 8-bit components as image/color's NRGBAModel defines
// them, as fractions of 255.  Natively the standard library is called; in the symbolic run the
// same value in the term shape of vhC12ToNRGBA (an opaque colour is its own un-premultiplied
// form; otherwise c*0xffff/a on the 16-bit values, high byte), so that a correct output is
// recognised without reasoning about 32-bit division.
func vhC12ColorIs(got [3]float64, c color.RGBA) bool {
	if vSymbolic() {
		n := vhC12ToNRGBA(c)
		return got[0] == float64(n.R)/255.0 && got[1] == float64(n.G)/255.0 && got[2] == float64(n.B)/255.0
	}
	n := color.NRGBAModel.Convert(c).(color.NRGBA)
	return vhC12Eq(got[0], float64(n.R)/255.0) && vhC12Eq(got[1], float64(n.G)/255.0) && vhC12Eq(got[2], float64(n.B)/255.0)
}

func (acc *vhC12Acc) checkFill(ev vhC12Event, want *vhC12Want) {
	acc.pathPresent = acc.pathPresent && ev.gs.hasPath
	acc.fillColor = acc.fillColor && vhC12ColorIs(ev.gs.col, want.fillC)
	acc.fillRule = acc.fillRule && ev.evenodd == want.evenodd
}

func (acc *vhC12Acc) checkStroke(ev vhC12Event, want *vhC12Want) {
	acc.pathPresent = acc.pathPresent && ev.gs.hasPath
	acc.native = acc.native && want.native
	acc.strokeColor = acc.strokeColor && vhC12ColorIs(ev.gs.col, want.strokeC)
	acc.width = acc.width && vhC12Eq(ev.gs.lw, want.width)
	acc.cap = acc.cap && ev.gs.cap == float64(want.cap)
	acc.join = acc.join && ev.gs.join == float64(want.join)
	if want.join == 0 {
		acc.miter = acc.miter && vhC12Eq(ev.gs.miter, want.miter)
	}
	acc.closed = acc.closed && ev.gs.closed == want.closed
	got := ev.gs.dash
	if len(got)%2 == 1 {
		got = append(append([]float64{}, got...), got...)
	}
	same := len(got) == len(want.dash)
	period := 0.0
	if same {
		for i := range got {
			same = same && vhC12Eq(got[i], want.dash[i])
			period += want.dash[i]
		}
	}
	acc.dashArray = acc.dashArray && same
	// offset congruent to the requested one modulo the period
	if len(want.dash) > 0 {
		d := ev.gs.phase - want.phase
		cong := vhC12Eq(d, 0) || vhC12Eq(d, period) || vhC12Eq(d, 2*period) || vhC12Eq(d, 3*period) || vhC12Eq(d, 4*period) ||
			vhC12Eq(d, -period) || vhC12Eq(d, -2*period)
		acc.dashPhase = acc.dashPhase && cong
	}
}

func (acc *vhC12Acc) checkOutline(ev vhC12Event, want *vhC12Want) {
	acc.pathPresent = acc.pathPresent && ev.gs.hasPath
	acc.outlineFill = acc.outlineFill && vhC12ColorIs(ev.gs.col, want.strokeC) && !ev.evenodd
}

func (acc *vhC12Acc) checkDraw(evs []vhC12Event, want *vhC12Want) {
	i := 0
	if want.hasFill {
		if i < len(evs) && evs[i].fill {
			acc.checkFill(evs[i], want)
			i++
		} else {
			acc.events = false
		}
	}
	if want.hasStroke {
		if i < len(evs) && evs[i].stroke {
			acc.checkStroke(evs[i], want)
			i++
		} else if i < len(evs) && evs[i].fill {
			acc.checkOutline(evs[i], want)
			i++
		} else {
			acc.events = false
		}
	}
	if i != len(evs) {
		acc.events = false
	}
}

func (acc *vhC12Acc) assertAll() {
	vAssert("C12.ps.operators_wellformed", acc.wellformed)
	vAssert("C12.ps.paint_events", acc.events)
	vAssert("C12.ps.path_present", acc.pathPresent)
	vAssert("C12.ps.fill_color", acc.fillColor)
	vAssert("C12.ps.fill_rule", acc.fillRule)
	vAssert("C12.ps.stroke_color", acc.strokeColor)
	vAssert("C12.ps.line_width", acc.width)
	vAssert("C12.ps.line_cap", acc.cap)
	vAssert("C12.ps.line_join", acc.join)
	vAssert("C12.ps.miter_limit", acc.miter)
	vAssert("C12.ps.dash_array", acc.dashArray)
	vAssert("C12.ps.dash_offset", acc.dashPhase)
	vAssert("C12.ps.stroke_closed", acc.closed)
	vAssert("C12.ps.outline_fill", acc.outlineFill)
	vAssert("C12.ps.native_stroke_only_if_expressible", acc.native)
}

// ---- style generators ----

// a present, valid premultiplied colour with symbolic R, G, B; grey: 0 not grey, 1 grey (R=G=B),
// 2 free.  The alpha is 255 or 128 (toNRGBA divides by it; a symbolic 32-bit divisor makes every
// solver query time out, and for these two values vhC12ToNRGBA avoids the division): alpha < 0
// picks one per colour.
var vhC12Alphas = []uint8{255, 128}

func vhC12Color(grey int, alpha int) color.RGBA {
	if alpha < 0 {
		alpha = vChoose(0, 1)
	}
	c := color.RGBA{vNondetByte(), vNondetByte(), vNondetByte(), vhC12Alphas[alpha]}
	vAssume(c.R <= c.A && c.G <= c.A && c.B <= c.A)
	if grey == 0 {
		// not grey after un-premultiplication (which is what setPaint tests)
		n := vhC12ToNRGBA(c)
		vAssume(n.R != n.G)
	} else if grey == 1 {
		vAssume(c.R == c.G && c.R == c.B)
	}
	return c
}

func vhC12Path(closed bool) *canvas.Path {
	p := &canvas.Path{}
	p.MoveTo(0, 0)
	p.LineTo(10, 0)
	p.LineTo(10, 10)
	if closed {
		p.Close()
	}
	return p
}

// width on the grid k/4 in [0.25, 16]
func vhC12Width() float64 {
	w := vNondetDyadic(8, 2)
	vAssume(0.25 <= w && w <= 16)
	return w
}

var vhC12Red = color.RGBA{200, 40, 20, 255}
var vhC12Blue = color.RGBA{10, 30, 220, 255}

// vhC12Matrix: 0 identity, 1 uniform scale 2 (similarity), 2 non-uniform scale (not a similarity)
func vhC12Matrix(k int) (canvas.Matrix, float64, bool) {
	switch k {
	case 1:
		return canvas.Identity.Scale(2, 2), 2, true
	case 2:
		return canvas.Identity.Scale(2, 1), 0, false
	}
	return canvas.Identity, 1, true
}

// vhC12Joiner: 0 bevel, 1 round, 2 miter with bevel fallback and symbolic limit, 3 arcs (not
// expressible), 4 miter-clip (not expressible), 5 miter without limit (not expressible)
func vhC12Joiner(k int) (canvas.Joiner, int, float64, bool) {
	switch k {
	case 0:
		return canvas.BevelJoin, 2, 0, true
	case 1:
		return canvas.RoundJoin, 1, 0, true
	case 2:
		lim := vNondetDyadic(8, 2)
		vAssume(1.25 <= lim && lim <= 16)
		return canvas.MiterJoiner{GapJoiner: canvas.BevelJoin, Limit: lim}, 0, lim, true
	case 3:
		return canvas.ArcsJoin, -1, 0, false
	case 4:
		return canvas.MiterClipJoin, -1, 0, false
	}
	return canvas.MiterJoiner{GapJoiner: canvas.BevelJoin, Limit: math.NaN()}, -1, 0, false
}

func vhC12Capper(k int) (canvas.Capper, int) {
	switch k {
	case 1:
		return canvas.RoundCap, 1
	case 2:
		return canvas.SquareCap, 2
	}
	return canvas.ButtCap, 0
}

// vhC12Dashes: n entries on the grid k/4 in [0.25, 8]; offset on the grid k/4 in [-8, 8].
func vhC12Dashes(n int) (float64, []float64) {
	d := make([]float64, n)
	for i := range d {
		d[i] = vNondetDyadic(7, 2)
		vAssume(0.25 <= d[i] && d[i] <= 8)
	}
	off := 0.0
	if n > 0 {
		// a negative offset is at most three periods (period of the even-length pattern), so
		// that the writer's "add the period until non-negative" loop is bounded
		period := 0.0
		for i := range d {
			period += d[i]
		}
		if n%2 == 1 {
			period *= 2
		}
		off = vNondetDyadic(7, 2)
		vAssume(-8 <= off && off <= 8 && -3*period <= off)
	}
	return off, d
}

func vhC12Finish(want *vhC12Want, st canvas.Style, scale float64, similar bool, joinOK bool, cap, join int, miter float64) {
	want.fillC = st.Fill.Color
	want.strokeC = st.Stroke.Color
	want.evenodd = st.FillRule == canvas.EvenOdd
	want.native = similar && joinOK
	want.width = st.StrokeWidth * scale
	want.cap, want.join, want.miter = cap, join, miter
	// see harness/pdf/c12_pdfstate.go: dash lengths and offset are in units of the stroke width
	d := st.Dashes
	if len(d)%2 == 1 {
		d = append(append([]float64{}, d...), d...)
	}
	want.dash = make([]float64, len(d))
	for i := range d {
		want.dash[i] = d[i] * st.StrokeWidth * scale
	}
	want.phase = st.DashOffset * st.StrokeWidth * scale
}

type vhC12Draw struct {
	path  *canvas.Path
	style canvas.Style
	m     canvas.Matrix
	want  vhC12Want
}

func vhC12Run(draws []*vhC12Draw) {
	vhC12Stubs()
	buf := &bytes.Buffer{}
	r := New(buf, 100, 100, nil)
	prev, prevArgs := buf.Len(), 0
	if vhC12Recorded {
		prev, prevArgs = len(vhC12Fmt), len(vhC12Args)
	}
	marks := make([]int, len(draws))
	markArgs := make([]int, len(draws))
	for i, d := range draws {
		r.RenderPath(d.path, d.style, d.m)
		if vhC12Recorded {
			marks[i], markArgs[i] = len(vhC12Fmt), len(vhC12Args)
		} else {
			marks[i] = buf.Len()
		}
	}
	acc := vhC12NewAcc()
	gs := vhC12Default()
	for i, d := range draws {
		var toks []vhC12Tok
		if vhC12Recorded {
			toks = vhC12Lex(vhC12Fmt[prev:marks[i]], vhC12Args[prevArgs:markArgs[i]], true, nil)
			prevArgs = markArgs[i]
		} else {
			toks = vhC12Lex(string(buf.Bytes()[prev:marks[i]]), nil, false, nil)
		}
		prev = marks[i]
		evs, ngs, ok := vhC12RunPS(toks, gs)
		gs = ngs
		acc.wellformed = acc.wellformed && ok
		acc.checkDraw(evs, &d.want)
	}
	vKnown("D17", vhC12RegionD17(draws))
	acc.assertAll()
}

// ---- region of the recorded finding D17 (see known_findings.txt) ----

func vhC12Sel(c bool, a, b uint8) uint8 {
	r := b
	if c {
		r = a
	}
	return r
}

// D17: setPaint skips the colour operator when the un-premultiplied new colour equals the
// premultiplied R,G,B of the paint set before (or the two paints are equal); the region replays
// that and holds when a skipped colour differs from the colour then in force.
func vhC12RegionD17(draws []*vhC12Draw) bool {
	prev := color.RGBA{}
	cur := color.NRGBA{}
	bad := false
	for _, d := range draws {
		w := &d.want
		for k := 0; k < 2; k++ {
			if (k == 0 && !w.hasFill) || (k == 1 && !w.hasStroke) {
				continue
			}
			p := w.fillC
			if k == 1 {
				p = w.strokeC
			}
			n := vhC12ToNRGBA(p)
			skip := (prev.A != 0 && p == prev) || (n.R == prev.R && n.G == prev.G && n.B == prev.B)
			bad = bad || (skip && (cur.R != n.R || cur.G != n.G || cur.B != n.B))
			cur = color.NRGBA{R: vhC12Sel(skip, cur.R, n.R), G: vhC12Sel(skip, cur.G, n.G), B: vhC12Sel(skip, cur.B, n.B)}
			prev = p
		}
	}
	return bad
}

// ---- harnesses ----

// lemma for the stub vhC12ToNRGBA: it equals toNRGBA on valid premultiplied colours of alpha 255
// and 128 (for the other alphas the stub is toNRGBA verbatim).
func VH_C12_ps_tonrgba_lemma() {
	c := color.RGBA{vNondetByte(), vNondetByte(), vNondetByte(), vhC12Alphas[vChoose(0, 1)]}
	vAssume(c.R <= c.A && c.G <= c.A && c.B <= c.A)
	n := toNRGBA(c)
	m := vhC12ToNRGBA(c)
	vAssert("C12.ps.tonrgba_stub_exact", n.R == m.R && n.G == m.G && n.B == m.B && n.A == m.A)
}

// paint: fill/stroke presence x premultiplied colours (symbolic R, G, B) x fill rule; fixed
// widths, butt cap, bevel join, no dashes, identity view.
// Quick tier: all colours of a run are non-grey or all grey, and all have the same alpha (255 or
// 128); first draw closed path and non-zero rule, second open path and symbolic rule.  Thorough
// tier: alpha 255 or 128 per colour, rule symbolic in both draws, closed path first or second
// (grey-ness stays per run: free grey-ness did not finish within the 40 min budget).
func VH_C12_ps_paint_Q() {
	closedFirst := true
	grey := vChoose(0, 1)
	alpha := -1
	if vTier() == 0 {
		alpha = vChoose(0, 1)
	} else {
		closedFirst = vChoose(0, 1) == 1
	}
	draws := []*vhC12Draw{}
	for k := 0; k < 2; k++ {
		mode := vChoose(0, 2) // 0 fill, 1 stroke, 2 both
		st := canvas.DefaultStyle
		st.Fill = canvas.Paint{}
		st.Stroke = canvas.Paint{}
		if mode != 1 {
			st.Fill = canvas.Paint{Color: vhC12Color(grey, alpha)}
		}
		if mode != 0 {
			st.Stroke = canvas.Paint{Color: vhC12Color(grey, alpha)}
		}
		st.StrokeWidth = 1.5 + float64(k)
		st.StrokeJoiner = canvas.BevelJoin
		rule := canvas.NonZero
		if k == 1 || vTier() == 1 {
			if vNondetBool() {
				rule = canvas.EvenOdd
			}
		}
		st.FillRule = rule
		closed := closedFirst == (k == 0)
		d := &vhC12Draw{path: vhC12Path(closed), style: st, m: canvas.Identity}
		d.want.closed = closed
		vhC12Finish(&d.want, st, 1, true, true, 0, 2, 0)
		d.want.hasFill, d.want.hasStroke = mode != 1, mode != 0
		draws = append(draws, d)
	}
	vhC12Run(draws)
}

// line: stroke-only draws, opaque fixed colour; cap x join (incl. joins PostScript cannot express)
// x symbolic miter limit x symbolic width; view identity or uniform scale.
func VH_C12_ps_line_Q() {
	draws := []*vhC12Draw{}
	mk := vChoose(0, 1)
	for k := 0; k < 2; k++ {
		st := canvas.DefaultStyle
		st.Fill = canvas.Paint{}
		st.Stroke = canvas.Paint{Color: vhC12Red}
		st.StrokeWidth = vhC12Width()
		capper, capN := vhC12Capper(vChoose(0, 2))
		joiner, joinN, miter, joinOK := vhC12Joiner(vChoose(0, 3+2*vTier()))
		st.StrokeCapper = capper
		st.StrokeJoiner = joiner
		m, scale, similar := vhC12Matrix(mk)
		d := &vhC12Draw{path: vhC12Path(false), style: st, m: m}
		vhC12Finish(&d.want, st, scale, similar, joinOK, capN, joinN, miter)
		d.want.hasStroke = true
		draws = append(draws, d)
	}
	vhC12Run(draws)
}

// dash: stroke-only draws with 0-2 symbolic dashes and symbolic offset and width; view identity,
// uniform scale or non-similarity (outline fallback), the same for both draws in the quick tier.
func VH_C12_ps_dash_Q() {
	draws := []*vhC12Draw{}
	mk := vChoose(0, 2)
	for k := 0; k < 2; k++ {
		st := canvas.DefaultStyle
		st.Fill = canvas.Paint{}
		st.Stroke = canvas.Paint{Color: vhC12Blue}
		st.StrokeWidth = vhC12Width()
		st.DashOffset, st.Dashes = vhC12Dashes(vChoose(0, 2))
		if vTier() == 1 && k == 1 {
			mk = vChoose(0, 2)
		}
		m, scale, similar := vhC12Matrix(mk)
		d := &vhC12Draw{path: vhC12Path(false), style: st, m: m}
		vhC12Finish(&d.want, st, scale, similar, true, 0, 0, 4)
		d.want.hasStroke = true
		draws = append(draws, d)
	}
	vhC12Run(draws)
}
