package ps

import (
	"bytes"

	"github.com/tdewolff/canvas"
)

// C12-H3: the explicit-outline fallback (stroke styles PDF cannot express, here an arcs join)
// must dash the path with the same pattern the reference rasterizer uses, i.e. the pattern
// scaled by the stroke width (rasterizer.go: canvas.ScaleDash(style.StrokeWidth, ...)).
// Path.Dash is replaced by a recorder (interpreter-only observation).

type vhC12bCall struct {
	offset float64
	d      []float64
}

var vhC12bCalls []vhC12bCall

func vhC12bDash(p *canvas.Path, offset float64, d ...float64) *canvas.Path {
	vhC12bCalls = append(vhC12bCalls, vhC12bCall{offset, append([]float64{}, d...)})
	return p
}

func VH_C12_ps_fallback_dash_Q() {
	if !vInterp() {
		return
	}
	vhC12Stubs()
	vStub("!(*github.com/tdewolff/canvas.Path).Dash", vhC12bDash)
	buf := &bytes.Buffer{}
	r := New(buf, 100, 100, nil)
	w := vNondetDyadic(6, 2)
	a, b := vNondetDyadic(6, 2), vNondetDyadic(6, 2)
	off := vNondetDyadic(6, 2)
	vAssumeI(0.25 <= w && w <= 7 && 0.25 <= a && 0.25 <= b && 0 <= off)
	style := canvas.DefaultStyle
	style.Fill = canvas.Paint{}
	style.Stroke = canvas.Paint{Color: canvas.Black}
	style.StrokeWidth = w
	style.StrokeJoiner = canvas.ArcsJoiner{GapJoiner: canvas.BevelJoin, Limit: 10}
	style.Dashes = []float64{a, b}
	style.DashOffset = off
	p := &canvas.Path{}
	p.MoveTo(0, 0)
	p.LineTo(12, 0)
	vhC12bCalls = nil
	r.RenderPath(p, style, canvas.Identity)
	wantOff, wantD := canvas.ScaleDash(w, off, []float64{a, b})
	vAssertI("C12.ps.fallback.dashed_once", len(vhC12bCalls) == 1)
	if len(vhC12bCalls) == 1 {
		c := vhC12bCalls[0]
		vAssertI("C12.ps.fallback.dash_pattern_scaled_like_rasterizer", len(c.d) == 2 && c.d[0] == wantD[0] && c.d[1] == wantD[1] && c.offset == wantOff)
	}
}
