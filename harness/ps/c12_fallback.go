package ps

import (
	"bytes"

	"github.com/tdewolff/canvas"
)

// C12-H3: the explicit-outline fallback (stroke styles PDF cannot express, here an arcs join)
// must dash the path with the same pattern the reference rasterizer uses, i.e. the pattern
// scaled by the stroke width (rasterizer.go: canvas.ScaleDash(style.StrokeWidth, ...)).
// Path.Dash is replaced by a recorder (interpreter-only observation).

type vhC12bCall struct {
	offset float64
	d      []float64
}

var vhC12bCalls []vhC12bCall

func vhC12bDash(p *canvas.Path, offset float64, d ...float64) *canvas.Path {
	vhC12bCalls = append(vhC12bCalls, vhC12bCall{offset, append([]float64{}, d...)})
	return p
}

func VH_C12_ps_fallback_dash_Q() {
	if !vInterp() {
		return
	}
	vhC12Stubs()
	vStub("!(*github.com/tdewolff/canvas.Path).Dash", vhC12bDash)
	buf := &bytes.Buffer{}
	r := New(buf, 100, 100, nil)
	w := vNondetDyadic(6, 2)
	a, b := vNondetDyadic(6, 2), vNondetDyadic(6, 2)
	off := vNondetDyadic(6, 2)
	vAssumeI(0.25 <= w && w <= 7 && 0.25 <= a && 0.25 <= b && 0 <= off)
	style := canvas.DefaultStyle
	style.Fill = canvas.Paint{}
	style.Stroke = canvas.Paint{Color: canvas.Black}
	style.StrokeWidth = w
	style.StrokeJoiner = canvas.ArcsJoiner{GapJoiner: canvas.BevelJoin, Limit: 10}
	style.Dashes = []float64{a, b}
	style.DashOffset = off
	p := &canvas.Path{}
	p.MoveTo(0, 0)
	p.LineTo(12, 0)
	vhC12bCalls = nil
	r.RenderPath(p, style, canvas.Identity)
	wantOff, wantD := canvas.ScaleDash(w, off, []float64{a, b})
	vAssertI("C12.ps.fallback.dashed_once", len(vhC12bCalls) == 1)
	if len(vhC12bCalls) == 1 {
		c := vhC12bCalls[0]
		vAssertI("C12.ps.fallback.dash_pattern_scaled_like_rasterizer", len(c.d) == 2 && c.d[0] == wantD[0] && c.d[1] == wantD[1] && c.offset == wantOff)
	}
}

// C12 ("the unit conversions"): PostScript's default user space unit is 1/72 inch (PLRM 4.3.1).  A
// canvas of W x H millimetres therefore has to come out W*72/25.4 by H*72/25.4 units large: either
// the %%BoundingBox states that size (and the program scales its millimetre coordinates
// accordingly), as the PDF back-end does with its MediaBox.  Symbolic W, H; the header is read
// from the recorded Fprintf calls (engine) or from the text (natively).
func VH_C12_ps_units_Q() {
	vhC12Stubs()
	w, h := vNondetDyadic(9, 1), vNondetDyadic(9, 1)
	vAssume(1 <= w && w <= 200 && 1 <= h && h <= 200)
	buf := &bytes.Buffer{}
	New(buf, w, h, nil)
	var bw, bh float64
	found := false
	if vhC12Recorded {
		// the operands of all verbs so far, in order: ..., creation date, width, height
		n := len(vhC12Args)
		if n >= 2 {
			if a, ok := vhC12Args[n-2].(dec); ok {
				if b, ok2 := vhC12Args[n-1].(dec); ok2 {
					bw, bh, found = float64(a), float64(b), true
				}
			}
		}
	} else {
		s := buf.String()
		key := "%%BoundingBox: 0 0 "
		for i := 0; i+len(key) <= len(s); i++ {
			if s[i:i+len(key)] == key {
				j := i + len(key)
				k := j
				for k < len(s) && s[k] != '\n' {
					k++
				}
				sp := j
				for sp < k && s[sp] != ' ' {
					sp++
				}
				a, oka := vhC12ParseNum(s[j:sp])
				b, okb := vhC12ParseNum(s[sp+1 : k])
				bw, bh, found = a, b, oka && okb
			}
		}
	}
	vAssert("C12.ps.units.bounding_box_present", found)
	if !found {
		return
	}
	near := func(a, b float64) bool { return a-b <= 1e-4*(1+b) && b-a <= 1e-4*(1+b) }
	vAssert("C12.ps.units.page_size_in_points", near(bw, w*72/25.4) && near(bh, h*72/25.4))
	// ... and the coordinates that follow are millimetres: the program must scale its user space
	text := buf.String()
	if vhC12Recorded {
		text = vhC12Fmt
	}
	scaled := false
	key := "72 25.4 div dup scale"
	for i := 0; i+len(key) <= len(text); i++ {
		scaled = scaled || text[i:i+len(key)] == key
	}
	vAssert("C12.ps.units.user_space_scaled_to_millimetres", scaled)
}
