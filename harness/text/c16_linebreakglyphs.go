package text

// C16 (extra): LinebreakGlyphs hands every ink glyph of the input to exactly one line, in order.
// Concrete advances (the Knuth-Plass search on symbolic widths is C17's subject), a line width
// that fits everything, glyph sequences of length 1..3 over {letter, space, line feed, soft
// hyphen, '-', CJK} x the four alignments: bounded exhaustive enumeration by the engine, every
// path replayable natively.  Glyphs made by LinebreakGlyphs itself (spaces, hyphens) carry the
// font's glyph id of ' ' / '-' (0 in the shell font); input glyphs have ids >= 1.
var vhC16LBClasses = []int{vhC16Letter, vhC16Space, vhC16LF, vhC16SHY, vhC16Hyphen, vhC16CJK}

func VH_C16_linebreakglyphs() {
	n := vChoose(1, 3)
	align := Align(vChoose(0, 3))
	sf := vhC16Font()
	cls := make([]int, n)
	glyphs := make([]Glyph, n)
	for i := range glyphs {
		cls[i] = vhC16LBClasses[vChoose(0, len(vhC16LBClasses)-1)]
		glyphs[i] = Glyph{Script: Latin, ID: uint16(100 + i), Cluster: uint32(i), XAdvance: 500, Text: vhC16Runes[cls[i]]}
		if cls[i] == vhC16CJK {
			glyphs[i].Script = Han
		}
	}
	lines := LinebreakGlyphs(sf, 12.0, glyphs, 0.0, 1000.0, align, 0)
	// ink glyphs of the input, in order
	var want []uint16
	for i := range glyphs {
		if cls[i] == vhC16Letter || cls[i] == vhC16Hyphen || cls[i] == vhC16CJK {
			want = append(want, glyphs[i].ID)
		}
	}
	// ink glyphs of the input found in the output, in order (leading/trailing input spaces are
	// legitimately handed out with the first/last box and are ignored here)
	var got []uint16
	for _, l := range lines {
		for _, g := range l {
			if g.ID >= 100 {
				k := int(g.ID) - 100
				if cls[k] == vhC16Letter || cls[k] == vhC16Hyphen || cls[k] == vhC16CJK {
					got = append(got, g.ID)
				}
			}
		}
	}
	same := len(got) == len(want)
	for i := 0; same && i < len(want); i++ {
		same = same && got[i] == want[i]
	}
	spaceOrBreak := false
	for _, c := range cls {
		spaceOrBreak = spaceOrBreak || c == vhC16Space || c == vhC16LF || c == vhC16SHY
	}
	vKnown("D35", spaceOrBreak)
	vAssert("C16.linebreakglyphs.every_ink_glyph_once_in_order", same)
}
