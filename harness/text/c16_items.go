package text

import "github.com/tdewolff/font"

// C16-H1: GlyphsToItems keeps every glyph accounted for exactly once and in order.
//
// RichText.ToText and LinebreakGlyphs walk the item list with a running glyph index that is
// advanced by item.Size; "every character exactly once, in logical order" therefore needs
//   (1) the sum of item.Size = number of glyphs,
//   (2) the item whose size range covers glyph i is the item made for glyph i (box for ink,
//       glue for an inner space, forced penalty for a line break, flagged penalty for an
//       optional hyphen, the first box for leading and the last box for trailing spaces),
//   (3) box/glue widths = sum of the advances of the glyphs they cover (the natural width of
//       the text is preserved), and
//   (4) the list ends with glue + forced break.
//
// Glyph sequences of length 1..3 (4 in the thorough tier) over the classes below x the four
// alignments; the advance of every glyph and the indent are symbolic (dyadic rationals k/4,
// 0 <= k < 128: exact in float64, so the native replay computes the same sums), carried by the
// per-glyph font size with XAdvance = unitsPerEm.  The font is a shell SFNT with a one-entry hmtx
// table (advance of '-' = 600 units); no stub is involved, natively the same code runs.

const (
	vhC16Letter = iota
	vhC16Space
	vhC16NBSP
	vhC16LF
	vhC16CR
	vhC16SHY
	vhC16ZWSP
	vhC16Hyphen
	vhC16CJK
	vhC16Period
	vhC16Upper
	vhC16NClass
)

var vhC16Runes = []rune{'a', ' ', ' ', '\n', '\r', '­', '​', '-', '中', '.', 'A'}

func vhC16New[T any](p *T) *T    { return new(T) }
func vhC16Make1[E any](s []E) []E { return make([]E, 1) }

func vhC16Font() *font.SFNT {
	sf := &font.SFNT{IsTrueType: true}
	sf.Head = vhC16New(sf.Head)
	sf.Head.UnitsPerEm = 1000
	sf.Cmap = vhC16New(sf.Cmap)
	sf.Hmtx = vhC16New(sf.Hmtx)
	sf.Hmtx.HMetrics = vhC16Make1(sf.Hmtx.HMetrics)
	sf.Hmtx.HMetrics[0].AdvanceWidth = 600
	return sf
}

func vhC16IsBreak(c int) bool  { return c == vhC16LF || c == vhC16CR }
func vhC16IsOptHy(c int) bool  { return c == vhC16SHY || c == vhC16ZWSP }
func vhC16HasWidth(c int) bool { return !vhC16IsBreak(c) && !vhC16IsOptHy(c) }

func vhC16Check(nmax, nclass int) {
	n := vChoose(1, nmax)
	align := Align(vChoose(0, 3))
	sf := vhC16Font()
	cls := make([]int, n)
	adv := make([]float64, n)
	glyphs := make([]Glyph, n)
	for i := range glyphs {
		cls[i] = vChoose(0, nclass-1)
		adv[i] = vNondetDyadic(8, 2)
		vAssume(adv[i] >= 0)
		glyphs[i] = Glyph{SFNT: sf, Size: adv[i], Script: Latin, ID: uint16(cls[i] + 1), Cluster: uint32(i), XAdvance: 1000, Text: vhC16Runes[cls[i]]}
		if cls[i] == vhC16CJK {
			glyphs[i].Script = Han
		}
	}
	indent := vNondetDyadic(8, 2)
	vAssume(indent >= 0)
	in := make([]Glyph, n)
	copy(in, glyphs)

	items := GlyphsToItems(glyphs, indent, align)

	unchanged := true
	for i := range in {
		unchanged = unchanged && in[i] == glyphs[i]
	}
	vAssert("C16.items.glyphs_unchanged", unchanged)

	// (4) terminator
	vAssert("C16.items.nonempty", len(items) >= 3 && items[0].Type == BoxType)
	if len(items) < 3 {
		return
	}
	g, p := items[len(items)-2], items[len(items)-1]
	vAssert("C16.items.ends_with_glue_and_forced_break",
		g.Type == GlueType && g.Size == 0 && g.Width == 0 && p.Type == PenaltyType && p.Penalty <= -Infinity && p.Size == 0)

	// (1) sizes add up
	cover := make([]int, n)
	cum := 0
	nonneg := true
	for k, it := range items {
		nonneg = nonneg && it.Size >= 0
		for s := 0; s < it.Size; s++ {
			if cum < n {
				cover[cum] = k
			}
			cum++
		}
	}
	optHy := false
	for _, c := range cls {
		optHy = optHy || vhC16IsOptHy(c)
	}
	vKnown("D34", align == Centered && optHy)
	vAssert("C16.items.sizes_sum_to_glyph_count", nonneg && cum == n)
	if cum != n {
		return
	}

	// (2) each glyph is covered by the item of its kind
	first, last := 0, n
	for first < n && cls[first] == vhC16Space {
		first++
	}
	for last > first && cls[last-1] == vhC16Space {
		last--
	}
	okKind := true
	for i := 0; i < n; i++ {
		k := cover[i]
		it := items[k]
		switch {
		case i < first:
			okKind = okKind && k == 0
		case i >= last:
			okKind = okKind && it.Type == BoxType && k == len(items)-3
		case cls[i] == vhC16Space:
			okKind = okKind && it.Type == GlueType
		case vhC16IsBreak(cls[i]):
			okKind = okKind && it.Type == PenaltyType && it.Penalty <= -Infinity
		case vhC16IsOptHy(cls[i]):
			okKind = okKind && it.Type == PenaltyType && it.Size == 1
		default:
			okKind = okKind && it.Type == BoxType && k > 0 && k < len(items)-2
		}
		if i > 0 && cls[i] == vhC16LF && cls[i-1] == vhC16CR {
			okKind = okKind && cover[i] == cover[i-1] // CR LF is one line break
		} else if i > 0 && vhC16IsBreak(cls[i]) && vhC16IsBreak(cls[i-1]) {
			okKind = okKind && cover[i] != cover[i-1] // any other pair of breaks is two
		}
	}
	vAssert("C16.items.glyph_covered_by_item_of_its_kind", okKind)

	// (3) widths
	okW := true
	total, want := 0.0, indent
	for i := 0; i < n; i++ {
		if vhC16HasWidth(cls[i]) {
			want += adv[i]
		}
	}
	for k, it := range items {
		sum := 0.0
		hy := 0.0
		for i := 0; i < n; i++ {
			if cover[i] == k {
				if vhC16HasWidth(cls[i]) {
					sum += adv[i]
				}
				if cls[i] == vhC16SHY {
					hy += 600 * adv[i] / 1000
				}
			}
		}
		switch it.Type {
		case BoxType:
			if k == 0 {
				sum += indent
			}
			okW = okW && it.Width == sum
			total += it.Width
		case GlueType:
			okW = okW && it.Width == sum
			total += it.Width
		case PenaltyType:
			// a penalty's width is only added when the line breaks there: the hyphen (irrelevant
			// where breaking is prohibited)
			okW = okW && (it.Width == hy || it.Penalty >= Infinity)
		}
	}
	vAssert("C16.items.item_width_is_sum_of_covered_advances", okW)
	vAssert("C16.items.natural_width_preserved", total == want)
}

func VH_C16_items_Q() {
	vhC16Check(3+vTier(), vhC16Period)
}

// VH_C16_items_punct_Q: sentence punctuation and capitals (they change the glue stretch for
// justified text, not the accounting) - sequences of length 1..3 over the full class list are
// the thorough tier; the quick tier checks length <= 2.
func VH_C16_items_punct_Q() {
	vhC16Check(2+vTier(), vhC16NClass)
}
