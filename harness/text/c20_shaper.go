package text

import (
	"io"

	typesettingFont "github.com/go-text/typesetting/font"
	"github.com/go-text/typesetting/font/opentype"
	"github.com/go-text/typesetting/harfbuzz"
	"github.com/go-text/typesetting/language"
)

// C20-H8: "text layout with a shared loaded font": a Shaper belongs to a loaded font and is used
// by every goroutine that lays out text in that font.  Shaper.Shape must therefore not write into
// anything reachable from the Shaper (frame watch, engine only).  The font parser and the
// harfbuzz shaping engine itself are replaced by stand-ins (the engine leaves the buffer as it was
// filled); the shaper's own code - buffer set-up, property guessing, reading the glyphs back -
// runs as it is.
func vhC20Loader(r opentype.Resource) (*opentype.Loader, error)   { return nil, nil }
func vhC20Font(ld *opentype.Loader) (*typesettingFont.Font, error) { return &typesettingFont.Font{}, nil }
func vhC20HbFont(face harfbuzz.Face) *harfbuzz.Font                 { return &harfbuzz.Font{} }
func vhC20HbShape(b *harfbuzz.Buffer, f *harfbuzz.Font, features []harfbuzz.Feature) {
	b.Pos = make([]harfbuzz.GlyphPosition, len(b.Info))
}
func vhC20Guess(b *harfbuzz.Buffer)               {}
func vhC20Lang(s string) language.Language       { return language.Language(s) }

var _ io.Reader

func VH_C20_shaper_no_shared_writes() {
	if !vInterp() {
		return
	}
	vStub("!github.com/go-text/typesetting/font/opentype.NewLoader", vhC20Loader)
	vStub("!github.com/go-text/typesetting/font.NewFont", vhC20Font)
	vStub("!github.com/go-text/typesetting/harfbuzz.NewFont", vhC20HbFont)
	vStub("!(*github.com/go-text/typesetting/harfbuzz.Buffer).Shape", vhC20HbShape)
	vStub("!(*github.com/go-text/typesetting/harfbuzz.Buffer).GuessSegmentProperties", vhC20Guess)
	vStub("!github.com/go-text/typesetting/language.NewLanguage", vhC20Lang)
	s, err := NewShaper([]byte{0}, 0)
	vAssertI("C20.shaper.made", err == nil)
	txt := []string{"ab", "a b c", "日本"}[vChoose(0, 2)]
	g1 := s.Shape(txt, 10, LeftToRight, Latin, "en", "", "")
	vWatchValue(s)
	g2 := s.Shape(txt, 10, LeftToRight, Latin, "en", "", "")
	same := len(g1) == len(g2) && len(g1) == len([]rune(txt))
	for i := 0; same && i < len(g1); i++ {
		same = g1[i] == g2[i]
	}
	vAssertI("C20.shaper.repeatable_one_glyph_per_rune", same)
	vAssertI("C20.shaper.no_write_to_state_shared_through_the_shaper", vWatchedWrites() == 0)
}
