package text

import "math"

// C17: text.Linebreak against an exhaustive reference over all legal breakings (every subset of
// the legal breakpoints that contains all forced breaks), exact real arithmetic (_Q).
//
// Paragraph = free items + terminator Glue(0,Infinity,0) Penalty(0,-Infinity,flag).  Concrete per
// path: item kinds, glue (stretch,shrink) in {(0,0),(3,2),(1,1)}, penalty class (finite / forced /
// inhibiting), line width in {10,25}.  Symbolic: box widths, glue widths (>= shrink), penalty
// values and widths, flags.  math.Pow in the demerits is uninterpreted (vhC17Pow) except in the
// "exact" harnesses.
//
// Obligations (property statement in quotes):
//
//	C17.increasing, C17.legal, C17.ends_at_final, C17.forced_included (overflow regime:
//	C17.overflow.forced_included): "strictly increasing legal breakpoints ... that include every
//	forced break and end at the final forced break"; also the "complete breaking" on overflow.
//	C17.reported (overflow regime: C17.overflow.reported_width): "the widths and ratios it reports
//	are those of the returned lines" (ratio compared for lines whose ratio is in [-1,Tolerance];
//	Linebreak documents in its test that other lines report 0).
//	C17.feasible: "whenever some breaking keeps every line's adjustment ratio within
//	[-1,Tolerance] the returned one does";  C17.optimal: "... and, for looseness 0, has minimal
//	total demerits among all such breakings" (<= on demerits, no claim on ties).
//	C17.relaxed_minimal: "otherwise the stretch limit is relaxed only as far as needed": no line
//	of the result is stretched more than the largest ratio of any breaking whose lines all fit
//	and whose largest ratio is below Infinity.
//	C17.no_false_overflow, C17.fits: "overflow is reported only if some line cannot be shrunk to
//	fit": if some legal breaking has only lines that can be shrunk to the width, ok is true and
//	the returned breaking is such a breaking.
//	Termination of the restart loop: no path may hit the engine's unwinding bound (INCOMPLETE).
//
// Input classes with a recorded finding (vKnown, obligations C17.known.Dnn.*) are split off before
// the affected obligations: D42, D43 (overflow fallback), D44 (penalty width makes the minimal
// line length non-monotone), D45 (finite penalty inside the discardable run after a breakpoint;
// such shapes are excluded from the general harnesses), D46 (item 0 is a flagged penalty; optimal
// not asserted there).
//
// Item classes (concrete per shape): box, glue, forced penalty, finite penalty, inhibiting penalty.
const (
	vhC17Box = iota
	vhC17Glue
	vhC17Forced
	vhC17Finite
	vhC17Inhibit
)

// vhC17Pow stands for math.Pow on both sides (code under test via vStub, reference directly).  In the
// symbolic run it is an uninterpreted function even on constant arguments (math.Dim has no axioms
// in the Q domain; adding the symbolic zero keeps the argument from being folded), so that the
// demerit terms of Linebreak and of the reference coincide; the claims are then proved for every
// function in place of Pow, in particular the real one.  Natively it is math.Pow.
var vhC17Zero float64
var vhC17Exact bool

func vhC17Pow(x, y float64) float64 {
	if vSymbolic() {
		if vhC17Exact {
			if y == 2 {
				return x * x
			}
			return x * x * x
		}
		return math.Dim(x+vhC17Zero, y)
	}
	return math.Pow(x, y)
}

type vhC17Para struct {
	items []Item
	cls   []int
	width float64
}

// vhC17Opts bounds the family of paragraphs of one harness.
type vhC17Opts struct {
	nmin, nmax int  // number of free items before the terminator
	firstBox   bool // item 0 is a box (as GlyphsToItems produces: Box(indent))
	penWidth   bool // penalties have a symbolic width in [0,5] (hyphens); else width 0
	glues      int  // glue (stretch,shrink) variants: bit 0: (0,0), bit 1: (3,2), bit 2: (1,1)
	penClasses int  // 1: finite; 2: + forced; 3: + inhibiting (Penalty = Infinity)
	widths     int  // line widths: 1: {10}; 2: {10, 25}
	inRun      bool // only shapes of the class D45 (else: only shapes outside of it)
	textLike   bool // boxes at even positions, glue or penalty at odd positions
	twoLines   bool // Box Glue Box x Box Glue Box with x glue or penalty
	narrow     bool // box widths [2,5], glue widths [shrink,shrink+1] (else [0,40], [shrink,10])
	exact      bool // Pow(x,2)=x*x, Pow(x,3)=x*x*x (non-linear real arithmetic) instead of uninterpreted
}

// vhC17Build creates the free items followed by the documented terminator
// Glue(0, Infinity, 0), Penalty(0, -Infinity, flagged) (see GlyphsToItems and TestLinebreak).
// Symbolic: box widths [0,40], glue widths [shrink,10], penalty values (-Infinity,Infinity),
// penalty widths, flags.  Concrete per variant: kinds, glue stretch/shrink, penalty class, width.
func vhC17Build(o vhC17Opts) *vhC17Para {
	p := &vhC17Para{}
	n := vChoose(o.nmin, o.nmax)
	for i := 0; i < n; i++ {
		kind := 0
		if o.twoLines {
			if i == 3 {
				kind = vChoose(1, 2)
			} else {
				kind = i % 2
			}
		} else if o.textLike {
			if i%2 == 1 {
				kind = vChoose(1, 2)
			}
		} else if !(i == 0 && o.firstBox) {
			kind = vChoose(0, 2)
		}
		switch kind {
		case 0:
			w := vNondetF64()
			if o.narrow {
				vAssume(2 <= w && w <= 5)
			} else {
				vAssume(0 <= w && w <= 40)
			}
			p.items = append(p.items, Box(w))
			p.cls = append(p.cls, vhC17Box)
		case 1:
			var ys, zs []float64
			for k, yz := range [][2]float64{{0, 0}, {3, 2}, {1, 1}} {
				if o.glues>>uint(k)&1 == 1 {
					ys, zs = append(ys, yz[0]), append(zs, yz[1])
				}
			}
			v := vChoose(0, len(ys)-1)
			y, z := ys[v], zs[v]
			w := vNondetF64()
			if o.narrow {
				vAssume(z <= w && w <= z+1)
			} else {
				vAssume(z <= w && w <= 10)
			}
			p.items = append(p.items, Glue(w, y, z))
			p.cls = append(p.cls, vhC17Glue)
		case 2:
			w := 0.0
			if o.penWidth {
				w = vNondetF64()
				vAssume(0 <= w && w <= 5)
			}
			fl := vNondetBool()
			switch vChoose(0, o.penClasses-1) {
			case 0:
				pen := vNondetF64()
				vAssume(-Infinity < pen && pen < Infinity)
				p.items = append(p.items, Penalty(w, pen, fl))
				p.cls = append(p.cls, vhC17Finite)
			case 1:
				p.items = append(p.items, Penalty(w, -Infinity, fl))
				p.cls = append(p.cls, vhC17Forced)
			case 2:
				p.items = append(p.items, Penalty(w, Infinity, fl))
				p.cls = append(p.cls, vhC17Inhibit)
			}
		}
	}
	p.items = append(p.items, Glue(0, Infinity, 0))
	p.cls = append(p.cls, vhC17Glue)
	p.items = append(p.items, Penalty(0, -Infinity, vNondetBool()))
	p.cls = append(p.cls, vhC17Forced)
	p.width = []float64{10, 25}[vChoose(0, o.widths-1)]
	return p
}

func (p *vhC17Para) penaltyInRun() bool {
	for a := range p.cls {
		for b := a + 1; b < len(p.cls); b++ {
			if p.legal(a) && p.cls[b] == vhC17Finite && b < p.after(a) {
				return true
			}
		}
	}
	return false
}

// after returns the index at which the line following a break at a starts: the first box or
// forced penalty after a (glue and other penalties in between are discarded).
func (p *vhC17Para) after(a int) int {
	s := a + 1
	for s < len(p.cls) && p.cls[s] != vhC17Box && p.cls[s] != vhC17Forced {
		s++
	}
	return s
}

// legal breakpoint as defined in the property
func (p *vhC17Para) legal(b int) bool {
	switch p.cls[b] {
	case vhC17Forced, vhC17Finite:
		return true
	case vhC17Glue:
		return 0 < b && p.cls[b-1] == vhC17Box && b+1 < len(p.cls) && p.cls[b+1] < vhC17Forced
	}
	return false
}

// line returns natural width, stretch and shrink of the line between breaks a (-1: start) and b
func (p *vhC17Para) line(a, b int) (L, Y, Z float64) {
	s := 0
	if 0 <= a {
		s = p.after(a)
	}
	for i := s; i < b; i++ {
		if p.cls[i] == vhC17Box {
			L += p.items[i].Width
		} else if p.cls[i] == vhC17Glue {
			L += p.items[i].Width
			Y += p.items[i].Stretch
			Z += p.items[i].Shrink
		}
	}
	if p.cls[b] >= vhC17Forced {
		L += p.items[b].Width
	}
	return
}

// fits: the line can be shrunk to the width (ratio >= -1); stretches: ratio <= tol
func (p *vhC17Para) shrinkOK(L, Z float64) bool { return L-Z <= p.width }
func (p *vhC17Para) stretchOK(L, Y, tol float64) bool {
	if Y == 0 {
		return p.width <= L
	}
	return p.width-L <= tol*Y
}

// ratio of a feasible line (finite)
func (p *vhC17Para) ratio(L, Y, Z float64) float64 {
	r := 0.0
	if L < p.width {
		if Y != 0 {
			r = (p.width - L) / Y
		}
	} else if p.width < L {
		if Z != 0 {
			r = (p.width - L) / Z
		}
	}
	return r
}

func vhC17Fitness(r float64) int {
	c := 3
	if r < -0.5 {
		c = 0
	} else if r <= 0.5 {
		c = 1
	} else if r <= 1.0 {
		c = 2
	}
	return c
}

// demerits of one line with ratio r ending at b, after a line ending at a flagged/unflagged break with fitness pf
func (p *vhC17Para) demerits(r float64, b int, prevFlagged bool, pf int) (float64, int) {
	badness := 100.0 * vhC17Pow(math.Abs(r), 3.0)
	d := 0.0
	if p.cls[b] == vhC17Finite {
		pen := p.items[b].Penalty
		if 0.0 <= pen {
			d = vhC17Pow(DemeritsLine+badness+pen, 2.0)
		} else {
			d = vhC17Pow(DemeritsLine+badness, 2.0) - vhC17Pow(pen, 2.0)
		}
	} else {
		d = vhC17Pow(DemeritsLine+badness, 2.0)
	}
	if prevFlagged && p.items[b].Flagged {
		d += DemeritsFlagged
	}
	c := vhC17Fitness(r)
	if 1 < c-pf || 1 < pf-c {
		d += DemeritsFitness
	}
	return d, c
}

// eval: for the breaking bs (increasing positions) returns: every line within [-1,tol]; every line
// shrinkable to the width; total demerits; the largest stretch ratio of a line (capped at
// Infinity; valid only if stretchable is true: no too short line without stretch).
func (p *vhC17Para) eval(bs []int, tol float64) (feas, shrink bool, total float64, maxU float64, stretchable bool) {
	feas, shrink, stretchable = true, true, true
	a := -1
	fl := false
	fit := 1
	for _, b := range bs {
		L, Y, Z := p.line(a, b)
		s := p.shrinkOK(L, Z)
		shrink = shrink && s
		feas = feas && s && p.stretchOK(L, Y, tol)
		r := p.ratio(L, Y, Z)
		d, c := p.demerits(r, b, fl, fit)
		total += d
		fit = c
		fl = p.items[b].Flagged
		a = b
		if Y == 0 {
			stretchable = stretchable && p.width <= L
		} else {
			maxU = math.Max(maxU, math.Min(r, Infinity))
		}
	}
	return
}

// breakings enumerates every legal complete breaking: all forced breaks plus any subset of the
// other legal breakpoints.
func (p *vhC17Para) breakings() [][]int {
	N := len(p.cls)
	var opt []int
	for b := 0; b < N; b++ {
		if p.legal(b) && p.cls[b] != vhC17Forced {
			opt = append(opt, b)
		}
	}
	var all [][]int
	for mask := 0; mask < 1<<uint(len(opt)); mask++ {
		var bs []int
		k := 0
		for b := 0; b < N; b++ {
			if p.cls[b] == vhC17Forced {
				bs = append(bs, b)
			} else if k < len(opt) && opt[k] == b {
				if mask>>uint(k)&1 == 1 {
					bs = append(bs, b)
				}
				k++
			}
		}
		all = append(all, bs)
	}
	return all
}

func vhC17Check(o vhC17Opts, looseness int) {
	vhC17Zero = vNondetF64()
	vAssume(vhC17Zero == 0)
	vhC17Exact = o.exact
	vStub("math.Pow", vhC17Pow)
	p := vhC17Build(o)
	N := len(p.items)
	// Excluded shape class (D45, shown by VH_C17_known_penalty_in_run_Q): a finite penalty lies in
	// the discardable run that follows an earlier legal breakpoint (no box in between).
	if p.penaltyInRun() != o.inRun {
		return
	}

	breaks, ok := Linebreak(p.items, p.width, looseness)

	// structure (positions are concrete on every path)
	pos := make([]int, len(breaks))
	incr, legal := true, true
	for i, br := range breaks {
		pos[i] = br.Position
		if 0 < i && pos[i] <= pos[i-1] {
			incr = false
		}
		if pos[i] < 0 || N <= pos[i] || !p.legal(pos[i]) {
			legal = false
		}
	}
	forced := true
	for b := 0; b < N; b++ {
		if p.cls[b] == vhC17Forced {
			has := false
			for _, q := range pos {
				has = has || q == b
			}
			forced = forced && has
		}
	}
	atEnd := 0 < len(pos) && pos[len(pos)-1] == N-1
	vAssert("C17.increasing", incr)
	vAssert("C17.legal", legal)
	vAssert("C17.ends_at_final", atEnd)

	// reference: all legal breakings
	all := p.breakings()
	anyFeas, anyShrink := false, false
	for _, bs := range all {
		f, sh, _, _, _ := p.eval(bs, Tolerance)
		anyFeas = anyFeas || f
		anyShrink = anyShrink || sh
	}

	// D44: the minimal length of the lines starting after a is not monotone in the end point: the
	// line a..b (b a penalty with positive width) cannot be shrunk to fit, a longer line a..b2 can
	if o.penWidth {
		nonMono := false
		for a := -1; a < N; a++ {
			if 0 <= a && !p.legal(a) {
				continue
			}
			for b := a + 1; b < N; b++ {
				if !p.legal(b) || p.cls[b] == vhC17Glue {
					continue
				}
				L, _, Z := p.line(a, b)
				for b2 := b + 1; b2 < N; b2++ {
					if p.legal(b2) {
						L2, _, Z2 := p.line(a, b2)
						nonMono = nonMono || (!p.shrinkOK(L, Z) && p.shrinkOK(L2, Z2))
					}
				}
			}
		}
		if nonMono {
			vKnown("D44", true)
			vAssert("C17.known.D44.no_false_overflow", ok || !anyShrink)
			return
		}
	}

	if !anyShrink {
		// overflow regime: every legal breaking has a line that cannot be shrunk to fit.
		// D42: a line ending at a non-final forced break has natural width zero (not counting the penalty's width)
		zeroLine := false
		for f := 0; f < N-1; f++ {
			if p.cls[f] != vhC17Forced {
				continue
			}
			for a := -1; a < f; a++ {
				if a < 0 || p.legal(a) {
					L, _, _ := p.line(a, f)
					zeroLine = zeroLine || L-p.items[f].Width == 0
				}
			}
		}
		if zeroLine {
			vKnown("D42", true)
			vAssert("C17.known.D42.forced_included", forced)
			return
		}
		vAssert("C17.overflow.forced_included", forced)
		if !incr || !legal || !forced || !atEnd {
			return
		}
		// D43: some legal breakpoint is a glue or penalty of non-zero width or is followed by discardable glue
		eats := false
		for b := 0; b < N-1; b++ {
			if p.legal(b) {
				if p.cls[b] != vhC17Glue {
					eats = eats || p.items[b].Width != 0
				}
				for i := b; i < p.after(b); i++ {
					if p.cls[i] == vhC17Glue {
						eats = eats || p.items[i].Width != 0 || p.items[i].Stretch != 0 || p.items[i].Shrink != 0
					}
				}
			}
		}
		if eats {
			vKnown("D43", true)
			vAssert("C17.known.D43.reported_width", p.reportedOK(breaks, pos, false))
			return
		}
		vAssert("C17.overflow.reported_width", p.reportedOK(breaks, pos, false))
		return
	}
	vAssert("C17.forced_included", forced)
	vAssert("C17.no_false_overflow", ok)
	if !incr || !legal || !forced || !atEnd {
		return
	}
	vAssert("C17.reported", p.reportedOK(breaks, pos, true))

	rFeas, rShrink, rDem, _, _ := p.eval(pos, Tolerance)
	vAssert("C17.fits", rShrink)
	optimal, relaxed := true, true
	for _, bs := range all {
		f, sh, d, u, st := p.eval(bs, Tolerance)
		optimal = optimal && (!f || rDem <= d+1e-9)
		// the returned breaking needs no more stretch than bs does (if bs needs less than Infinity)
		fine := true
		a := -1
		for _, b := range pos {
			L, Y, _ := p.line(a, b)
			fine = fine && p.stretchOK(L, Y, u)
			a = b
		}
		relaxed = relaxed && (!(sh && st && u < Infinity) || fine)
	}
	vAssert("C17.feasible", !anyFeas || rFeas)
	if looseness == 0 {
		// Excluded class (D46, shown by VH_C17_known_flagged_start_Q): item 0 is a flagged penalty
		// (the start node has Position 0, so items[0].Flagged is taken for "the previous line
		// ended at a flagged break")
		if p.cls[0] < vhC17Forced || !p.items[0].Flagged {
			vAssert("C17.optimal", !anyFeas || optimal)
		}
	}
	vAssert("C17.relaxed_minimal", anyFeas || relaxed)
}

// reportedOK: the reported Width of every line is its natural width and (ratios) the reported Ratio
// of every line whose ratio lies in [-1,Tolerance] is that ratio.
func (p *vhC17Para) reportedOK(breaks []*Breakpoint, pos []int, ratios bool) bool {
	rep := true
	a := -1
	for i, b := range pos {
		L, Y, Z := p.line(a, b)
		rep = rep && math.Abs(breaks[i].Width-L) <= 1e-9
		if ratios && p.shrinkOK(L, Z) && p.stretchOK(L, Y, Tolerance) {
			rep = rep && math.Abs(breaks[i].Ratio-p.ratio(L, Y, Z)) <= 1e-9
		}
		a = b
	}
	return rep
}

// all shapes of up to 3 free items
func VH_C17_all3_Q() {
	vhC17Check(vhC17Opts{nmin: 0, nmax: 3, glues: 3 + 4*vTier(), penClasses: 3, widths: 1 + vTier()}, 0)
}

// 4 free items, the first one a box; quick: stretchable glue, forced and finite penalties;
// thorough: glue (0,0) or (3,2), all penalty classes
func VH_C17_n4_Q() {
	vhC17Check(vhC17Opts{nmin: 4, nmax: 4, firstBox: true, glues: 2 + vTier(), penClasses: 2 + vTier(), widths: 1}, 0)
}

// penalties with a symbolic width (hyphens)
func VH_C17_hyphen_Q() {
	vhC17Check(vhC17Opts{nmin: 1, nmax: 3, firstBox: true, penWidth: true, glues: 3, penClasses: 2, widths: 1}, 0)
}

// words separated by stretchable glue or finite penalties: 3 words
func VH_C17_words_Q() {
	vhC17Check(vhC17Opts{nmin: 5, nmax: 5, textLike: true, glues: 2, penClasses: 1, widths: 1}, 0)
}

// exact demerits (Pow as polynomial): a violation found here replays natively
func VH_C17_exact3_Q() {
	vhC17Check(vhC17Opts{nmin: 3, nmax: 3, firstBox: true, glues: 3, penClasses: 2, widths: 1, exact: true}, 0)
}

// looseness -1/+1: everything but optimality
func VH_C17_loose_Q() {
	l := 2*vChoose(0, 1) - 1
	vhC17Check(vhC17Opts{nmin: 1, nmax: 3, firstBox: true, glues: 2, penClasses: 2, widths: 1}, l)
}

// D45: Box Penalty Glue Penalty Glue Box: the second penalty lies in the discardable run after the first
func VH_C17_known_penalty_in_run_Q() {
	vhC17Zero = vNondetF64()
	vAssume(vhC17Zero == 0)
	vStub("math.Pow", vhC17Pow)
	p := &vhC17Para{width: 10}
	for i, c := range []int{vhC17Box, vhC17Finite, vhC17Glue, vhC17Finite, vhC17Glue, vhC17Box, vhC17Glue, vhC17Forced} {
		w := vNondetF64()
		switch c {
		case vhC17Box:
			vAssume(0 <= w && w <= 40)
			p.items = append(p.items, Box(w))
		case vhC17Glue:
			if i == 6 {
				p.items = append(p.items, Glue(0, Infinity, 0))
			} else {
				vAssume(2 <= w && w <= 10)
				p.items = append(p.items, Glue(w, float64(i+1)/2, float64(i)/2))
			}
		case vhC17Finite:
			p.items = append(p.items, Penalty(0, 0, false))
		case vhC17Forced:
			p.items = append(p.items, Penalty(0, -Infinity, false))
		}
		p.cls = append(p.cls, c)
	}
	_, ok := Linebreak(p.items, p.width, 0)
	anyShrink := false
	for _, bs := range p.breakings() {
		_, sh, _, _, _ := p.eval(bs, Tolerance)
		anyShrink = anyShrink || sh
	}
	vKnown("D45", p.penaltyInRun())
	vAssert("C17.known.D45.no_false_overflow", ok || !anyShrink)
}

// D46: Penalty(flagged) Box Penalty Box: exact demerits, so that the witness replays natively
func VH_C17_known_flagged_start_Q() {
	vhC17Zero = vNondetF64()
	vAssume(vhC17Zero == 0)
	vhC17Exact = true
	vStub("math.Pow", vhC17Pow)
	p := &vhC17Para{width: 10}
	for _, c := range []int{vhC17Finite, vhC17Box, vhC17Finite, vhC17Box, vhC17Glue, vhC17Forced} {
		switch c {
		case vhC17Box:
			w := vNondetF64()
			vAssume(0 <= w && w <= 40)
			p.items = append(p.items, Box(w))
		case vhC17Glue:
			p.items = append(p.items, Glue(0, Infinity, 0))
		case vhC17Finite:
			pen := vNondetF64()
			vAssume(-20 <= pen && pen <= 20)
			p.items = append(p.items, Penalty(0, pen, len(p.items) == 0))
		case vhC17Forced:
			p.items = append(p.items, Penalty(0, -Infinity, true))
		}
		p.cls = append(p.cls, c)
	}
	breaks, _ := Linebreak(p.items, p.width, 0)
	var pos []int
	for _, br := range breaks {
		pos = append(pos, br.Position)
	}
	if len(pos) == 0 || pos[len(pos)-1] != len(p.items)-1 {
		return
	}
	_, _, rDem, _, _ := p.eval(pos, Tolerance)
	optimal := true
	for _, bs := range p.breakings() {
		f, _, d, _, _ := p.eval(bs, Tolerance)
		optimal = optimal && (!f || rDem <= d+1e-9)
	}
	vAssert("C17.known.D46.optimal", optimal)
}

// two words per line: Box Glue Box x Box Glue Box, x stretchable glue or a finite penalty
func VH_C17_twolines_Q() {
	vhC17Check(vhC17Opts{nmin: 7, nmax: 7, twoLines: true, narrow: true, glues: 2, penClasses: 1, widths: 1}, 0)
}

// four short words: Box x Box x Box x Box, x stretchable glue or a finite penalty (thorough; quick: two words)
func VH_C17_words4_Q() {
	n := 3 + 4*vTier()
	vhC17Check(vhC17Opts{nmin: n, nmax: n, textLike: true, narrow: true, glues: 2, penClasses: 1, widths: 1}, 0)
}

// fourlines: a 17-item paragraph that needs four lines, built so that the optimum keeps an active
// node in a dearer fitness class at the first breakpoint (the node is created only because of the
// DemeritsFitness slack in the pruning test).  The stretch of the first glue is symbolic; the
// cost function is the exact polynomial one so that witnesses replay natively.
func VH_C17_fourlines_Q() {
	vhC17Zero = vNondetF64()
	vAssume(vhC17Zero == 0)
	vhC17Exact = true
	vStub("math.Pow", vhC17Pow)
	y1 := vNondetF64()
	vAssume(17 <= y1 && y1 <= 18.5)
	P := Penalty(0, 0, false)
	p := &vhC17Para{width: 100}
	p.items = []Item{
		Box(40), Glue(10, y1, 0), Box(40), P, Box(10), P,
		Box(30), Glue(10, 50, 0), Box(30), P,
		Box(30), Glue(10, 20, 0), Box(30), P,
		Box(90), Glue(0, Infinity, 0), Penalty(0, -Infinity, false),
	}
	for _, it := range p.items {
		switch {
		case it.Type == BoxType:
			p.cls = append(p.cls, vhC17Box)
		case it.Type == GlueType:
			p.cls = append(p.cls, vhC17Glue)
		case it.Penalty <= -Infinity:
			p.cls = append(p.cls, vhC17Forced)
		default:
			p.cls = append(p.cls, vhC17Finite)
		}
	}
	breaks, ok := Linebreak(p.items, p.width, 0)
	vAssert("C17.fourlines.no_overflow", ok)
	pos := make([]int, len(breaks))
	for i, br := range breaks {
		pos[i] = br.Position
	}
	feas, _, total, _, _ := p.eval(pos, Tolerance)
	vAssert("C17.fourlines.feasible", feas)
	best := true
	for _, bs := range p.breakings() {
		f, _, t, _, _ := p.eval(bs, Tolerance)
		best = best && (!f || total <= t+1e-6)
	}
	vAssert("C17.fourlines.optimal", best)
}
