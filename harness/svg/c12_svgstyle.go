package svg

// C12-H (SVG back-end): the <path> elements RenderPath writes, interpreted with the defaults of the
// SVG specification (fill black, fill-rule nonzero, stroke none, stroke-width 1, linecap butt,
// linejoin miter, miterlimit 4, no dashes, dashoffset 0; properties in a style attribute override
// presentation attributes), paint what the style asks for, i.e. what the library's rasterizer
// paints: fill paint and rule; stroke paint, width scaled by the view's similarity factor, cap,
// join, miter limit, dash array and offset scaled by the stroke width (rasterizer.go:90-94); when
// the stroke cannot be expressed (non-similarity view, miter without bevel fallback, no limit) the
// element carries no stroke and a second element paints the explicit outline with the stroke paint
// and the NON-ZERO rule (the rasterizer paints strokes as a union whatever the style's fill rule);
// the geometry is mirrored in y about height/2 after the view.
//
// Front-ends: under the engine fmt.Fprintf is a recorder (format + arguments; colours arrive as
// CSSColor values, numbers as dec values, so nothing is formatted or parsed); natively the real
// text is lexed (attributes, style declarations, #rgb/#rrggbb/rgba() colours, numbers).  Both
// yield the same list of elements with properties.  Path.ToSVG (subject of C11), Path.Stroke and
// Path.Dash (C04/C05) are replaced in the symbolic run; their arguments are recorded.

import (
	"bytes"
	"image/color"
	"io"
	"math"
	"strconv"

	"github.com/tdewolff/canvas"
)

type vhSvgEl struct {
	props map[string]string // textual properties (native front-end) or markers
	cols  map[string]color.RGBA
	nums  map[string][]float64
	first canvas.Point // first point of the d attribute
	hasPt bool
}

func vhSvgNewEl() *vhSvgEl {
	return &vhSvgEl{props: map[string]string{}, cols: map[string]color.RGBA{}, nums: map[string][]float64{}}
}

// gradients defined in the document
type vhSvgGrad struct {
	id             string
	x1, y1, x2, y2 float64
	offs           []float64
	cols           []color.RGBA
}

var vhSvgGrads []*vhSvgGrad

// ---- engine front-end: recorder ----

type vhSvgRec struct {
	format string
	args   []interface{}
}

var vhSvgRecs []vhSvgRec
var vhSvgPaths []canvas.Point // first coordinate of every path handed to ToSVG
var vhSvgStrokeArgs []float64 // widths handed to Path.Stroke
var vhSvgDashArgs [][]float64 // offset followed by the dashes handed to Path.Dash

func vhSvgFprintf(w io.Writer, format string, a ...interface{}) (int, error) {
	vhSvgRecs = append(vhSvgRecs, vhSvgRec{format, a})
	w.Write([]byte("  ")) // the style builder must be non-empty and sliceable from 1
	return 2, nil
}

func vhSvgToSVG(p *canvas.Path) string {
	cs := p.Coords()
	if len(cs) > 0 {
		vhSvgPaths = append(vhSvgPaths, cs[0])
	} else {
		vhSvgPaths = append(vhSvgPaths, canvas.Point{X: math.NaN(), Y: math.NaN()})
	}
	return ""
}

func vhSvgStroke(p *canvas.Path, w float64, cr canvas.Capper, jr canvas.Joiner, tol float64) *canvas.Path {
	vhSvgStrokeArgs = append(vhSvgStrokeArgs, w)
	return p.Copy()
}

func vhSvgDash(p *canvas.Path, offset float64, d ...float64) *canvas.Path {
	vhSvgDashArgs = append(vhSvgDashArgs, append([]float64{offset}, d...))
	return p.Copy()
}

func vhSvgNumArg(a interface{}) (float64, bool) {
	switch v := a.(type) {
	case dec:
		return float64(v), true
	case float64:
		return v, true
	case int:
		return float64(v), true
	}
	return 0, false
}

// vhSvgFromRecs turns the recorded calls into elements.
func vhSvgFromRecs() (els []*vhSvgEl, ok bool) {
	ok = true
	vhSvgGrads = nil
	var cur *vhSvgEl
	target := "" // property the next paint token belongs to
	npath := 0
	for _, r := range vhSvgRecs {
		f := r.format
		switch {
		case f == `<defs>` || f == `</defs>` || f == `</linearGradient>`:
		case len(f) > 16 && f[:16] == `<linearGradient `:
			g := &vhSvgGrad{}
			if id, isS := r.args[0].(string); isS && len(r.args) == 5 {
				g.id = id
				var o1, o2, o3, o4 bool
				g.x1, o1 = vhSvgNumArg(r.args[1])
				g.y1, o2 = vhSvgNumArg(r.args[2])
				g.x2, o3 = vhSvgNumArg(r.args[3])
				g.y2, o4 = vhSvgNumArg(r.args[4])
				ok = ok && o1 && o2 && o3 && o4
			} else {
				ok = false
			}
			vhSvgGrads = append(vhSvgGrads, g)
		case len(f) > 6 && f[:6] == `<stop ` && len(vhSvgGrads) > 0 && len(r.args) == 2:
			g := vhSvgGrads[len(vhSvgGrads)-1]
			o, isN := vhSvgNumArg(r.args[0])
			c, isC := r.args[1].(canvas.CSSColor)
			ok = ok && isN && isC
			g.offs = append(g.offs, o)
			g.cols = append(g.cols, color.RGBA(c))
		case f == "url(#%v)" && len(r.args) == 1 && cur != nil:
			if id, isS := r.args[0].(string); isS && target != "" {
				cur.props[target] = "url:" + id
			} else {
				ok = false
			}
			target = ""
		case f == `<path d="%s`:
			cur = vhSvgNewEl()
			els = append(els, cur)
			if npath < len(vhSvgPaths) {
				cur.first, cur.hasPt = vhSvgPaths[npath], true
			}
			npath++
		case cur == nil:
			// document header
		case f == `" fill="`:
			target = "fill"
		case f == ";fill:":
			target = "fill"
		case f == ";stroke:":
			target = "stroke"
		case f == "%v" && len(r.args) == 1:
			c, isC := r.args[0].(canvas.CSSColor)
			if !isC || target == "" {
				ok = false
			} else {
				cur.cols[target] = color.RGBA(c)
				cur.props[target] = "color"
			}
			target = ""
		case f == `" fill="none` || f == ";fill:none":
			cur.props["fill"] = "none"
		case f == `" fill-rule="evenodd` || f == ";fill-rule:evenodd":
			cur.props["fill-rule"] = "evenodd"
		case f == ";stroke-width:%v" || f == ";stroke-miterlimit:%v" || f == ";stroke-dashoffset:%v" || f == ";stroke-dasharray:%v":
			v, isN := vhSvgNumArg(r.args[0])
			ok = ok && isN
			key := f[1 : len(f)-3]
			cur.nums[key] = []float64{v}
		case f == " %v":
			v, isN := vhSvgNumArg(r.args[0])
			ok = ok && isN
			cur.nums["stroke-dasharray"] = append(cur.nums["stroke-dasharray"], v)
		case f == ";stroke-linecap:round":
			cur.props["stroke-linecap"] = "round"
		case f == ";stroke-linecap:square":
			cur.props["stroke-linecap"] = "square"
		case f == ";stroke-linejoin:bevel":
			cur.props["stroke-linejoin"] = "bevel"
		case f == ";stroke-linejoin:round":
			cur.props["stroke-linejoin"] = "round"
		case f == ";stroke-linejoin:arcs":
			cur.props["stroke-linejoin"] = "arcs"
		case f == `" style="%s` || f == `"/>`:
			// structure only
		case f == "</svg>":
		default:
			ok = false
		}
	}
	return
}

// ---- native front-end: lexer of the real text ----

func vhSvgParseColor(s string) (color.RGBA, bool) {
	hexv := func(c byte) (uint8, bool) {
		switch {
		case '0' <= c && c <= '9':
			return c - '0', true
		case 'a' <= c && c <= 'f':
			return c - 'a' + 10, true
		case 'A' <= c && c <= 'F':
			return c - 'A' + 10, true
		}
		return 0, false
	}
	if len(s) == 4 && s[0] == '#' {
		r, o1 := hexv(s[1])
		g, o2 := hexv(s[2])
		b, o3 := hexv(s[3])
		return color.RGBA{r * 17, g * 17, b * 17, 255}, o1 && o2 && o3
	}
	if len(s) == 7 && s[0] == '#' {
		var v [6]uint8
		ok := true
		for i := 0; i < 6; i++ {
			var o bool
			v[i], o = hexv(s[1+i])
			ok = ok && o
		}
		return color.RGBA{v[0]*16 + v[1], v[2]*16 + v[3], v[4]*16 + v[5], 255}, ok
	}
	if len(s) > 6 && s[:5] == "rgba(" && s[len(s)-1] == ')' {
		var parts []string
		start := 5
		for i := 5; i < len(s); i++ {
			if s[i] == ',' || i == len(s)-1 {
				parts = append(parts, s[start:i])
				start = i + 1
			}
		}
		if len(parts) != 4 {
			return color.RGBA{}, false
		}
		r, e1 := strconv.ParseFloat(parts[0], 64)
		g, e2 := strconv.ParseFloat(parts[1], 64)
		b, e3 := strconv.ParseFloat(parts[2], 64)
		a, e4 := strconv.ParseFloat(parts[3], 64)
		if e1 != nil || e2 != nil || e3 != nil || e4 != nil {
			return color.RGBA{}, false
		}
		// CSS colours are not premultiplied; the style's colours are
		return color.RGBA{uint8(r*a + 0.5), uint8(g*a + 0.5), uint8(b*a + 0.5), uint8(a*255 + 0.5)}, true
	}
	return color.RGBA{}, false
}

func vhSvgSetProp(el *vhSvgEl, key, val string) bool {
	switch key {
	case "fill", "stroke":
		if val == "none" {
			el.props[key] = "none"
			return true
		}
		if len(val) > 6 && val[:5] == "url(#" && val[len(val)-1] == ')' {
			el.props[key] = "url:" + val[5:len(val)-1]
			return true
		}
		c, ok := vhSvgParseColor(val)
		el.props[key] = "color"
		el.cols[key] = c
		return ok
	case "fill-rule", "stroke-linecap", "stroke-linejoin":
		el.props[key] = val
		return true
	case "stroke-width", "stroke-miterlimit", "stroke-dashoffset":
		v, err := strconv.ParseFloat(val, 64)
		el.nums[key] = []float64{v}
		return err == nil
	case "stroke-dasharray":
		var out []float64
		start := 0
		ok := true
		for i := 0; i <= len(val); i++ {
			if i == len(val) || val[i] == ' ' || val[i] == ',' {
				if i > start {
					v, err := strconv.ParseFloat(val[start:i], 64)
					ok = ok && err == nil
					out = append(out, v)
				}
				start = i + 1
			}
		}
		el.nums[key] = out
		return ok
	}
	return false
}

// vhSvgAttr finds name="value" inside the tag text.
func vhSvgAttr(tag, name string) (string, bool) {
	pat := " " + name + `="`
	for i := 0; i+len(pat) <= len(tag); i++ {
		if tag[i:i+len(pat)] == pat {
			j := i + len(pat)
			k := j
			for k < len(tag) && tag[k] != '"' {
				k++
			}
			return tag[j:k], true
		}
	}
	return "", false
}

func vhSvgLexGrads(s string) bool {
	vhSvgGrads = nil
	ok := true
	for i := 0; i < len(s); i++ {
		if s[i] != '<' {
			continue
		}
		j := i
		for j < len(s) && s[j] != '>' {
			j++
		}
		tag := s[i:j]
		num := func(name string) float64 {
			v, has := vhSvgAttr(tag, name)
			f, err := strconv.ParseFloat(v, 64)
			ok = ok && has && err == nil
			return f
		}
		if len(tag) > 16 && tag[:16] == "<linearGradient " {
			g := &vhSvgGrad{}
			g.id, _ = vhSvgAttr(tag, "id")
			g.x1, g.y1, g.x2, g.y2 = num("x1"), num("y1"), num("x2"), num("y2")
			vhSvgGrads = append(vhSvgGrads, g)
		} else if len(tag) > 6 && tag[:6] == "<stop " && len(vhSvgGrads) > 0 {
			g := vhSvgGrads[len(vhSvgGrads)-1]
			g.offs = append(g.offs, num("offset"))
			cv, _ := vhSvgAttr(tag, "stop-color")
			c, okC := vhSvgParseColor(cv)
			ok = ok && okC
			g.cols = append(g.cols, c)
		}
	}
	return ok
}

func vhSvgLex(b []byte) (els []*vhSvgEl, ok bool) {
	ok = true
	s := string(b)
	ok = vhSvgLexGrads(s)
	i := 0
	for {
		// next "<path "
		j := -1
		for k := i; k+6 <= len(s); k++ {
			if s[k:k+6] == "<path " {
				j = k
				break
			}
		}
		if j < 0 {
			return
		}
		el := vhSvgNewEl()
		els = append(els, el)
		i = j + 6
		// attributes name="value" until "/>"
		for i < len(s) && !(s[i] == '/' && i+1 < len(s) && s[i+1] == '>') {
			if s[i] == ' ' {
				i++
				continue
			}
			k := i
			for k < len(s) && s[k] != '=' {
				k++
			}
			if k+1 >= len(s) || s[k+1] != '"' {
				return els, false
			}
			name := s[i:k]
			v0 := k + 2
			v1 := v0
			for v1 < len(s) && s[v1] != '"' {
				v1++
			}
			val := s[v0:v1]
			i = v1 + 1
			switch name {
			case "d":
				// first point: "M<x> <y>" (the y may follow directly with its sign)
				if len(val) > 1 && val[0] == 'M' {
					e := 1
					for e < len(val) && (val[e] == '.' || val[e] == 'e' || ('0' <= val[e] && val[e] <= '9') || (val[e] == '-' && (e == 1 || val[e-1] == 'e'))) {
						e++
					}
					x, err1 := strconv.ParseFloat(val[1:e], 64)
					f := e
					if f < len(val) && val[f] == ' ' {
						f++
					}
					g := f
					for g < len(val) && (val[g] == '.' || val[g] == 'e' || ('0' <= val[g] && val[g] <= '9') || (val[g] == '-' && (g == f || val[g-1] == 'e'))) {
						g++
					}
					y, err2 := strconv.ParseFloat(val[f:g], 64)
					if err1 == nil && err2 == nil {
						el.first, el.hasPt = canvas.Point{X: x, Y: y}, true
					}
				}
			case "style":
				start := 0
				for q := 0; q <= len(val); q++ {
					if q == len(val) || val[q] == ';' {
						decl := val[start:q]
						start = q + 1
						c := -1
						for t := 0; t < len(decl); t++ {
							if decl[t] == ':' {
								c = t
								break
							}
						}
						if c < 0 {
							ok = ok && decl == ""
							continue
						}
						ok = vhSvgSetProp(el, decl[:c], decl[c+1:]) && ok
					}
				}
			default:
				ok = vhSvgSetProp(el, name, val) && ok
			}
		}
	}
}

// ---- effective painting state by the SVG defaults ----

type vhSvgState struct {
	fill, stroke      bool
	fillC, strokeC    color.RGBA
	evenodd           bool
	width, miter, off float64
	cap, join         string
	dash              []float64
}

func vhSvgEffective(el *vhSvgEl) vhSvgState {
	st := vhSvgState{fill: true, fillC: color.RGBA{0, 0, 0, 255}, width: 1, miter: 4, cap: "butt", join: "miter"}
	if el.props["fill"] == "none" {
		st.fill = false
	} else if el.props["fill"] == "color" {
		st.fillC = el.cols["fill"]
	}
	st.evenodd = el.props["fill-rule"] == "evenodd"
	if el.props["stroke"] == "color" {
		st.stroke = true
		st.strokeC = el.cols["stroke"]
	}
	if v, has := el.nums["stroke-width"]; has && len(v) == 1 {
		st.width = v[0]
	}
	if v, has := el.nums["stroke-miterlimit"]; has && len(v) == 1 {
		st.miter = v[0]
	}
	if v, has := el.nums["stroke-dashoffset"]; has && len(v) == 1 {
		st.off = v[0]
	}
	if v, has := el.props["stroke-linecap"]; has {
		st.cap = v
	}
	if v, has := el.props["stroke-linejoin"]; has {
		st.join = v
	}
	st.dash = el.nums["stroke-dasharray"]
	return st
}

func vhSvgColNear(a, b color.RGBA) bool {
	d := func(x, y uint8) bool { return int(x)-int(y) <= 1 && int(y)-int(x) <= 1 }
	return d(a.R, b.R) && d(a.G, b.G) && d(a.B, b.B) && d(a.A, b.A)
}

func vhSvgNumNear(a, b float64) bool { return math.Abs(a-b) <= 1e-6*(1+math.Abs(b)) }

// ---- the check ----

func vhSvgColor() color.RGBA {
	c := color.RGBA{vNondetByte(), vNondetByte(), vNondetByte(), vNondetByte()}
	vAssume(c.A != 0 && c.R <= c.A && c.G <= c.A && c.B <= c.A)
	return c
}

func vhSvgCheck(path *canvas.Path, style canvas.Style, m canvas.Matrix, scale float64, similar bool, capName, joinName string, miter float64, joinOK bool) {
	vStub("!fmt.Fprintf", vhSvgFprintf)
	vStub("!(*github.com/tdewolff/canvas.Path).ToSVG", vhSvgToSVG)
	vStub("!(*github.com/tdewolff/canvas.Path).Stroke", vhSvgStroke)
	vStub("!(*github.com/tdewolff/canvas.Path).Dash", vhSvgDash)
	vhSvgRecs, vhSvgPaths, vhSvgStrokeArgs, vhSvgDashArgs = nil, nil, nil, nil
	buf := &bytes.Buffer{}
	const height = 80.0
	r := New(buf, 100, height, nil)
	r.RenderPath(path, style, m)
	r.Close()
	var els []*vhSvgEl
	var ok bool
	if vInterp() {
		els, ok = vhSvgFromRecs()
	} else {
		els, ok = vhSvgLex(buf.Bytes())
	}
	native := similar && joinOK
	hasFill, hasStroke := style.HasFill(), style.HasStroke()
	wantEls := 1
	if hasStroke && !native {
		wantEls = 2
	}
	vAssert("C12.svg.elements", ok && len(els) == wantEls)
	if !ok || len(els) != wantEls {
		return
	}
	st := vhSvgEffective(els[0])
	vAssert("C12.svg.fill_presence", st.fill == hasFill)
	if hasFill {
		vAssert("C12.svg.fill_color", vhSvgColNear(st.fillC, style.Fill.Color))
		vAssert("C12.svg.fill_rule", st.evenodd == (style.FillRule == canvas.EvenOdd))
	}
	vAssert("C12.svg.stroke_presence", st.stroke == (hasStroke && native))
	if hasStroke && native && st.stroke {
		vAssert("C12.svg.stroke_color", vhSvgColNear(st.strokeC, style.Stroke.Color))
		w := style.StrokeWidth * scale
		vAssert("C12.svg.stroke_width", vhSvgNumNear(st.width, w))
		vAssert("C12.svg.cap", st.cap == capName)
		vAssert("C12.svg.join", st.join == joinName)
		if joinName == "miter" || joinName == "arcs" {
			vAssert("C12.svg.miterlimit", vhSvgNumNear(st.miter, miter))
		}
		// dashes: the rasterizer dashes with Dashes*StrokeWidth and DashOffset*StrokeWidth before
		// the view; under a similarity that is scale times these lengths afterwards
		good := len(st.dash) == len(style.Dashes)
		if good {
			for i := range st.dash {
				good = good && vhSvgNumNear(st.dash[i], style.Dashes[i]*w)
			}
		}
		vAssert("C12.svg.dasharray", good)
		if len(style.Dashes) > 0 {
			vAssert("C12.svg.dashoffset", vhSvgNumNear(st.off, style.DashOffset*w))
		}
	}
	// geometry: view, then mirrored about height/2
	p0 := m.Dot(path.Coords()[0])
	vAssert("C12.svg.yflip", els[0].hasPt && vhSvgNumNear(els[0].first.X, p0.X) && vhSvgNumNear(els[0].first.Y, height-p0.Y))
	if wantEls == 2 {
		s2 := vhSvgEffective(els[1])
		vAssert("C12.svg.fallback.painted_with_stroke_paint", s2.fill && vhSvgColNear(s2.fillC, style.Stroke.Color) && !s2.stroke)
		vAssert("C12.svg.fallback.nonzero_rule", !s2.evenodd)
		if vInterp() {
			// the outline is made from the untransformed path with the unscaled width and a dash
			// pattern scaled by the stroke width (interpreter-side observation)
			okW := len(vhSvgStrokeArgs) == 1 && vhSvgStrokeArgs[0] == style.StrokeWidth
			okD := (len(style.Dashes) == 0) == (len(vhSvgDashArgs) == 0)
			if len(vhSvgDashArgs) == 1 && len(vhSvgDashArgs[0]) == 1+len(style.Dashes) {
				okD = okD && vhSvgDashArgs[0][0] == style.DashOffset*style.StrokeWidth
				for i, d := range style.Dashes {
					okD = okD && vhSvgDashArgs[0][1+i] == d*style.StrokeWidth
				}
			} else if len(style.Dashes) > 0 {
				okD = false
			}
			vAssertI("C12.svg.fallback.outline_width_and_dashes", okW && okD)
		}
	}
}

func vhSvgMatrix(k int) (canvas.Matrix, float64, bool) {
	switch k {
	case 1:
		return canvas.Identity.Scale(2, 2).Translate(1, 3), 2, true
	case 2:
		return canvas.Identity.Scale(2, 1), 0, false
	case 3:
		return canvas.Identity.Rotate(90).Translate(0, -30), 1, true
	}
	return canvas.Identity, 1, true
}

func vhSvgJoiner(k int) (canvas.Joiner, string, float64, bool) {
	switch k {
	case 0:
		return canvas.BevelJoin, "bevel", 0, true
	case 1:
		return canvas.RoundJoin, "round", 0, true
	case 2:
		lim := vNondetDyadic(8, 2)
		vAssume(1.25 <= lim && lim <= 16)
		return canvas.MiterJoiner{GapJoiner: canvas.BevelJoin, Limit: lim}, "miter", lim, true
	case 3:
		lim := vNondetDyadic(8, 2)
		vAssume(1.25 <= lim && lim <= 16)
		return canvas.ArcsJoiner{GapJoiner: canvas.BevelJoin, Limit: lim}, "arcs", lim, true
	case 4:
		return canvas.MiterClipJoin, "", 0, false
	}
	return canvas.MiterJoiner{GapJoiner: canvas.BevelJoin, Limit: math.NaN()}, "", 0, false
}

func vhSvgPath() *canvas.Path {
	p := &canvas.Path{}
	p.MoveTo(5, 7)
	p.LineTo(25, 7)
	p.LineTo(25, 27)
	p.Close()
	return p
}

// paints: symbolic colours, presence of fill/stroke, fill rule, 4 views
func VH_C12_svg_paint_Q() {
	style := canvas.DefaultStyle
	style.Fill = canvas.Paint{}
	mode := vChoose(0, 2) // fill, stroke, both
	if mode != 1 {
		style.Fill = canvas.Paint{Color: vhSvgColor()}
	}
	if mode != 0 {
		style.Stroke = canvas.Paint{Color: vhSvgColor()}
		w := vNondetDyadic(8, 2)
		vAssume(0.25 <= w && w <= 16)
		style.StrokeWidth = w
	}
	if vChoose(0, 1) == 1 {
		style.FillRule = canvas.EvenOdd
	}
	m, scale, similar := vhSvgMatrix(vChoose(0, 3))
	vhSvgCheck(vhSvgPath(), style, m, scale, similar, "butt", "miter", 4, true)
}

// line parameters: 3 caps x 6 joiners (symbolic limits) x 3 views, stroke only or fill+stroke
func VH_C12_svg_line_Q() {
	style := canvas.DefaultStyle
	style.Fill = canvas.Paint{}
	if vChoose(0, 1) == 1 {
		style.Fill = canvas.Paint{Color: color.RGBA{0, 0, 0, 255}}
		if vChoose(0, 1) == 1 {
			style.FillRule = canvas.EvenOdd
		}
	}
	style.Stroke = canvas.Paint{Color: color.RGBA{10, 30, 220, 255}}
	w := vNondetDyadic(8, 2)
	vAssume(0.25 <= w && w <= 16)
	style.StrokeWidth = w
	capName := "butt"
	switch vChoose(0, 2) {
	case 1:
		style.StrokeCapper, capName = canvas.RoundCap, "round"
	case 2:
		style.StrokeCapper, capName = canvas.SquareCap, "square"
	}
	jr, joinName, lim, joinOK := vhSvgJoiner(vChoose(0, 5))
	style.StrokeJoiner = jr
	if joinName == "miter" || joinName == "arcs" {
		_ = lim
	}
	m, scale, similar := vhSvgMatrix(vChoose(0, 2))
	vhSvgCheck(vhSvgPath(), style, m, scale, similar, capName, joinName, lim, joinOK)
}

// dashes: 1-2 (thorough 3) symbolic entries and offset, expressible and fallback
func VH_C12_svg_dash_Q() {
	style := canvas.DefaultStyle
	style.Fill = canvas.Paint{}
	style.Stroke = canvas.Paint{Color: color.RGBA{200, 40, 20, 255}}
	w := vNondetDyadic(8, 2)
	vAssume(0.25 <= w && w <= 16)
	style.StrokeWidth = w
	n := vChoose(1, 2+vTier())
	d := make([]float64, n)
	for i := range d {
		d[i] = vNondetDyadic(7, 2)
		vAssume(0.25 <= d[i] && d[i] <= 8)
	}
	off := vNondetDyadic(7, 2)
	vAssume(-8 <= off && off <= 8)
	style.Dashes, style.DashOffset = d, off
	jr, joinName, lim, joinOK := vhSvgJoiner(vChoose(0, 1) * 4) // bevel or miter-clip (fallback)
	style.StrokeJoiner = jr
	m, scale, similar := vhSvgMatrix(vChoose(0, 2))
	vhSvgCheck(vhSvgPath(), style, m, scale, similar, "butt", joinName, lim, joinOK)
}

// gradient fill: the element refers to a gradient definition whose end points are the
// gradient's, mirrored in y like the geometry, with the stops in order
func VH_C12_svg_gradient_Q() {
	vStub("!fmt.Fprintf", vhSvgFprintf)
	vStub("!fmt.Sprintf", vhSvgSprintf)
	vStub("!(*github.com/tdewolff/canvas.Path).ToSVG", vhSvgToSVG)
	vhSvgRecs, vhSvgPaths = nil, nil
	x1, y1, x2, y2 := vNondetDyadic(8, 2), vNondetDyadic(8, 2), vNondetDyadic(8, 2), vNondetDyadic(8, 2)
	vAssume(x1 != x2 || y1 != y2)
	g := canvas.NewLinearGradient(canvas.Point{X: x1, Y: y1}, canvas.Point{X: x2, Y: y2})
	c0, c1 := vhSvgColor(), vhSvgColor()
	g.Add(0, c0)
	if vChoose(0, 1) == 1 {
		g.Add(0.5, color.RGBA{0, 255, 0, 255})
	}
	g.Add(1, c1)
	style := canvas.DefaultStyle
	style.Fill = canvas.Paint{Gradient: g}
	buf := &bytes.Buffer{}
	const height = 80.0
	r := New(buf, 100, height, nil)
	r.RenderPath(vhSvgPath(), style, canvas.Identity)
	r.Close()
	var els []*vhSvgEl
	var ok bool
	if vInterp() {
		els, ok = vhSvgFromRecs()
	} else {
		els, ok = vhSvgLex(buf.Bytes())
	}
	vAssert("C12.svg.gradient.elements", ok && len(els) == 1 && len(vhSvgGrads) == 1)
	if !ok || len(els) != 1 || len(vhSvgGrads) != 1 {
		return
	}
	gd := vhSvgGrads[0]
	vAssert("C12.svg.gradient.referenced", els[0].props["fill"] == "url:"+gd.id && gd.id != "")
	vAssert("C12.svg.gradient.endpoints_mirrored", vhSvgNumNear(gd.x1, x1) && vhSvgNumNear(gd.y1, height-y1) && vhSvgNumNear(gd.x2, x2) && vhSvgNumNear(gd.y2, height-y2))
	good := len(gd.offs) == len(g.Stops) && len(gd.cols) == len(g.Stops)
	if good {
		for i, st := range g.Stops {
			good = good && vhSvgNumNear(gd.offs[i], st.Offset) && vhSvgColNear(gd.cols[i], st.Color)
		}
	}
	vAssert("C12.svg.gradient.stops", good)
}

// fmt.Sprintf is used for the definition's id only ("p%v")
func vhSvgSprintf(format string, a ...interface{}) string {
	if format == "p%v" && len(a) == 1 {
		if n, isI := a[0].(int); isI {
			return "p" + string(rune('0'+n))
		}
	}
	return format
}
