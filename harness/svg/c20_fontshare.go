package svg

// C20 / D99, SVG side: embedding a subsetted font in an SVG (Close -> writeFonts) must not write
// into anything reachable from the loaded font, which every other canvas using that font shares.
// As in the PDF harness the font library cannot be interpreted: Subset is a stand-in that performs
// the three writes to its receiver's maxp, head and hhea tables that the pinned source performs
// (sfnt_subset.go: "sfnt.Maxp = &(*sfntOld.Maxp)" is no copy), ParseSFNT returns a fresh shell,
// Write a short program.  Frame watch over the object graph of the font (engine only).

import (
	"bytes"

	"github.com/tdewolff/canvas"
	canvasFont "github.com/tdewolff/font"
)

func vhC20New[T any](p *T) *T { return new(T) }

func vhC20SubsetWritesReceiver(s *canvasFont.SFNT, glyphIDs []uint16, o canvasFont.SubsetOptions) (*canvasFont.SFNT, error) {
	if s.Maxp != nil {
		s.Maxp.NumGlyphs = uint16(len(glyphIDs))
	}
	if s.Head != nil {
		s.Head.IndexToLocFormat = 1 - s.Head.IndexToLocFormat
	}
	if s.Hhea != nil {
		s.Hhea.NumberOfHMetrics = uint16(len(glyphIDs))
	}
	return s, nil
}
func vhC20ParseSFNT(b []byte, index int) (*canvasFont.SFNT, error) {
	sf := &canvasFont.SFNT{IsTrueType: true}
	sf.Head = vhC20New(sf.Head)
	sf.Hhea = vhC20New(sf.Hhea)
	sf.Maxp = vhC20New(sf.Maxp)
	return sf, nil
}
func vhC20FontWrite(s *canvasFont.SFNT) []byte { return []byte("\x00\x01\x00\x00program") }

func VH_C20_svg_font_left_unchanged() {
	if !vInterp() {
		return
	}
	vStub("!fmt.Fprintf", vhSvgFprintf)
	vStub("!(*github.com/tdewolff/font.SFNT).Subset", vhC20SubsetWritesReceiver)
	vStub("!(*github.com/tdewolff/font.SFNT).Write", vhC20FontWrite)
	vStub("!github.com/tdewolff/font.ParseSFNT", vhC20ParseSFNT)
	sf := &canvasFont.SFNT{IsTrueType: true}
	sf.Head = vhC20New(sf.Head)
	sf.Hhea = vhC20New(sf.Hhea)
	sf.Maxp = vhC20New(sf.Maxp)
	sf.Maxp.NumGlyphs = 100
	sf.Hhea.NumberOfHMetrics = 100
	f := &canvas.Font{SFNT: sf}
	buf := &bytes.Buffer{}
	opts := DefaultOptions
	opts.EmbedFonts = true
	opts.SubsetFonts = vChoose(0, 1) == 1
	opts.Compression = 0
	r := New(buf, 100, 100, &opts)
	r.fonts[f] = true
	r.fontSubset[f] = canvas.NewFontSubsetter()
	r.fontSubset[f].Get(3)
	r.fontSubset[f].Get(5)
	vWatchValue(sf)
	err := r.Close()
	vAssertI("C20.svg_font.close_no_error", err == nil)
	vAssertI("C20.svg_font.no_write_to_the_loaded_font_while_embedding_it", vWatchedWrites() == 0)
	vAssertI("C20.svg_font.glyph_count_and_table_formats_kept", sf.Maxp.NumGlyphs == 100 && sf.Hhea.NumberOfHMetrics == 100 && sf.Head.IndexToLocFormat == 0)
}
